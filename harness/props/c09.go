package props

import (
	"fmt"
	"os"
	"runtime"
	"strconv"
	"strings"
	"sync"
	"time"

	"github.com/luthersystems/elps/lisp"
	"github.com/luthersystems/elps/parser/token"

	"verifharness/fw"
	"verifharness/gen"
	"verifharness/rt"
	"verifharness/sx"
)

// C09 — parsed programs are immutable and runtimes isolated under any
// interleaving.  Invariant monitor (structural snapshot of the Program before
// and after), twin execution (shared Program vs fresh parse), the Go race
// detector over concurrent runtimes sharing one Program, and the repository's
// own checked build (-tags elpscheck) as a second sanitizer.

func init() {
	fw.Register(&fw.Prop{
		ID:    "C09",
		Level: "exploration",
		Rule: "programs routing quoted literals, macro arguments, &rest lists, their cdr/rest/slice views and EXPANSIONS handed back as data (macroexpand / macroexpand-1 of quoted call forms of macros that return an argument form, a part of it, their &rest/&optional/&key parameter, a quasiquote around it or a literal of their own body) into every in-place or capacity-sensitive builtin, and macros whose body applies such a builtin to its argument form (value sources x mutator table x program shapes) plus generated programs; each Program is parsed once and loaded (a) k times in one runtime against a twin that re-parses every time, (b) in fresh runtimes, (c) concurrently from G in {2,8,32} goroutines with private, differently configured runtimes under GOMAXPROCS {2,16} in the race-detector build; " +
			"the Program's structural snapshot (pointer, type, fields, quoting, seal, source, len/cap, children) and SealedASTFingerprint must be unchanged; (d) the sequential phase is repeated in the -tags elpscheck build. " +
			"Library family: every function / operator / macro of the runtime's registry x every parameter receives a value obtained from program text (8 shapes, 23 spellings); the other arguments are discovered in a scratch runtime on fresh values (general pool + docstring spellings; in-place writers first); the result goes through a macro expansion and is changed in place; Programs of 3 parameters each through (a)-(d); values reachable from one call's results in two runtimes (process-wide nodes) must never change. Host family: the value LoadProgram returns handed back to FunCall/FunCallContext as argument list / one argument of functions with every formals kind x every mutator. " +
			"distinct_nontrivial counts distinct (shape, mutator, value source, loads, goroutines, GOMAXPROCS) configurations, generated-program feature signatures, (function@parameter, shape, scratch class) fragments and (host class, entry point, mutator) calls",
		Assumptions: []string{
			"a race needs both accesses executed: the race detector sees exactly what the workload performs",
			"writes that store the value already present are invisible to the snapshot (visible to the race detector only)",
		},
		Cases:         func(tier string) int { return c09BaseCases(tier) + c09LibCases(tier) + c09HostCases(tier) },
		Run:           c09Run,
		Binary:        "race",
		Aux:           c09Aux,
		Driver:        c09Driver,
		MinDistinct:   func(tier string) int { return pick(tier, 1200, 4000) },
		WorkerTimeout: func(tier string) time.Duration { return time.Duration(pick(tier, 20, 120)) * time.Minute },
	})
}

// --- structural snapshot -----------------------------------------------------------

type c09Node struct {
	ptr    *lisp.LVal
	typ    lisp.LType
	str    string
	i      int
	f      float64
	ft     lisp.LFunType
	quoted bool
	sealed bool
	src    token.Location
	hasSrc bool
	n, c   int
	kids   []*lisp.LVal
}

func c09Snapshot(roots []*lisp.LVal) []c09Node {
	var out []c09Node
	seen := map[*lisp.LVal]bool{}
	var walk func(v *lisp.LVal, d int)
	walk = func(v *lisp.LVal, d int) {
		if v == nil || seen[v] || d > 500 {
			return
		}
		seen[v] = true
		n := c09Node{ptr: v, typ: v.Type, str: v.Str, i: v.Int, f: v.Float, ft: v.FunType, quoted: v.IsQuoted(), sealed: v.IsSealed(), n: len(v.Cells), c: cap(v.Cells)}
		n.src, n.hasSrc = v.Source()
		// the children AND whatever sits in the spare capacity behind them: a write into
		// the unused tail of a sealed node's backing array is shared mutable state too
		n.kids = append(n.kids, v.Cells[:cap(v.Cells)]...)
		out = append(out, n)
		for _, c := range v.Cells {
			walk(c, d+1)
		}
	}
	for _, r := range roots {
		walk(r, 0)
	}
	return out
}

func c09Compare(a, b []c09Node) string {
	if len(a) != len(b) {
		return fmt.Sprintf("node count %d -> %d", len(a), len(b))
	}
	for i := range a {
		x, y := a[i], b[i]
		switch {
		case x.ptr != y.ptr:
			return fmt.Sprintf("node %d replaced", i)
		case x.typ != y.typ || x.str != y.str || x.i != y.i || x.ft != y.ft || (x.f != y.f && (x.f == x.f || y.f == y.f)):
			return fmt.Sprintf("node %d scalar fields changed: %v %q %d -> %v %q %d", i, x.typ, x.str, x.i, y.typ, y.str, y.i)
		case x.quoted != y.quoted:
			return fmt.Sprintf("node %d (%s) quoting changed", i, x.str)
		case x.sealed != y.sealed:
			return fmt.Sprintf("node %d seal flag changed", i)
		case x.hasSrc != y.hasSrc || x.src != y.src:
			return fmt.Sprintf("node %d source location changed: %v -> %v", i, x.src, y.src)
		case x.n != y.n || x.c != y.c:
			return fmt.Sprintf("node %d cells len/cap changed: %d/%d -> %d/%d", i, x.n, x.c, y.n, y.c)
		}
		for k := range x.kids {
			if x.kids[k] != y.kids[k] {
				if k >= x.n {
					return fmt.Sprintf("node %d (%v %q, %d cells): slot %d of the SPARE CAPACITY of its backing array was written", i, x.typ, x.str, x.n, k)
				}
				return fmt.Sprintf("node %d child %d swapped (e.g. a literal's elements were permuted in place)", i, k)
			}
		}
	}
	return ""
}

// --- workload -------------------------------------------------------------------------

// mutators applied to a value V obtained from a literal / macro argument / &rest list
var c09Mutators = []struct{ name, form string }{
	{"stable-sort", "(stable-sort < V)"},
	{"stable-sort-key", "(stable-sort < V (lambda (x) (- x)))"},
	{"append!-slice-vector", "(append! (slice 'vector V 0 (length V)) 99)"},
	{"append!-slice-vector-short", "(append! (slice 'vector V 0 1) 98 97)"},
	{"stable-sort-slice-vector", "(stable-sort < (slice 'vector V 0 (length V)))"},
	{"stable-sort-slice-list", "(stable-sort < (slice 'list V 1 (length V)))"},
	{"stable-sort-cdr", "(stable-sort < (cdr V))"},
	{"stable-sort-rest", "(stable-sort > (rest V))"},
	{"append-vector-zero", "(stable-sort < (append 'vector V))"},
	{"append!-append-vector-zero", "(append! (append 'vector V) 96)"},
	{"append-list", "(stable-sort < (append 'list V 5))"},
	{"concat-sort", "(stable-sort < (concat 'list V))"},
	{"reverse", "(reverse 'list V)"},
	{"map-identity-sort", "(stable-sort < (map 'list identity V))"},
	{"select-sort", "(stable-sort < (select 'list (lambda (x) true) V))"},
	{"zip", "(zip 'list V V)"},
	{"insert-sorted", "(insert-sorted 'list V < 2)"},
	{"insert-index", "(insert-index 'list V 0 42)"},
	{"cons-sort", "(stable-sort < (cons 0 V))"},
	{"apply-rest-sort", "(apply (lambda (&rest xs) (stable-sort < xs)) V)"},
	{"apply-rest-append", "(apply (lambda (&rest xs) (append! (slice 'vector xs 0 (length xs)) 7)) V)"},
	{"nested-slice-views", "(stable-sort < (slice 'list (slice 'list V 0 (length V)) 0 2))"},
	{"json-dump", "(json:dump-string V)"},
	{"foldl-sort", "(foldl (lambda (a x) (stable-sort < a)) V V)"},
	{"make-vector-assoc", "(let ([m (sorted-map \"k\" V)]) (assoc! m \"k2\" (stable-sort < (get m \"k\"))) m)"},
	{"macroexpand-sorter", "(macroexpand (cons 'sort-args-m V))"},
	// values DERIVED from V by forms that must hand out fresh storage, then changed in place
	{"quasi-lone-splice-sort", "(stable-sort < (quasiquote ((unquote-splicing V))))"},
	{"quasi-splice-sort", "(stable-sort < (quasiquote (0 (unquote-splicing V))))"},
	{"quasi-splice-nested-sort", "(stable-sort < (car (quasiquote (((unquote-splicing V)) 1))))"},
	{"quasi-unquote-sort", "(stable-sort < (car (quasiquote ((unquote V)))))"},
	{"apply-list-sort", "(stable-sort < (apply list V))"},
	{"unpack-rest-sort", "(unpack (lambda (&rest xs) (stable-sort < xs)) V)"},
	{"reverse-reverse-sort", "(stable-sort < (reverse 'list (reverse 'list V)))"},
	{"concat-empty-sort", "(list (stable-sort < (concat 'list V ())) (stable-sort < (concat 'list () V)))"},
	{"append-list-zero-sort", "(stable-sort < (append 'list V))"},
	{"reject-none-sort", "(stable-sort < (reject 'list (lambda (x) false) V))"},
	{"map-vector-sort", "(stable-sort < (map 'vector identity V))"},
	{"thread-last-sort", "(thread-last V (stable-sort <))"},
	{"slice-whole-list-sort", "(stable-sort < (slice 'list V 0 (length V)))"},
	{"append!-slice-whole-twice", "(let ([a (slice 'vector V 0 (length V))] [b (slice 'vector V 0 (length V))]) (append! a 1) (append! b 2) (list a b))"},
	{"funcall-optional-sort", "(funcall (lambda (&optional (xs V)) (stable-sort < xs)))"},
	{"key-arg-sort", "(funcall (lambda (&key xs) (stable-sort < xs)) :xs V)"},
	// forms the evaluator REWRITES before calling (step forms of 2-8 elements)
	{"thread-last-steps", "(thread-last V (concat 'list '(7 7)) (list 0 1) (list 0 1 2 3) (list 0 1 2 3 4) (list 0 1 2 3 4 5) (reverse 'list))"},
	// macro expansion in several passes where an earlier pass hands a piece of the program
	// text on unchanged (a pass-through macro) and a later macro sorts its &rest in place
	{"macroexpand-chain", "(list (macroexpand '(checked-m (sort-args-m 3 1 2))) (macroexpand '(checked-m (checked-m (sort-args-m 9 8 7 6)))) (macroexpand-1 (macroexpand-1 '(checked-m (sort-args-m 5 4)))))"},
	{"macro-call-chain", "(list (checked-m (sort-args-m 3 1 2)) (checked-m (lit-m 3 1 2)) (eval (macroexpand (list 'checked-m (cons 'sort-args-m V)))))"},
	{"thread-first-steps", "(thread-first V (concat 'list '(7 7)) (list 0 1) (list 0 1 2 3) (list 0 1 2 3 4 5 6) (car))"},
}

// c09Src is a VALUE SOURCE of the template dimension "where does the value come from":
// an expression whose value may alias program text.  The plain literal forms have no
// name (their finding key is shape|mutator, as ever).  The named ones obtain the value
// as the EXPANSION of a quoted macro call form (macroexpand-1 / macroexpand, directly or
// behind a pass-through macro): the macro hands back an argument form unchanged, a
// sub-list or view of it, its &rest / &optional / &key parameter, a quasiquote that
// unquotes or splices it, or a literal of the macro's own BODY - every one of them a
// piece of the parsed program, or storage that must be fresh.
type c09Src struct {
	name string // "" = plain literal form
	defs string // macro definitions the expression needs (macro-body-*: the formals of mut-m)
	expr string // plain literal: the form itself; named source: the macro CALL form
	wrap string // named source: what is done with the expansion X ("" = X itself)
}

var c09Sources = []c09Src{
	{expr: "'(3 1 2)"}, {expr: "'(5 4 3 2 1)"}, {expr: "[9 7 8]"}, {expr: "'(2 1)"}, {expr: "'(4 4 1 9 0 3)"},
	{expr: "(eval ''(3 1 2))"}, {expr: "(car '((7 3 5) x))"}, {expr: "(cdr (quote (0 8 6 7)))"},
	// expansions: an argument form handed back as it is / a part or a view of it
	{name: "mx-pass", defs: "(defmacro pass-m (form) form)", expr: "(pass-m (3 1 2))"},
	{name: "mx-car", defs: "(defmacro car-m (form) (car form))", expr: "(car-m ((7 3 5) x))"},
	{name: "mx-cdr", defs: "(defmacro cdr-m (form) (cdr form))", expr: "(cdr-m (0 3 1 2))"},
	{name: "mx-rest", defs: "(defmacro rest-of-m (form) (rest form))", expr: "(rest-of-m (0 8 6 7))"},
	{name: "mx-nth", defs: "(defmacro nth-m (form) (nth form 1))", expr: "(nth-m (x (4 4 1 9 0 3)))"},
	{name: "mx-slice", defs: "(defmacro slice-m (form) (slice 'list form 1 4))", expr: "(slice-m (0 3 1 2 9))"},
	// expansions: the macro's variadic / optional / keyword parameter
	{name: "mx-restargs", defs: "(defmacro restargs-m (&rest xs) xs)", expr: "(restargs-m 3 1 2)"},
	{name: "mx-restargs-cdr", defs: "(defmacro restargs-cdr-m (a &rest xs) (cdr xs))", expr: "(restargs-cdr-m 0 0 5 4 3)"},
	{name: "mx-optional", defs: "(defmacro opt-m (&optional form) form)", expr: "(opt-m (2 1))"},
	{name: "mx-key", defs: "(defmacro key-m (&key form) form)", expr: "(key-m :form (5 4 3 2 1))"},
	// expansions: a quasiquote template around the argument form
	{name: "mx-quasi-unquote", defs: "(defmacro qu-m (form) (quasiquote (unquote form)))", expr: "(qu-m (3 1 2))"},
	{name: "mx-quasi-splice", defs: "(defmacro qs-m (form) (quasiquote ((unquote-splicing form))))", expr: "(qs-m (3 1 2))"},
	{name: "mx-quasi-splice-tail", defs: "(defmacro qst-m (form) (quasiquote (0 (unquote-splicing form))))", expr: "(qst-m (4 4 1 9 0 3))"},
	{name: "mx-quasi-nested", defs: "(defmacro qn-m (form) (quasiquote (list (unquote form))))", expr: "(qn-m (3 1 2))", wrap: "(nth X 1)"},
	// expansions: a literal of the macro BODY
	{name: "mx-body-literal", defs: "(defmacro body-m () '(3 1 2))", expr: "(body-m)"},
	{name: "mx-body-quoted-literal", defs: "(defmacro body-q-m () ''(5 4 3 2 1))", expr: "(body-q-m)", wrap: "(eval X)"},
	{name: "mx-body-quasi-literal", defs: "(defmacro body-qq-m () (quasiquote (3 1 2)))", expr: "(body-qq-m)"},
	{name: "mx-body-vector", defs: "(defmacro body-v-m () [9 7 8])", expr: "(body-v-m)"},
	// the macro BODY applies the mutator to its argument form at expansion time (shape 4)
	{name: "macro-body-arg", defs: "(v)", expr: "(mut-m (3 1 2))"},
	{name: "macro-body-rest", defs: "(&rest v)", expr: "(mut-m 4 4 1 9 0 3)"},
	{name: "macro-body-key", defs: "(&optional u &key v)", expr: "(mut-m () :v (5 4 3 2 1))"},
	{name: "macro-body-quoted-arg", defs: "(v)", expr: "(mut-m '(3 1 2))"},
}

// the ways a named source's call form C is expanded
var c09Expanders = []string{
	"(macroexpand-1 'C)",
	"(macroexpand 'C)",
	"(macroexpand '(checked-m C))",
	"(macroexpand-1 (macroexpand-1 '(checked-m C)))",
}

// c09SourceStride decorrelates consecutive blocks of cases from the order of
// c09Sources (the checked-build phase runs a prefix of the workload): the smallest
// stride >= 7 coprime to the number of sources.
func c09SourceStride(n int) int {
	gcd := func(a, b int) int {
		for b != 0 {
			a, b = b, a%b
		}
		return a
	}
	s := 7
	for gcd(s, n) != 1 {
		s++
	}
	return s
}

// c09TemplateSource enumerates (mutator x source) pairs first - one pass is
// len(c09Mutators)*len(c09Sources) cases, about what the quick tier runs - and
// rotates the program shape and the expander through the pairs (within a pass every
// mutator meets every shape and every expander, and so does every source); later
// passes shift both, so 16 passes cover the whole product.
func c09TemplateSource(r *fw.RNG, k int) (src, label string) {
	M, S := len(c09Mutators), len(c09Sources)
	mi := k % M
	si := ((k / M) * c09SourceStride(S)) % S
	pass := k / (M * S)
	mu, so := c09Mutators[mi], c09Sources[si]
	shape := (mi + si + pass) % 4
	lit, tag := so.expr, so.expr
	pre := `(defmacro sort-args-m (&rest xs) (stable-sort < xs) (quasiquote (quote (unquote xs))))
(defmacro lit-m (&rest xs) (quasiquote (list (unquote-splicing (stable-sort < xs)))))
(defmacro checked-m (form) form)
(set 'literal-zoo (list ''(4 5 (6)) '''z (quote (quote (1 (2)))) '[1 [2 3]] '(a "s" 1.5 (b c)) #^(+ % 1) (function car) '#^(list %1 %2) ''[7 8]))
`
	mform := strings.ReplaceAll(mu.form, "V", "v")
	switch {
	case strings.HasPrefix(so.name, "macro-body-"):
		shape, tag = 4, so.name
		pre += fmt.Sprintf("(defmacro mut-m %s (handler-bind ((condition (lambda (&rest e) 'failed))) %s) (quasiquote (quote (unquote v))))\n", so.defs, mform)
	case so.name != "":
		ex := (mi/4 + si + pass/4) % len(c09Expanders)
		lit = strings.ReplaceAll(c09Expanders[ex], "C", so.expr)
		if so.wrap != "" {
			lit = strings.ReplaceAll(so.wrap, "X", lit)
		}
		tag = so.name
		pre += so.defs + "\n"
	}
	var body string
	switch shape {
	case 0: // function returning a literal, mutated between two evaluations
		body = fmt.Sprintf(`(defun lit () %s)
(set 'before (format-string "{}" (lit)))
(set 'mutated (let ([v (lit)]) %s))
(set 'after (format-string "{}" (lit)))
(list before after (string= before after))
`, lit, mform)
	case 1: // literal in a let inside a loop
		body = fmt.Sprintf(`(set 'seen ())
(dotimes (i 3) (let ([v %s]) (set 'seen (cons (format-string "{}" v) seen)) %s))
(list seen (all? (lambda (s) (string= s (car seen))) seen))
`, lit, mform)
	case 2: // macro arguments and &rest lists
		body = fmt.Sprintf(`(defun f (&rest xs) (let ([v xs]) %s) xs)
(set 'r1 (format-string "{}" (lit-m 3 1 2)))
(set 'r2 (format-string "{}" (lit-m 3 1 2)))
(set 'r3 (format-string "{}" (apply f %s)))
(set 'r4 (format-string "{}" %s))
(list r1 r2 r3 r4)
`, mform, lit, lit)
	case 3: // views of a literal held in a global
		body = fmt.Sprintf(`(set 'g %s)
(set 'view (cdr g))
(set 'b (format-string "{} {}" g view))
(let ([v view]) %s)
(let ([v g]) %s)
(list b (format-string "{}" %s))
`, lit, mform, mform, lit)
	default: // shape 4: the mutator runs INSIDE the macro, on the argument form it is handed -
		// when the call is evaluated, when it is evaluated as data and when it is expanded
		body = fmt.Sprintf(`(defun call-form () '%s)
(defun run-call () %s)
(set 'before (format-string "{} {}" (call-form) (run-call)))
(set 'expansions (list (macroexpand-1 (call-form)) (macroexpand (call-form)) (macroexpand (list 'checked-m (call-form))) (run-call) (eval (call-form))))
(set 'after (format-string "{} {}" (call-form) (run-call)))
(list expansions before after (string= before after))
`, lit, lit)
	}
	return pre + body, fmt.Sprintf("shape%d|%s|%s", shape, mu.name, tag)
}

func c09Source(w *fw.W, idx int) (src, label string, literalStable bool, feats map[string]bool) {
	if idx%4 != 3 {
		k := idx - idx/4
		s, l := c09TemplateSource(w.RNG(idx, "tmpl"), k)
		return s, l, true, nil
	}
	r := w.RNG(idx, "gen")
	p := gen.DefaultProfile()
	p.Hostile = 10
	g := gen.New(r, p)
	return sx.Render(g.Program(), nil), "generated", false, g.Feat
}

type c09Res struct{ val, stderr string }

func c09Load(r *rt.R, f func() *lisp.LVal) c09Res {
	_, ef := r.Marks()
	v := f()
	return c09Res{val: v.String(), stderr: r.Stderr.String()[ef:]}
}

func c09Opts(i int) rt.Opts {
	// runtimes are configured differently to expose shared configuration
	o := rt.Opts{MaxSteps: int64(400_000 + i*1000)}
	switch i % 4 {
	case 1:
		o.MaxPhys = 3000 + i
	case 2:
		o.MaxAlloc = 1_000_000 + i
	case 3:
		o.MaxNest = 20000 + i
	}
	return o
}

// c09LimitBound reports whether a load's outcome mentions one of the
// per-runtime resource limits c09Opts varies.
func c09LimitBound(val string) bool {
	for _, m := range []string{"step-limit-exceeded", "stack height exceeded", "eval-nesting-exceeded", "exceeds maximum", "allocation size"} {
		if strings.Contains(val, m) {
			return true
		}
	}
	return false
}

func c09Run(w *fw.W, idx int) {
	if base := c09BaseCases(w.Tier); idx >= base {
		// the cases behind the template / generated list: calls of everything the
		// registry holds (c09_lib.go); appended, so that the indexes before them mean
		// what they always meant
		if j := idx - base; j < c09LibCases(w.Tier) {
			c09LibRun(w, idx, j)
		} else {
			// and behind those: the host hands values of the Program back (c09_host.go)
			c09HostRun(w, idx, j-c09LibCases(w.Tier))
		}
		return
	}
	src, label, _, feats := c09Source(w, idx)
	c09Check(w, idx, src, label, feats, nil, w.Violation)
}

// c09BaseCases: the length of the template / generated-program case list of the tier.
func c09BaseCases(tier string) int { return pick(tier, 2000, 30000) }

// c09Check parses src ONCE and puts the Program through the load phases (a)-(c) and
// their oracles.  stable (optional) reads the program's own report of literal
// stability out of the fresh-parse result ("" = stable); report receives every
// violation (the library family collects them first and attributes them to one call).
// The result tells whether the Program came through clean.
func c09Check(w *fw.W, idx int, src, label string, feats map[string]bool, stable func(val string) string, report func(key, summary, detail string)) bool {
	w.Logf("source:\n%s", src)
	parser := rt.New(rt.Opts{})
	prog, err := parser.Env.ParseProgram("c09", "c09.lisp", strings.NewReader(src))
	if err != nil {
		report("harness-parse-error", err.Error(), src)
		return false
	}
	roots := lisp.VerifProgramExprs(prog)
	before := c09Snapshot(roots)
	fpBefore := lisp.SealedASTFingerprint(roots)
	for _, n := range before {
		if !n.sealed {
			report("program-node-not-sealed", fmt.Sprintf("a node of a parsed Program is not sealed: %v %q", n.typ, n.str), src)
			return false
		}
	}
	check := func(phase string) bool {
		if d := c09Compare(before, c09Snapshot(roots)); d != "" {
			report("program-mutated:"+c09Label(label), "evaluating a parsed Program changed it ("+phase+"): "+d, src)
			return false
		}
		if fp := lisp.SealedASTFingerprint(roots); fp != fpBefore {
			report("program-fingerprint-changed:"+c09Label(label), fmt.Sprintf("%s: %x -> %x", phase, fpBefore, fp), src)
			return false
		}
		return true
	}

	// (a) k loads in one runtime vs a twin that re-parses each time
	k := []int{2, 5}[idx%2]
	lib := strings.HasPrefix(label, "lib|")
	if lib && k > 3 {
		k = 3 // the library family's Programs are long (a fragment per call) and its cases many
	}
	twin := rt.New(c09Opts(0))
	main := rt.New(c09Opts(0))
	ref := make([]c09Res, k)
	for i := 0; i < k; i++ {
		ref[i] = c09Load(twin, func() *lisp.LVal { return twin.Env.LoadString("c09", src) })
		got := c09Load(main, func() *lisp.LVal { return main.Env.LoadProgram(prog) })
		w.Eval(2)
		if got != ref[i] {
			report("reload-differs:"+c09Label(label), fmt.Sprintf("load #%d of the same Program in one runtime differs from a fresh parse: %s vs %s", i+1, trunc(got.val, 300), trunc(ref[i].val, 300)), src)
			return false
		}
		if !check(fmt.Sprintf("after load #%d in one runtime", i+1)) {
			return false
		}
	}
	w.Logf("fresh-parse result of load #1: %s", ref[0].val)
	// literal stability as reported by the program itself
	if (strings.HasPrefix(label, "shape0") || strings.HasPrefix(label, "shape4")) && !strings.HasSuffix(ref[0].val, " true)") && !strings.Contains(ref[0].val, "error") && !strings.HasPrefix(ref[0].val, "c09") {
		what := "a quoted literal (or the expansion of a quoted macro call) evaluated to a different value after values obtained from it were mutated: "
		if strings.HasPrefix(label, "shape4") {
			what = "a quoted macro call form / the value of the macro call changed after the macro's body applied a builtin to its argument form: "
		}
		report("literal-changed:"+c09Label(label), what+trunc(ref[0].val, 300), src)
		return false
	}
	if strings.HasPrefix(label, "shape1") && strings.HasSuffix(ref[0].val, " false)") {
		report("literal-changed:"+c09Label(label), "a quoted literal in a loop body evaluated to different values: "+trunc(ref[0].val, 300), src)
		return false
	}

	if stable != nil {
		if bad := stable(ref[0].val); bad != "" {
			report("literal-changed:"+c09Label(label), bad, src)
			return false
		}
	}

	// The runtimes below are configured with different limits to expose
	// shared configuration.  A program whose outcome is one of those limits
	// legitimately differs between them, so such a program is run under the
	// reference configuration everywhere.
	opts := c09Opts
	if label == "generated" {
		// generated programs may also HANDLE a limit error, which the outcome does not show
		opts = func(int) rt.Opts { return c09Opts(0) }
	}
	for _, r := range ref {
		if c09LimitBound(r.val) {
			opts = func(int) rt.Opts { return c09Opts(0) }
			w.Count("limit_bound_programs", 1)
			break
		}
	}

	// (b) fresh runtimes; isolation of a bystander runtime
	bystander := rt.New(rt.Opts{})
	byBefore := c09SymbolDump(bystander)
	for i := 0; i < 2; i++ {
		fr := rt.New(opts(i + 1))
		got := c09Load(fr, func() *lisp.LVal { return fr.Env.LoadProgram(prog) })
		w.Eval(1)
		if got != ref[0] {
			report("fresh-runtime-load-differs:"+c09Label(label), fmt.Sprintf("loading the Program in a fresh runtime differs from a fresh parse: %s vs %s", trunc(got.val, 300), trunc(ref[0].val, 300)), src)
			return false
		}
	}
	if !check("after loads in fresh runtimes") {
		return false
	}
	if byAfter := c09SymbolDump(bystander); byAfter != byBefore {
		report("runtimes-not-isolated", "a bystander runtime's packages/bindings changed while other runtimes evaluated", src+"\n"+byBefore+"\n=>\n"+byAfter)
		return false
	}

	// (c) concurrently, every goroutine with its own runtime
	G := []int{2, 8, 32}[idx%3]
	if lib && G > 2 {
		G = 4
	}
	procs := []int{2, 16}[(idx/3)%2]
	R := 2
	old := runtime.GOMAXPROCS(procs)
	var wg sync.WaitGroup
	errs := make([]string, G)
	for g := 0; g < G; g++ {
		wg.Add(1)
		go func(g int) {
			defer wg.Done()
			r := rt.New(opts(g))
			for i := 0; i < R && i < k; i++ {
				got := c09Load(r, func() *lisp.LVal { return r.Env.LoadProgram(prog) })
				if got != ref[i] {
					errs[g] = fmt.Sprintf("goroutine %d load #%d: %s vs %s", g, i+1, trunc(got.val, 300), trunc(ref[i].val, 300))
					return
				}
			}
		}(g)
	}
	wg.Wait()
	runtime.GOMAXPROCS(old)
	w.Eval(G * R)
	w.Count("concurrent_loads", int64(G*R))
	for _, e := range errs {
		if e != "" {
			report("concurrent-load-differs:"+c09Label(label), "a concurrent load of the shared Program differs from a fresh parse: "+e, src)
			return false
		}
	}
	if !check("after concurrent loads") {
		return false
	}
	w.Count("snapshot_nodes_checked", int64(len(before)*(k+2)))
	w.SetAdd("interleaving_configs", fmt.Sprintf("G=%d GOMAXPROCS=%d R=%d", G, procs, R))
	if feats == nil {
		w.CoverKey(fmt.Sprintf("%s|k=%d|G=%d|P=%d", label, k, G, procs))
	} else {
		for f := range feats {
			w.CoverKey("gen|" + f)
		}
	}
	if w.WantSample() && feats == nil {
		w.Sample(map[string]any{"label": label, "source": src, "result": ref[0].val, "loads_in_one_runtime": k, "goroutines": G, "gomaxprocs": procs})
	}
	return true
}

func c09Label(l string) string {
	// shapeN|mutator|literal -> shapeN|mutator (the literal is not part of the finding key)
	// for a named value source (expansion of a macro call, macro body) the source is part of it
	p := strings.Split(l, "|")
	if p[0] == "lib" {
		return l // lib|package:function@parameter|shape of the value: all of it is the class
	}
	if len(p) >= 3 && (strings.HasPrefix(p[2], "mx-") || strings.HasPrefix(p[2], "macro-body-")) {
		return p[0] + "|" + p[1] + "|" + p[2]
	}
	if len(p) >= 2 {
		return p[0] + "|" + p[1]
	}
	return l
}

func c09SymbolDump(r *rt.R) string {
	var sb strings.Builder
	reg := r.Env.Runtime.Registry
	for _, pn := range reg.PackageNames() {
		p := reg.Package(pn)
		names := p.SymbolNames()
		fmt.Fprintf(&sb, "%s:%d:%d;", pn, len(names), p.NumExternals())
		if pn == "user" {
			sb.WriteString(strings.Join(names, ","))
		}
	}
	t := r.Run("probe", `(list (json:dump-string (json:load-string "12345678901234567890")) (handler-bind ((condition (lambda (&rest e) 'unbound))) g1))`)
	sb.WriteString("|" + t.Outcome())
	return sb.String()
}

// --- checked build (-tags elpscheck): sequential phase only ------------------------------

func c09Aux(args []string) int {
	if args[0] == "libdump" {
		c09LibDump()
		return 0
	}
	n, _ := strconv.Atoi(args[0])
	nlib := 0
	if len(args) > 1 {
		nlib, _ = strconv.Atoi(args[1])
	}
	seed, _ := strconv.ParseInt(os.Getenv("VERIF_SEED"), 10, 64)
	if seed == 0 {
		seed = 1
	}
	w := &fw.W{Rec: fw.NewRecForAux(), Prop: fw.Lookup("C09"), Tier: "quick", Seed: seed, NShards: 1}
	// nlib cases of the library family, spread over one pass: discovery and the loads
	// run under the checked build's inspectors (c09Check reports into the void here:
	// only an inspector abort counts in this phase)
	per := c09LibCasesPerPass()
	for i := 0; i < nlib && i < per; i++ {
		j := i * per / nlib
		fmt.Fprintf(os.Stderr, "library case %d\n", j)
		c09LibRun(w, c09BaseCases("quick")+j, j)
	}
	for idx := 0; idx < n; idx++ {
		src, _, _, _ := c09Source(w, idx)
		fmt.Fprintf(os.Stderr, "case %d\n", idx)
		p := rt.New(rt.Opts{})
		prog, err := p.Env.ParseProgram("c09", "c09.lisp", strings.NewReader(src))
		if err != nil {
			continue
		}
		a := rt.New(rt.Opts{MaxSteps: 400_000})
		for i := 0; i < 3; i++ {
			a.Env.LoadProgram(prog)
		}
		b := rt.New(rt.Opts{MaxSteps: 400_000})
		b.Env.LoadProgram(prog)
	}
	fmt.Println("elpscheck-ok", n)
	return 0
}

func c09Driver(d *fw.D) {
	n := pick(d.Tier, 400, 8000)
	nlib := pick(d.Tier, 16, c09LibCasesPerPass())
	out, err := d.RunAux("elpscheck", nil, 30*time.Minute, strconv.Itoa(n), strconv.Itoa(nlib))
	if err != nil {
		d.Violation("elpscheck-inspector-fired", "the repository's checked build (-tags elpscheck) aborted: seal/ownership/singleton inspector or crash", err.Error())
		return
	}
	if !strings.Contains(string(out), "elpscheck-ok") {
		d.Inconclusive("elpscheck run produced no completion marker")
		return
	}
	d.Eval(n * 4)
	d.Count("elpscheck_loads", int64(n*4))
	d.Count("elpscheck_library_cases", int64(nlib))
	// the library family must have been there: every (function, position) pair of the
	// registry visited in every pass, and calls actually made on program literals
	cat := c09LibCatalogueGet()
	want := int64(len(cat.pos) * c09LibPasses(d.Tier))
	d.Count("lib_registry_functions", int64(len(cat.fns)))
	d.Count("lib_registry_positions", int64(len(cat.pos)))
	for why, k := range cat.skipped {
		d.Count("lib_registry_entries_without_position:"+why, int64(k))
	}
	if got := d.Counters["lib_positions_visited"]; got < want {
		d.Inconclusive(fmt.Sprintf("library family: %d of %d (function, position) visits made", got, want))
	}
	if got, floor := d.Counters["lib_fragments"], want*2; got < floor {
		d.Inconclusive(fmt.Sprintf("library family: %d calls on program literals checked < %d", got, floor))
	}
	if got, floor := d.Counters["host_calls_with_program_values"], int64(c09HostCases(d.Tier)*4); got < floor {
		d.Inconclusive(fmt.Sprintf("host family: %d host calls with values of the Program < %d", got, floor))
	}
	if d.Counters["lib_fragments_accepted"]+d.Counters["lib_fragments_inplace"]+d.Counters["lib_fragments_deep"] < want/2 {
		d.Inconclusive("library family: hardly any call was accepted by the function it went to (discovery found no argument tuples)")
	}
}
