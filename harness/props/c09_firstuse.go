package props

// C09, first use of every library function in concurrently running runtimes.
//
// "Separate runtimes share no mutable state ... and running them concurrently is
// free of data races."  The race detector reports two accesses only when no
// happens-before edge orders them.  In the concurrent phase of the Program cases
// every goroutine repeats what the main goroutine did sequentially just before,
// so a process-wide cache, table or counter behind a library function is WRITTEN
// before the goroutines exist (`go` orders that write before everything they do)
// and only read afterwards: a missing lock there is invisible.  (Round 7's seeded
// change - an unsynchronised process-wide cache of compiled patterns behind
// s:regexp - was listed as detected by a "library race sweep" that had never
// been written; found out in round 9, when the sub-agent extending C09 looked for
// it.  mutants/C09-schema-regexp-process-wide-pattern-cache.diff recreates the
// change.)
//
// Here the FIRST use happens inside the goroutines.  The driver (an ordinary
// process) enumerates the registry, draws argument tuples for every function,
// operator and macro from the per-function pools of the library family
// (spellings harvested from the docstrings plus a general pool) and keeps the
// calls a scratch runtime accepts (and a few it refuses).  A fresh process of the
// race-detector build then starts G goroutines at once; each builds its own
// runtime and evaluates every call, in an order of its own, guarded by a
// catch-all handler - no call was made in that process before.  Nothing is
// compared: the oracle is the race detector (reports are collected from its log
// like the workers') and the survival of the process ("concurrent map writes"
// is fatal).

import (
	"fmt"
	"os"
	"path/filepath"
	"strconv"
	"strings"
	"time"

	"github.com/luthersystems/elps/lisp"

	"verifharness/firstuse"
	"verifharness/fw"
)

const c09FirstUseGuard = firstuse.Guard

// c09FirstUseForms draws the calls.  Deterministic in the seed.
func c09FirstUseForms(d *fw.D) (forms []string, nfn int) {
	cat := c09LibCatalogueGet()
	sc := c09LibNewScratch()
	r := d.RNG(0, "firstuse")
	per := pick(d.Tier, 6, 24)
	for _, f := range cat.fns {
		pool, _ := c09LibPool(sc.r, f)
		if len(pool) == 0 {
			continue
		}
		kept, refused := 0, 0
		seen := map[string]bool{}
		for t := 0; t < per*3 && kept < per; t++ {
			n := len(f.req)
			if len(f.opt) > 0 {
				n += r.Intn(len(f.opt) + 1)
			}
			if f.rest != "" {
				n += r.Intn(3)
			}
			args := make([]string, 0, n+2)
			for i := 0; i < n; i++ {
				args = append(args, fw.Pick(r, pool))
			}
			if len(f.keys) > 0 && r.Bool() {
				args = append(args, ":"+fw.Pick(r, f.keys), fw.Pick(r, pool))
			}
			form := "(" + f.qname() + " " + strings.Join(args, " ") + ")"
			if seen[form] {
				continue
			}
			seen[form] = true
			v := sc.r.Env.LoadString("c09-firstuse", fmt.Sprintf(c09FirstUseGuard, form))
			sc.r.Env.LoadString("c09-firstuse", "(lisp:in-package 'user)")
			ok := v.Type != lisp.LError && !(v.Type == lisp.LSymbol && v.Str == "c09-refused")
			if !ok {
				if refused >= 2 {
					continue
				}
				refused++
			}
			kept++
			forms = append(forms, form)
		}
		if kept > 0 {
			nfn++
		}
	}
	return forms, nfn
}

// c09FirstUsePhase is the driver side.
func c09FirstUsePhase(d *fw.D) {
	forms, nfn := c09FirstUseForms(d)
	d.Count("firstuse_functions", int64(nfn))
	d.Count("firstuse_call_forms", int64(len(forms)))
	if len(forms) < 300 {
		d.Inconclusive(fmt.Sprintf("first-use sweep: only %d call forms drawn", len(forms)))
		return
	}
	dir, err := os.MkdirTemp("", "c09-firstuse-")
	if err != nil {
		d.Inconclusive("first-use sweep: " + err.Error())
		return
	}
	defer os.RemoveAll(dir)
	file := filepath.Join(dir, "forms.lisp")
	if err := os.WriteFile(file, []byte(strings.Join(forms, "\n")+"\n"), 0o644); err != nil {
		d.Inconclusive("first-use sweep: " + err.Error())
		return
	}
	rounds := pick(d.Tier, 3, 8)
	for round := 0; round < rounds; round++ {
		g := []int{8, 16, 32, 4, 16, 8, 4, 32}[round%8]
		logp := filepath.Join(dir, fmt.Sprintf("race-firstuse-%d", round))
		// even rounds: the lean binary (nothing of the repository linked but the interpreter and
		// its library, so nothing ran before the goroutines start); odd rounds: the full harness
		// binary, whose package initialisation has already used the linter's tables
		bin := []string{"firstuse", "race"}[round%2]
		d.SetAdd("firstuse_binaries", map[string]string{"firstuse": "lean (interpreter + library only)", "race": "full harness binary"}[bin])
		out, err := d.RunAux(bin, []string{"GORACE=halt_on_error=0 log_path=" + logp, "GOMAXPROCS=16"}, 20*time.Minute,
			"firstuse", file, strconv.Itoa(g), strconv.Itoa(round))
		if err != nil && strings.Contains(err.Error(), "aux timed out") {
			// the wall-clock watchdog is no verdict: on a loaded machine slow is not dead
			d.Inconclusive(fmt.Sprintf("first-use sweep: the process of round %d (%d goroutines) did not finish within the watchdog", round, g))
			continue
		}
		if err != nil || !strings.Contains(string(out), "firstuse-ok") {
			msg := ""
			if err != nil {
				msg = err.Error()
			}
			d.Violation("first-use-sweep-process-died", fmt.Sprintf("%d goroutines making the first call of every library function in one process: the process did not complete", g),
				"stdout: "+string(out)+"\n"+msg)
			continue
		}
		d.Count("firstuse_processes", 1)
		d.Count("firstuse_goroutines", int64(g))
		d.Count("firstuse_calls_made", int64(g*len(forms)))
		d.Eval(g * len(forms))
	}
	// the race detector's reports, keyed like the workers'
	files, _ := filepath.Glob(filepath.Join(dir, "race-firstuse-*"))
	total := 0
	seen := map[string]bool{}
	for _, f := range files {
		b, err := os.ReadFile(f)
		if err != nil {
			continue
		}
		for _, blk := range strings.Split(string(b), "==================") {
			if !strings.Contains(blk, "WARNING: DATA RACE") {
				continue
			}
			total++
			key := fw.RaceKey(blk)
			if seen[key] {
				continue
			}
			seen[key] = true
			d.Violation("data-race:first-use-of-library-functions:"+key, "Go race detector report while fresh runtimes made their first library calls concurrently: "+key, c09Tail(blk, 6000))
		}
	}
	d.Count("firstuse_race_detector_reports", int64(total))
}

func c09Tail(s string, n int) string {
	if len(s) > n {
		return s[len(s)-n:]
	}
	return s
}

// c09FirstUseAux is the race-build process: args = forms file, goroutines, round.
// c09FirstUseAux: the aux mode lives in package firstuse so that a binary linking nothing of
// the repository but the interpreter and its library can run it (cmd/vfirst).
func c09FirstUseAux(args []string) int { return firstuse.Aux(args) }
