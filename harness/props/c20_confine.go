package props

// C20 — source loading cannot escape its configured root.
//
// Workload: sandboxes built from an in-memory model (c20x/fsmodel) under a
// fresh temp directory; a location-string grammar enumerated from the model
// (c20x/sandbox.Locations); every location is loaded through every library
// configuration x loading context x entry point.
//
// Oracle: the model resolves the location itself (it built the links) under
// the two readings a path string has — lexical cleaning first (".." cancels
// the preceding name textually) and the kernel's component-wise walk — and a
// file may be served only if one of the readings denotes it AND its real path
// is below the real root.  Everything probed/evaluated must be below the root.

import (
	"bytes"
	"context"
	"fmt"
	"io/fs"
	"os"
	"runtime/debug"
	"sort"
	"strings"

	"github.com/luthersystems/elps/lisp"

	"verifharness/c20x/fsmodel"
	"verifharness/c20x/sandbox"
	"verifharness/fw"
	"verifharness/rt"
)

func init() {
	fw.Register(&fw.Prop{
		ID: "C20", Level: "exploration",
		Rule: "case = (layout, chunk of that layout's location list). Layouts: 8 hand-written variants (root name/depth, cwd) of a catalogue with links to files/dirs inside/outside at first/middle/last component, relative and absolute, chains, loops, dangling, out-and-back, prefix-sharing siblings, symlinked root; every 4th layout (and all beyond the 8) PRNG-generated. " +
			"Locations: every component sequence up to length 3 (4 in the first 6 layouts of the thorough tier) walked from 4 start dirs over {entry names of the directory reached, '.', '..', 'nx'} in plain, absolute, './', trailing '/', '/.', doubled-separator forms, plus random longer walks. " +
			"Every location meets the 4 primary configurations (RelativeFileSystemLibrary{abs RootDir}, FSLibrary over MapFS, os.DirFS, os.Root) in all 7 contexts (top level, 3 loader files, 2-level loader, loader via file link, loader via dir link) through LoadSource; the other 10 configurations (6 more RootDir spellings, symlinked FS roots, recording wrappers) and the interpreter entry points (LoadFile | LoadFileContext | (load-file), nested through loader files) see a hash-selected 2/7 (thorough 4/7) of the (location, configuration, context) triples. " +
			"Interpreter loads of a loader file spell the top-level request differently from its true location in half of the loads ('.' component, doubled separator, cwd-relative instead of absolute and vice versa). " +
			"Hop contexts (interpreter only; one hash-selected hop per (location, configuration) at rate 3/7, thorough 5/7): a hop file in one loader directory is loaded by LoadFile | LoadFileContext | (load-file) and, while it executes, loads a loader file of another (or the same) directory by a RELATIVE request ('sub/ldr.lisp', '../ldr.lisp', unclean, through a directory or file link, the hop file itself reached through a directory link) either through a host Go builtin calling env.LoadFile | env.LoadFileContext or through its own (load-file); the loader file then loads the location under test, which must resolve against the loader file's directory. " +
			"Sequence contexts (interpreter only; one hash-selected context per (location, configuration) at rate 2/7, thorough 4/7): a sequence file in a loader directory hands a LIST of locations to a builtin that calls load-file (or a host Go include builtin calling env.LoadFile | env.LoadFileContext) back once per element - shapes map 'list | map 'vector | select | reject | map with the include builtin | foldl with the include builtin | foldl over a lambda | funcall in a dotimes | apply in a mapped lambda | consecutive top-level forms - where the earlier elements are marker files of OTHER directories (alone, in pairs, mixed with a file of the same directory) and the last element is the location under test, or the relative request reaching a loader file of another (or the same) directory which then loads the location under test; the later loads must still resolve against the sequence file's directory, and each of them must reach the library with the sequence file's true location as loading context. " +
			"String-sourced contexts (interpreter only; one hash-selected context per (location, configuration) at rate 3/14, thorough 5/14): the load is issued by code evaluated from a string, []byte or reader under a stream name drawn by the PRNG from the layout's label pool (no name, a word, a relative path through directories that exist inside or outside the root spelled relative to the root, relative to the working directory or absolutely, the path of a real file of another directory, '..'-laden and unclean spellings, a directory reached through a link, a trailing slash, a directory that does not exist, a URL, a random path of 1-4 components), entered by the host through LoadString | LoadStringContext | Load | LoadContext or by lisp through load-string | load-bytes with and without :name (plain, inside a let, a lambda, a map, a string inside a string), at top level or from a running file in a loader directory, and loading the location under test itself or a loader file which then loads it; string-sourced code has no loading file, so the model reads its locations like top-level ones, the library must be handed the empty context location for its calls, and the same load repeated under a control name must evaluate the same files in the same order. " +
			"An unconfined RelativeFileSystemLibrary{} is exercised in the loader, hop, sequence and string-sourced contexts for the relative-resolution clause (and the independence from the stream name) only. " +
			"Histories through one library value (one per case, after the static loads; kind rotating with the chunk): 2-4 rounds of loads through the SAME library value and the same runtime, between which the harness reassigns RootDir / FSLibrary.FS (sibling, sub-directory, parent, other directory, \"\", back to the first; absolute, trailing slash, relative to the working directory, through a link), changes the working directory under a relative root, re-points a symbolic link the root is or passes through (directly, through a second link, with a sub-directory behind it), or changes the file tree (a file replaced by a link to another file, a directory - for RootDir also the root itself or an ancestor - swapped for a link to another directory, a link inside the root re-pointed); after every change the model is re-evaluated for the CURRENT configuration (root = what the current spelling resolves to in the current tree from the current working directory) and judges every load as in the static case; locations of a round: every regular file spelled absolutely, relative to the working directory and relative to the directory of every loading file, plus a quarter of the chunk's locations; contexts: top level, the loader files still reached without a link (LoadSource and interpreter), one regular file per real directory as loading file of a LoadSource call; finding keys end in @after:<kind of the last change>. " +
			"Near-equal-name layouts (appended after the layouts above: 3, thorough 12, of 16 chunks each): the root path has 1, 2, 3 components in turn, drawn from a pool of realistic directory names; next to the root directory and next to one PRNG-chosen ancestor stands one twin directory per applicable class of near-equal name (ASCII letter case; non-ASCII letter case of the same encoded length; letter case across encoded lengths such as k / KELVIN SIGN and s / LONG S; full and Turkic case mappings such as ss / sharp s and i / dotless i; NFC vs NFD; compatibility forms such as fullwidth letters; trailing dot or space; ignorable code points; the 8.3 alias; prefix / suffix), the member of the class drawn by the PRNG, holding a mirror of the root's file names below the same tail of components; links inside the root lead to twins (relative and absolute targets, directory and file), the working directory is the sandbox, the root, a twin, the root's parent or a sub-directory, one sub-directory and one file inside the root have a twin too, and the location list additionally spells every lisp file absolutely and relative to every start directory; RootDir \"/\" is exercised there as the boundary of the root depth (model root = top of the file system). The sandbox file system is probed per case to distinguish names by letter case, normalisation form and a trailing dot; if it does not, the near cases count themselves not applicable. Everything else (configurations, contexts, entry points, histories, oracle) is as for the other layouts. " +
			"A recording wrapper around the interpreter's library observes (loading context, request, true location) of every library call: the context of each nested call must be the true location the library returned for the file doing the loading. " +
			"Driver: the real `elps run [--root-dir]` binary over ~600 (thorough 4000) locations x 8 invocations (two of them a file loading every location as the last element of (map 'list load-file '(file-of-another-directory LOCATION)), one a file loading every location through (load-string '(load-file LOCATION)' :name NAME) under a drawn and under a control stream name), and one strace'd worker (no successful open of an outside file between the sentinels of a load). " +
			"A coverage key is lib|rootspec|context|entry|location-shape|outcome where location-shape = (form flags, #components bucket, '..' present, links followed: kind x position x inside/outside, model errno, final inside/outside, for both readings when they differ); loads whose location is a plain miss (ENOENT, no link, no '..') are counted as trivial and give no key.",
		Assumptions: []string{
			"the kernel's path resolution and symlink creation behave as POSIX specifies (cross-checked per case: every location is also opened with os.ReadFile and compared with the model; a mismatch makes the run inconclusive)",
			"no ancestor of the temp directory is a symbolic link (verified with Lstat; otherwise inconclusive)",
			"testing/fstest.MapFS, os.DirFS and os.Root are the Go 1.25 standard library implementations; MapFS copies omit link cycles (MapFS recurses without bound on them)",
			"file contents are unique per file, so served bytes identify the served file",
		},
		Cases:  c20Cases,
		Run:    c20Run,
		Driver: c20Driver,
		MinDistinct: func(tier string) int {
			if tier == "thorough" {
				return 400_000
			}
			return 150_000
		},
	})
}

// c20JudgeBareDirFS decides whether symlink escapes of a harness-built
// lisp.FSLibrary{FS: os.DirFS(root)} are violations.  They are not by default:
// FSLibrary hands os.DirFS only valid in-FS names, and following links out of
// the directory is documented behaviour of os.DirFS itself, so the property's
// sentence about the fs.FS library holds literally.  What the property does
// cover is a *configured root directory*: the shipped configuration
// (`elps run --root-dir`, cmd/run.go) is judged end-to-end by the driver's CLI
// phase under the keys cli-run:<shape>.  The escapes of the bare combination
// are still counted (counters dirfs_symlink_escape_not_judged:<shape>).  Set to
// true to judge FSLibrary's doc comment ("natural confinement ... Use
// os.DirFS(dir)") as a promise; keys are then dirfs:<shape>.
const c20JudgeBareDirFS = false

type c20Tier struct {
	layouts     int
	chunks      int
	depth       int // component sequences are enumerated completely to this length ...
	deepLayouts int // ... and one longer in the first deepLayouts layouts
	nrand       int
	rate        int // non-primary (configuration, context) pairs per location: rate/7
	hopRate     int // hop contexts: one per (location, interpreter configuration) at hopRate/7
	seqRate     int // sequence contexts: one per (location, interpreter configuration) at seqRate/7
	strRate     int // string-sourced contexts: one per (location, interpreter configuration) at strRate/14
	// near layouts (appended after the layouts*chunks cases above): the root's
	// path components have near-equal twins outside the root
	nearLayouts int
	nearChunks  int
}

func c20TierOf(tier string) c20Tier {
	if tier == "thorough" {
		return c20Tier{layouts: 32, chunks: 96, depth: 3, deepLayouts: 6, nrand: 6000, rate: 4, hopRate: 5, seqRate: 4, strRate: 5, nearLayouts: 12, nearChunks: 16}
	}
	return c20Tier{layouts: 8, chunks: 48, depth: 3, deepLayouts: 0, nrand: 1500, rate: 2, hopRate: 3, seqRate: 2, strRate: 3, nearLayouts: 3, nearChunks: 16}
}

func c20Cases(tier string) int {
	if os.Getenv("C20_STRACE_SIDE") != "" {
		return c20StraceCases(tier) // the traced worker of the driver's strace phase
	}
	if os.Getenv("C20_PHASE") == "driver" {
		return 0 // debugging aid: only the driver phases (the run is then inconclusive by the coverage floor)
	}
	t := c20TierOf(tier)
	return t.layouts*t.chunks + t.nearLayouts*t.nearChunks
}

// c20NearLayoutBase is the layout index of the first near layout (layout
// indices select the PRNG streams of a layout and its location list).
const c20NearLayoutBase = 1000

// c20CaseOf maps a case index to (layout index, chunk, chunks of that layout):
// the layouts*chunks cases of the catalogue and generated layouts first, then
// the near layouts.
func c20CaseOf(tp c20Tier, idx int) (layoutIdx, chunk, chunks int) {
	if n := tp.layouts * tp.chunks; idx >= n {
		return c20NearLayoutBase + (idx-n)/tp.nearChunks, (idx - n) % tp.nearChunks, tp.nearChunks
	}
	return idx / tp.chunks, idx % tp.chunks, tp.chunks
}

// ---------------------------------------------------------------------------
// library configurations

type c20RecFS struct {
	inner fs.FS
	asked []string
}

func (f *c20RecFS) Open(name string) (fs.File, error) {
	f.asked = append(f.asked, name)
	return f.inner.Open(name)
}

// c20RecLib wraps the library of an interpreter runtime and records what the
// interpreter asked it and what it answered: the loading context (the
// SourceContext the interpreter derived from its stack), the request and the
// true location the library returned.
type c20RecLib struct {
	inner lisp.SourceLibrary
	calls []c20LibCall
}

type c20LibCall struct {
	ctxLoc  string
	req     string
	trueloc string
	ok      bool
}

func (l *c20RecLib) LoadSource(ctx lisp.SourceContext, loc string) (string, string, []byte, error) {
	name, trueloc, data, err := l.inner.LoadSource(ctx, loc)
	l.calls = append(l.calls, c20LibCall{ctxLoc: ctx.Location(), req: loc, trueloc: trueloc, ok: err == nil})
	return name, trueloc, data, err
}

type c20Lib struct {
	kind    string // relfs mapfs dirfs recmapfs recdirfs osroot
	family  string // finding-key prefix
	spec    string // root spelling label
	label   string
	lib     lisp.SourceLibrary
	isFS    bool
	inMem   bool
	relRoot bool // relfs with a relative RootDir
	// noRoot: RelativeFileSystemLibrary without a RootDir.  Nothing confines
	// it, so only the last clause of the property is judged on it (relative
	// locations resolve against the directory of the loading file): it is
	// exercised through the interpreter in loader and hop contexts only.
	noRoot bool
	// topRoot: RelativeFileSystemLibrary{RootDir: "/"} - the boundary value of
	// the root-depth dimension (near layouts): the root is the top of the file
	// system, every file lies inside it.
	topRoot bool
	fsRoot  string // absolute spelled directory an FS library is rooted at
	rec     *c20RecFS
	lispToo bool // also exercised through the interpreter entry points
	primary bool // meets every location in every context
	run     *rt.R
	st      *c20LocState
	recl    *c20RecLib // the recording wrapper the interpreter runtime loads through
	closer  func()
}

type c20LocState struct {
	loc   string
	armed bool
	// a hop: the running hop file loads hopReq through hopEntry (once)
	hopReq   string
	hopEntry string // LoadFile | LoadFileContext (called by a host builtin) | load-file (the hop file's own call)
	hopArmed bool
	// a sequence: the running sequence file loads these locations in a row
	// through callbacks of a builtin (once); host include callbacks use seqEntry
	seq      []string
	seqArmed bool
	seqEntry string // LoadFile | LoadFileContext
	// string-sourced code: the source text, its stream name and the host entry
	// point verif:c20-str-host evaluates it through
	strSrc   string
	strLabel string
	strHost  string // LoadString | LoadStringContext | Load | LoadContext
}

type c20Builtin struct {
	name    string
	formals *lisp.LVal
	fn      lisp.LBuiltin
}

func (b c20Builtin) Name() string                               { return b.name }
func (b c20Builtin) Formals() *lisp.LVal                        { return b.formals }
func (b c20Builtin) Eval(e *lisp.LEnv, a *lisp.LVal) *lisp.LVal { return b.fn(e, a) }

func c20Libs(l *sandbox.Layout) []*c20Lib {
	var libs []*c20Lib
	for _, rs := range l.Roots {
		rel := !strings.HasPrefix(rs.Path, "/")
		fam := "relfs"
		if rel {
			fam = "relfs-relroot"
		}
		libs = append(libs, &c20Lib{kind: "relfs", family: fam, spec: rs.Label, relRoot: rel,
			lib:     &lisp.RelativeFileSystemLibrary{RootDir: rs.Path},
			lispToo: rs.Label == "abs" || rs.Label == "abs-symlink" || rs.Label == "rel-to-cwd"})
	}
	libs = append(libs, &c20Lib{kind: "relfs-noroot", family: "relfs-noroot", spec: "none", noRoot: true,
		lib: &lisp.RelativeFileSystemLibrary{}, lispToo: true})
	if l.Near {
		libs = append(libs, &c20Lib{kind: "relfs", family: "relfs-rootdir-is-slash", spec: "fs-top", topRoot: true,
			lib: &lisp.RelativeFileSystemLibrary{RootDir: "/"}, lispToo: true})
	}
	absRoot := l.Root.Path()
	libs = append(libs, &c20Lib{kind: "mapfs", family: "mapfs", spec: "mem", isFS: true, inMem: true, fsRoot: absRoot,
		lib: &lisp.FSLibrary{FS: l.Tree.MapFS(l.Root, true)}, lispToo: true})
	rm := &c20RecFS{inner: l.Tree.MapFS(l.Root, true)}
	libs = append(libs, &c20Lib{kind: "recmapfs", family: "mapfs", spec: "mem", isFS: true, inMem: true, fsRoot: absRoot,
		lib: &lisp.FSLibrary{FS: rm}, rec: rm})
	for _, rs := range l.FSRoots {
		// exactly what cmd/run.go, cmd/debug.go and repl/repl.go configure
		libs = append(libs, &c20Lib{kind: "dirfs", family: "dirfs", spec: rs.Label, isFS: true, fsRoot: rs.Path,
			lib: &lisp.FSLibrary{FS: os.DirFS(rs.Path)}, lispToo: rs.Label == "abs"})
	}
	rd := &c20RecFS{inner: os.DirFS(absRoot)}
	libs = append(libs, &c20Lib{kind: "recdirfs", family: "dirfs", spec: "abs", isFS: true, fsRoot: absRoot,
		lib: &lisp.FSLibrary{FS: rd}, rec: rd})
	for _, rs := range l.FSRoots {
		// control configuration (the fix proposed in NOTES): a root-confined FS
		if root, err := os.OpenRoot(rs.Path); err == nil {
			libs = append(libs, &c20Lib{kind: "osroot", family: "osroot", spec: rs.Label, isFS: true, fsRoot: rs.Path,
				lib: &lisp.FSLibrary{FS: root.FS()}, lispToo: rs.Label == "abs", closer: func() { root.Close() }})
		}
	}
	for _, lb := range libs {
		lb.label = lb.kind + "/" + lb.spec
		switch lb.label {
		case "relfs/abs", "dirfs/abs", "mapfs/mem", "osroot/abs":
			lb.primary = true
		}
		if lb.relRoot && strings.HasSuffix(fsmodel.LexClean(lb.lib.(*lisp.RelativeFileSystemLibrary).RootDir), "..") {
			lb.family = "relfs-relroot-dotdot"
		}
	}
	return libs
}

// rootOf is the directory the configuration confines loads to: the layout's
// root, or the top of the file system for the unconfined configuration.
func (lb *c20Lib) rootOf(l *sandbox.Layout) *fsmodel.Node {
	if lb.noRoot || lb.topRoot {
		return l.Tree.Top
	}
	return l.Root
}

func (lb *c20Lib) runtime() *rt.R {
	if lb.run != nil {
		return lb.run
	}
	lb.recl = &c20RecLib{inner: lb.lib}
	r := rt.New(rt.Opts{Library: lb.recl})
	st := &c20LocState{}
	if rc := r.Env.InPackage(lisp.Symbol("verif")); !rc.IsNil() {
		panic(rc.String())
	}
	r.Env.AddBuiltins(true, c20Builtin{"c20-loc", lisp.Formals(), func(e *lisp.LEnv, a *lisp.LVal) *lisp.LVal {
		if st.armed {
			st.armed = false
			return lisp.String(st.loc)
		}
		return lisp.String(sandbox.Sentinel)
	}})
	// The hop builtins: a hop file asks whether its load is to be made by its
	// own (load-file ...) call, and otherwise hands over to c20-hop, a host Go
	// builtin that calls a LoadFile entry point of the environment it was
	// given while the hop file is executing (the way an application-defined
	// `include` does).
	r.Env.AddBuiltins(true, c20Builtin{"c20-hop-lisp?", lisp.Formals(), func(e *lisp.LEnv, a *lisp.LVal) *lisp.LVal {
		return lisp.Bool(st.hopArmed && st.hopEntry == "load-file")
	}})
	r.Env.AddBuiltins(true, c20Builtin{"c20-hop-req", lisp.Formals(), func(e *lisp.LEnv, a *lisp.LVal) *lisp.LVal {
		if st.hopArmed {
			st.hopArmed = false
			return lisp.String(st.hopReq)
		}
		return lisp.String(sandbox.Sentinel)
	}})
	r.Env.AddBuiltins(true, c20Builtin{"c20-hop", lisp.Formals(), func(e *lisp.LEnv, a *lisp.LVal) *lisp.LVal {
		if !st.hopArmed {
			return lisp.Nil()
		}
		st.hopArmed = false
		if st.hopEntry == "LoadFileContext" {
			return e.LoadFileContext(context.Background(), st.hopReq)
		}
		return e.LoadFile(st.hopReq)
	}})
	// The sequence builtins: a sequence file asks for the list of locations it
	// is to load (or for the next one of them) and hands them to a builtin that
	// calls load-file - or c20-include, a host Go builtin calling a LoadFile
	// entry point of the environment it was handed - back once per element.
	r.Env.AddBuiltins(true, c20Builtin{"c20-seq", lisp.Formals(), func(e *lisp.LEnv, a *lisp.LVal) *lisp.LVal {
		if !st.seqArmed {
			return lisp.QExpr([]*lisp.LVal{lisp.String(sandbox.Sentinel)})
		}
		st.seqArmed = false
		cells := make([]*lisp.LVal, len(st.seq))
		for i, x := range st.seq {
			cells[i] = lisp.String(x)
		}
		return lisp.QExpr(cells)
	}})
	r.Env.AddBuiltins(true, c20Builtin{"c20-seq-next", lisp.Formals(), func(e *lisp.LEnv, a *lisp.LVal) *lisp.LVal {
		if !st.seqArmed || len(st.seq) == 0 {
			return lisp.String(sandbox.Sentinel)
		}
		x := st.seq[0]
		st.seq = st.seq[1:]
		st.seqArmed = len(st.seq) > 0
		return lisp.String(x)
	}})
	include := func(e *lisp.LEnv, loc *lisp.LVal) *lisp.LVal {
		if loc.Type != lisp.LString {
			return e.Errorf("c20-include: not a string: %v", loc.Type)
		}
		if st.seqEntry == "LoadFileContext" {
			return e.LoadFileContext(context.Background(), loc.Str)
		}
		return e.LoadFile(loc.Str)
	}
	r.Env.AddBuiltins(true, c20Builtin{"c20-include", lisp.Formals("loc"), func(e *lisp.LEnv, a *lisp.LVal) *lisp.LVal {
		return include(e, a.Cells[0])
	}})
	r.Env.AddBuiltins(true, c20Builtin{"c20-include-acc", lisp.Formals("acc", "loc"), func(e *lisp.LEnv, a *lisp.LVal) *lisp.LVal {
		return include(e, a.Cells[1])
	}})
	// The string builtins: the source text and the stream name a string file (or
	// a form the host evaluates) hands to load-string / load-bytes, and
	// c20-str-host, a host Go builtin that evaluates the text through a Load*
	// entry point of the environment it was handed (the way an application
	// evaluates a snippet it holds in memory).
	r.Env.AddBuiltins(true, c20Builtin{"c20-str-src", lisp.Formals(), func(e *lisp.LEnv, a *lisp.LVal) *lisp.LVal {
		return lisp.String(st.strSrc)
	}})
	r.Env.AddBuiltins(true, c20Builtin{"c20-str-label", lisp.Formals(), func(e *lisp.LEnv, a *lisp.LVal) *lisp.LVal {
		return lisp.String(st.strLabel)
	}})
	r.Env.AddBuiltins(true, c20Builtin{"c20-str-host", lisp.Formals(), func(e *lisp.LEnv, a *lisp.LVal) *lisp.LVal {
		return c20HostLoadString(e, st.strHost, st.strLabel, st.strSrc)
	}})
	if rc := r.Env.InPackage(lisp.String(lisp.DefaultUserPackage)); !rc.IsNil() {
		panic(rc.String())
	}
	lb.run, lb.st = r, st
	return r
}

// ---------------------------------------------------------------------------
// oracle

type c20Expect struct {
	allowed   map[*fsmodel.Node]bool // files that may be served
	anyInside bool                   // which inside file is served is not judged
	mustServe *fsmodel.Node          // a refusal is a violation
	lex       fsmodel.Res            // lexical-first reading against the first context candidate
	phy       fsmodel.Res
	full      string // the joined path of the first candidate
}

func c20Join(a, b string) string {
	if a == "" {
		return b
	}
	if b == "" {
		return a
	}
	return a + "/" + b
}

// c20CtxDirs turns a loader's candidate directories into the strings the
// oracle joins locations with: absolute paths for relfs, absolute paths below
// the spelled FS root for FS libraries.  nil loader = top level.
func c20CtxBases(l *sandbox.Layout, lb *c20Lib, ld *sandbox.Loader) []string {
	if ld == nil || c20StrDirect(ld) {
		if lb.isFS {
			return []string{lb.fsRoot}
		}
		return []string{""} // the working directory
	}
	var out []string
	for _, d := range ld.CtxDirs {
		if lb.isFS {
			rel := strings.TrimPrefix(strings.TrimPrefix(d, l.RootRel), "/")
			out = append(out, c20Join(lb.fsRoot, rel))
		} else {
			out = append(out, c20Join(l.Tree.BasePath, d))
		}
	}
	return out
}

// c20StrDirect: the load of the location under test is issued by
// string-sourced code.  Such code has no loading file (SourceContext.Location:
// "If executing code is not sourced from a lisp file then Location will return
// an empty string -- this includes ... raw strings/[]bytes containing lisp
// code.  SourceLibraries should interpret an empty Location string as the
// process working directory"), so the oracle reads the location the way it
// reads a top-level one, whatever the stream name and wherever the file that
// evaluated the string lives.
func c20StrDirect(ld *sandbox.Loader) bool {
	return ld != nil && ld.StrShape != "" && !ld.StrInner
}

func c20Oracle(l *sandbox.Layout, lb *c20Lib, ld *sandbox.Loader, loc string) c20Expect {
	t := l.Tree
	root := lb.rootOf(l)
	ex := c20Expect{allowed: map[*fsmodel.Node]bool{}}
	isAbs := strings.HasPrefix(loc, "/")
	bases := c20CtxBases(l, lb, ld)
	if lb.isFS && isAbs {
		// The property statement does not say what an absolute location means
		// to an fs.FS library; only confinement is judged.
		ex.anyInside = true
		ex.full = loc
		ex.lex = t.Resolve(l.Cwd, c20Join(bases[0], strings.TrimLeft(loc, "/")), true)
		ex.phy = ex.lex
		return ex
	}
	same := true
	var only *fsmodel.Node
	sawLink := false
	for i, b := range bases {
		full := loc
		if !isAbs && b != "" {
			full = b + "/" + loc
		}
		var lex, phy fsmodel.Res
		if lb.isFS {
			// in-FS name = join(ctx dir, loc); the lexical reading must not start with ".."
			inName := strings.TrimLeft(strings.TrimPrefix(full, lb.fsRoot), "/")
			c := fsmodel.LexClean(inName)
			if c == ".." || strings.HasPrefix(c, "../") {
				lex = fsmodel.Res{Err: fsmodel.ENOENT}
			} else {
				lex = t.Resolve(l.Cwd, lb.fsRoot+"/"+c, false)
			}
			phy = t.Resolve(l.Cwd, full, false)
		} else {
			lex = t.Resolve(l.Cwd, full, true)
			phy = t.Resolve(l.Cwd, full, false)
		}
		if i == 0 {
			ex.lex, ex.phy, ex.full = lex, phy, full
		}
		for _, r := range []fsmodel.Res{lex, phy} {
			if len(r.Links) > 0 {
				sawLink = true
			}
			if r.Err == fsmodel.OK && r.Node.Kind == fsmodel.File && r.Node.Under(root) {
				ex.allowed[r.Node] = true
				if only == nil {
					only = r.Node
				} else if only != r.Node {
					same = false
				}
			} else {
				same = false
			}
		}
	}
	if lb.inMem && sawLink {
		// MapFS resolves link targets lexically; which in-memory file a path
		// through links denotes is not judged (nothing outside exists there).
		ex.anyInside = true
		return ex
	}
	// A refusal is judged only for nested, relative, unambiguous locations
	// whose kernel walk from the loading file's directory never leaves the
	// root and follows no absolute link: the clause "relative locations
	// resolve against the directory of the file doing the loading".
	// (Top-level loads and loads issued by string-sourced code have no loading
	// file; their refusals are judged by comparison with a control run only.)
	if ld != nil && !c20StrDirect(ld) && !isAbs && same && only != nil && len(bases) == 1 && !lb.relRoot {
		dir := t.Resolve(l.Cwd, bases[0], false)
		if dir.Err == fsmodel.OK {
			walk := t.Resolve(dir.Node, loc, false)
			plain := walk.Err == fsmodel.OK && walk.Node == only
			for _, v := range walk.Visited {
				if !v.UnderOrSelf(root) {
					plain = false
				}
			}
			for _, ls := range walk.Links {
				if strings.HasPrefix(ls.Link.Target, "/") {
					plain = false
				}
			}
			// (a file without a marker is not lisp source: loading it fails in the reader)
			if plain && only.Marker != "" {
				ex.mustServe = only
			}
		}
	}
	return ex
}

// c20Shape names the way a served file lies outside the allowed set.
func c20Shape(l *sandbox.Layout, lb *c20Lib, ex c20Expect, served *fsmodel.Node, loc string) string {
	root := lb.rootOf(l)
	if lb.noRoot || lb.topRoot {
		return "wrong-file"
	}
	if served != nil && served.Under(root) {
		return "wrong-file-inside-root" + c20NearInside(ex, served)
	}
	if served != nil && (lb.family != "dirfs" || c20JudgeBareDirFS) {
		// the class of the input by construction: the served file lies below a
		// directory whose path is the root's except for near-equal components
		// (a bare os.DirFS gets there through links only, which is not judged:
		// its escapes keep their symlink-* shapes)
		if cls, pos := c20NearOutside(root, served); cls != "" {
			return "near-equal-name-outside:" + cls + ":" + pos
		}
	}
	for _, r := range []fsmodel.Res{ex.lex, ex.phy} {
		for i, ls := range r.Links {
			if !ls.From.UnderOrSelf(root) {
				continue // not (or no longer) inside the root when this link was met
			}
			full := l.Tree.ResolveLink(ls.Link)
			if full.Err == fsmodel.OK && full.Node.UnderOrSelf(root) {
				continue
			}
			if i+1 < len(r.Links) && r.Links[i+1].OrigIdx == -1 {
				return "symlink-chain-outside"
			}
			if full.Err == fsmodel.OK && full.Node.Kind == fsmodel.Dir {
				return "symlink-dir-outside"
			}
			if ls.Last {
				return "symlink-file-outside"
			}
			return "symlink-dir-outside"
		}
	}
	if served != nil && strings.HasPrefix(served.Path(), root.Path()) {
		return "sibling-name-prefix"
	}
	if strings.HasPrefix(loc, "/") {
		return "absolute-path-outside"
	}
	return "dotdot-outside"
}

// c20LocClass summarises a location's model resolution for coverage.
func c20LocClass(l *sandbox.Layout, ex c20Expect, loc string) (class string, trivial bool) {
	root := l.Root
	comps := 0
	dd := false
	for _, c := range strings.Split(loc, "/") {
		if c != "" && c != "." {
			comps++
		}
		if c == ".." {
			dd = true
		}
	}
	form := ""
	if strings.HasPrefix(loc, "/") {
		form += "A"
	}
	if strings.HasPrefix(loc, "./") {
		form += "d"
	}
	if strings.Contains(strings.TrimLeft(loc, "/"), "//") {
		form += "D"
	}
	if strings.HasSuffix(loc, "/") {
		form += "T"
	}
	if strings.HasSuffix(loc, "/.") {
		form += "t"
	}
	if comps > 4 {
		comps = 5
	}
	var sb strings.Builder
	fmt.Fprintf(&sb, "%s,n%d,dd%v", form, comps, dd)
	res := func(tag string, r fsmodel.Res) {
		sb.WriteString("," + tag + ":")
		for _, ls := range r.Links {
			full := l.Tree.ResolveLink(ls.Link)
			k := "x"
			if full.Err == fsmodel.OK {
				k = "f"
				if full.Node.Kind == fsmodel.Dir {
					k = "d"
				}
				if full.Node.UnderOrSelf(root) {
					k += "i"
				} else {
					k += "o"
				}
			} else {
				k = string(full.Err[:2])
			}
			if strings.HasPrefix(ls.Link.Target, "/") {
				k += "A"
			}
			pos := "c" // met while expanding another link's target, or in the context directory
			if ls.OrigIdx != -1 {
				var lc []string
				for _, c := range strings.Split(loc, "/") {
					if c != "" && c != "." {
						lc = append(lc, c)
					}
				}
				for i, c := range lc {
					if c == ls.Link.Name {
						switch {
						case i == len(lc)-1:
							pos = "l"
						case i == 0:
							pos = "f"
						default:
							pos = "m"
						}
						break
					}
				}
			}
			sb.WriteString(k + pos + ".")
		}
		switch {
		case r.Err != fsmodel.OK:
			sb.WriteString(string(r.Err))
		case r.Node.Kind == fsmodel.Dir:
			sb.WriteString("dir")
		case r.Node.Under(root):
			sb.WriteString("IN")
		default:
			sb.WriteString("OUT")
		}
	}
	res("L", ex.lex)
	if ex.phy.Err != ex.lex.Err || ex.phy.Node != ex.lex.Node {
		res("P", ex.phy)
	}
	trivial = ex.lex.Err == fsmodel.ENOENT && ex.phy.Err == fsmodel.ENOENT && len(ex.lex.Links) == 0 && len(ex.phy.Links) == 0 && !dd
	return sb.String(), trivial
}

// ---------------------------------------------------------------------------
// the case runner

type c20State struct {
	reported map[string]int
}

func c20Base() (string, error) {
	base, err := os.MkdirTemp("", "c20sb-")
	if err != nil {
		return "", err
	}
	// no ancestor may be a symbolic link (the model treats them as real directories)
	p := ""
	for _, c := range strings.Split(strings.TrimPrefix(base, "/"), "/") {
		p += "/" + c
		fi, err := os.Lstat(p)
		if err != nil || fi.Mode()&os.ModeSymlink != 0 {
			os.RemoveAll(base)
			return "", fmt.Errorf("temp directory %s has a symbolic-link ancestor %s", base, p)
		}
	}
	for _, bad := range []string{"/repo", "/verif"} {
		if base == bad || strings.HasPrefix(base, bad+"/") {
			os.RemoveAll(base)
			return "", fmt.Errorf("temp directory %s is inside %s", base, bad)
		}
	}
	return base, nil
}

type c20Sandbox struct {
	l    *sandbox.Layout
	libs []*c20Lib
	locs []string
}

// c20Variant maps a layout index to a hand-written variant or a generated
// layout: every fourth layout is generated, and all are once the hand-written
// variants are used up.
func c20Variant(layoutIdx int) int {
	if layoutIdx >= c20NearLayoutBase {
		return sandbox.NearBase + layoutIdx - c20NearLayoutBase
	}
	f := layoutIdx - layoutIdx/4
	if layoutIdx%4 == 3 || f >= sandbox.NFixed {
		return sandbox.NFixed + layoutIdx
	}
	return f
}

func c20Open(rngLayout, rngLocs *fw.RNG, layoutIdx int, tp c20Tier) (*c20Sandbox, func(), error) {
	base, err := c20Base()
	if err != nil {
		return nil, nil, err
	}
	cleanup := func() {
		os.Chdir("/")
		os.RemoveAll(base)
	}
	l := sandbox.Build(base, c20Variant(layoutIdx), rngLayout)
	if l.Near {
		if why := c20NameInsensitive(base); why != "" {
			cleanup()
			c20NearFSNote = why
			return nil, nil, errC20NearNotApplicable
		}
	}
	if err := l.Tree.Materialize(); err != nil {
		cleanup()
		return nil, nil, err
	}
	if err := os.Chdir(l.Cwd.Path()); err != nil {
		cleanup()
		return nil, nil, err
	}
	sb := &c20Sandbox{l: l, libs: c20Libs(l)}
	depth := tp.depth
	if layoutIdx < tp.deepLayouts {
		depth++
	}
	sb.locs = sandbox.Locations(l, depth, rngLocs, tp.nrand)
	return sb, func() {
		for _, lb := range sb.libs {
			if lb.closer != nil {
				lb.closer()
			}
		}
		cleanup()
	}, nil
}

func c20Run(w *fw.W, idx int) {
	if side := os.Getenv("C20_STRACE_SIDE"); side != "" {
		c20StraceRun(w, idx, side)
		return
	}
	tp := c20TierOf(w.Tier)
	layoutIdx, chunk, chunks := c20CaseOf(tp, idx)
	sb, done, err := c20Open(w.RNG(layoutIdx, "layout"), w.RNG(layoutIdx, "locs"), layoutIdx, tp)
	if err == errC20NearNotApplicable {
		w.Rec.Count("nearname_cases_not_applicable", 1)
		w.SetAdd("nearname_sandbox_fs", "not applicable: "+c20NearFSNote)
		return
	}
	if err != nil {
		w.Inconclusive("sandbox setup failed: " + err.Error())
		return
	}
	defer done()
	st, _ := w.State.(*c20State)
	if st == nil {
		st = &c20State{reported: map[string]int{}}
		w.State = st
		// the parser allocates a large scan buffer per load; the live heap is tiny
		debug.SetGCPercent(1000)
	}
	l := sb.l
	w.SetAdd("layouts", l.Name)
	w.Max("locations_in_layout", int64(len(sb.locs)))
	if w.Verbose {
		w.Logf("layout %s base=%s cwd=%s root=%s\n%s", l.Name, l.Tree.BasePath, l.Cwd.Path(), l.Root.Path(), l.Tree.Dump())
	}
	// replay prints the layout and the violations; C20_TRACE=1 adds one line per load
	ck := &c20Checker{w: w, rec: w.Rec, st: st, l: l, verbose: w.Verbose && os.Getenv("C20_TRACE") != ""}
	if l.Near {
		c20NearEvidence(w, l)
	}
	var strRNG *fw.RNG
	for i := chunk; i < len(sb.locs); i += chunks {
		loc := sb.locs[i]
		ck.validateModel(loc)
		for _, lb := range sb.libs {
			for ci := -1; ci < len(l.Loaders); ci++ {
				var ld *sandbox.Loader
				if ci >= 0 {
					ld = &l.Loaders[ci]
				}
				// Every location meets the four primary configurations in every
				// context through LoadSource; the other combinations are thinned
				// by a hash of (location, configuration, context) so that each
				// configuration x context still sees every location class.
				h := int(fw.HashString(loc+"|"+lb.label+"|"+c20CtxLabel(ld)) % 7)
				doDirect := (lb.primary || h < tp.rate) && !lb.noRoot
				doLisp := lb.lispToo && h >= 7-tp.rate && !(lb.noRoot && ld == nil)
				if !doDirect && !doLisp {
					continue
				}
				ex := c20Oracle(l, lb, ld, loc)
				if doDirect {
					ck.direct(lb, ld, loc, ex)
				}
				if doLisp {
					ck.viaLisp(lb, ld, loc, ex, int(fw.HashString(loc)%3)+ci+1)
				}
			}
			// Hop contexts (interpreter only): the loader file is itself loaded
			// from a running file by a relative request.  One hash-selected hop
			// per (location, configuration), taken at rate hopRate/7.
			if lb.lispToo && len(l.Hops) > 0 {
				h := fw.HashString("hop|" + loc + "|" + lb.label)
				if int(h%7) < tp.hopRate {
					hp := &l.Hops[int(h/7)%len(l.Hops)]
					ck.viaLisp(lb, hp, loc, c20Oracle(l, lb, hp, loc), int(h/7/64))
				}
			}
			// Sequence contexts (interpreter only): the loading file loads several
			// locations in a row through callbacks of a builtin, files of other
			// directories first.  One hash-selected context per (location,
			// configuration), taken at rate seqRate/7.
			if lb.lispToo && len(l.Seqs) > 0 {
				h := fw.HashString("seq|" + loc + "|" + lb.label)
				if int(h%7) < tp.seqRate {
					sq := &l.Seqs[int(h/7)%len(l.Seqs)]
					ck.viaLisp(lb, sq, loc, c20Oracle(l, lb, sq, loc), int(h/7/1024))
				}
			}
			// String-sourced contexts (interpreter only): the load is issued by
			// code evaluated from a string, []byte or reader under a PRNG-drawn
			// stream name.  One hash-selected context per (location,
			// configuration), taken at rate strRate/14.
			if lb.lispToo && len(l.Strs) > 0 {
				h := fw.HashString("str|" + loc + "|" + lb.label)
				if int(h%14) < tp.strRate {
					sc := &l.Strs[int(h/14)%len(l.Strs)]
					if strRNG == nil {
						strRNG = w.RNG(idx, "strlabels")
					}
					ck.viaString(lb, sc, loc, c20Oracle(l, lb, sc, loc), int(h/14/1024), strRNG)
				}
			}
		}
	}
	// One history through one library value (and one runtime) per case: loads,
	// a change of the configuration / the environment / the tree, loads again.
	// It runs last because it mutates the sandbox.
	var chunkLocs []string
	for i := chunk; i < len(sb.locs); i += chunks {
		chunkLocs = append(chunkLocs, sb.locs[i])
	}
	c20RunHistory(w, st, sb, idx, layoutIdx, chunk, chunkLocs, ck.verbose)
}

type c20Checker struct {
	w        *fw.W
	rec      *fw.Rec
	st       *c20State
	l        *sandbox.Layout
	verbose  bool
	classFor string
	class    string
	trivial  bool
	// violate is how a violation is reported (worker or driver flavour)
	violate func(key, summary, detail string)
	// keySuffix qualifies the finding keys of the load being judged: empty
	// except in hop contexts, where it names the entry point that loaded the
	// loader file from the running hop file ("@hop:LoadFile" ...).
	keySuffix string
	// the string-sourced context being judged (for descriptions)
	strBy, strLabel, strClass string
	// histories through one library value (c20_history.go): histSuffix names
	// the kind of the change made last before the load being judged
	// ("@after:rootdir-reassigned" ...) and ends every finding key; histDesc
	// lists the steps of the history so far (for descriptions)
	histSuffix string
	histDesc   func() string
}

func (ck *c20Checker) report(key, summary string, detail func() string) {
	key += ck.keySuffix + ck.histSuffix
	ck.st.reported[key]++
	ck.rec.Count("violation:"+key, 1)
	if ck.st.reported[key] > 2 {
		return // counted above; two written-out instances per key and worker are enough
	}
	if ck.violate != nil {
		ck.violate(key, summary, detail())
		return
	}
	ck.w.Violation(key, summary, detail())
}

// validateModel cross-checks the model's two readings against the kernel by
// opening the location directly (harness self-check, not part of the oracle).
func (ck *c20Checker) validateModel(loc string) {
	t := ck.l.Tree
	for _, lexical := range []bool{false, true} {
		p := loc
		if lexical {
			p = fsmodel.LexClean(loc)
		}
		res := t.Resolve(ck.l.Cwd, p, false)
		if res.Err == fsmodel.Unknown || (res.Err == fsmodel.OK && res.Node.Opaque) {
			continue
		}
		if p == "" {
			continue
		}
		data, err := os.ReadFile(p)
		ck.rec.Count("model_crosschecks", 1)
		modelFile := res.Err == fsmodel.OK && res.Node.Kind == fsmodel.File
		switch {
		case modelFile && (err != nil || string(data) != res.Node.Content):
			ck.rec.Inconclusive(fmt.Sprintf("model/kernel mismatch: layout %s cwd=%s path %q: model says file %s, kernel: err=%v data=%q", ck.l.Name, ck.l.Cwd.Path(), p, res.Node.Path(), err, data))
		case !modelFile && err == nil:
			ck.rec.Inconclusive(fmt.Sprintf("model/kernel mismatch: layout %s cwd=%s path %q: model says %v, kernel read %q", ck.l.Name, ck.l.Cwd.Path(), p, res.Err, data))
		}
	}
}

func (ck *c20Checker) describe(lb *c20Lib, ld *sandbox.Loader, entry, loc string, ex c20Expect) string {
	var sb strings.Builder
	ctx := "top level (no loading file)"
	if ld != nil {
		ctx = fmt.Sprintf("%s (%s; candidate dirs %v)", ld.Label, ld.Spelled, ld.CtxDirs)
	}
	if ck.histDesc != nil {
		sb.WriteString(ck.histDesc())
	}
	fmt.Fprintf(&sb, "layout   : %s\nsandbox  : %s (cwd %s)\nroot     : %s (real)\nlibrary  : %s", ck.l.Name, ck.l.Tree.BasePath, ck.l.Cwd.Path(), c20RootName(lb.rootOf(ck.l)), lb.label)
	if lb.isFS {
		fmt.Fprintf(&sb, " rooted at %s", lb.fsRoot)
	} else {
		fmt.Fprintf(&sb, " RootDir=%q", lb.lib.(*lisp.RelativeFileSystemLibrary).RootDir)
	}
	if ld != nil && ld.HopReq != "" && ld.SeqShape == "" {
		ctx += fmt.Sprintf("\n           hop: %s is loaded first and, while it executes, loads the request %q (-> %s), which performs the nested load", ld.Spelled, ld.HopReq, ld.InnerSpelled)
	}
	if ld != nil && ld.SeqShape != "" {
		last := "the location under test"
		if ld.HopReq != "" {
			last = fmt.Sprintf("the request %q (-> %s, which performs the nested load of the location under test)", ld.HopReq, ld.InnerSpelled)
		}
		ctx += fmt.Sprintf("\n           sequence (%s): %s loads, in this order and each relative to its own directory, %q and then %s", ld.SeqShape, ld.Spelled, ld.SeqPre, last)
	}
	if ld != nil && ld.StrShape != "" {
		who := "the host enters string-sourced code"
		if !ld.StrTop {
			who = fmt.Sprintf("%s is loaded first and, while it executes, enters string-sourced code", ld.Spelled)
		}
		what := "loads the location under test; it has no loading file, so the location is read like a top-level one"
		if ld.StrInner {
			what = fmt.Sprintf("loads %s by a request spelled like a top-level one; that file performs the nested load", ld.InnerSpelled)
		}
		ctx = fmt.Sprintf("%s\n           string-sourced (%s): %s through %s, stream name %q (%s); the string-sourced code %s", ld.Label, ld.StrShape, who, ck.strBy, ck.strLabel, ck.strClass, what)
	}
	fmt.Fprintf(&sb, "\ncontext  : %s\nentry    : %s\nlocation : %q\njoined   : %q\n", ctx, entry, loc, ex.full)
	rd := func(name string, r fsmodel.Res) {
		fmt.Fprintf(&sb, "model %s: ", name)
		if r.Err != fsmodel.OK {
			fmt.Fprintf(&sb, "%s", r.Err)
		} else {
			fmt.Fprintf(&sb, "%s", r.Node.Path())
			if r.Node.Kind == fsmodel.File {
				if r.Node.Under(lb.rootOf(ck.l)) {
					sb.WriteString(" (file inside root)")
				} else {
					sb.WriteString(" (file OUTSIDE root)")
				}
			}
		}
		for _, ls := range r.Links {
			fmt.Fprintf(&sb, "  [link %s -> %s]", ls.Link.Path(), ls.Link.Target)
		}
		sb.WriteByte('\n')
	}
	rd("lexical-first reading", ex.lex)
	rd("kernel reading       ", ex.phy)
	var al []string
	for n := range ex.allowed {
		al = append(al, n.Path())
	}
	sort.Strings(al)
	fmt.Fprintf(&sb, "may be served: %v anyInside=%v", al, ex.anyInside)
	if ex.mustServe != nil {
		fmt.Fprintf(&sb, " mustServe=%s", ex.mustServe.Path())
	}
	sb.WriteByte('\n')
	return sb.String()
}

// judgeServed checks one served file against the expectation.
func (ck *c20Checker) judgeServed(lb *c20Lib, ld *sandbox.Loader, entry, loc string, ex c20Expect, served *fsmodel.Node, what string) bool {
	root := lb.rootOf(ck.l)
	if served != nil && served.Under(root) && (ex.anyInside || ex.allowed[served]) {
		return true
	}
	if (lb.noRoot || lb.topRoot) && served == nil {
		// an unconfined library returned bytes of a file that is not part of the
		// sandbox: nothing in the property forbids that (histories only)
		ck.rec.Count("unconfined_served_non_sandbox_file_not_judged", 1)
		return true
	}
	shape := c20Shape(ck.l, lb, ex, served, loc)
	key := lb.family + ":" + shape
	if ck.histSuffix != "" && !lb.noRoot && (served == nil || !served.Under(root)) {
		// In a history the class of the input is the change that preceded the
		// load (the key's suffix); the root the file lies outside of is the one
		// the CURRENT configuration resolves to.
		key = lb.family + ":serves-outside-root"
	}
	if lb.family == "relfs-relroot-dotdot" {
		// one mechanism (the prefix test against a root spelled "..", see NOTES),
		// whatever shape the location has
		key = lb.family + ":serves-outside-root"
	}
	sp := "<content of no sandbox file>"
	if served != nil {
		sp = served.Path()
	}
	if lb.family == "dirfs" && strings.HasPrefix(shape, "symlink-") && !c20JudgeBareDirFS {
		ck.rec.Count("dirfs_symlink_escape_not_judged:"+shape, 1)
		return false
	}
	if lb.family == "dirfs" && !c20JudgeBareDirFS && ck.histSuffix != "" && strings.HasSuffix(what, "(transitively)") {
		// A file loaded by the served file itself: in a history the tree changes,
		// so the literal request of a served loader ("sub/ldr.lisp") may by now
		// be a link out of the directory, which bare os.DirFS follows (not judged,
		// see c20JudgeBareDirFS); the shape above describes the location under
		// test, not that request.
		ck.rec.Count("dirfs_symlink_escape_not_judged:transitive-in-history", 1)
		return false
	}
	ck.report(key, fmt.Sprintf("%s %s %s: location %q -> %s %s, which the model places outside what may be served (root %s)", lb.label, entry, c20CtxLabel(ld), loc, what, sp, c20RootName(root)),
		func() string { return ck.describe(lb, ld, entry, loc, ex) + what + ": " + sp + "\n" })
	return false
}

// c20RootName renders a root directory for messages (histories know a root
// that does not resolve to any directory).
func c20RootName(root *fsmodel.Node) string {
	if root.Parent == root && root.Name != "" {
		return root.Name
	}
	return root.Path()
}

func c20CtxLabel(ld *sandbox.Loader) string {
	if ld == nil {
		return "top"
	}
	return ld.Label
}

func (ck *c20Checker) cover(lb *c20Lib, ld *sandbox.Loader, entry, loc string, ex c20Expect, outcome string) {
	if ck.classFor != ex.full+"\x00"+lb.label {
		ck.class, ck.trivial = c20LocClass(ck.l, ex, loc)
		ck.classFor = ex.full + "\x00" + lb.label
	}
	class, trivial := ck.class, ck.trivial
	if ck.l.Near {
		ck.nearCover(lb, loc, ex, outcome)
	}
	if trivial {
		ck.rec.Count("trivial_loads", 1)
		return
	}
	ck.rec.CoverKey(lb.kind + "|" + lb.spec + "|" + c20CtxLabel(ld) + "|" + entry + "|" + class + "|" + outcome)
}

// ctxLocation is the loading-file location handed to LoadSource directly.
func (ck *c20Checker) ctxLocation(lb *c20Lib, ld *sandbox.Loader) string {
	if ld == nil {
		return ""
	}
	sp := ld.Spelled
	if ld.InnerSpelled != "" {
		sp = ld.InnerSpelled
	}
	return ck.spell(lb, sp)
}

// spell renders a sandbox-relative path the way the library configuration
// addresses files: in-FS for FS libraries, relative to cwd for a relative
// RootDir, absolute otherwise.
func (ck *c20Checker) spell(lb *c20Lib, rel string) string {
	switch {
	case lb.isFS:
		return strings.TrimPrefix(strings.TrimPrefix(rel, ck.l.RootRel), "/")
	case lb.relRoot:
		return sandbox.RelPath(ck.l.CwdRel, rel)
	default:
		return ck.l.Tree.BasePath + "/" + rel
	}
}

func (ck *c20Checker) checkAsked(lb *c20Lib, served bool, loc string) {
	if lb.rec == nil {
		return
	}
	for _, p := range lb.rec.asked {
		ck.rec.Count("fs_paths_asked", 1)
		if !fs.ValidPath(p) {
			// Not judged as a violation (see NOTES): FSLibrary documents that it
			// relies on the fs.FS rejecting such names.  What is judged: nothing
			// may be served for them.
			ck.rec.Count("fs_invalid_paths_forwarded", 1)
			if strings.HasPrefix(p, "../") || p == ".." {
				ck.rec.Count("fs_invalid_paths_forwarded_dotdot", 1)
			}
			if served {
				ck.report(lb.family+":served-for-invalid-fs-path", fmt.Sprintf("%s served data although it asked its fs.FS for the invalid name %q (location %q)", lb.label, p, loc),
					func() string { return fmt.Sprintf("asked: %q\n", lb.rec.asked) })
			}
		}
	}
	lb.rec.asked = lb.rec.asked[:0]
}

func (ck *c20Checker) direct(lb *c20Lib, ld *sandbox.Loader, loc string, ex c20Expect) {
	const entry = "LoadSource"
	ck.keySuffix = ""
	ctxLoc := ck.ctxLocation(lb, ld)
	_, trueloc, data, err := lb.lib.LoadSource(lisp.NewSourceContext("c20ctx", ctxLoc), loc)
	ck.rec.Eval(1)
	ck.rec.Count("loads_direct", 1)
	ck.checkAsked(lb, err == nil, loc)
	if err != nil {
		if len(data) != 0 {
			n := ck.l.Tree.ByContent[string(data)]
			ck.judgeServed(lb, ld, entry, loc, ex, n, "returned (together with an error) the bytes of")
			ck.report(lb.family+":data-returned-with-error", fmt.Sprintf("%s LoadSource(%q) returned %d bytes together with error %v", lb.label, loc, len(data), err),
				func() string { return ck.describe(lb, ld, entry, loc, ex) })
		}
		if ex.mustServe != nil {
			ck.report(lb.family+":plain-relative-location-refused", fmt.Sprintf("%s %s %s: relative location %q denotes %s (inside the root, reached without leaving it) but was refused: %v", lb.label, entry, c20CtxLabel(ld), loc, ex.mustServe.Path(), err),
				func() string {
					return ck.describe(lb, ld, entry, loc, ex) + "ctx location: " + ctxLoc + "\nerror: " + err.Error() + "\n"
				})
		}
		ck.cover(lb, ld, entry, loc, ex, "refused")
		if ck.verbose {
			ck.w.Logf("%-22s %-16s %-10s %-40q refused (%v)", lb.label, c20CtxLabel(ld), entry, loc, err)
		}
		return
	}
	served := ck.l.Tree.ByContent[string(data)]
	ok := ck.judgeServed(lb, ld, entry, loc, ex, served, "returned the bytes of")
	if ok && ex.mustServe != nil && served != ex.mustServe {
		ck.report(lb.family+":wrong-file-inside-root"+c20NearInside(ex, served), fmt.Sprintf("%s %s: %q served %s, expected %s", lb.label, entry, loc, served.Path(), ex.mustServe.Path()),
			func() string { return ck.describe(lb, ld, entry, loc, ex) })
	}
	// trueloc must identify the served file (counted, not judged: not in the statement)
	if served != nil && ok {
		var tl fsmodel.Res
		if lb.isFS {
			tl = ck.l.Tree.Resolve(ck.l.Cwd, lb.fsRoot+"/"+trueloc, false)
		} else {
			tl = ck.l.Tree.Resolve(ck.l.Cwd, trueloc, false)
		}
		if tl.Node != served {
			ck.rec.Count("trueloc_not_identifying_served_file", 1)
		}
	}
	out := "served-in"
	if !ok {
		out = "served-OUT"
	}
	ck.cover(lb, ld, entry, loc, ex, out)
	if ck.verbose {
		ck.w.Logf("%-22s %-16s %-10s %-40q %s trueloc=%q", lb.label, c20CtxLabel(ld), entry, loc, out, trueloc)
	}
	if ok && ck.w != nil && ck.w.WantSample() && ld != nil && len(ex.lex.Links) > 0 {
		ck.w.Sample(map[string]any{"layout": ck.l.Name, "library": lb.label, "context": ld.Label, "ctx_location": ctxLoc, "location": loc,
			"observed": fmt.Sprintf("trueloc=%q %d bytes err=nil", trueloc, len(data)), "model": ck.describe(lb, ld, entry, loc, ex)})
	}
}

// c20Respell spells the top-level request for a loader file differently from
// the true location the library will return for it, without changing what it
// denotes under either reading: "." components and doubled separators are
// neutral lexically and for the kernel; for RelativeFileSystemLibrary the
// request is also given relative to the working directory when the canonical
// spelling is absolute and vice versa (cwd is a real directory, and the
// library resolves a top-level relative request against it).
func c20Respell(l *sandbox.Layout, lb *c20Lib, ld *sandbox.Loader, target string, h uint64) (string, string) {
	dot := func(p string) (string, string) {
		i := strings.LastIndex(p, "/")
		if i < 0 {
			return "./" + p, "dot"
		}
		return p[:i] + "/./" + p[i+1:], "dot"
	}
	switch h % 8 {
	case 4:
		return dot(target)
	case 5:
		if i := strings.Index(strings.TrimLeft(target, "/"), "/"); i >= 0 {
			i += len(target) - len(strings.TrimLeft(target, "/"))
			return target[:i] + "/" + target[i:], "dblsep"
		}
		return dot(target)
	case 6, 7:
		if lb.isFS {
			return dot(target)
		}
		if strings.HasPrefix(target, "/") {
			return sandbox.RelPath(l.CwdRel, ld.Spelled), "cwd-relative"
		}
		return l.Tree.BasePath + "/" + ld.Spelled, "absolute"
	}
	return target, ""
}

var c20HopEntries = [3]string{"LoadFile", "LoadFileContext", "load-file"}

func (ck *c20Checker) viaLisp(lb *c20Lib, ld *sandbox.Loader, loc string, ex c20Expect, flavour int) {
	r := lb.runtime()
	st := lb.st
	st.loc, st.armed = loc, true
	st.hopArmed, st.seqArmed = false, false
	ck.keySuffix = ""
	defer func() { ck.keySuffix = "" }()
	target := loc
	respell, hopEntry, seqLabel, seqBy := "", "", "", ""
	var chain []string
	if ld != nil {
		target, respell = c20Respell(ck.l, lb, ld, ck.spell(lb, ld.Spelled), fw.HashString("respell|"+loc+"|"+lb.label+"|"+ld.Label))
		chain = ld.Chain
		switch {
		case ld.SeqShape != "":
			// a sequence file: the earlier loads, then the location under test
			// (the sequence file is the loading file) or the request reaching
			// the loader file (which gets the location under test as before)
			st.seq = append(append(st.seq[:0], ld.SeqPre...), loc)
			st.armed = false
			seqLabel = "seq:" + ld.SeqShape
			if ld.HopReq != "" {
				st.seq[len(st.seq)-1] = ld.HopReq
				st.armed = true
				seqLabel = "seqhop:" + ld.SeqShape
			}
			st.seqArmed, st.seqEntry, seqBy = true, c20HopEntries[(flavour/3)%2], "load-file"
			for _, sh := range sandbox.SeqShapes {
				if sh.Name == ld.SeqShape && sh.Include {
					seqBy = st.seqEntry
					seqLabel += ":" + seqBy
				}
			}
			ck.keySuffix = "@" + seqLabel
		case ld.HopReq != "":
			hopEntry = c20HopEntries[(flavour/3)%3]
			st.hopReq, st.hopEntry, st.hopArmed = ld.HopReq, hopEntry, true
			ck.keySuffix = "@hop:" + hopEntry
		}
	}
	lb.recl.calls = lb.recl.calls[:0]
	r.Trace = r.Trace[:0]
	r.Stderr.Reset()
	var v *lisp.LVal
	var entry string
	switch flavour % 3 {
	case 0:
		entry = "LoadFile"
		v = r.Env.LoadFile(target)
	case 1:
		entry = "LoadFileContext"
		v = r.Env.LoadFileContext(context.Background(), target)
	default:
		entry = "load-file"
		v = r.Env.LoadString("c20top", `(load-file "`+target+`")`)
	}
	// the entry point that loaded the file making the i-th library call's successor
	loadedBy := []string{entry}
	if respell != "" {
		entry += "~" + respell
	}
	if hopEntry != "" {
		entry += "+hop:" + hopEntry
		loadedBy = append(loadedBy, hopEntry)
		ck.rec.Count("loads_via_hop", 1)
	}
	nseq := 0
	if seqLabel != "" {
		entry += "+" + seqLabel
		nseq = len(ld.SeqPre) + 1
		for i := 0; i < nseq; i++ {
			loadedBy = append(loadedBy, seqBy)
		}
		ck.rec.Count("loads_via_sequence", 1)
		ck.rec.Count("loads_via_sequence:"+ld.SeqShape, 1)
	}
	if ld != nil {
		entry += "+nested"
	}
	ck.judgeContexts(lb, ld, entry, loc, ex, loadedBy, nseq, -1)
	ck.judgeRun(lb, ld, entry, loc, ex, chain, v, seqLabel != "")
}

// c20HostLoadString evaluates source text held in memory through one of the
// host entry points that take a stream name.
func c20HostLoadString(e *lisp.LEnv, how, label, src string) *lisp.LVal {
	switch how {
	case "LoadStringContext":
		return e.LoadStringContext(context.Background(), label, src)
	case "Load":
		return e.Load(label, strings.NewReader(src))
	case "LoadContext":
		return e.LoadContext(context.Background(), label, bytes.NewReader([]byte(src)))
	}
	return e.LoadString(label, src)
}

// viaString performs one load in a string-sourced context: the load-file call
// is evaluated from a string, []byte or reader that the host (sc.StrTop) or a
// running file of a loader directory hands to load-string / load-bytes / a
// host Load* entry point under a stream name drawn from the layout's label
// pool.  Three judgements:
//
//   - the file-system model, reading the location like a top-level one
//     (string-sourced code has no loading file), or against the loader file's
//     directory when the string-sourced code loads a loader file first;
//   - the loading context the library is handed for the call made by the
//     string-sourced code carries the empty location (judgeContexts);
//   - the stream name has no influence: the same load under the control name
//     (a plain word) evaluates the same files in the same order and fails or
//     succeeds alike.  Key <family>:result-depends-on-stream-name@str:<label class>.
func (ck *c20Checker) viaString(lb *c20Lib, sc *sandbox.Loader, loc string, ex c20Expect, flavour int, rng *fw.RNG) {
	r := lb.runtime()
	st := lb.st
	sh := sandbox.StrShapeOf(sc.StrShape)
	class, label := ck.l.StrLabel(rng)
	if !sh.Named {
		class, label = "no-name", ""
	}
	by, hostEntry := sh.By, ""
	if sh.Host {
		hostEntry = sh.By
	}
	ck.strBy, ck.strLabel, ck.strClass = by, label, class
	ck.keySuffix = "@str:" + class
	defer func() { ck.keySuffix, ck.strBy, ck.strLabel, ck.strClass = "", "", "", "" }()

	// the source text
	src, literal := `(load-file (verif:c20-loc))`, false
	alt := (flavour/12)%2 == 1
	switch {
	case sc.StrInner:
		req := ck.spell(lb, sc.InnerSpelled)
		if alt && !lb.isFS {
			// the other spelling a top-level request may have (see c20Respell)
			if strings.HasPrefix(req, "/") {
				req = sandbox.RelPath(ck.l.CwdRel, sc.InnerSpelled)
			} else {
				req = ck.l.Tree.BasePath + "/" + sc.InnerSpelled
			}
		}
		src = `(load-file "` + req + `")`
	case alt && !strings.ContainsAny(loc, "\"\\"):
		src, literal = `(load-file "`+loc+`")`, true
	}
	target, respell := "", ""
	if !sc.StrTop {
		target, respell = c20Respell(ck.l, lb, sc, ck.spell(lb, sc.Spelled), fw.HashString("respell|"+loc+"|"+lb.label+"|"+sc.Label))
	}
	run := func(label string) (*lisp.LVal, string) {
		st.loc, st.armed = loc, sc.StrInner || !literal
		st.hopArmed, st.seqArmed = false, false
		st.strSrc, st.strLabel, st.strHost = src, label, hostEntry
		lb.recl.calls = lb.recl.calls[:0]
		r.Trace = r.Trace[:0]
		r.Stderr.Reset()
		if sc.StrTop {
			if sh.Host {
				return c20HostLoadString(r.Env, hostEntry, label, src), hostEntry
			}
			return r.Env.LoadString("c20top", sh.Form), "LoadString"
		}
		switch flavour % 3 {
		case 0:
			return r.Env.LoadFile(target), "LoadFile"
		case 1:
			return r.Env.LoadFileContext(context.Background(), target), "LoadFileContext"
		}
		return r.Env.LoadString("c20top", `(load-file "`+target+`")`), "load-file"
	}
	v, entry := run(label)
	strCall, loadedBy := 0, []string{"load-file"}
	if !sc.StrTop {
		strCall, loadedBy = 1, []string{entry, "load-file"}
	}
	if respell != "" {
		entry += "~" + respell
	}
	entry += "+str:" + sh.Name
	if literal {
		entry += "+literal"
	}
	if sc.StrInner {
		entry += "+nested"
	}
	entry += "/" + class
	ck.rec.Count("loads_via_string", 1)
	ck.rec.Count("loads_via_string:by:"+by, 1)
	ck.rec.Count("loads_via_string:label:"+class, 1)
	ck.judgeContexts(lb, sc, entry, loc, ex, loadedBy, 0, strCall)
	sig := ck.judgeRun(lb, sc, entry, loc, ex, sc.Chain, v, false)
	if class == "no-name" || class == sandbox.StrClassEmpty || class == sandbox.StrClassWord {
		return // such names are the control themselves; the model judges them
	}
	vc, _ := run(sandbox.StrControlLabel)
	ck.rec.Eval(1)
	ck.rec.Count("loads_via_string_control", 1)
	trc := r.TranscriptOf(vc, 0, 0)
	sigc := fmt.Sprintf("error=%v evaluated=[%s]", trc.IsErr, trc.TraceString())
	if sigc == sig {
		return
	}
	ck.report(lb.family+":result-depends-on-stream-name",
		fmt.Sprintf("%s %s %s: location %q loaded by code evaluated from a string through %s: under the stream name %q (%s) %s, under the stream name %q %s", lb.label, entry, sc.Label, loc, by, label, class, sig, sandbox.StrControlLabel, sigc),
		func() string {
			return ck.describe(lb, sc, entry, loc, ex) + "source text: " + src + "\nstream name " + fmt.Sprintf("%q", label) + ": " + sig + "\nstream name " + fmt.Sprintf("%q", sandbox.StrControlLabel) + ": " + sigc + "\n"
		})
}

// judgeRun judges what one interpreter load evaluated: the probes of the
// expected chain of loading files first, then the served file.  It returns the
// outcome of the load as a comparable string (error or not, files evaluated in
// order).
func (ck *c20Checker) judgeRun(lb *c20Lib, ld *sandbox.Loader, entry, loc string, ex c20Expect, chain []string, v *lisp.LVal, isSeq bool) string {
	r := lb.run
	ck.rec.Eval(1)
	ck.rec.Count("loads_via_interpreter", 1)
	ck.rec.SetAdd("entry_points", entry)
	tr := r.TranscriptOf(v, 0, 0)
	sig := fmt.Sprintf("error=%v evaluated=[%s]", tr.IsErr, tr.TraceString())
	root := lb.rootOf(ck.l)
	// 1. confinement of everything evaluated
	var probes []*fsmodel.Node
	for _, p := range tr.Trace {
		n := ck.l.Tree.ByMarker[p.Tag]
		if n == nil {
			ck.report(lb.family+":unknown-probe", fmt.Sprintf("probe %q does not belong to any sandbox file", p.Tag), func() string { return ck.describe(lb, ld, entry, loc, ex) })
			continue
		}
		probes = append(probes, n)
	}
	if ck.l.Secret != "" && !lb.noRoot && !lb.topRoot && (strings.Contains(tr.Value, ck.l.Secret) || strings.Contains(tr.Stderr, ck.l.Secret)) {
		ck.report(lb.family+":outside-content-in-error", fmt.Sprintf("%s %s: location %q: content of the non-lisp outside file appears in the result/stderr", lb.label, entry, loc),
			func() string {
				return ck.describe(lb, ld, entry, loc, ex) + "value: " + tr.Value + "\nstderr: " + tr.Stderr + "\n"
			})
	}
	// 2. strip the loader chain
	reached := len(probes) >= len(chain)
	for i := 0; reached && i < len(chain); i++ {
		if probes[i].Marker != chain[i] {
			reached = false
		}
	}
	if !reached {
		// the loader itself was not (fully) loaded: only confinement is judged
		for _, n := range probes {
			if !n.Under(root) {
				ck.judgeServed(lb, ld, entry, loc, ex, n, "evaluated")
			}
		}
		ck.rec.Count("loader_not_reached", 1)
		ck.rec.Count("loader_not_reached:"+lb.kind+"/"+lb.spec+"/"+c20CtxLabel(ld), 1)
		return sig
	}
	for _, n := range probes[:len(chain)] {
		// the loading files themselves (always inside the root in the static
		// layouts; in a history the root may have moved away from them)
		if !n.Under(root) {
			ck.judgeServed(lb, ld, entry, loc, ex, n, "evaluated (as a loading file)")
		}
	}
	rest := probes[len(chain):]
	if len(rest) == 0 {
		if !tr.IsErr && !lb.noRoot && !lb.topRoot {
			ck.report(lb.family+":value-without-evaluation", fmt.Sprintf("%s %s: location %q returned %s without evaluating any sandbox file", lb.label, entry, loc, tr.Value), func() string { return ck.describe(lb, ld, entry, loc, ex) })
		}
		if ex.mustServe != nil {
			ck.report(lb.family+":plain-relative-location-refused", fmt.Sprintf("%s %s %s: relative location %q denotes %s (inside the root, reached without leaving it) but was refused: %s", lb.label, entry, c20CtxLabel(ld), loc, ex.mustServe.Path(), tr.Value),
				func() string { return ck.describe(lb, ld, entry, loc, ex) + "result: " + tr.Value + "\n" })
		}
		ck.cover(lb, ld, entry, loc, ex, "refused")
		if ck.verbose {
			ck.w.Logf("%-22s %-16s %-22s %-40q refused (%s)", lb.label, c20CtxLabel(ld), entry, loc, tr.Value)
		}
		return sig
	}
	ok := ck.judgeServed(lb, ld, entry, loc, ex, rest[0], "evaluated")
	for _, n := range rest[1:] {
		// files loaded by the served file itself (a served loader): confinement only
		if !n.Under(root) {
			ck.judgeServed(lb, ld, entry, loc, ex, n, "evaluated (transitively)")
		}
	}
	if ok && ex.mustServe != nil && rest[0] != ex.mustServe {
		ck.report(lb.family+":wrong-file-inside-root"+c20NearInside(ex, rest[0]), fmt.Sprintf("%s %s: %q evaluated %s, expected %s", lb.label, entry, loc, rest[0].Path(), ex.mustServe.Path()),
			func() string { return ck.describe(lb, ld, entry, loc, ex) })
	}
	if ok && !tr.IsErr && !isSeq && strings.HasPrefix(rest[0].Content, "(verif:probe '"+rest[0].Marker+") \"") && tr.Value != `"`+rest[0].Marker+`"` {
		ck.rec.Count("value_not_marker", 1)
	}
	out := "served-in"
	if !ok {
		out = "served-OUT"
	}
	ck.cover(lb, ld, entry, loc, ex, out)
	if ck.verbose {
		ck.w.Logf("%-22s %-16s %-22s %-40q %s value=%s trace=%s", lb.label, c20CtxLabel(ld), entry, loc, out, tr.Value, tr.TraceString())
	}
	return sig
}

// judgeContexts checks the loading contexts the interpreter handed to the
// library during one top-level load.  The loads of a case form a chain (every
// file's last form is its only load, and an error ends the whole load), so the
// file doing the i-th load (i >= 1) is the file the (i-1)-th call served, and
// its identity is the true location the library returned for it
// (SourceLibrary.LoadSource: "An interpreter must use trueloc as an identifier
// for the requested source file anywhere the SourceContext ctx is
// unavailable"; SourceContext.Location: "the current source location (e.g.
// file path) being evaluated which caused the SourceLibrary LoadSource
// operation.  This may be used in determining the location of relative target
// source locations").  A context naming anything else - e.g. the request as
// the caller spelled it - makes relative locations resolve against a directory
// that is not the loading file's.  Key: <family>:loading-context-not-trueloc:<entry
// point that loaded the loading file>.
//
// In a sequence context the file served by call 0 makes the next nseq calls
// itself (the earlier loads are plain marker files, which load nothing), so
// the file doing the i-th load is the file call 0 served for 1 <= i <= nseq,
// and the file call i-1 served beyond that.  A later call of the sequence
// reaching the library with the context of a file loaded earlier in the
// sequence has the key <family>:loading-context-not-trueloc:later-in-sequence@seq:<shape>.
//
// strCall >= 0: library call number strCall is made by string-sourced code
// (a string, []byte or reader evaluated under a free-form stream name), which
// has no loading file: its context must carry the empty location
// (SourceContext.Location: "If executing code is not sourced from a lisp file
// then Location will return an empty string -- this includes LoadSource
// operations triggered from native Go functions and raw strings/[]bytes
// containing lisp code"; SourceContext.Name "should not be relied upon by a
// SourceLibrary").  Key <family>:string-sourced-loading-context-not-empty:<what
// evaluated the source>.  The chain rule applies to the calls after it.
func (ck *c20Checker) judgeContexts(lb *c20Lib, ld *sandbox.Loader, entry, loc string, ex c20Expect, loadedBy []string, nseq int, strCall int) {
	calls := lb.recl.calls
	suffix := ck.keySuffix
	defer func() { ck.keySuffix = suffix }()
	listCalls := func() string {
		var sb strings.Builder
		sb.WriteString(ck.describe(lb, ld, entry, loc, ex))
		sb.WriteString("library calls of this load (context location, request -> true location):\n")
		for k, c := range calls {
			fmt.Fprintf(&sb, "  #%d ctx=%q req=%q -> trueloc=%q ok=%v\n", k, c.ctxLoc, c.req, c.trueloc, c.ok)
		}
		return sb.String()
	}
	if strCall >= 0 && strCall < len(calls) {
		before := true
		for k := 0; k < strCall; k++ {
			before = before && calls[k].ok
		}
		if before {
			ck.rec.Count("loading_contexts_checked_string_sourced", 1)
			if c := calls[strCall]; c.ctxLoc != "" {
				ck.keySuffix = "" // the key names what evaluated the string-sourced code
				ck.report(lb.family+":string-sourced-loading-context-not-empty:"+ck.strBy,
					fmt.Sprintf("%s %s: code evaluated from a string through %s under the stream name %q (%s) called load-file %q, and the library was handed the loading context location %q instead of the empty location", lb.label, entry, ck.strBy, ck.strLabel, ck.strClass, c.req, c.ctxLoc),
					listCalls)
				ck.keySuffix = suffix
			}
		}
	}
	for i := 1; i < len(calls); i++ {
		if i == strCall {
			continue // made by string-sourced code, not by the file call i-1 served
		}
		ck.keySuffix = "" // the key names the entry point itself
		pi := i - 1
		if i >= 2 && i <= nseq {
			pi = 0
			ck.keySuffix = suffix
			ck.rec.Count("loading_contexts_checked_later_in_sequence", 1)
		}
		prev := calls[pi]
		if !calls[i-1].ok || !prev.ok {
			ck.rec.Count("library_call_after_failed_call", 1)
			return
		}
		by := "load-file"
		if pi < len(loadedBy) {
			by = loadedBy[pi]
		}
		ck.rec.Count("loading_contexts_checked", 1)
		if prev.req != prev.trueloc {
			ck.rec.Count("loading_contexts_checked_request_differs_from_trueloc", 1)
			ck.rec.Count("loading_contexts_checked_request_differs_from_trueloc:"+by, 1)
		}
		if calls[i].ctxLoc == prev.trueloc {
			continue
		}
		nth := "the load it then made"
		if pi != i-1 {
			nth = fmt.Sprintf("load #%d of the sequence it then made", i)
		}
		key := lb.family + ":loading-context-not-trueloc:" + by
		if pi != i-1 {
			// the class of the input is the sequence shape (key suffix), not the
			// entry point that loaded the sequence file
			key = lb.family + ":loading-context-not-trueloc:later-in-sequence"
		}
		ck.report(key,
			fmt.Sprintf("%s %s: the file loaded through %s by request %q has the true location %q, but %s (%q) reached the library with the loading context %q", lb.label, entry, by, prev.req, prev.trueloc, nth, calls[i].req, calls[i].ctxLoc),
			listCalls)
		return
	}
}
