package props

// C16, lexemes around and beyond the scanner window.
//
// Every reader of the repository (rdparser.NewReader - the runtime's reader
// behind LoadFile and `elps run` -, parser.NewReader, repl, lint, lsp, the
// minifier) scans through token.NewScanner's fixed sliding window of
// token.DefaultBufSize = 128 KiB, which the scanner documents as "the largest
// single token NewScanner can scan: ... a token that fills it fails with 'token
// exceeds maximum allowable size'".  So *which texts the reader accepts*
// depends on one more dimension of the input than the token-tree generator of
// c16_gen.go varies: the size of a single lexeme relative to that window.  The
// property's last clause ("input the reader rejects is rejected without
// producing output") and its first ("for every source text the reader accepts,
// Format returns text that reads back ...") both quantify over that set, so a
// formatter that scans differently from the reader breaks them only on texts
// holding a lexeme near or beyond the window - texts the main workload (longest
// lexeme: a few hundred bytes) never contains.
//
// One window case = an accepted ordinary text (generated document or a window
// of a repository file) that receives ONE long lexeme:
//
//	kinds      string, raw-string, symbol, keyword, qualified-symbol, float
//	           (a new token in a free gap: inside a list, at top level, flush
//	           with a bracket, or as the last token with or without a final
//	           newline), comment (own-line or same-line, in any free gap),
//	           eof-comment (ends the input, or is followed by a newline),
//	           hashbang (the rest of the #! line), whitespace-run (spaces,
//	           newlines, tabs, CRLF, form feeds appended to a free gap);
//	lengths    W-1, W, W+1 (grid), W-9..W+5, 2W-3..2W+3, 129-300 KB, and
//	           W-4000..W-10 (a long lexeme that fits); fill units of 1-4 bytes
//	           so that runes and escapes straddle the window edge.
//
// The first c16WindowGrid ordinals enumerate kind x {W-1, W, W+1} x placement;
// the rest is drawn from the case PRNG.
//
// Oracle (c16JudgeVia with window=true): "the reader" is rdparser.New over
// token.NewScanner, for the input and for the formatted output.  What it
// rejects, Format / FormatFile must reject with zero bytes of output; what it
// accepts, Format must accept, and every C16 oracle applies to the result (same
// trees, spellings, brackets, comments byte for byte and in place, idempotent,
// output read back *through the sliding window*).  Nothing is assumed about
// which lengths the reader accepts: the reader is asked.
//
// Keys.  A finding is first re-tried on the control text - the same document
// with the same kind of lexeme in the same place, 40 bytes long.  If the
// control fails in the same family the length plays no part: the control text
// goes down the ordinary path (shrunk, keyed by its minimised shape).
// Otherwise the key is the ordinary family:mode:tail plus the class of the case
// by construction:
//
//	…:<kind>-beyond-window     the lexeme is W bytes or longer
//	…:<kind>-below-window      the lexeme is shorter than W
//	…:token-fills-window-at-end-of-input
//	                           a token of exactly W bytes that ends the input
//	                           (no final newline): the one place where the
//	                           scanner documents "a token that ends together
//	                           with the input is not overrun"

import (
	"fmt"
	"strings"

	"verifharness/fw"

	"github.com/luthersystems/elps/formatter"
	"github.com/luthersystems/elps/parser/token"
)

const c16W = token.DefaultBufSize

// c16WindowCases is the number of window cases appended to the case list.
func c16WindowCases(tier string) int {
	if tier == "thorough" {
		return 3_000
	}
	return 128
}

var c16WinTokenKinds = []string{"string", "raw-string", "symbol", "keyword", "qualified-symbol", "float"}
var c16WinKinds = []string{"string", "string", "raw-string", "raw-string", "symbol", "keyword", "qualified-symbol", "float",
	"comment", "comment", "eof-comment", "hashbang", "whitespace-run", "whitespace-run"}

// c16WinPlan is everything about a window case except the lexeme's length, so
// that the same case can be rendered with the long lexeme and with the control.
type c16WinPlan struct {
	Kind      string
	Unit      string // fill unit of the lexeme body
	Tail      string // comments: the last bytes look like a form
	Pos       int    // gap / token index in the base document
	Before    string // separator forced in front of a new token ("" = keep the gap)
	After     string // gap between the new token and what follows
	Prefix    string // comments: what precedes the ';' inside the gap
	EndsInput bool   // the lexeme is the last byte sequence of the text
	Place     string // coverage word for the placement
}

type c16WinGridCell struct {
	kind  string
	delta int  // length = W + delta
	last  bool // token kinds: the last token, ending the input; eof-comment: ends the input
}

var c16WinGrid = func() []c16WinGridCell {
	var g []c16WinGridCell
	for _, d := range []int{-1, 0, 1} {
		for _, k := range c16WinTokenKinds {
			g = append(g, c16WinGridCell{k, d, false}, c16WinGridCell{k, d, true})
		}
		g = append(g, c16WinGridCell{"comment", d, false}, c16WinGridCell{"eof-comment", d, false}, c16WinGridCell{"eof-comment", d, true}, c16WinGridCell{"hashbang", d, false})
	}
	return g
}()

// c16WindowGrid is the number of leading window ordinals that enumerate the grid.
var c16WindowGrid = len(c16WinGrid)

func c16WindowLen(r *fw.RNG) (int, string) {
	switch r.Intn(5) {
	case 0:
		return c16W + r.Range(-9, 5), "window-edge"
	case 1:
		return c16W + r.Range(-1, 1), "window-edge"
	case 2:
		return 2*c16W + r.Range(-3, 3), "two-windows"
	case 3:
		return r.Range(129<<10, 300<<10), "beyond-window"
	}
	return c16W - r.Range(10, 4000), "below-window"
}

// c16WinFill repeats unit up to n bytes (never beyond, never splitting a unit)
// and pads with pad.
func c16WinFill(unit string, n int, pad byte) string {
	if n <= 0 {
		return ""
	}
	var sb strings.Builder
	sb.Grow(n)
	for sb.Len()+len(unit) <= n {
		sb.WriteString(unit)
	}
	for sb.Len() < n {
		sb.WriteByte(pad)
	}
	return sb.String()
}

// c16WinLexeme spells the lexeme of the plan's kind with n bytes (for
// hashbang: n bytes after the "#!", which is the token the lexer builds).
func c16WinLexeme(p *c16WinPlan, n int) string {
	switch p.Kind {
	case "string":
		return "\"" + c16WinFill(p.Unit, n-2, 's') + "\""
	case "raw-string":
		return "\"\"\"" + c16WinFill(p.Unit, n-6, 'r') + "\"\"\""
	case "symbol":
		return c16WinFill(p.Unit, n, 'a')
	case "keyword":
		return ":" + c16WinFill(p.Unit, n-1, 'a')
	case "qualified-symbol":
		return "pk:" + c16WinFill(p.Unit, n-3, 'a')
	case "float":
		return "2." + c16WinFill(p.Unit, n-3, '0') + "5"
	case "comment", "eof-comment":
		return ";" + c16WinFill(p.Unit, n-1-len(p.Tail), 'z') + p.Tail
	case "hashbang":
		return "#!" + c16WinFill(p.Unit, n-len(p.Tail), 'z') + p.Tail
	}
	return c16WinFill(p.Unit, n, ' ') // whitespace-run
}

func c16WinTokType(kind string) token.Type {
	switch kind {
	case "string":
		return token.STRING
	case "raw-string":
		return token.STRING_RAW
	case "float":
		return token.FLOAT
	}
	return token.SYMBOL
}

// c16WinPlanFor draws the plan for base.  cell (may be nil) pins kind and placement.
func c16WinPlanFor(r *fw.RNG, base *c16Doc, cell *c16WinGridCell) (*c16WinPlan, bool) {
	p := &c16WinPlan{}
	if cell != nil {
		p.Kind = cell.kind
	} else {
		p.Kind = fw.Pick(r, c16WinKinds)
	}
	n := len(base.Toks)
	hasHB := n > 0 && base.Toks[0].Type == token.HASH_BANG
	free := func(pred func(i int) bool) (int, bool) {
		var xs []int
		for i := 0; i <= n; i++ {
			if c16FreeGap(base, i) && !(i > 0 && base.Toks[i-1].Type == token.UNBOUND) && (pred == nil || pred(i)) {
				xs = append(xs, i)
			}
		}
		if len(xs) == 0 {
			return 0, false
		}
		return fw.Pick(r, xs), true
	}
	switch p.Kind {
	case "string", "raw-string", "symbol", "keyword", "qualified-symbol", "float":
		switch p.Kind {
		case "string":
			p.Unit = fw.Pick(r, []string{"s", "ab ", "é", "\\n", "(x) ", "; ", "\\\"", "☃"})
		case "raw-string":
			p.Unit = fw.Pick(r, []string{"r", "ab ", "é", "line\n", "; c\n", "\" ", "\\"})
		case "float":
			p.Unit = fw.Pick(r, []string{"0", "50", "12345"})
		default:
			p.Unit = fw.Pick(r, []string{"a", "ab-", "é", "x1", "k?"})
		}
		last := r.Chance(1, 3)
		if cell != nil {
			last = cell.last
		}
		if last {
			p.Pos = n
			p.After = fw.Pick(r, []string{"", "", "\n", "\n", " ", "\n\n", " ; c\n"})
			if cell != nil {
				p.After = ""
			}
			p.EndsInput = p.After == ""
			p.Place = "last-token"
			if p.EndsInput {
				p.Place = "ends-input"
			}
		} else {
			// never in front of the hash-bang line (it must stay the first line) nor directly
			// behind its token (the line runs to the line feed)
			i, ok := free(func(i int) bool { return i < n && !(i <= 1 && hasHB) })
			if !ok {
				return nil, false
			}
			p.Pos = i
			closer := base.Toks[i].Type == token.PAREN_R || base.Toks[i].Type == token.BRACE_R
			if closer {
				p.After = fw.Pick(r, []string{"", "", " ", "\n"})
			} else {
				p.After = fw.Pick(r, []string{" ", " ", "\n", "  ", "\n  ", " ; c\n "})
			}
			p.Place = "top-level"
			if base.Toks[i].Depth > 0 || closer {
				p.Place = "in-list"
			}
		}
		if i := p.Pos; i > 0 && base.Gaps[i] == "" {
			switch base.Toks[i-1].Type {
			case token.PAREN_L, token.BRACE_L, token.QUOTE:
				if r.Bool() {
					p.Before = " "
				}
			default:
				p.Before = " "
			}
		}
	case "comment":
		i, ok := free(func(i int) bool { return i < n && !(i <= 1 && hasHB) })
		if !ok {
			return nil, false
		}
		p.Pos = i
		p.Prefix = fw.Pick(r, []string{" ", "\n", "\n  ", "  "})
		if i == 0 {
			p.Prefix = fw.Pick(r, []string{"", "\n", " "})
		}
		p.After = fw.Pick(r, []string{"", "", "  ", "\n"})
		p.Place = "own-line"
		if !strings.Contains(p.Prefix, "\n") && i > 0 {
			p.Place = "same-line"
		}
	case "eof-comment":
		p.Pos = n
		p.Prefix = fw.Pick(r, []string{" ", "\n", "\n\n", ""})
		p.EndsInput = r.Bool()
		if cell != nil {
			p.EndsInput = cell.last
		}
		p.Place = "newline-follows"
		if p.EndsInput {
			p.Place = "ends-input"
		}
	case "hashbang":
		p.Place = "first-line"
	case "whitespace-run":
		i, ok := free(nil)
		if !ok {
			return nil, false
		}
		p.Pos = i
		p.Unit = fw.Pick(r, []string{" ", " ", "\n", "\t", " \n", "\r\n", "  \n\t", "\f", "\n\n "})
		p.Place = "between-tokens"
		if i == 0 {
			p.Place = "start-of-input"
		} else if i == n {
			p.Place = "end-of-input"
		}
	}
	if p.Kind == "comment" || p.Kind == "eof-comment" || p.Kind == "hashbang" {
		p.Unit = fw.Pick(r, []string{"x", "ab ", "(f 1) ", "é", "\" ", "; ", " y", "(", "'q ", "☃"})
		if r.Bool() {
			// if the comment is cut anywhere, what follows the cut is a form of its own
			p.Tail = " (window-tail 1)"
		}
	}
	return p, true
}

// c16WinRender renders base with the plan's lexeme of n bytes.
func c16WinRender(base *c16Doc, p *c16WinPlan, n int) []byte {
	d := base.Clone()
	lex := c16WinLexeme(p, n)
	closeGap := func(gap string) string { // a gap that ends inside a comment gets its line feed
		if k := strings.LastIndex(gap, ";"); k >= 0 && !strings.Contains(gap[k:], "\n") {
			return gap + "\n"
		}
		return gap
	}
	nt := len(d.Toks)
	switch p.Kind {
	case "string", "raw-string", "symbol", "keyword", "qualified-symbol", "float":
		i := p.Pos
		depth := 0
		if i < nt {
			depth = d.Toks[i].Depth
		}
		tok := c16DTok{Text: lex, Type: c16WinTokType(p.Kind), Depth: depth}
		if i == nt {
			d.Gaps[i] = closeGap(d.Gaps[i])
			if nt > 0 && d.Toks[nt-1].Type == token.HASH_BANG && !strings.Contains(d.Gaps[i], "\n") {
				d.Gaps[i] += "\n"
			}
		}
		d.Gaps[i] += p.Before
		d.Toks = append(d.Toks[:i:i], append([]c16DTok{tok}, d.Toks[i:]...)...)
		d.Gaps = append(d.Gaps[:i+1:i+1], append([]string{p.After}, d.Gaps[i+1:]...)...)
	case "comment":
		i := p.Pos
		d.Gaps[i] = closeGap(d.Gaps[i]) + p.Prefix + lex + "\n" + p.After
	case "eof-comment":
		g := closeGap(d.Gaps[nt])
		if nt > 0 && d.Toks[nt-1].Type == token.HASH_BANG && !strings.Contains(g, "\n") {
			g += "\n"
		}
		g += p.Prefix + lex
		if !p.EndsInput {
			g += "\n"
		}
		d.Gaps[nt] = g
	case "hashbang":
		if nt > 0 && d.Toks[0].Type == token.HASH_BANG {
			d.Toks[0].Text = lex
			d.Gaps[0] = ""
		} else {
			first := d.Gaps[0]
			if nt > 0 || first != "" {
				first = "\n" + first
			}
			d.Toks = append([]c16DTok{{Text: lex, Type: token.HASH_BANG}}, d.Toks...)
			d.Gaps = append([]string{"", first}, d.Gaps[1:]...)
		}
	default: // whitespace-run
		i := p.Pos
		g := d.Gaps[i]
		if i == nt {
			g = closeGap(g)
		}
		if i > 0 && d.Toks[i-1].Type == token.HASH_BANG && !strings.Contains(g, "\n") {
			g += "\n"
		}
		d.Gaps[i] = g + lex
	}
	return d.Render()
}

// c16WinClass names the case by construction (see the file comment).
func c16WinClass(p *c16WinPlan, n int) string {
	switch {
	case n == c16W && p.EndsInput && p.Kind != "whitespace-run":
		return "token-fills-window-at-end-of-input"
	case n >= c16W:
		return p.Kind + "-beyond-window"
	}
	return p.Kind + "-below-window"
}

func c16RunWindow(w *fw.W, k int) {
	st, _ := w.State.(*c16State)
	r := w.RNG(k, "window")
	var cell *c16WinGridCell
	if k < len(c16WinGrid) {
		cell = &c16WinGrid[k]
	}
	// an accepted ordinary text with a place for the lexeme
	var base *c16Doc
	var plan *c16WinPlan
	baseKind := ""
	for tries := 0; ; tries++ {
		if tries == 10 {
			w.Count("window_cases_without_accepted_base", 1)
			return
		}
		var d *c16Doc
		bk := "generated"
		if st != nil && len(st.Files) > 0 && r.Chance(1, 3) {
			d = c16Window(r, &st.Files[r.Intn(len(st.Files))])
			bk = "repo-window"
		}
		if d == nil {
			d, bk = c16Generate(r), "generated"
		}
		txt := d.Render()
		if len(txt) > 4000 {
			continue
		}
		if _, err := c16Strict(txt); err != nil {
			continue
		}
		if rd, ok := c16DocFromText(txt); !ok || string(rd.Render()) != string(txt) {
			continue
		}
		p, ok := c16WinPlanFor(r, d, cell)
		if !ok {
			continue
		}
		base, plan, baseKind = d, p, bk
		break
	}
	n, lclass := 0, ""
	if cell != nil {
		n, lclass = c16W+cell.delta, "window-edge"
		w.Count("window_grid_cases", 1)
	} else {
		n, lclass = c16WindowLen(r)
	}
	src := c16WinRender(base, plan, n)
	class := c16WinClass(plan, n)
	muts := []string{baseKind, fmt.Sprintf("%s of %d bytes (%s, %s)", plan.Kind, n, lclass, plan.Place)}

	w.Count("window_cases", 1)
	w.Count("window_cases_"+plan.Kind, 1)
	w.SetAdd("window_kinds", plan.Kind)
	w.SetAdd("window_placements", plan.Kind+"/"+plan.Place)
	w.SetAdd("window_length_classes", lclass)
	w.Max("max_window_lexeme_bytes", int64(n))

	type run struct {
		cfg     *formatter.Config
		viaFile bool
	}
	runs := []run{
		{formatter.DefaultConfig(), true}, // exactly what `elps fmt` does
		{c16RandomConfig(r, c16ModeDefault), r.Bool()},
		{c16RandomConfig(r, c16ModeCompactStrip), r.Bool()},
	}
	if r.Bool() {
		runs = append(runs, run{c16RandomConfig(r, c16ModeStrip), r.Bool()})
	} else {
		runs = append(runs, run{c16RandomConfig(r, c16ModeCompactKeep), r.Bool()})
	}
	if w.Tier != "thorough" {
		// a window case costs about a thousand ordinary ones per configuration:
		// the quick tier formats under the CLI default and ONE of the other three
		runs = []run{runs[0], runs[1+r.Intn(3)]}
	}

	var an *c16Analysis
	reported := map[string]bool{}
	for ri, rn := range runs {
		v := c16JudgeVia(src, rn.cfg, rn.viaFile, &an, true)
		w.Eval(1)
		mode := c16ModeOf(rn.cfg)
		if ri > 0 && mode == c16ModeDefault {
			mode = "custom"
		}
		if ri == 0 {
			outcome := "accepts"
			if an.Rejected {
				outcome = "rejects"
			}
			w.Count("window_inputs_reader_"+outcome, 1)
			w.Count(fmt.Sprintf("window_%s_%s_reader_%s", plan.Kind, lclass, outcome), 1)
			w.SetAdd("window_outcomes", fmt.Sprintf("%s %s: the reader %s", plan.Kind, c16WinSizeWord(n), outcome))
			if an.Rejected {
				if n < c16W-9 {
					// a lexeme that fits, rejected all the same: the place, not the length (Format must agree anyway)
					w.SetAdd("window_rejections_of_texts_whose_lexeme_fits", fmt.Sprintf("%s, %s, unit %q: %s", plan.Kind, plan.Place, plan.Unit, c16ErrClass(fmt.Errorf("%s", an.RejectErr))))
					if w.Verbose {
						w.Logf("rejected although the lexeme fits: %s", an.RejectErr)
					}
				}
				if _, err := c16Strict(src); err == nil {
					// the texts the missed change was about: readable only through a scanner sized to the source
					w.Count("window_inputs_rejected_by_the_reader_but_read_by_a_source_sized_scanner", 1)
				}
			} else if n >= c16W {
				w.Count("window_inputs_accepted_with_lexeme_of_window_size_or_more:"+plan.Kind, 1)
			}
		}
		outc := "accepted"
		if an.Rejected {
			outc = "rejected"
		}
		w.CoverKey(fmt.Sprintf("W|%s|%s|%s|%s|%s", plan.Kind, lclass, plan.Place, mode, outc))
		c16Cover(w, "window", mode, rn.cfg, src, an, v, ri == 0)
		if v.Outcome == "changed" {
			w.Count("outputs_differing_from_input", 1)
		}
		if v.Inconcl != "" {
			w.Count("oracle_model_inconclusive", 1)
			w.Inconclusive(fmt.Sprintf("window case %d: %s", k, v.Inconcl))
			continue
		}
		var finds []c16Verdict
		if v.Family != "" {
			finds = append(finds, v)
		}
		if v.Sec != nil {
			finds = append(finds, *v.Sec)
		}
		if len(finds) == 0 {
			continue
		}
		// the control: same document, same kind of lexeme in the same place, 40 bytes
		ctl := c16WinRender(base, plan, 40)
		var can *c16Analysis
		cv := c16JudgeVia(ctl, rn.cfg, rn.viaFile, &can, true)
		w.Eval(1)
		for _, fv := range finds {
			if cv.Family == fv.Family || (cv.Sec != nil && cv.Sec.Family == fv.Family) {
				// the length plays no part: the ordinary path on the control text
				w.Count("window_findings_reproduced_by_the_short_control", 1)
				cf := cv
				if cv.Family != fv.Family {
					cf = *cv.Sec
				}
				c16Report(w, st, ctl, rn.cfg, rn.viaFile, ri == 0, cf, "window-control", muts, reported)
				continue
			}
			key := c16CollapseKey(fv.Key)
			if ri != 0 {
				// one defect, one key: the same failure under the CLI's DefaultConfig is
				// reported under the default-mode key
				var an2 *c16Analysis
				dv := c16JudgeVia(src, formatter.DefaultConfig(), rn.viaFile, &an2, true)
				dmode := c16ModeOf(rn.cfg)
				if dv.Sec != nil && dv.Sec.Family == fv.Family {
					dv = *dv.Sec
				}
				switch {
				case dv.Family == fv.Family && strings.TrimPrefix(dv.Key, dv.Family+":"+c16ModeDefault) == strings.TrimPrefix(fv.Key, fv.Family+":"+dmode):
					key = c16CollapseKey(dv.Key)
				case dmode == c16ModeDefault:
					key = strings.Replace(key, ":"+c16ModeDefault, ":custom-config", 1)
				}
			}
			key += ":" + class
			if reported[key] {
				continue
			}
			reported[key] = true
			// the smallest text of the class: the lexeme alone, placed the same way
			msrc, mv := src, fv
			{
				empty := &c16Doc{Gaps: []string{""}}
				mp := *plan
				mp.Pos, mp.Before, mp.Prefix = 0, "", ""
				cand := c16WinRender(empty, &mp, n)
				var an3 *c16Analysis
				nv := c16JudgeVia(cand, rn.cfg, rn.viaFile, &an3, true)
				if nv.Sec != nil && nv.Sec.Family == fv.Family {
					nv = *nv.Sec
				}
				if nv.Family == fv.Family {
					msrc, mv = cand, nv
				}
			}
			detail := fmt.Sprintf("config: %s (via %s)\nwindow case: %v\nscanner window (token.DefaultBufSize): %d bytes; lexeme: %d bytes\nthe control (the same text with a 40-byte %s) does not fail this way\n"+
				"--- minimised input (%d bytes) ---\n%s\n--- formatted (%d bytes) ---\n%s\n%s\n--- original input (%d bytes) ---\n%s",
				c16CfgString(rn.cfg), map[bool]string{true: "FormatFile", false: "Format"}[rn.viaFile], muts, c16W, n, plan.Kind,
				len(msrc), c16WinVis(msrc), len(mv.Out), c16WinVis(mv.Out), mv.Detail, len(src), c16WinVis(src))
			w.Violation(key, fmt.Sprintf("%s  [a %s of %d bytes, scanner window %d; %s]", mv.Summary, plan.Kind, n, c16W, plan.Place), detail)
		}
	}
	if w.Verbose {
		w.Logf("window case %d: %v\n--- input (%d bytes) ---\n%s", k, muts, len(src), c16WinVis(src))
	}
}

func c16WinSizeWord(n int) string {
	switch {
	case n < c16W:
		return "shorter than the window"
	case n == c16W:
		return "of exactly the window size"
	}
	return "longer than the window"
}

// c16WinVis shows a text with its long runs elided.
func c16WinVis(b []byte) string {
	s := string(b)
	if len(s) > 1200 {
		s = s[:600] + fmt.Sprintf("…(%d bytes)…", len(s)-1200) + s[len(s)-600:]
	}
	return c16Vis([]byte(s))
}

// c16Driver: the window family must have run, seen every kind, and seen the
// reader both accept and reject; otherwise the run says nothing about the
// accept/reject clause at the window and is inconclusive.
func c16Driver(d *fw.D) {
	if d.Counters["window_cases"] == 0 {
		d.Inconclusive("the scanner-window family generated nothing")
		return
	}
	seen := map[string]bool{}
	for _, k := range c16WinKinds {
		if !seen[k] && d.Counters["window_cases_"+k] == 0 {
			d.Inconclusive("the scanner-window family generated no " + k)
		}
		seen[k] = true
	}
	if d.Counters["window_inputs_reader_accepts"] == 0 || d.Counters["window_inputs_reader_rejects"] == 0 {
		d.Inconclusive(fmt.Sprintf("the scanner-window family saw the reader accept %d and reject %d texts: both outcomes are needed",
			d.Counters["window_inputs_reader_accepts"], d.Counters["window_inputs_reader_rejects"]))
	}
	if d.Counters["window_inputs_rejected_by_the_reader_but_read_by_a_source_sized_scanner"] == 0 {
		d.Inconclusive("no window case was rejected by the sliding-window reader and read by a source-sized scanner: the family did not reach beyond the window")
	}
}
