package props

import (
	"fmt"
	"strconv"
	"strings"

	"verifharness/fw"
	"verifharness/rt"
	"verifharness/sx"
)

// C02, block (a'''): the stack-depth HISTORY of the runtime while a loop frame is live.
//
// The loops of (a), (a'), (a'') run on a shallow stack and their bodies never go deep: the
// frame that an eliminated tail call resumes sits at height 2..10 of a stack that never
// held more than a few dozen frames, so whatever the runtime does when the call stack
// grows (move the frame array, switch representation, spill ...) happens before the loop
// starts or not at all.  Here the stack is driven deep WHILE loop frames are live, to
// depths never reached before in that runtime, and the loop then goes on:
//
//   loop   a tail loop (wrappers, call forms, recursion kinds, definers of the other blocks)
//          whose turns make a NON-tail recursive excursion of a depth that grows from turn
//          to turn through 2^k-1, 2^k, 2^k+1 frames (k = 4..11, thorough ..13) and values in
//          between; 13 kinds of recursion (plain, through a let initialiser, map / foldl
//          callbacks, handler-bind, ignore-errors, funcall, apply, a 2-cycle, a non-final
//          body form, a labels-local function, a dotimes body, with a tail loop of its own
//          at the bottom) x 5 positions of the excursion in the turn (non-final body form
//          before / after the call made for effect, argument of the tail call, let
//          initialiser around it, the test of the exit) and, on chosen turns, a call made
//          for effect from a non-final body form to a function of the cycle (written in 8
//          call forms, behind a tail-position wrapper or not); the loop is started at base
//          depths 0..250 levels
//   walk   tree walks: the loop function itself recurses NON-tail into all children but
//          one (from non-final body forms, argument positions, let initialisers, map
//          callbacks) and walks the remaining child by a tail call; 2- and 3-ary trees
//          (spines, zigzags, combs whose teeth grow along the tail spine, random skewed),
//          self or 2-cycle; the visiting order is fixed by construction
//   ack    Ackermann's function (non-tail self calls in argument position feeding tail
//          self calls), m = 1..3
//
// Oracles, all by construction or from the property text: value; ordered effect trace
// (every call made for effect ran, every excursion returned its depth); number of
// activations; entry heights periodic; CallFrame.TailIterations of the resumed frame
// advances by exactly one per turn and HeightLogical grows (lisp/stack.go, the fields'
// documentation); pushes = pops; only terminal unblocked frames collapsed; the run with a
// dormant debugger gives the same transcript; a second run of the same source in the same
// runtime (whose stack has now been that deep before) gives the same transcript.

var c02Excursions = []string{"plain", "let-init", "map", "foldl", "handler-bind", "ignore-errors", "funcall", "apply",
	"mutual", "non-final-form", "labels-local", "dotimes-body", "bottom-loop"}

// c02ExcursionDefs: (dig d) returns d after recursing d levels deep, never by a tail call.
var c02ExcursionDefs = map[string]string{
	"plain":          `(defun dig (d) (if (<= d 0) 0 (+ 1 (dig (- d 1)))))`,
	"let-init":       `(defun dig (d) (if (<= d 0) 0 (let ([r (dig (- d 1))]) (+ r 1))))`,
	"map":            `(defun dig (d) (if (<= d 0) 0 (+ 1 (car (map 'list (lambda (x) (dig x)) (list (- d 1)))))))`,
	"foldl":          `(defun dig (d) (if (<= d 0) 0 (foldl (lambda (a x) (+ a 1 (dig x))) 0 (list (- d 1)))))`,
	"handler-bind":   `(defun dig (d) (if (<= d 0) 0 (handler-bind ((c02-never (lambda (c &rest a) -1))) (+ 1 (dig (- d 1))))))`,
	"ignore-errors":  `(defun dig (d) (if (<= d 0) 0 (+ 1 (ignore-errors (dig (- d 1))))))`,
	"funcall":        `(defun dig (d) (if (<= d 0) 0 (+ 1 (funcall dig (- d 1)))))`,
	"apply":          `(defun dig (d) (if (<= d 0) 0 (+ 1 (apply dig (list (- d 1))))))`,
	"mutual":         "(defun dig (d) (if (<= d 0) 0 (+ 1 (dig-b (- d 1)))))\n(defun dig-b (d) (if (<= d 0) 0 (+ 1 (dig (- d 1)))))",
	"non-final-form": `(defun dig (d) (if (> d 0) (dig (- d 1)) ()) d)`,
	"labels-local":   `(defun dig (d) (labels ([dg (k) (if (<= k 0) 0 (+ 1 (dg (- k 1))))]) (+ 0 (dg d))))`,
	"dotimes-body":   `(defun dig (d) (if (<= d 0) 0 (let ([r 0]) (dotimes (i 1) (set! r (+ 1 (dig (- d 1))))) r)))`,
	"bottom-loop":    "(defun dig-cnt (k a) (if (<= k 0) a (dig-cnt (- k 1) (+ a 1))))\n(defun dig (d) (if (<= d 0) (- (dig-cnt 7 0) 7) (+ 1 (dig (- d 1)))))",
}

var c02ExcPositions = []string{"form-before-call", "form-after-call", "tail-call-argument", "let-init-around-tail-call", "exit-test"}

// call forms in which the call made for effect is written
var c02SideCallForms = []string{"direct", "thread-first", "thread-last", "funcall", "apply", "apply-list", "unpack", "funcall-function"}

// how a walk reaches the children it does not tail-call
var c02ChildStyles = []string{"non-final-form", "non-final-form-wrapped", "argument", "let-init", "map-callback"}

var c02TreeShapes = []string{"spine", "zigzag", "growing-comb", "random-skewed", "spine-of-combs"}

type c02Dep struct {
	family string // loop | walk | ack
	sh     c02Shape
	base   int // levels of non-tail recursion below the start of the loop
	// loop
	exc, pos  string
	sideEvery int   // the call for effect is made on turns with n = 0 (mod sideEvery)
	sideOff   []int // per function of the cycle: which function it calls for effect (offset in the cycle)
	sideWrap  int   // index into c02Wrappers, -1 none
	sideCall  string
	depths    []int // excursion depth (levels) per turn
	// walk
	arity    int
	tailSlot int      // the child walked by the tail call
	emitAt   int      // the node is emitted after this many non-tail children
	styles   []string // per non-tail child (in body order)
	tree     string
	kids     [][]int // kids[slot][node] = child or -1
	// ack
	m, n int
}

func (c *c02Dep) class() string {
	switch c.family {
	case "walk":
		return fmt.Sprintf("walk/children-by=%s/arity%d/tree=%s/%s", strings.Join(c.styles, "+"), c.arity, c.tree, c02ShapeKey(c.sh))
	case "ack":
		return fmt.Sprintf("ackermann/m=%d/%s", c.m, c02ShapeKey(c.sh))
	}
	return fmt.Sprintf("loop/excursion=%s/at=%s/%s", c.exc, c.pos, c02ShapeKey(c.sh))
}

func (c *c02Dep) name() string {
	switch c.family {
	case "walk":
		return fmt.Sprintf("walk of a %d-ary %s tree of %d nodes (tail call on child %d, node emitted after %d children, other children by %s) base=%d %s",
			c.arity, c.tree, len(c.kids[0]), c.tailSlot, c.emitAt, strings.Join(c.styles, "+"), c.base, c.sh.name())
	case "ack":
		return fmt.Sprintf("(ack %d %d) base=%d %s", c.m, c.n, c.base, c.sh.name())
	}
	sw := "none"
	if c.sideWrap >= 0 {
		sw = c02Wrappers[c.sideWrap].name
	}
	return fmt.Sprintf("loop with excursions %s at %s of depths %v, call for effect every %d turn(s) to cycle offsets %v written %s behind %s, base=%d, %s",
		c.exc, c.pos, c.depths, c.sideEvery, c.sideOff, c.sideCall, sw, c.base, c.sh.name())
}

func c02DepthExhaustive() int { return len(c02Excursions) * len(c02ExcPositions) * 3 }

// c02DepthSchedule: excursion depths per turn, in recursion levels.  The depths ascend
// through heights of 2^k-1, 2^k, 2^k+1 frames (a level costs 1..4 frames, so the target is
// divided by a drawn number of frames per level) and drawn values in between; turns without
// an excursion are interleaved and a few shallow turns follow the deepest one.
func c02DepthSchedule(r *fw.RNG, tier string) []int {
	kmax, lim := 11, 800
	if tier == "thorough" {
		kmax, lim = 13, 2500
	}
	fpl := r.Range(1, 4)
	var ds []int
	add := func(d int) {
		if d > lim {
			d = lim - r.Intn(8)
		}
		if d < 1 {
			d = 1
		}
		ds = append(ds, d)
		if r.Chance(1, 3) {
			ds = append(ds, 0) // a turn that stays shallow
		}
	}
	for k := r.Range(3, 6); k <= kmax; k++ {
		if r.Chance(1, 5) {
			continue
		}
		t := (1 << k) + r.Range(-1, 1)
		add((t + fpl - 1) / fpl)
		if r.Chance(1, 3) {
			// a value strictly between this power of two and the next
			add(((1 << k) + 1 + r.Intn(1<<k) + fpl - 1) / fpl)
		}
	}
	// the loop goes on after the deepest turn
	for i, n := 0, r.Range(3, 6); i < n; i++ {
		ds = append(ds, []int{0, 1, 2, r.Range(0, 40)}[r.Intn(4)])
	}
	return ds
}

var c02DepthBases = []int{0, 0, 0, 3, 10, 20, 29, 31, 40, 62, 100, 250}

// c02DepthCaseFor: j indexes the block; idx (the global index) seeds the drawn dimensions.
func c02DepthCaseFor(w *fw.W, idx, j int, tier string) *c02Dep {
	r := w.RNG(idx, "depth-history")
	nw, ne := len(c02Wrappers), len(c02ExitWrappers)
	definers := []string{"defun", "labels", "set-lambda"}
	c := &c02Dep{family: "loop", sideWrap: -1}
	drawChain := func(max int) []int {
		ch := make([]int, r.Range(0, max))
		for i := range ch {
			if r.Chance(1, 3) {
				ch[i] = nw + r.Intn(ne)
			} else {
				ch[i] = r.Intn(nw)
			}
		}
		return ch
	}
	c.base = fw.Pick(r, c02DepthBases)
	if j < c02DepthExhaustive() {
		// every (excursion kind, position, recursion kind); the rest rotates or is drawn
		c.exc = c02Excursions[j%len(c02Excursions)]
		rest := j / len(c02Excursions)
		c.pos = c02ExcPositions[rest%len(c02ExcPositions)]
		c.sh.cycle = rest/len(c02ExcPositions) + 1
		c.sh.definer = definers[(j/7)%3]
		c.sh.call = c02ExitCallForms[(j/3)%len(c02ExitCallForms)]
		if j%2 == 1 {
			c.sh.chain = drawChain(2)
		}
	} else {
		switch k := r.Intn(10); {
		case k < 5:
		case k < 9:
			c.family = "walk"
		default:
			c.family = "ack"
		}
		c.exc = fw.Pick(r, c02Excursions)
		c.pos = fw.Pick(r, c02ExcPositions)
		c.sh.cycle = r.Range(1, 3)
		c.sh.definer = fw.Pick(r, definers)
		c.sh.call = fw.Pick(r, c02ExitCallForms)
		c.sh.chain = drawChain(3)
	}
	switch c.family {
	case "loop":
		c.sideEvery = r.Range(1, 3)
		for i := 0; i < c.sh.cycle; i++ {
			c.sideOff = append(c.sideOff, r.Intn(c.sh.cycle))
		}
		if r.Chance(1, 2) {
			// the function the first frame of the loop belongs to calls itself for effect
			c.sideOff[0] = 0
		}
		if r.Chance(1, 2) {
			c.sideWrap = r.Intn(nw)
		}
		c.sideCall = fw.Pick(r, c02SideCallForms)
		c.depths = c02DepthSchedule(r, tier)
	case "walk":
		c.sh.cycle = r.Range(1, 2)
		if c.sh.call == "call-form-by-turn" || c.sh.call == "thread-first-2" || c.sh.call == "thread-last-2" {
			c.sh.call = fw.Pick(r, c02SideCallForms) // the forms written for (n acc) loops read the turn variable
		}
		c.sh.chain = c.sh.chain[:0]
		for i, n := 0, r.Range(0, 2); i < n; i++ {
			c.sh.chain = append(c.sh.chain, r.Intn(nw)) // the exit wrappers read the turn variable n
		}
		c.arity = r.Range(2, 3)
		c.tailSlot = r.Intn(c.arity)
		c.emitAt = r.Intn(c.arity) // 0 .. arity-1 non-tail children before the node itself
		for i := 0; i < c.arity-1; i++ {
			c.styles = append(c.styles, fw.Pick(r, c02ChildStyles))
		}
		if r.Chance(1, 2) {
			c.styles[r.Intn(len(c.styles))] = "non-final-form"
		}
		c.tree = fw.Pick(r, c02TreeShapes)
		c.kids = c02DepthTree(r, c.tree, c.arity, c.tailSlot, tier)
	case "ack":
		c.sh.cycle = 1
		if c.sh.call == "call-form-by-turn" {
			c.sh.call = "direct"
		}
		c.sh.chain = c.sh.chain[:0]
		for i, n := 0, r.Range(0, 2); i < n; i++ {
			c.sh.chain = append(c.sh.chain, r.Intn(nw))
		}
		c.m = r.Range(1, 3)
		switch c.m {
		case 1:
			c.n = fw.Pick(r, []int{14, 15, 16, 30, 31, 32, 62, 63, 64, 126, 127, 128, 200, 254, 255, 256})
		case 2:
			c.n = fw.Pick(r, []int{6, 7, 13, 14, 15, 16, 29, 30, 31, 32, 61, 62, 63, 64, 100})
		default:
			c.n = r.Range(1, 4)
		}
	}
	return c
}

// --- trees ------------------------------------------------------------------------------

// c02DepthTree builds a tree as child tables.  "Deep" always means deep along a NON-tail
// slot (those levels are real frames); the tail slot carries the turns of the loops.
func c02DepthTree(r *fw.RNG, shape string, arity, tailSlot int, tier string) [][]int {
	lim := 1300
	if tier == "thorough" {
		lim = 9000
	}
	kids := make([][]int, arity)
	newNode := func() int {
		for s := range kids {
			kids[s] = append(kids[s], -1)
		}
		return len(kids[0]) - 1
	}
	size := func() int { return len(kids[0]) }
	nonTail := func() int {
		s := r.Intn(arity - 1)
		if s >= tailSlot {
			s++
		}
		return s
	}
	// a chain of `depth` nodes hanging from slot `slot` of `from`; every node of it gets, on
	// its tail slot, a short tail chain whose nodes have a child of their own on a non-tail slot
	var spine func(from, slot, depth int, decorate bool) int
	spine = func(from, slot, depth int, decorate bool) int {
		cur := from
		for i := 0; i < depth && size() < lim; i++ {
			n := newNode()
			kids[slot][cur] = n
			if decorate && r.Chance(2, 3) {
				t := n
				for q, m := 0, r.Range(1, 2); q < m; q++ {
					x := newNode()
					kids[tailSlot][t] = x
					if r.Chance(2, 3) {
						kids[nonTail()][x] = newNode()
					}
					t = x
				}
			}
			cur = n
			if shape == "zigzag" && r.Chance(1, 2) {
				slot = nonTail()
			}
		}
		return cur
	}
	// depths in levels: a level of a walk costs 2..4 frames
	target := func() int {
		k := r.Range(4, 10)
		return ((1<<k)+r.Range(-1, 1))/r.Range(2, 4) + 1
	}
	root := newNode()
	switch shape {
	case "spine", "zigzag":
		spine(root, nonTail(), target()+r.Intn(20), true)
	case "growing-comb", "spine-of-combs":
		// along the tail spine from the root (the turns of the root's loop) every node has a
		// non-tail tooth; the teeth grow, and the nodes after the longest tooth have small ones
		cur := root
		if shape == "spine-of-combs" {
			cur = spine(root, nonTail(), r.Range(2, 40), false)
		}
		d := r.Range(1, 6)
		for size() < lim && d < 700 {
			spine(cur, nonTail(), d, r.Chance(1, 2))
			n := newNode()
			kids[tailSlot][cur] = n
			cur = n
			d = d*r.Range(3, 5)/2 + r.Range(0, 2)
		}
		for i, m := 0, r.Range(3, 6); i < m; i++ {
			spine(cur, nonTail(), r.Range(1, 3), true)
			n := newNode()
			kids[tailSlot][cur] = n
			cur = n
		}
	default: // random-skewed: grow from a frontier, preferring non-tail slots of the newest nodes
		want := r.Range(40, 600)
		frontier := []int{root}
		for size() < want && len(frontier) > 0 {
			i := len(frontier) - 1
			if r.Chance(1, 4) {
				i = r.Intn(len(frontier))
			}
			p := frontier[i]
			s := nonTail()
			if r.Chance(1, 4) {
				s = tailSlot
			}
			if kids[s][p] >= 0 {
				frontier = append(frontier[:i], frontier[i+1:]...)
				continue
			}
			n := newNode()
			kids[s][p] = n
			frontier = append(frontier, n)
		}
	}
	return kids
}

// c02WalkOrder: the nodes in the order the walk emits them, and the number of activations.
func (c *c02Dep) walkOrder() (order []int, calls int) {
	var slots []int // body order: the non-tail slots ascending, then the tail slot
	for s := 0; s < c.arity; s++ {
		if s != c.tailSlot {
			slots = append(slots, s)
		}
	}
	// iterative along the tail slot, recursive into the others (as the program is)
	var walk func(i int)
	walk = func(i int) {
		for {
			calls++
			if i < 0 {
				return
			}
			for k, s := range slots {
				if k == c.emitAt {
					order = append(order, i)
				}
				walk(c.kids[s][i])
			}
			if c.emitAt >= len(slots) {
				order = append(order, i)
			}
			i = c.kids[c.tailSlot][i]
		}
	}
	walk(0)
	return order, calls
}

// --- programs ---------------------------------------------------------------------------

const c02DownDef = `(defun c02-down (b k) (if (<= b 0) (funcall k) (+ 0 (c02-down (- b 1) k))))`

func c02Ints(xs []int) []*sx.N {
	out := make([]*sx.N, len(xs))
	for i, x := range xs {
		out[i] = sx.I(int64(x))
	}
	return out
}

// c02DepDefine renders the functions (name, formals, body forms) with the definer of the shape
// and the start expression at the base depth of the case.
func (c *c02Dep) define(pre []*sx.N, names []string, formals []string, bodies [][]*sx.N, start, after *sx.N) string {
	var fs []*sx.N
	for _, f := range formals {
		fs = append(fs, sx.Y(f))
	}
	fl := sx.L(fs...)
	begin := start
	if c.base > 0 {
		begin = sx.Call("c02-down", sx.I(int64(c.base)), sx.Call("lambda", sx.L(), start))
		pre = append(pre, sx.RawText(c02DownDef))
	}
	if after != nil {
		begin = sx.Call("progn", begin, after)
	}
	switch c.sh.definer {
	case "labels":
		var bs []*sx.N
		for i, nm := range names {
			bs = append(bs, sx.L(append([]*sx.N{sx.Y(nm), fl.Clone()}, bodies[i]...)...))
		}
		return sx.Render(append(pre, sx.Call("labels", sx.L(bs...), begin)), nil)
	case "set-lambda":
		for i, nm := range names {
			pre = append(pre, sx.Call("set", sx.QY(nm), sx.Call("lambda", append([]*sx.N{fl.Clone()}, bodies[i]...)...)))
		}
	default:
		for i, nm := range names {
			pre = append(pre, sx.Call("defun", append([]*sx.N{sx.Y(nm), fl.Clone()}, bodies[i]...)...))
		}
	}
	return sx.Render(append(pre, begin), nil)
}

func (c *c02Dep) wrapTail(call *sx.N) *sx.N {
	for k := len(c.sh.chain) - 1; k >= 0; k-- {
		call = c02Wrap(c.sh.chain[k]).wrap(call, k)
	}
	return call
}

func (c *c02Dep) program() string {
	switch c.family {
	case "walk":
		return c.walkProgram()
	case "ack":
		return c.ackProgram()
	}
	return c.loopProgram()
}

func (c *c02Dep) loopProgram() string {
	N := len(c.depths)
	names := []string{"lp-a", "lp-b", "lp-c"}[:c.sh.cycle]
	pre := []*sx.N{
		sx.Call("set", sx.QY("c02-depths"), sx.Q(sx.L(c02Ints(c.depths)...))),
		sx.RawText(fmt.Sprintf("(defun c02-depth-of (n) (if (> n 0) (nth c02-depths (- %d n)) 0))", N)),
		sx.RawText(c02ExcursionDefs[c.exc]),
	}
	E := func() *sx.N {
		return sx.Call("verif:probe", sx.QY("dig"), sx.Call("dig", sx.Call("c02-depth-of", sx.Y("n"))))
	}
	var bodies [][]*sx.N
	for i := range names {
		next := names[(i+1)%c.sh.cycle]
		acc := sx.Call("+", sx.Y("acc"), sx.I(1))
		if c.pos == "tail-call-argument" {
			acc = sx.Call("+", sx.Y("acc"), sx.I(1), sx.Call("-", E(), sx.Call("c02-depth-of", sx.Y("n"))))
		}
		call := c.wrapTail(c02Call(c.sh.call, next, sx.Call("-", sx.Y("n"), sx.I(1)), acc))
		if c.pos == "let-init-around-tail-call" {
			call = sx.Call("let", sx.L(sx.B(sx.Y("c02e"), E())), call)
		}
		limit := sx.I(0)
		if c.pos == "exit-test" {
			limit = sx.Call("*", sx.I(0), E())
		}
		last := sx.Call("if", sx.Call("<=", sx.Y("n"), limit), sx.Y("acc"), call)
		target := names[(i+c.sideOff[i])%c.sh.cycle]
		sc := c02Call(c.sideCall, target, sx.I(-1), sx.Y("n"))
		if c.sideWrap >= 0 {
			sc = c02Wrappers[c.sideWrap].wrap(sc, 9)
		}
		when := sx.Call(">", sx.Y("n"), sx.I(0))
		if c.sideEvery > 1 {
			when = sx.Call("and", when, c02Turn(c.sideEvery, 0))
		}
		side := sx.Call("if", when, sc, sx.Nil())
		exc := sx.Call("if", sx.Call(">", sx.Y("n"), sx.I(0)), E(), sx.Nil())
		// (verif:depth) is a body form of its own: it reads the counters of its caller's frame
		body := []*sx.N{sx.Call("verif:depth"), sx.Call("if", sx.Call("<", sx.Y("n"), sx.I(0)), sx.Call("verif:probe", sx.QY("side"), sx.Y("acc")), sx.Nil())}
		switch c.pos {
		case "form-before-call":
			body = append(body, exc, side)
		case "form-after-call":
			body = append(body, side, exc)
		default:
			body = append(body, side)
		}
		bodies = append(bodies, append(body, last))
	}
	return c.define(pre, names, []string{"n", "acc"}, bodies, sx.Call(names[0], sx.I(int64(N)), sx.I(0)), nil)
}

// loopExpect: the effect trace of the loop, event by event, and its activations in order
// (true: a turn of the loop, false: the activation of a call made for effect).
func (c *c02Dep) loopExpect() (trace []string, sideCalls int, acts []bool) {
	N := len(c.depths)
	side := func(n int) {
		sideCalls++
		acts = append(acts, false)
		trace = append(trace, fmt.Sprintf("side:%d", n))
		if c.pos == "exit-test" {
			trace = append(trace, "dig:0") // the callee evaluates its exit test as well
		}
	}
	for t := 0; t < N; t++ {
		n := N - t
		acts = append(acts, true)
		dig := fmt.Sprintf("dig:%d", c.depths[t])
		if c.pos == "form-before-call" {
			trace = append(trace, dig)
		}
		if n%c.sideEvery == 0 {
			side(n)
		}
		if c.pos != "form-before-call" {
			trace = append(trace, dig)
		}
	}
	if c.pos == "exit-test" {
		trace = append(trace, "dig:0") // the last activation (n = 0)
	}
	acts = append(acts, true)
	return trace, sideCalls, acts
}

func (c *c02Dep) walkProgram() string {
	names := []string{"wk-a", "wk-b"}[:c.sh.cycle]
	pre := []*sx.N{sx.Call("set", sx.QY("c02-out"), sx.Q(sx.L()))}
	for s := 0; s < c.arity; s++ {
		pre = append(pre, sx.Call("set", sx.QY(fmt.Sprintf("c02-k%d", s)), sx.Call("vector", c02Ints(c.kids[s])...)))
	}
	var slots []int
	for s := 0; s < c.arity; s++ {
		if s != c.tailSlot {
			slots = append(slots, s)
		}
	}
	child := func(s int) *sx.N { return sx.Call("aref", sx.Y(fmt.Sprintf("c02-k%d", s)), sx.Y("i")) }
	leaf := func() *sx.N { return sx.Call("<", sx.Y("i"), sx.I(0)) }
	emit := sx.Call("if", leaf(), sx.Nil(), sx.Call("set", sx.QY("c02-out"), sx.Call("cons", sx.Y("i"), sx.Y("c02-out"))))
	var bodies [][]*sx.N
	for i := range names {
		next := names[(i+1)%c.sh.cycle]
		body := []*sx.N{sx.Call("verif:depth")}
		for k, s := range slots {
			if k == c.emitAt {
				body = append(body, emit.Clone())
			}
			call := sx.Call(next, child(s), sx.Y("acc"))
			switch c.styles[k] {
			case "non-final-form-wrapped":
				call = c02Wrappers[(s+k+len(c.kids[0]))%len(c02Wrappers)].wrap(call, 8)
			case "argument":
				call = sx.Call("+", sx.I(0), call)
			case "let-init":
				call = sx.Call("let", sx.L(sx.B(sx.Y("c02r"), call)), sx.Y("c02r"))
			case "map-callback":
				call = sx.Call("map", sx.QY("list"), sx.Call("lambda", sx.L(sx.Y("c")), sx.Call(next, sx.Y("c"), sx.Y("acc"))), sx.Call("list", child(s)))
			}
			body = append(body, sx.Call("if", leaf(), sx.Nil(), call))
		}
		if c.emitAt >= len(slots) {
			body = append(body, emit.Clone())
		}
		tail := c.wrapTail(c02CallArgs(c.sh.call, next, []*sx.N{child(c.tailSlot), sx.Y("acc")}))
		bodies = append(bodies, append(body, sx.Call("if", leaf(), sx.Y("acc"), tail)))
	}
	return c.define(pre, names, []string{"i", "acc"}, bodies, sx.Call(names[0], sx.I(0), sx.I(0)), sx.Call("reverse", sx.QY("list"), sx.Y("c02-out")))
}

func (c *c02Dep) ackProgram() string {
	m1 := func() *sx.N { return sx.Call("-", sx.Y("m"), sx.I(1)) }
	inner := sx.Call("ack", sx.Y("m"), sx.Call("-", sx.Y("n"), sx.I(1)))
	body := sx.Call("cond",
		sx.L(sx.Call("=", sx.Y("m"), sx.I(0)), sx.Call("+", sx.Y("n"), sx.I(1))),
		sx.L(sx.Call("=", sx.Y("n"), sx.I(0)), c.wrapTail(c02CallArgs(c.sh.call, "ack", []*sx.N{m1(), sx.I(1)}))),
		sx.L(sx.Y("else"), c.wrapTail(c02CallArgs(c.sh.call, "ack", []*sx.N{m1(), inner}))))
	return c.define(nil, []string{"ack"}, []string{"m", "n"}, [][]*sx.N{{sx.Call("verif:depth"), body}}, sx.Call("ack", sx.I(int64(c.m)), sx.I(int64(c.n))), nil)
}

func c02Ack(m, n int) int {
	switch m {
	case 0:
		return n + 1
	case 1:
		return n + 2
	case 2:
		return 2*n + 3
	}
	return 1<<(n+3) - 3
}

// --- running ----------------------------------------------------------------------------

// c02ExecTwice runs src in a fresh runtime and then once more in the same runtime.
func c02ExecTwice(src string, o rt.Opts) (first, second c02Tr) {
	m := &c02Mon{watch: true}
	c02Cur = m
	r := rt.New(o)
	m.live = func() bool { return len(r.DepthSamples) > 0 }
	t := r.Run("c02", src)
	first = c02Tr{t: t, samples: r.DepthSamples, mon: *m}
	m2 := &c02Mon{}
	c02Cur = m2
	r.DepthSamples = nil
	t2 := r.Run("c02", src)
	c02Cur = nil
	second = c02Tr{t: t2, samples: r.DepthSamples, mon: *m2}
	return first, second
}

func c02RunDepth(w *fw.W, c *c02Dep) {
	src := c.program()
	key := c.class()
	w.Count("depth_history_cases", 1)
	on, again := c02ExecTwice(src, rt.Opts{})
	off := c02Exec(src, rt.Opts{Debugger: true})
	w.Eval(3)
	w.Logf("depth-history %s\n%s=> on %s / again %s / off %s\n on trace %s\n heights %s\n stack array moved at heights %v (live loop: %d)", c.name(), src,
		c02Clip(on.t.Outcome()), c02Clip(again.t.Outcome()), c02Clip(off.t.Outcome()), c02Clip(on.t.TraceString()), c02Heights(on.samples, 40), on.mon.moveHeights, on.mon.movesLive)
	twin := !c02LimitErr(off.t)
	if !twin {
		w.Count("depth_history_off_run_hit_limit", 1)
	}
	detail := func(extra string) string {
		return src + "\n" + extra + "\non:    " + c02Clip(on.t.Outcome()) + " " + on.t.Msg + "\noff:   " + c02Clip(off.t.Outcome()) + " " + off.t.Msg +
			fmt.Sprintf("\nthe frame array of the call stack moved at heights %v, %d time(s) while the loop was live; max height %d", on.mon.moveHeights, on.mon.movesLive, on.mon.maxHeight)
	}
	// a deviation from what the construction fixes is a transparency violation when the
	// run without elimination does what the construction says
	blame := func(oracle string, offOK bool) string {
		if twin && offOK {
			return "stack-depth-history:tro-changes-" + oracle + ":" + key
		}
		return "stack-depth-history:" + oracle + ":" + key
	}
	var want, wantTrace string
	wantSamples := -1
	switch c.family {
	case "loop":
		want = fmt.Sprint(len(c.depths))
		tr, _, acts := c.loopExpect()
		wantTrace = strings.Join(tr, "|")
		wantSamples = len(acts)
	case "walk":
		order, calls := c.walkOrder()
		var sb strings.Builder
		sb.WriteString("'(")
		for i, x := range order {
			if i > 0 {
				sb.WriteByte(' ')
			}
			sb.WriteString(strconv.Itoa(x))
		}
		sb.WriteByte(')')
		want, wantSamples = sb.String(), calls
	case "ack":
		want = fmt.Sprint(c02Ack(c.m, c.n))
	}
	if on.t.IsErr || on.t.Value != want {
		if c02LimitErr(on.t) && !twin {
			// neither run fits the stack limit: outside the property
			w.Count("depth_history_on_run_hit_limit", 1)
			return
		}
		w.Violation(blame("result", !off.t.IsErr && off.t.Value == want),
			fmt.Sprintf("%s gave %s, by construction %s (without elimination: %s)", c.name(), c02Clip(on.t.Outcome()), c02Clip(want), c02Clip(off.t.Outcome())),
			detail("want:  "+want+"\ngot:   "+on.t.Value))
		return
	}
	if c.family == "loop" {
		_, wantSide, _ := c.loopExpect()
		if got := strings.Count(on.t.TraceString(), "side:"); got != wantSide {
			w.Violation(blame("non-final-call-dropped", strings.Count(off.t.TraceString(), "side:") == wantSide),
				fmt.Sprintf("the turns of the loop make %d calls for effect from non-final body forms, %d ran: %s", wantSide, got, c.name()),
				detail("want trace: "+wantTrace+"\ngot trace:  "+on.t.TraceString()))
			return
		}
		if got := on.t.TraceString(); got != wantTrace {
			w.Violation(blame("effect-trace", off.t.TraceString() == wantTrace), "the effects of the turns differ from the construction: "+c.name(),
				detail("want trace: "+wantTrace+"\ngot trace:  "+got))
			return
		}
	}
	if wantSamples >= 0 && len(on.samples) != wantSamples {
		w.Violation(blame("activations", len(off.samples) == wantSamples),
			fmt.Sprintf("%d activations of the loop functions by construction, %d ran: %s", wantSamples, len(on.samples), c.name()), detail(""))
		return
	}
	if c.family == "loop" {
		// the entries of the turns; the activations of the calls made for effect are new frames
		_, _, acts := c.loopExpect()
		var turns []rt.DepthSample
		for i, main := range acts {
			if main {
				turns = append(turns, on.samples[i])
			} else if on.samples[i].TailIter != 0 {
				w.Violation("stack-depth-history:tail-iterations-on-a-new-frame:"+key,
					fmt.Sprintf("activation %d is a call made for effect from a non-final body form, it finds TailIterations = %d on its frame: %s", i, on.samples[i].TailIter, c.name()), detail(""))
				return
			}
		}
		on.samples = turns
		cyc := c.sh.cycle
		period := cyc
		for _, x := range c.sh.chain {
			if x >= len(c02Wrappers) {
				period = c02ExitPeriod
			}
		}
		if c.sh.call == "call-form-by-turn" {
			period = c02ExitPeriod
		}
		for i := 2 * period; i < len(on.samples); i++ {
			// "does not grow": a loop may settle on another frame during its first period (a
			// funcall frame below the start of the loop becomes the frame it runs in once a
			// turn makes its tail call through funcall), so the first period is not a reference
			if ref := on.samples[i-period]; on.samples[i].Height > ref.Height {
				w.Violation("stack-depth-history:tail-loop-stack-grows:"+key,
					fmt.Sprintf("entry %d of the loop at height %d, entry %d at height %d: %s", i-period, ref.Height, i, on.samples[i].Height, c.name()),
					detail("heights: "+c02Heights(on.samples, 60)))
				return
			}
		}
		// Whichever frame the loop is resumed in (the first function's own frame, or a
		// funcall / apply frame beneath it), every full turn of the cycle is a tail iteration
		// counted on some live frame, and the frames it elided are added to the logical
		// height that every frame pushed above inherits (lisp/stack.go, CallFrame).  Judged
		// when every turn takes the same path (otherwise the loop moves between frames - a
		// funcall turn collapses onto a funcall frame beneath the loop - and the frame that
		// held the count is itself elided), from the second turn of the cycle on.
		for i := 2 * cyc; period == cyc && i < len(on.samples); i++ {
			s, ref := on.samples[i], on.samples[i-cyc]
			if s.TailSum <= ref.TailSum {
				w.Violation("stack-depth-history:tail-iterations-do-not-advance:"+key,
					fmt.Sprintf("entry %d of the loop finds %d tail iterations counted on the live frames, entry %d (one turn of the cycle earlier) found %d: %s", i, s.TailSum, i-cyc, ref.TailSum, c.name()),
					detail("tail iterations on the live frames at the entries: "+c02TailIters(on.samples, 60)))
				return
			}
			if s.Logical <= ref.Logical {
				w.Violation("stack-depth-history:logical-height-does-not-grow:"+key,
					fmt.Sprintf("entry %d of the loop finds HeightLogical = %d on its frame, entry %d (one turn of the cycle earlier) found %d: %s", i, s.Logical, i-cyc, ref.Logical, c.name()), detail(""))
				return
			}
			w.Count("depth_history_turns_with_frame_counters_judged", 1)
		}
	}
	if on.mon.badElide != "" {
		w.Violation("stack-depth-history:bad-elision:"+key, on.mon.badElide, detail(""))
		return
	}
	if on.mon.pushes != on.mon.pops || off.mon.pushes != off.mon.pops {
		w.Violation("push-pop-imbalance", fmt.Sprintf("pushes=%d pops=%d (off: %d/%d)", on.mon.pushes, on.mon.pops, off.mon.pushes, off.mon.pops), src)
		return
	}
	if twin {
		if d := c02Same(on.t, off.t); d != "" {
			w.Violation("stack-depth-history:tro-changes-result:"+key, "elimination on/off differ: "+c02Clip(d)+": "+c.name(), detail(""))
			return
		}
		if off.mon.elideEvents != 0 {
			w.Violation("debugger-does-not-disable-tro", "tail elision happened with a debugger attached", src)
			return
		}
		w.Count("depth_history_twins_compared", 1)
	}
	if d := c02Same(on.t, again.t); d != "" {
		w.Violation("stack-depth-history:second-run-in-same-runtime-differs:"+key,
			"the same source run twice in one runtime (the second time on a stack that has been as deep before): "+c02Clip(d)+": "+c.name(), detail(""))
		return
	}
	w.Count("depth_history_cases_judged", 1)
	w.Count("depth_history_"+c.family+"_cases_judged", 1)
	w.Count("depth_history_stack_array_moves_under_live_loop", on.mon.movesLive)
	w.Count("tail_elide_events", on.mon.elideEvents)
	w.Count("elided_frames", on.mon.elidedFrames)
	w.Count("depth_samples", int64(len(on.samples)))
	w.Max("depth_history_max_physical_height", int64(on.mon.maxHeight))
	for k := 4; k < 20; k++ {
		if on.mon.maxHeight > 1<<k {
			w.SetAdd("depth_history_heights_exceeded_under_live_loop", fmt.Sprintf("2^%02d", k))
		}
	}
	w.SetAdd("depth_history_base_depths", fmt.Sprintf("%03d", c.base))
	switch c.family {
	case "loop":
		w.SetAdd("depth_history_excursions_seen", c.exc+"@"+c.pos)
		w.CoverKey(fmt.Sprintf("depth|loop|%s|%s|%s|%v|%d", c.exc, c.pos, c02ShapeKey(c.sh), c.depths, c.base))
	case "walk":
		w.SetAdd("depth_history_walks_seen", fmt.Sprintf("%s/arity%d/%s", c.tree, c.arity, strings.Join(c.styles, "+")))
		w.CoverKey(fmt.Sprintf("depth|walk|%s|%d|%v|%d|%s|%d", c.tree, c.arity, c.styles, len(c.kids[0]), c02ShapeKey(c.sh), c.base))
	case "ack":
		w.CoverKey(fmt.Sprintf("depth|ack|%d|%d|%s|%d", c.m, c.n, c02ShapeKey(c.sh), c.base))
	}
	for _, x := range c.sh.chain {
		w.SetAdd("wrappers_seen", c02Wrap(x).name)
	}
	w.SetAdd("call_forms_seen", c.sh.call)
	if w.WantSample() && c.family == "loop" && len(src) < 1500 {
		w.Sample(map[string]any{"depth_history_case": c.name(), "source": src})
	}
}

func c02TailIters(s []rt.DepthSample, max int) string {
	var sb strings.Builder
	for i, d := range s {
		if i >= max {
			sb.WriteString(" …")
			break
		}
		fmt.Fprintf(&sb, " %d", d.TailSum)
	}
	return sb.String()
}

// c02Driver: the depth-history block must have run and reached the heights it is about.
func c02Driver(d *fw.D) {
	l := c02Layout(d.Tier)
	if got := d.Counters["depth_history_cases_judged"]; got < int64(l.nDepth*3/4) {
		d.Inconclusive(fmt.Sprintf("depth-history block: %d of %d cases judged", got, l.nDepth))
	}
	for _, f := range []string{"loop", "walk", "ack"} {
		if d.Counters["depth_history_"+f+"_cases_judged"] == 0 {
			d.Inconclusive("depth-history block: no " + f + " case judged")
		}
	}
	if got, want := d.Maxes["depth_history_max_physical_height"], int64(pick(d.Tier, 1024, 4096)); got <= want {
		d.Inconclusive(fmt.Sprintf("depth-history block: the deepest stack under a live loop had %d frames, the block is meant to exceed %d", got, want))
	}
	if got := len(d.Sets["depth_history_excursions_seen"]); got < len(c02Excursions)*len(c02ExcPositions) {
		d.Inconclusive(fmt.Sprintf("depth-history block: %d of %d (excursion kind, position) pairs judged", got, len(c02Excursions)*len(c02ExcPositions)))
	}
	c02CalFloor(d, l.nCallee)
}
