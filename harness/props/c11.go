package props

import (
	"fmt"
	"sort"
	"strings"

	"github.com/luthersystems/elps/lisp"

	"verifharness/fw"
	"verifharness/rt"
	"verifharness/tree"
)

// C11 — sharing, copying and mutation follow the documented discipline.
// History + heap model: every step is one container operation over a heap of
// named global values in ONE real runtime; after every step every live value is
// snapshotted structurally and compared with the model's heap.

func init() {
	fw.Register(&fw.Prop{
		ID:    "C11",
		Level: "exploration",
		Rule: "histories of 12-70 container operations (constructors, views slice/cdr/rest incl. views of views, non-mutating append/append-bytes/concat/cons/reverse/map/select/reject/zip/insert-index/insert-sorted/assoc/dissoc/keys, mutators append!/append-bytes!/assoc!/dissoc!/stable-sort, containers stored in containers, quoted literals) over a heap of aliased lists, vectors, byte strings and sorted maps; operands are biased toward recent results, views of append results and zero-length appends; " +
			"containers are also BUILT FROM THE ELEMENTS OF LIVE CONTAINERS THROUGH A CALL (apply / unpack / thread-last of list, vector, sorted-map, concat, append, cons with 0-2 leading arguments, the applied list possibly a view taken in the same expression; funcall with the elements written out; map identity; folds that rebuild; user functions and (compose identity list) handing back their &rest list; append! itself reached through apply), singly, twice from one source, or mutated in the same expression: the result is a new value in the model and never aliases its source; " +
			"the operations are also written in EVERY CALL FORM their docstrings give them (stable-sort with < or > as symbol / quoted / #' / lambda and the optional key-fun -- identity, negation, a non-injective key, a constant key, first over rows -- on a named value or on a slice / cdr / rest view taken in the same expression, a predicate that looks into rows; insert-sorted with key-fun, over descending sequences, over rows; search-sorted reading a live sequence; append! with several values, live containers among them; assoc! / dissoc! / assoc / dissoc nested in one expression, (assoc () k v); append-bytes! / append-bytes / append 'bytes with bytes, integer lists and vectors; zip of one and three lists; concat of none and three), the heap model unchanged; " +
			"after every operation every live value is compared with a heap model (backing, offset, length). distinct_nontrivial counts distinct (operation, operand provenance classes, result kind) signatures",
		Assumptions: []string{
			"the model follows docs/lang.md 'Sharing, copying and mutation' and the builtin docstrings: views share elements, non-mutating operations return fresh storage, append! grows its own target, stable-sort permutes its target in place and returns a fresh list for a program literal",
			"whether growing a vector with append! moves it to new storage is unspecified (capacity is an implementation detail): once a vector that has outstanding views is grown, later in-place effects between it and those views are not judged (the affected values are skipped until reassigned)",
			"a map key written consistently as a string (or as a symbol) throughout its lineage must keep that spelling in the printed form and in keys; a key written both ways has no specified spelling and is compared by name only",
			"what the documentation says of an operation (stable-sort sorts in place and returns the sequence it sorted, the sort is stable, 'an optional key-fun extracts comparison keys from elements'; insert-sorted returns a new sequence; assoc! / dissoc! return the modified map; (assoc () ...) creates a new map) holds for all its call forms; where the place of an inserted item among equal keys would show (rows), a key that ties with none is drawn",
			"apply / unpack call the function 'with the elements of lis as individual arguments' (docstring of unpack; docs/lang.md: 'unpacked as if the list contents had been passed ... as its arguments'), so whatever a call returns for written-out arguments -- the new list / vector / map of the constructors, and also the &rest list of a user function -- does not share storage with the applied list (switch c11JudgeRestListOfApply for the &rest case, which the documentation does not spell out separately)",
		},
		Cases:       func(tier string) int { return pick(tier, 5000, 300000) },
		Run:         c11Run,
		Driver:      c11Driver,
		MinDistinct: func(tier string) int { return pick(tier, 1000, 2000) },
	})
}

// --- heap model ----------------------------------------------------------------------

type c11Backing struct {
	cells   []*c11Val
	views   int           // views ever taken over this backing
	linked  []*c11Backing // backings that MAY be the same storage (after an append! with outstanding views)
	tainted bool          // contents no longer predictable
	lent    bool          // a call-built value was made from (a view of) this storage
}

type c11Val struct {
	kind   string // int list vector map bytes str sym
	i      int64
	s      string
	b      *c11Backing
	off, n int
	sealed bool // (a view of) a program literal
	m      map[string]*c11Val
	msym   map[string]bool
	spell  map[string]string // per key: "s" written as string, "y" as symbol, "*" both in its lineage (not judged)
	by     []byte
	prov   string // provenance class for coverage
	born   int    // order of creation (the number of its first name)
	via    string // call-built values and views of them: the form that built the value
	kind2  string // keyname: spelling state
	// nospell: a map whose implementation keeps no key spellings (the one json:load-* returns:
	// every key is a string there); only the names are judged, here and in its mutated states
	nospell bool
}

func (v *c11Val) elems() []*c11Val { return v.b.cells[v.off : v.off+v.n] }

func c11Int(i int64) *c11Val { return &c11Val{kind: "int", i: i} }

func c11Seq(kind string, cells []*c11Val, prov string) *c11Val {
	return &c11Val{kind: kind, b: &c11Backing{cells: cells}, n: len(cells), prov: prov}
}

func (v *c11Val) tainted(seen map[*c11Val]bool) bool {
	if seen[v] {
		return false
	}
	seen[v] = true
	switch v.kind {
	case "list", "vector":
		if v.b.tainted {
			return true
		}
		for _, e := range v.elems() {
			if e.tainted(seen) {
				return true
			}
		}
	case "map":
		for _, e := range v.m {
			if e.tainted(seen) {
				return true
			}
		}
	}
	return false
}

func (v *c11Val) toTree(d int) *tree.T {
	if d > 60 {
		return &tree.T{K: "deep"}
	}
	switch v.kind {
	case "int":
		return &tree.T{K: "int", I: v.i}
	case "str":
		return &tree.T{K: "string", S: v.s}
	case "sym":
		return &tree.T{K: "symbol", S: v.s, Q: true}
	case "bytes":
		return &tree.T{K: "bytes", S: string(v.by)}
	case "keyname":
		return &tree.T{K: "name", S: v.s + "|" + v.kind2}
	case "list", "vector":
		t := &tree.T{K: v.kind, Q: true}
		for _, e := range v.elems() {
			t.Kids = append(t.Kids, e.toTree(d+1))
		}
		return t
	case "map":
		t := &tree.T{K: "map"}
		ks := make([]string, 0, len(v.m))
		for k := range v.m {
			ks = append(ks, k)
		}
		sort.Strings(ks)
		for _, k := range ks {
			sp := v.spell[k]
			if sp == "" {
				sp = "*"
			}
			t.Kids = append(t.Kids, &tree.T{K: "key", S: k + "|" + sp}, v.m[k].toTree(d+1))
		}
		return t
	}
	return &tree.T{K: "?"}
}

// size counts nodes reachable from v (bounded), so nesting cannot blow up.
func (v *c11Val) size(budget *int) {
	*budget--
	if *budget < 0 {
		return
	}
	switch v.kind {
	case "list", "vector":
		for _, e := range v.elems() {
			e.size(budget)
		}
	case "map":
		for _, e := range v.m {
			e.size(budget)
		}
	}
}

func (v *c11Val) small() bool { b := 60; v.size(&b); return b >= 0 }

// reaches reports whether target is reachable from v (storing v inside target would make a cycle).
func (v *c11Val) reaches(target *c11Val, depth int) bool {
	if v == target {
		return true
	}
	if depth > 40 {
		return true
	}
	switch v.kind {
	case "list", "vector":
		if target.b != nil && v.b == target.b {
			return true
		}
		for _, e := range v.elems() {
			if e.reaches(target, depth+1) {
				return true
			}
		}
	case "map":
		for _, e := range v.m {
			if e.reaches(target, depth+1) {
				return true
			}
		}
	}
	return false
}

// taintLinked marks every backing that may share storage with b as unpredictable.
func c11TaintLinked(b *c11Backing) {
	for _, l := range b.linked {
		l.tainted = true
	}
}

type c11Heap struct {
	names []string
	vals  map[string]*c11Val
	next  int
	// per step, drained by c11Run
	target     string           // the step mutates a call-built value in place: its class, c11ClassOf ("" otherwise)
	targetBorn int              // ... and when it was made
	events     []string         // forms of the call-built family generated by the step
	counts     map[string]int64 // counters raised by the step
	// family "call forms" (c11_callforms.go)
	form      string   // the step writes an operation in one of its optional call forms: "<operation>:<form>" ("" otherwise)
	forms     []string // call forms generated by the step (evidence, floor)
	targetVal *c11Val  // ... the value the step changes in place, if any
	resultVal *c11Val  // ... the value the step returns, when it is a new one
}

// noteTarget records the value a mutator is about to change in place.
func (h *c11Heap) noteTarget(v *c11Val) {
	h.target, h.targetBorn = c11ClassOf(v), v.born
	if h.counts == nil {
		h.counts = map[string]int64{}
	}
	if v.via != "" {
		h.counts["call_built_values_mutated_later"]++
	}
	if v.b != nil && v.b.lent {
		h.counts["call_built_sources_mutated_later"]++
	}
}

func (h *c11Heap) pick(r *fw.RNG, ok func(*c11Val) bool) (string, *c11Val) {
	var cands []string
	for _, n := range h.names {
		// A value whose contents are unspecified (see c11TaintLinked) is never an
		// operand: whatever is computed from it would be unspecified too, while
		// the result's own fresh storage would make it look judged.
		if ok(h.vals[n]) && !h.vals[n].tainted(map[*c11Val]bool{}) {
			cands = append(cands, n)
		}
	}
	if len(cands) == 0 {
		return "", nil
	}
	// bias toward recent values to maximise aliasing
	var n string
	if r.Chance(6, 10) && len(cands) > 3 {
		n = cands[len(cands)-1-r.Intn(3)]
	} else {
		n = cands[r.Intn(len(cands))]
	}
	return n, h.vals[n]
}

func (h *c11Heap) bind(v *c11Val) string {
	h.next++
	if v.born == 0 {
		v.born = h.next
	}
	name := fmt.Sprintf("v%d", h.next)
	h.names = append(h.names, name)
	h.vals[name] = v
	return name
}

func c11IsIntSeq(v *c11Val) bool {
	if v.kind != "list" && v.kind != "vector" {
		return false
	}
	for _, e := range v.elems() {
		if e.kind != "int" {
			return false
		}
	}
	return true
}

func c11IsSeq(v *c11Val) bool   { return v.kind == "list" || v.kind == "vector" }
func c11IsList(v *c11Val) bool  { return v.kind == "list" }
func c11IsVec(v *c11Val) bool   { return v.kind == "vector" }
func c11IsMap(v *c11Val) bool   { return v.kind == "map" }
func c11IsBytes(v *c11Val) bool { return v.kind == "bytes" }

func c11CopyCells(xs []*c11Val) []*c11Val { return append([]*c11Val(nil), xs...) }

// view makes a (list) view over [i,j) of v, or per docs a copy when a vector is
// requested from (a view of) a program literal.
func c11View(v *c11Val, kind string, i, j int, prov string) *c11Val {
	if kind == "vector" && v.sealed {
		return c11Seq("vector", c11CopyCells(v.elems()[i:j]), prov+"+copy-of-literal")
	}
	v.b.views++
	return &c11Val{kind: kind, b: v.b, off: v.off + i, n: j - i, sealed: v.sealed && kind == "list", prov: prov, via: v.via}
}

var c11Ops = []string{"list", "vector", "literal", "sorted-map", "json-map", "to-bytes", "alias",
	"slice-list", "slice-vector", "cdr", "rest", "slice-bytes",
	"append-list", "append-vector", "append-vector-zero", "append-list-zero", "concat-one", "append-bytes", "concat-list", "concat-vector", "cons", "reverse", "map", "select", "reject", "zip", "insert-index", "insert-sorted",
	"assoc", "dissoc", "keys", "nest-list", "nest-map", "get", "elem", "elem", "insert-index-elem", "insert-sorted-elem", "cons-elem", "append-elem",
	"append!", "append!-bind", "append-bytes!", "assoc!", "dissoc!", "stable-sort", "stable-sort-bind", "stable-sort-view-inline", "append!-view-inline", "append!-append-result-inline"}

func init() { c11Ops = append(append(c11Ops, c11CallBuiltOps...), c11CallFormOps...) }

// c11Step generates one operation: its lisp source and its effect on the model.
// It returns "" when the chosen operation has no applicable operand.
func c11Step(r *fw.RNG, h *c11Heap) (src, opname, sig string) {
	op := fw.Pick(r, c11Ops)
	h.target, h.events = "", nil
	h.form, h.forms, h.targetVal, h.resultVal = "", nil, nil, nil
	ints := func(n int) ([]*c11Val, string) {
		cs := make([]*c11Val, n)
		var sb strings.Builder
		for i := range cs {
			x := int64(r.Range(0, 40))
			cs[i] = c11Int(x)
			fmt.Fprintf(&sb, " %d", x)
		}
		return cs, sb.String()
	}
	setq := func(v *c11Val, form string) string { return fmt.Sprintf("(set '%s %s)", h.bind(v), form) }
	switch op {
	case "list", "vector":
		cs, txt := ints(r.Range(0, 6))
		return setq(c11Seq(op, cs, "fresh"), "("+op+txt+")"), op, op
	case "literal":
		cs, txt := ints(r.Range(1, 6))
		v := c11Seq("list", cs, "literal")
		v.sealed = true
		return setq(v, "'("+strings.TrimSpace(txt)+")"), op, op
	case "sorted-map":
		m := &c11Val{kind: "map", m: map[string]*c11Val{}, msym: map[string]bool{}, spell: map[string]string{}, prov: "fresh"}
		var sb strings.Builder
		for i := r.Range(0, 4); i > 0; i-- {
			k := fw.Pick(r, []string{"a", "b", "c", "k1", "zz"})
			x := int64(r.Range(0, 40))
			m.m[k] = c11Int(x)
			if r.Bool() {
				fmt.Fprintf(&sb, " %q %d", k, x)
				c11Spell(m, k, "s")
			} else {
				fmt.Fprintf(&sb, " '%s %d", k, x)
				c11Spell(m, k, "y")
			}
		}
		return setq(m, "(sorted-map"+sb.String()+")"), op, op
	case "json-map":
		// a sorted-map made by another constructor of the library: json:load-string returns an
		// implementation of its own (string keys only).  "Sorted maps identify a key by its name
		// whether given as string or symbol ... and behave as a finite map under any sequence of
		// operations" is said of sorted maps, not of one implementation, so the value joins the
		// heap like any other map (targets of assoc / dissoc / assoc! / dissoc! / get / keys with
		// both key spellings, stored in containers, aliased).
		m := &c11Val{kind: "map", m: map[string]*c11Val{}, msym: map[string]bool{}, spell: map[string]string{}, prov: "json-loaded", nospell: true}
		var doc []string
		for i := r.Range(0, 4); i > 0; i-- {
			k := fw.Pick(r, []string{"a", "b", "c", "k1", "zz"})
			if _, dup := m.m[k]; dup {
				continue
			}
			if r.Chance(1, 3) {
				cs, txt := ints(r.Range(0, 3))
				m.m[k] = c11Seq("vector", cs, "json-loaded")
				doc = append(doc, fmt.Sprintf("\\\"%s\\\":[%s]", k, strings.Join(strings.Fields(txt), ",")))
			} else {
				x := int64(r.Range(0, 40))
				m.m[k] = c11Int(x)
				doc = append(doc, fmt.Sprintf("\\\"%s\\\":%d", k, x))
			}
			c11Spell(m, k, "s")
		}
		return setq(m, "(json:load-string \"{"+strings.Join(doc, ",")+"}\" :exact-integers true)"), op, op
	case "to-bytes":
		s := fw.Pick(r, []string{"", "a", "abc", "hello", "xyzzy!"})
		return setq(&c11Val{kind: "bytes", by: []byte(s), prov: "fresh"}, fmt.Sprintf("(to-bytes %q)", s)), op, op
	case "alias":
		n, v := h.pick(r, func(v *c11Val) bool { return v.kind != "int" })
		if v == nil {
			return "", "", ""
		}
		name := h.bind(v) // same object under a second name
		return fmt.Sprintf("(set '%s %s)", name, n), op, op + "|" + v.kind
	case "slice-list", "slice-vector":
		n, v := h.pick(r, c11IsSeq)
		if v == nil {
			return "", "", ""
		}
		i := r.Range(0, v.n)
		j := r.Range(i, v.n)
		if r.Chance(1, 4) {
			i, j = 0, v.n // the whole range is a view like any other
		}
		kind := strings.TrimPrefix(op, "slice-")
		return setq(c11View(v, kind, i, j, "view-of-"+v.prov), fmt.Sprintf("(slice '%s %s %d %d)", kind, n, i, j)), op, op + "|" + v.kind + "|" + v.prov
	case "cdr", "rest":
		ok := c11IsList
		if op == "rest" {
			ok = c11IsSeq
		}
		n, v := h.pick(r, ok)
		if v == nil {
			return "", "", ""
		}
		var nv *c11Val
		if v.n < 2 {
			nv = c11Seq("list", nil, "nil")
		} else {
			nv = c11View(v, "list", 1, v.n, "view-of-"+v.prov)
		}
		return setq(nv, fmt.Sprintf("(%s %s)", op, n)), op, op + "|" + v.kind + "|" + v.prov
	case "slice-bytes":
		n, v := h.pick(r, c11IsBytes)
		if v == nil {
			return "", "", ""
		}
		i := r.Range(0, len(v.by))
		j := r.Range(i, len(v.by))
		return setq(&c11Val{kind: "bytes", by: append([]byte(nil), v.by[i:j]...), prov: "bytes-view"}, fmt.Sprintf("(slice 'bytes %s %d %d)", n, i, j)), op, op
	case "concat-one":
		// concat with nothing to add: one operand, or empty operands around it
		n, v := h.pick(r, c11IsSeq)
		if v == nil {
			return "", "", ""
		}
		kind := fw.Pick(r, []string{"list", "vector"})
		form := fw.Pick(r, []string{"(concat '%s %s)", "(concat '%s %s ())", "(concat '%s () %s)", "(concat '%s (vector) %s (list))"})
		return setq(c11Seq(kind, c11CopyCells(v.elems()), "fresh"), fmt.Sprintf(form, kind, n)), op, op + "|" + v.kind + "|" + kind + "|" + v.prov
	case "append-list", "append-vector", "append-vector-zero", "append-list-zero":
		n, v := h.pick(r, c11IsSeq)
		if v == nil {
			return "", "", ""
		}
		k := r.Range(1, 3)
		if op == "append-vector-zero" || op == "append-list-zero" {
			k = 0
		}
		cs, txt := ints(k)
		kind := "vector"
		if op == "append-list" || op == "append-list-zero" {
			kind = "list"
		}
		nv := c11Seq(kind, append(c11CopyCells(v.elems()), cs...), "append-result")
		return setq(nv, fmt.Sprintf("(append '%s %s%s)", kind, n, txt)), op, op + "|" + v.kind + "|" + v.prov
	case "append-bytes":
		n, v := h.pick(r, c11IsBytes)
		if v == nil {
			return "", "", ""
		}
		s := fw.Pick(r, []string{"", "q", "rs"})
		return setq(&c11Val{kind: "bytes", by: append(append([]byte(nil), v.by...), s...), prov: "append-result"}, fmt.Sprintf("(append-bytes %s %q)", n, s)), op, op
	case "concat-list", "concat-vector":
		n1, v1 := h.pick(r, c11IsSeq)
		n2, v2 := h.pick(r, c11IsSeq)
		if v1 == nil || v2 == nil {
			return "", "", ""
		}
		kind := strings.TrimPrefix(op, "concat-")
		nv := c11Seq(kind, append(c11CopyCells(v1.elems()), v2.elems()...), "fresh")
		return setq(nv, fmt.Sprintf("(concat '%s %s %s)", kind, n1, n2)), op, op + "|" + v1.prov
	case "cons":
		n, v := h.pick(r, c11IsList)
		if v == nil {
			return "", "", ""
		}
		x := int64(r.Range(0, 40))
		return setq(c11Seq("list", append([]*c11Val{c11Int(x)}, v.elems()...), "fresh"), fmt.Sprintf("(cons %d %s)", x, n)), op, op + "|" + v.prov
	case "reverse":
		n, v := h.pick(r, c11IsSeq)
		if v == nil {
			return "", "", ""
		}
		kind := fw.Pick(r, []string{"list", "vector"})
		cs := c11CopyCells(v.elems())
		for i, j := 0, len(cs)-1; i < j; i, j = i+1, j-1 {
			cs[i], cs[j] = cs[j], cs[i]
		}
		return setq(c11Seq(kind, cs, "fresh"), fmt.Sprintf("(reverse '%s %s)", kind, n)), op, op + "|" + v.kind + "|" + v.prov
	case "map":
		n, v := h.pick(r, c11IsIntSeq)
		if v == nil {
			return "", "", ""
		}
		kind := fw.Pick(r, []string{"list", "vector"})
		cs := make([]*c11Val, v.n)
		for i, e := range v.elems() {
			cs[i] = c11Int(e.i + 1)
		}
		return setq(c11Seq(kind, cs, "fresh"), fmt.Sprintf("(map '%s (lambda (x) (+ x 1)) %s)", kind, n)), op, op + "|" + v.kind
	case "select", "reject":
		n, v := h.pick(r, c11IsIntSeq)
		if v == nil {
			return "", "", ""
		}
		kind := fw.Pick(r, []string{"list", "vector"})
		var cs []*c11Val
		for _, e := range v.elems() {
			if (e.i%2 == 0) == (op == "select") {
				cs = append(cs, e)
			}
		}
		return setq(c11Seq(kind, cs, "filter-result"), fmt.Sprintf("(%s '%s (lambda (x) (= 0 (mod x 2))) %s)", op, kind, n)), op, op + "|" + v.kind + "|" + kind
	case "zip":
		n1, v1 := h.pick(r, c11IsSeq)
		n2, v2 := h.pick(r, c11IsSeq)
		if v1 == nil || v2 == nil {
			return "", "", ""
		}
		kind := fw.Pick(r, []string{"list", "vector"})
		k := v1.n
		if v2.n < k {
			k = v2.n
		}
		cs := make([]*c11Val, k)
		for i := range cs {
			cs[i] = c11Seq(kind, []*c11Val{v1.elems()[i], v2.elems()[i]}, "fresh")
		}
		return setq(c11Seq(kind, cs, "fresh"), fmt.Sprintf("(zip '%s %s %s)", kind, n1, n2)), op, op + "|" + kind
	case "insert-index":
		n, v := h.pick(r, c11IsSeq)
		if v == nil {
			return "", "", ""
		}
		kind := fw.Pick(r, []string{"list", "vector"})
		i := r.Range(0, v.n)
		x := int64(r.Range(0, 40))
		cs := append(c11CopyCells(v.elems()[:i]), c11Int(x))
		cs = append(cs, v.elems()[i:]...)
		return setq(c11Seq(kind, cs, "fresh"), fmt.Sprintf("(insert-index '%s %s %d %d)", kind, n, i, x)), op, op + "|" + v.kind + "|" + v.prov
	case "insert-sorted":
		n, v := h.pick(r, func(v *c11Val) bool {
			if !c11IsIntSeq(v) {
				return false
			}
			e := v.elems()
			for i := 1; i < len(e); i++ {
				if e[i-1].i > e[i].i {
					return false
				}
			}
			return true
		})
		if v == nil {
			return "", "", ""
		}
		kind := fw.Pick(r, []string{"list", "vector"})
		x := int64(r.Range(0, 40))
		e := v.elems()
		i := sort.Search(len(e), func(i int) bool { return x < e[i].i })
		cs := append(c11CopyCells(e[:i]), c11Int(x))
		cs = append(cs, e[i:]...)
		return setq(c11Seq(kind, cs, "fresh"), fmt.Sprintf("(insert-sorted '%s %s < %d)", kind, n, x)), op, op + "|" + v.kind
	case "assoc", "dissoc", "assoc!", "dissoc!":
		n, v := h.pick(r, c11IsMap)
		if v == nil {
			return "", "", ""
		}
		k := fw.Pick(r, []string{"a", "b", "c", "k1", "zz", "new"})
		ktxt := fmt.Sprintf("%q", k)
		ksp := "s"
		if r.Bool() {
			ktxt = "'" + k
			ksp = "y"
		}
		target := v
		mut := strings.HasSuffix(op, "!")
		if !mut {
			target = &c11Val{kind: "map", m: map[string]*c11Val{}, msym: map[string]bool{}, spell: map[string]string{}, prov: "fresh"}
			for kk, e := range v.m {
				target.m[kk] = e
				target.spell[kk] = v.spell[kk]
			}
		}
		if strings.HasPrefix(op, "assoc") {
			c11Spell(target, k, ksp)
		} else if target.spell != nil {
			delete(target.spell, k)
		}
		var form string
		if strings.HasPrefix(op, "assoc") {
			// the value may be another live container (containers inside containers)
			vn, vv := h.pick(r, func(x *c11Val) bool { return x != v && x.small() && !x.reaches(v, 0) && r.Chance(1, 3) })
			if vv != nil {
				target.m[k] = vv
				form = fmt.Sprintf("(%s %s %s %s)", op, n, ktxt, vn)
			} else {
				x := int64(r.Range(0, 40))
				target.m[k] = c11Int(x)
				form = fmt.Sprintf("(%s %s %s %d)", op, n, ktxt, x)
			}
		} else {
			delete(target.m, k)
			form = fmt.Sprintf("(%s %s %s)", op, n, ktxt)
		}
		on := ""
		if v.prov == "json-loaded" {
			on = "|on-json-loaded|key-as-" + ksp
		}
		if mut {
			if r.Bool() {
				name := h.bind(target)
				return fmt.Sprintf("(set '%s %s)", name, form), op, op + "|bound" + on
			}
			return form, op, op + on
		}
		return setq(target, form), op, op + on
	case "keys":
		n, v := h.pick(r, c11IsMap)
		if v == nil {
			return "", "", ""
		}
		ks := make([]string, 0, len(v.m))
		for k := range v.m {
			ks = append(ks, k)
		}
		sort.Strings(ks)
		cs := make([]*c11Val, len(ks))
		for i, k := range ks {
			sp := v.spell[k]
			if sp == "" {
				sp = "*"
			}
			cs[i] = &c11Val{kind: "keyname", s: k, kind2: sp}
		}
		nv := c11Seq("list", cs, "fresh")
		return setq(nv, fmt.Sprintf("(keys %s)", n)), op, op
	case "get":
		n, v := h.pick(r, func(v *c11Val) bool { return c11IsMap(v) && len(v.m) > 0 })
		if v == nil {
			return "", "", ""
		}
		ks := make([]string, 0, len(v.m))
		for k := range v.m {
			ks = append(ks, k)
		}
		sort.Strings(ks)
		k := fw.Pick(r, ks)
		if v.m[k].kind == "int" {
			return "", "", ""
		}
		name := h.bind(v.m[k])
		ktxt := fmt.Sprintf("%q", k)
		if r.Bool() {
			ktxt = "'" + k // a key is its name, however it is written
		}
		return fmt.Sprintf("(set '%s (get %s %s))", name, n, ktxt), op, op + "|" + v.m[k].kind + "|" + v.prov // prov json-loaded: a map from json:load-string
	case "elem":
		// a container reached as an ELEMENT of a sequence (a row of a zip result, a
		// nested list ...) gets a name of its own: it is the same value
		n, v := h.pick(r, func(v *c11Val) bool {
			if !c11IsSeq(v) {
				return false
			}
			for _, e := range v.elems() {
				if e.kind != "int" {
					return true
				}
			}
			return false
		})
		if v == nil {
			return "", "", ""
		}
		var idxs []int
		for i, e := range v.elems() {
			if e.kind != "int" {
				idxs = append(idxs, i)
			}
		}
		i := fw.Pick(r, idxs)
		e := v.elems()[i]
		name := h.bind(e)
		acc := fmt.Sprintf("(nth %s %d)", n, i)
		if v.kind == "vector" && r.Bool() {
			acc = fmt.Sprintf("(aref %s %d)", n, i)
		} else if i == 0 && r.Bool() {
			acc = fmt.Sprintf("(first %s)", n)
		}
		return fmt.Sprintf("(set '%s %s)", name, acc), op, op + "|" + v.kind + "|" + e.kind + "|" + v.prov
	case "insert-index-elem", "insert-sorted-elem", "cons-elem", "append-elem":
		// a CONTAINER stored as an element by a non-mutating builtin: the result is fresh
		// storage whose new element is the very value that was passed (a later change of
		// that value shows through the result, and the other way round)
		nv, v := h.pick(r, func(v *c11Val) bool { return c11IsSeq(v) && v.small() && (op != "cons-elem" || c11IsList(v)) })
		nx, x := h.pick(r, func(v *c11Val) bool { return v.kind != "int" && v.kind != "bytes" && v.small() })
		if v == nil || x == nil {
			return "", "", ""
		}
		kind := fw.Pick(r, []string{"list", "vector"})
		e := v.elems()
		switch op {
		case "insert-index-elem":
			i := r.Range(0, v.n)
			cs := append(c11CopyCells(e[:i]), x)
			cs = append(cs, e[i:]...)
			return setq(c11Seq(kind, cs, "fresh-nested"), fmt.Sprintf("(insert-index '%s %s %d %s)", kind, nv, i, nx)), op, op + "|" + v.kind + "|" + x.kind
		case "insert-sorted-elem":
			// a constant predicate decides the position whatever the elements are
			if r.Bool() {
				cs := append([]*c11Val{x}, e...)
				return setq(c11Seq(kind, cs, "fresh-nested"), fmt.Sprintf("(insert-sorted '%s %s (lambda (a b) true) %s)", kind, nv, nx)), op, op + "|front|" + v.kind + "|" + x.kind
			}
			cs := append(c11CopyCells(e), x)
			return setq(c11Seq(kind, cs, "fresh-nested"), fmt.Sprintf("(insert-sorted '%s %s (lambda (a b) false) %s)", kind, nv, nx)), op, op + "|back|" + v.kind + "|" + x.kind
		case "cons-elem":
			cs := append([]*c11Val{x}, e...)
			return setq(c11Seq("list", cs, "fresh-nested"), fmt.Sprintf("(cons %s %s)", nx, nv)), op, op + "|" + v.kind + "|" + x.kind
		default:
			cs := append(c11CopyCells(e), x, c11Int(3))
			return setq(c11Seq(kind, cs, "fresh-nested"), fmt.Sprintf("(append '%s %s %s 3)", kind, nv, nx)), op, op + "|" + v.kind + "|" + x.kind
		}
	case "nest-list":
		n1, v1 := h.pick(r, func(v *c11Val) bool { return v.kind != "int" && v.small() })
		n2, v2 := h.pick(r, func(v *c11Val) bool { return v.kind != "int" && v.small() })
		if v1 == nil || v2 == nil {
			return "", "", ""
		}
		kind := fw.Pick(r, []string{"list", "vector"})
		return setq(c11Seq(kind, []*c11Val{v1, c11Int(7), v2}, "fresh-nested"), fmt.Sprintf("(%s %s 7 %s)", kind, n1, n2)), op, op + "|" + v1.kind + "|" + v2.kind
	case "nest-map":
		n1, v1 := h.pick(r, func(v *c11Val) bool { return v.kind != "int" && v.small() })
		if v1 == nil {
			return "", "", ""
		}
		m := &c11Val{kind: "map", m: map[string]*c11Val{"inner": v1, "n": c11Int(1)}, msym: map[string]bool{}, spell: map[string]string{"inner": "s", "n": "s"}, prov: "fresh-nested"}
		return setq(m, fmt.Sprintf("(sorted-map \"inner\" %s \"n\" 1)", n1)), op, op + "|" + v1.kind
	case "append!", "append!-bind":
		n, v := h.pick(r, c11IsVec)
		if v == nil {
			return "", "", ""
		}
		cs, txt := ints(r.Range(0, 3))
		h.noteTarget(v)
		c11AppendInPlace(v, cs)
		form := fmt.Sprintf("(append! %s%s)", n, txt)
		if op == "append!-bind" {
			return fmt.Sprintf("(set '%s %s)", h.bind(v), form), op, op + "|" + v.prov
		}
		return form, op, op + "|" + v.prov
	case "append!-view-inline":
		// appending to a view never disturbs its source
		n, v := h.pick(r, c11IsSeq)
		if v == nil || v.n == 0 {
			return "", "", ""
		}
		j := r.Range(0, v.n)
		if r.Chance(1, 3) {
			j = v.n // a view of the whole range
		}
		cs, txt := ints(r.Range(1, 2))
		nv := c11Seq("vector", append(c11CopyCells(v.elems()[:j]), cs...), "append!-of-view")
		return setq(nv, fmt.Sprintf("(append! (slice 'vector %s 0 %d)%s)", n, j, txt)), op, op + "|" + v.kind + "|" + v.prov
	case "append!-append-result-inline":
		n, v := h.pick(r, c11IsSeq)
		if v == nil {
			return "", "", ""
		}
		cs1, t1 := ints(r.Range(0, 2))
		cs2, t2 := ints(r.Range(1, 2))
		nv := c11Seq("vector", append(append(c11CopyCells(v.elems()), cs1...), cs2...), "append!-of-append")
		return setq(nv, fmt.Sprintf("(append! (append 'vector %s%s)%s)", n, t1, t2)), op, op + "|" + v.kind + "|" + v.prov
	case "append-bytes!":
		n, v := h.pick(r, c11IsBytes)
		if v == nil {
			return "", "", ""
		}
		s := fw.Pick(r, []string{"", "z", "yx"})
		v.by = append(v.by, s...)
		return fmt.Sprintf("(append-bytes! %s %q)", n, s), op, op
	case "stable-sort", "stable-sort-bind":
		n, v := h.pick(r, c11IsIntSeq)
		if v == nil {
			return "", "", ""
		}
		h.noteTarget(v)
		res := c11SortInPlace(v)
		form := fmt.Sprintf("(stable-sort < %s)", n)
		if op == "stable-sort-bind" {
			return fmt.Sprintf("(set '%s %s)", h.bind(res), form), op, op + "|" + v.kind + "|" + v.prov
		}
		return form, op, op + "|" + v.kind + "|" + v.prov
	case "stable-sort-view-inline":
		// sorting a view in place shows through its source
		n, v := h.pick(r, c11IsIntSeq)
		if v == nil || v.n < 2 {
			return "", "", ""
		}
		i := r.Range(0, v.n-1)
		j := r.Range(i+1, v.n)
		kind := fw.Pick(r, []string{"list", "vector"})
		view := c11View(v, kind, i, j, "inline-view")
		h.noteTarget(v)
		c11SortInPlace(view)
		return fmt.Sprintf("(stable-sort < (slice '%s %s %d %d))", kind, n, i, j), op, op + "|" + v.kind + "|" + kind + "|" + v.prov
	}
	if c11IsCallFormOp(op) {
		return c11CallFormStep(r, h, op)
	}
	return c11CallBuiltStep(r, h, op)
}

// c11AppendInPlace implements append! on the model.
func c11AppendInPlace(v *c11Val, cs []*c11Val) {
	b := v.b
	whole := v.off == 0 && v.n == len(b.cells)
	if whole && b.views == 0 {
		// nobody else can observe the storage: simply grow
		b.cells = append(b.cells, cs...)
		v.n += len(cs)
		return
	}
	if len(cs) == 0 {
		return
	}
	// v is a view (appending to a view always allocates) or has outstanding
	// views (whether growth moves it is unspecified): v continues on storage of
	// its own, and for the second case the old and new storage MAY be the same.
	nb := &c11Backing{cells: append(c11CopyCells(v.elems()), cs...)}
	if whole {
		nb.linked = append(nb.linked, b)
		b.linked = append(b.linked, nb)
		nb.linked = append(nb.linked, b.linked...)
	}
	v.b, v.off, v.n = nb, 0, len(nb.cells)
}

// c11SortInPlace implements (stable-sort < v) on the model; it returns the value the builtin returns.
func c11SortInPlace(v *c11Val) *c11Val {
	return c11SortInPlaceBy(v, func(e *c11Val) int64 { return e.i }, false)
}

// c11SortInPlaceBy implements stable-sort on the model for any strict order on
// integer keys: ascending keys (predicate <) or descending ones (>), the key of
// an element being the element itself or what the key-fun makes of it.  The
// sort is documented to be stable, so the result is determined.
func c11SortInPlaceBy(v *c11Val, key func(*c11Val) int64, desc bool) *c11Val {
	less := func(a, b *c11Val) bool {
		if desc {
			return key(a) > key(b)
		}
		return key(a) < key(b)
	}
	if v.sealed {
		cs := c11CopyCells(v.elems())
		sort.SliceStable(cs, func(i, j int) bool { return less(cs[i], cs[j]) })
		return c11Seq(v.kind, cs, "sorted-copy-of-literal")
	}
	e := v.elems()
	sort.SliceStable(e, func(i, j int) bool { return less(e[i], e[j]) })
	c11TaintLinked(v.b)
	return v
}

func c11Run(w *fw.W, idx int) {
	r := w.RNG(idx, "hist")
	real := rt.New(rt.Opts{MaxSteps: 2_000_000})
	h := &c11Heap{vals: map[string]*c11Val{}}
	nsteps := r.Range(12, 70)
	log := []string{c11RestPrelude}
	if v := real.Env.LoadString("c11", c11RestPrelude); v.Type == lisp.LError {
		w.Violation("operation-failed:prelude", "defining the two &rest helper functions failed: "+v.String(), c11RestPrelude)
		return
	}
	for step := 0; step < nsteps; step++ {
		src, op, sig := c11Step(r, h)
		if src == "" {
			continue
		}
		log = append(log, src)
		v := real.Env.LoadString("c11", src)
		w.Eval(1)
		w.Logf("%s  => %s", src, v)
		if v.Type == lisp.LError {
			key := "operation-failed:" + op
			if strings.Contains(sig, "json-loaded") {
				key += ":map-from-json-load"
				if strings.Contains(sig, "key-as-y") || strings.Contains(src, " '") {
					key += ":symbol-key"
				}
			}
			w.Violation(key, "a well-formed container operation failed: "+v.String(), strings.Join(log, "\n"))
			return
		}
		// re-inspect every live value
		for _, name := range h.names {
			mv := h.vals[name]
			if mv.tainted(map[*c11Val]bool{}) {
				w.Count("values_skipped_unspecified_growth", 1)
				continue
			}
			rv := real.Env.GetGlobal(lisp.Symbol(name))
			got := tree.FromLVal(rv)
			want := mv.toTree(0)
			c11Align(want, got)
			if !tree.Equal(got, want, tree.Opts{IgnoreQuote: true}) {
				culprit := op
				key := "heap-model-disagreement:" + culprit
				if h.form != "" {
					// the step wrote an operation in one of its optional call forms: the
					// class is (operation, form, which value is wrong)
					key = "call-form-disagreement:" + h.form + ":" + c11WhoIsWrong(h, mv)
				} else if strings.HasPrefix(op, "stable-sort") || strings.HasPrefix(op, "append!") {
					// name the provenance of the value that changed unexpectedly
					key = fmt.Sprintf("unexpected-sharing:%s:other-value-from=%s", strings.SplitN(op, "-", 2)[0], mv.prov)
					// ... or, when the mutator's target or the value that changed was built
					// through a call, the form that built it: of the two, the one made
					// later is the one that must not have aliased what existed already
					tc, vc := h.target, c11ClassOf(mv)
					if tc != "" && h.targetBorn >= mv.born {
						key = fmt.Sprintf("unexpected-sharing:%s:target=%s", strings.SplitN(op, "-", 2)[0], tc)
					} else if vc != "" {
						key = fmt.Sprintf("unexpected-sharing:%s:other-value=%s", strings.SplitN(op, "-", 2)[0], vc)
					}
				}
				w.Violation(key, fmt.Sprintf("after %q the value %s is %s but the documented discipline gives %s", src, name, got, want), strings.Join(log, "\n"))
				return
			}
			// what `length` reports must be the number of elements the value holds
			if (mv.kind == "list" || mv.kind == "vector") && rv.Len() != len(got.Kids) {
				w.Violation("length-disagrees-with-contents:"+op, fmt.Sprintf("after %q the value %s holds %d elements (%s) but (length %s) is %d", src, name, len(got.Kids), got, name, rv.Len()), strings.Join(log, "\n"))
				return
			}
			w.Count("values_reinspected", 1)
		}
		w.CoverKey(sig)
		w.SetAdd("operations_seen", op)
		for _, via := range h.events {
			w.SetAdd("call_built_forms_seen", via)
			w.Count("call_built_values", 1)
		}
		for _, f := range h.forms {
			w.SetAdd("call_forms_seen", f)
			w.Count("call_form_steps", 1)
		}
		for c, n := range h.counts {
			w.Count(c, n)
		}
		h.counts = nil
	}
	w.Max("max_live_values", int64(len(h.names)))
	if w.WantSample() && len(log) > 15 {
		w.Sample(map[string]any{"history": log[:15], "length": len(log)})
	}
}

// c11Spell records how a key was written.  A key written both ways in its
// lineage has no specified spelling and is not judged.
func c11Spell(m *c11Val, k, sp string) {
	if m.spell == nil {
		m.spell = map[string]string{}
	}
	switch cur := m.spell[k]; {
	case m.nospell:
		m.spell[k] = "*"
	case cur == "":
		m.spell[k] = sp
	case cur != sp:
		m.spell[k] = "*"
	}
}

// c11Align gives the real tree's map keys and key names the model's notation
// name|spelling ("s" string, "y" symbol); where the model says "*" (both
// spellings were used) the real spelling is not judged.
func c11Align(want, got *tree.T) {
	if want == nil || got == nil {
		return
	}
	if want.K == "name" && (got.K == "string" || got.K == "symbol") {
		sp := "s"
		if got.K == "symbol" {
			sp = "y"
		}
		if strings.HasSuffix(want.S, "|*") {
			sp = "*"
		}
		got.K, got.Q, got.S = "name", false, got.S+"|"+sp
		return
	}
	if want.K == "key" && got.K == "key" {
		sp := "s"
		if got.Q {
			sp = "y"
		}
		if strings.HasSuffix(want.S, "|*") {
			sp = "*"
		}
		got.S = got.S + "|" + sp
		return
	}
	for i := range want.Kids {
		if i < len(got.Kids) {
			c11Align(want.Kids[i], got.Kids[i])
		}
	}
}
