package props

// C17 — generator family "site names": defmacro templates whose free names are
// resolved at the EXPANSION SITE.
//
// A macro of package P (the using package itself, or a library package that
// exports the macro or is reached through P:macro) has a quasiquote template
// that names a helper function and a global variable which only the USING
// package U defines — in the file of the macro, in the file of the call, or in
// another file of the session.  The expansion is evaluated in U, so the bare
// names of the template mean U's globals; the minifier has to keep template
// and definitions in agreement although no reference ties them together.  The
// names occur in every syntactic position a template offers: call head,
// argument, initialiser inside a (bracket or parenthesised) binding list of
// let / let*, body of a flet / labels binding, lambda body, #'f / (function f)
// / bare function value handed to funcall / apply / map, cond clauses written
// with brackets, thread-first steps, dotimes bodies, and the binder-macro
// shape (m name expr body...) -> (let ([,name (f ,expr)]) ,@body).
//
// Everything is drawn from a stream of its own (see c17Generate): sessions
// without a group are exactly the ones generated before the family existed.
//
// Domain: the helper names come from pools nothing else uses, so no local can
// capture them and no other package defines them, with two deliberate
// exceptions that are generated only when the quiet probes D13 / D14 pass
// (c17_probes.go): D13 — the macro's own package defines the name too; D14 —
// the using package is not `user` and defines the helpers in another file than
// the macro's.

import (
	"sort"
	"strconv"
)

var c17SiteFnPool = []string{"scale-it", "bump-it", "norm-it", "site-step"}
var c17SiteVarPool = []string{"site-base", "site-k", "site-bias"}
var c17SiteMacroPool = []string{"with-scaled", "site-calc", "adjusted", "site-wrap"}
var c17SiteLibNames = []string{"mlib", "tlib"}

// template-only binders of this family (functions and lambda parameters)
const (
	c17SiteBinderFn = "tb-fn"
	c17SiteBinderX  = "tb-x"
)

type c17SiteTmpl struct {
	g      *c17Gen
	fn, v  string
	params []string
	ints   []string // template binders visible here that hold integers
}

func (t *c17SiteTmpl) leaf(r *c17Rng) *c17N {
	switch k := r.intn(10); {
	case k < 4 && len(t.params) > 0:
		return c17Call("unquote", c17Sym(c17Pick(r, t.params)))
	case k < 6:
		t.g.tag("site-tmpl:var-as-argument")
		return c17Sym(t.v)
	case k < 7 && len(t.ints) > 0:
		return c17Sym(c17Pick(r, t.ints))
	default:
		return t.g.lit(r)
	}
}

func (t *c17SiteTmpl) with(b string, f func() *c17N) *c17N {
	t.ints = append(t.ints, b)
	n := f()
	t.ints = t.ints[:len(t.ints)-1]
	return n
}

// brk writes a binding list (and its bindings) with brackets.
func c17SiteBrk(bl *c17N) {
	bl.Br = true
	for _, b := range bl.L {
		if b.IsL {
			b.Br = true
		}
	}
}

func (t *c17SiteTmpl) fnRef(r *c17Rng) *c17N {
	ref := c17Sym(t.fn)
	switch r.intn(3) {
	case 0:
		ref.Fn = true
	case 1:
		return c17Call("function", ref)
	}
	return ref
}

// expr builds a template (the inside of a quasiquote) that evaluates, at the
// expansion site, to an integer.
func (t *c17SiteTmpl) expr(d int, r *c17Rng) *c17N {
	g := t.g
	if d <= 0 {
		return t.leaf(r)
	}
	sub := func() *c17N { return t.expr(d-1, r.fork()) }
	brackets := func(bl *c17N, what string) {
		if r.chance(2, 3) {
			c17SiteBrk(bl)
			g.tag("site-tmpl:" + what + "-bracket")
		} else {
			g.tag("site-tmpl:" + what + "-paren")
		}
	}
	switch k := r.intn(20); {
	case k < 2:
		return t.leaf(r)
	case k < 4:
		return c17Call(c17Pick(r, []string{"+", "-"}), sub(), sub())
	case k < 6:
		g.tag("site-tmpl:call-head")
		return c17List(c17Sym(t.fn), sub())
	case k < 10:
		// let / let* whose initialiser names the helper (or the variable)
		b := c17Pick(r, c17TemplateBinders)
		var init *c17N
		if r.chance(3, 4) {
			init = c17List(c17Sym(t.fn), sub())
		} else {
			init = c17Sym(t.v)
		}
		head := "let"
		binds := []*c17N{c17List(c17Sym(b), init)}
		use := b
		if r.chance(1, 3) {
			head = "let*"
			b2 := c17Pick(r, c17TemplateBinders)
			binds = append(binds, c17List(c17Sym(b2), c17List(c17Sym(t.fn), c17Sym(b))))
			use = b2
		}
		bl := c17List(binds...)
		brackets(bl, head)
		body := t.with(use, func() *c17N { return c17Call("+", c17Sym(use), sub()) })
		return c17Call(head, bl, body)
	case k < 13:
		// flet / labels: the helper is called from a local function's body
		head := c17Pick(r, []string{"flet", "labels"})
		fbody := c17List(c17Sym(t.fn), c17Sym(c17SiteBinderX))
		if r.chance(1, 2) {
			fbody = c17Call("+", fbody, c17Sym(t.v))
		}
		bl := c17List(c17List(c17Sym(c17SiteBinderFn), c17List(c17Sym(c17SiteBinderX)), fbody))
		brackets(bl, head)
		return c17Call(head, bl, c17List(c17Sym(c17SiteBinderFn), sub()))
	case k < 14:
		g.tag("site-tmpl:lambda-body")
		lam := c17Call("lambda", c17List(c17Sym(c17SiteBinderX)), c17List(c17Sym(t.fn), c17Sym(c17SiteBinderX)))
		if r.chance(1, 2) {
			return c17Call("funcall", lam, sub())
		}
		return c17List(lam, sub())
	case k < 16:
		g.tag("site-tmpl:function-value")
		ref := t.fnRef(r)
		switch r.intn(3) {
		case 0:
			return c17Call("funcall", ref, sub())
		case 1:
			return c17Call("apply", ref, c17Call("list", sub()))
		default:
			return c17Call("apply", c17Sym("+"), c17Call("map", c17QSym("list"), ref, c17Call("list", sub(), sub())))
		}
	case k < 18:
		// cond clauses, conventionally written with brackets
		c1 := c17List(c17Call("<", sub(), c17Sym(t.v)), c17List(c17Sym(t.fn), sub()))
		c2 := c17List(c17Sym(c17Pick(r, []string{":else", "else", "true"})), c17Call("+", c17Sym(t.v), sub()))
		if r.chance(2, 3) {
			c1.Br, c2.Br = true, true
			g.tag("site-tmpl:cond-bracket")
		} else {
			g.tag("site-tmpl:cond-paren")
		}
		return c17Call("cond", c1, c2)
	case k < 19:
		g.tag("site-tmpl:thread-first")
		return c17Call("thread-first", sub(), c17List(c17Sym(t.fn)), c17Call("+", c17Sym(t.v)))
	default:
		g.tag("site-tmpl:dotimes-body")
		b := c17Pick(r, c17TemplateBinders)
		bl := c17List(c17List(c17Sym(b), sub()))
		brackets(bl, "let")
		return c17Call("let", bl,
			c17Call("dotimes", c17List(c17Sym(c17SiteBinderX), c17Int(r.rng(1, 3))),
				c17Call("set!", c17Sym(b), c17Call("+", c17Sym(b), c17List(c17Sym(t.fn), c17Sym(c17SiteBinderX))))),
			c17Sym(b))
	}
}

// nameTaken: some package of the session already defines or imports name.
func (g *c17Gen) nameTaken(name string) bool {
	for _, pn := range g.pkgOrder {
		p := g.pkgs[pn]
		if p.defs[name] != nil || p.imports[name] != nil || p.hidden[name] {
			return true
		}
	}
	return false
}

// canUse applies unitUsePackage's conditions to one pair of packages.
func (g *c17Gen) canUse(u, q *c17Pkg, file int) bool {
	if q == u || u.used[q.name] || len(q.exports) == 0 {
		return false
	}
	for _, e := range q.exports {
		if q.defs[e] == nil || u.defs[e] != nil || u.imports[e] != nil || u.hidden[e] || u.usedBuiltin[e] {
			return false
		}
	}
	if q.exportFiles[file] && g.avoiding("D2", "use-package-in-the-file-that-defines-the-exported-names") {
		return false
	}
	return true
}

// siteGroup emits one group at the current end of file f, whose current package
// is u: the macro (in u or in another package, here or appended to an earlier
// file), the helpers it expects of u (here or appended to an earlier file) and
// the calls (always here).
func (g *c17Gen) siteGroup(f int, u *c17Pkg, pkgChoices []string, r *c17Rng) {
	k := g.siteGroups + 1
	suffix := ""
	if k > 1 {
		suffix = "-" + strconv.Itoa(k)
	}
	fn := c17Pick(r, c17SiteFnPool) + suffix
	v := c17Pick(r, c17SiteVarPool) + suffix
	mname := c17Pick(r, c17SiteMacroPool) + suffix
	for _, n := range []string{fn, v, mname} {
		if g.nameTaken(n) || u.usedBuiltin[n] {
			return
		}
	}
	g.siteGroups = k
	oldFile := g.curFile
	defer func() { g.curFile = oldFile }()

	// ---- where things live ---------------------------------------------------
	home := u
	access := "same-package"
	if g.has("packages") && r.chance(2, 3) {
		var cands []string
		seen := map[string]bool{u.name: true}
		for _, pn := range pkgChoices {
			if !seen[pn] {
				seen[pn] = true
				cands = append(cands, pn)
			}
		}
		for _, pn := range c17SiteLibNames {
			if g.pkgs[pn] == nil {
				cands = append(cands, pn)
				break
			}
		}
		if len(cands) > 0 {
			q := g.pkg(c17Pick(r, cands))
			canImport := g.has("export") && g.has("use-package") && !q.frozen && !u.used[q.name]
			canQual := g.has("qualified")
			switch {
			case canImport && (!canQual || r.chance(1, 2)):
				home, access = q, "imported"
			case canQual:
				home, access = q, "qualified"
			}
		}
	}
	mf, hf := f, f
	if f > 0 && r.chance(1, 2) {
		mf = r.intn(f)
	}
	if f > 0 && r.chance(1, 3) {
		hf = r.intn(f)
	}
	if home != u && mf != hf && u.name != "user" && g.avoiding("D14", "template-name-defined-by-a-non-user-package-in-another-file-than-the-macro") {
		hf = mf
	}
	shadowInHome := false
	if home != u && r.chance(1, 4) && !g.avoiding("D13", "template-name-also-defined-by-the-macro's-own-package") {
		shadowInHome = true
	}

	// ---- the macro -------------------------------------------------------------
	binder := r.chance(1, 4)
	params := []string{c17Pick(r, []string{"form", "arg", "e1"})}
	if !binder && r.chance(1, 3) {
		params = append(params, "e2")
	}
	t := &c17SiteTmpl{g: g, fn: fn, v: v, params: params}
	var tmpl *c17N
	for try := 0; ; try++ {
		d := 2
		if binder {
			d = 1
		}
		tmpl = t.expr(d, r.fork())
		if c17Mentions(tmpl, fn) || c17Mentions(tmpl, v) {
			break
		}
		if try >= 4 {
			tmpl = c17Call("+", c17List(c17Sym(fn), c17Call("unquote", c17Sym(params[0]))), c17Sym(v))
			break
		}
	}
	var cells []*c17N
	msig := &c17Glob{name: mname, kind: c17KMacro, req: len(params), site: u.name, free: []string{fn, v}}
	sort.Strings(msig.free)
	if binder {
		// (m name expr body...) -> (let ([,name TEMPLATE]) ,@body)
		head := c17Pick(r, []string{"let", "let*"})
		bl := c17List(c17List(c17Call("unquote", c17Sym("name")), tmpl))
		if r.chance(2, 3) {
			c17SiteBrk(bl)
			g.tag("site-tmpl:binder-macro-bracket")
		} else {
			g.tag("site-tmpl:binder-macro-paren")
		}
		tmpl = c17Call(head, bl, c17Call("unquote-splicing", c17Sym("body")))
		cells = []*c17N{c17Sym("name"), c17Sym(params[0]), c17Sym("&rest"), c17Sym("body")}
		msig.noCall = true
		g.names["name"], g.names["body"] = true, true
	} else {
		for _, p := range params {
			cells = append(cells, c17Sym(p))
		}
	}
	for _, p := range params {
		g.names[p] = true
	}
	g.names[fn], g.names[v], g.names[mname] = true, true, true
	g.siteNames[fn], g.siteNames[v] = u.name, u.name
	mdef := c17Call("defmacro", c17Sym(mname), c17List(cells...), c17Call("quasiquote", tmpl))

	// ---- the helpers the using package provides -------------------------------------
	uenv := g.topEnv(u)
	pn := g.pickLocalName(uenv, r)
	if pn == fn || pn == v {
		pn = "n"
	}
	fsig := &c17Glob{name: fn, kind: c17KFn, req: 1}
	var fbody []*c17N
	if hf != f {
		// written into an earlier file: nothing of the package's later state may
		// be needed to read it
		fbody = []*c17N{c17Call("+", c17Call("*", c17Sym(pn), c17Int(r.rng(2, 10))), g.lit(r))}
		fsig.lvl = 1
	} else {
		fsig.lvl = g.defining(func() {
			fbody = g.body(uenv.with(c17Loc{name: pn, kind: c17LInt}).fn(), 1, r.fork())
		})
	}
	fdef := &c17N{IsL: true, L: append([]*c17N{c17Sym("defun"), c17Sym(fn), c17List(c17Sym(pn))}, fbody...)}
	vdef := c17Call("set", c17QSym(v), g.lit(r))
	msig.lvl = fsig.lvl + 1

	emitMacro := func() {
		g.curFile = mf
		g.inPackage(mf, home.name, r)
		if shadowInHome {
			// the macro's own package has a function of that name too (D13 shape)
			g.emit(mf, c17Call("defun", c17Sym(fn), c17List(c17Sym("q")), c17Call("-", c17Sym("q"), c17Int(r.rng(1, 5)))))
			g.define(home, &c17Glob{name: fn, kind: c17KFn, req: 1, lvl: 1})
			g.tag("site-macro:name-also-defined-in-macro-package")
		}
		before := access == "imported" && r.chance(1, 2)
		if before {
			g.emit(mf, g.exportForm(mname))
		}
		g.emit(mf, mdef)
		g.define(home, msig)
		if access == "imported" {
			msig.exported = true
			home.exports = append(home.exports, mname)
			home.exportFiles[mf] = true
			if !before {
				g.emit(mf, g.exportForm(mname))
			}
		}
	}
	emitHelpers := func() {
		g.curFile = hf
		g.inPackage(hf, u.name, r)
		if r.chance(1, 2) {
			g.emit(hf, vdef)
			g.emit(hf, fdef)
		} else {
			g.emit(hf, fdef)
			g.emit(hf, vdef)
		}
		g.define(u, fsig)
		g.define(u, &c17Glob{name: v, kind: c17KVar})
	}
	// an earlier file is complete before a later one starts; within one file the
	// two definitions come in either order (the template is only expanded later)
	first, second := emitMacro, emitHelpers
	if (mf == hf && r.chance(1, 2)) || hf < mf {
		first, second = emitHelpers, emitMacro
	}
	first()
	second()
	g.curFile = f
	g.inPackage(f, u.name, r)
	if access == "imported" {
		if g.canUse(u, home, f) {
			home.frozen = true
			u.used[home.name] = true
			for _, e := range home.exports {
				u.imports[e] = home.defs[e]
			}
			arg := c17QSym(home.name)
			if r.chance(1, 4) {
				arg = c17Str(home.name)
			}
			g.emit(f, c17Call("use-package", arg))
			g.tag("use-package")
		} else {
			access = "qualified"
		}
	}
	head := mname
	if access == "qualified" {
		head = home.name + ":" + mname
	}

	// ---- calls (always here, in u) ---------------------------------------------------
	callOf := func(env *c17Env, first *c17N) *c17N {
		if binder {
			bn := g.pickLocalName(env, r)
			if bn == fn || bn == v || bn == mname {
				bn = "s0"
			}
			benv := env.with(c17Loc{name: bn, kind: c17LInt})
			forms := []*c17N{c17Sym(head), c17Sym(bn), first}
			forms = append(forms, g.body(benv, 1, r.fork())...)
			return &c17N{IsL: true, L: forms}
		}
		forms := []*c17N{c17Sym(head), first}
		for i := 1; i < len(params); i++ {
			forms = append(forms, g.intExpr(env, 1, r.fork()))
		}
		return &c17N{IsL: true, L: forms}
	}
	g.observe(f, u, callOf(uenv, g.intExpr(uenv, 1, r.fork())))
	if r.chance(1, 2) {
		// the expansion inside a function body
		wname := g.pickGlobalName(u, r, false)
		wp := g.pickLocalName(uenv, r)
		if wp == fn || wp == v || wp == mname {
			wp = "n"
		}
		wenv := uenv.with(c17Loc{name: wp, kind: c17LInt}).fn()
		wsig := &c17Glob{name: wname, kind: c17KFn, req: 1}
		var wbody *c17N
		g.defining(func() {
			wbody = c17Call("+", callOf(wenv, c17Call("+", c17Sym(wp), g.lit(r))), g.intExprNoCalls(wenv, r.fork()))
		})
		wsig.lvl = msig.lvl + 1
		g.emit(f, c17Call("defun", c17Sym(wname), c17List(c17Sym(wp)), wbody))
		g.define(u, wsig)
		g.observe(f, u, c17List(c17Sym(wname), g.lit(r)))
		g.tag("site-macro:expanded-in-function-body")
	}

	g.tag("site-macro")
	g.tag("site-macro:" + access)
	if mf != f {
		g.tag("site-macro:macro-in-earlier-file")
	}
	if hf != f {
		g.tag("site-macro:helpers-in-earlier-file")
	}
	if mf != hf {
		g.tag("site-macro:macro-and-helpers-in-different-files")
	}
}
