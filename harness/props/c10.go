package props

import (
	"crypto/sha256"
	"encoding/hex"
	"fmt"
	"github.com/luthersystems/elps/lisp"
	"os"
	"strconv"
	"strings"
	"sync"
	"time"

	"verifharness/fw"
	"verifharness/gen"
	"verifharness/rt"
	"verifharness/sx"
)

// C10 — evaluation is deterministic.  Twin execution: the byte-exact
// transcript (value rendering, Stderr, error message, error rendering with
// location, step count) of one (source, configuration) must be identical in a
// fresh runtime, in concurrently running runtimes after unrelated prior
// activity in the same process (workers run under the race detector), and in
// separate processes started with different GOMAXPROCS / GOGC / prior activity.

func init() {
	fw.Register(&fw.Prop{
		ID:    "C10",
		Level: "exploration",
		Rule: "programs that print, enumerate, compare and serialise maps (>=8 keys, mixed spellings), closures, errors embedding values and function names, nested containers, schema validators, json dumps, gensyms, help output, plus generated core programs; each is run once in a fresh runtime, then in 4 concurrent fresh runtimes after unrelated prior activity (race-detector build), " +
			"and (driver phase) a fixed sub-list is re-run in 4 separate processes with different GOMAXPROCS, GOGC and prior activity; " +
			"and (driver phase, c10_earlier.go) programs calling every library package with invalid and valid inputs passed as strings (fresh per case), plus programs of the main list, run in 7 processes: alone, alone in reverse order, and after / behind / beside decoys derived from the program's own text (wrapped in a function under a swallowing handler, shifted, loaded under another stream name) that make the same library calls first from other call sites in another runtime; all transcripts must be byte-identical. distinct_nontrivial counts distinct (template-or-feature, outcome class) signatures with >= 5 steps",
		Assumptions: []string{
			"time:utc-now, time:time-elapsed, time:sleep and file loading are excluded by construction, as the property allows",
			"a map-order leak is probabilistic per run: programs use >=8 keys and 5+4 comparisons per program",
		},
		Cases:       func(tier string) int { return pick(tier, 1600, 60000) },
		Run:         c10Run,
		Binary:      "race",
		Aux:         c10Aux,
		Driver:      c10Driver,
		MinDistinct: func(tier string) int { return pick(tier, 150, 300) },
	})
}

const c10Prelude = `
(set 'big (sorted-map "zeta" 1 'alpha 2 "mid" 3 :kw 4 'beta 5 "Beta" 6 "aa" 7 'ab 8 "k9" 9 'k10 10 "é" 11))
(defun mk-adder (n) (let ([m (* n 2)] [label "adder"]) (lambda (x) (+ x n m))))
(deftype point (x y) (sorted-map "x" x "y" y))
(s:deftype "c10pos" s:int (s:gt 0))
(s:deftype "c10rec" s:sorted-map (s:has-key "id" c10pos) (s:may-have-key "tags" s:array))
`

var c10Templates = []string{
	`(debug-print big) (keys big)`,
	`(map 'list (lambda (k) (list k (get big k))) (keys big))`,
	`(debug-print (mk-adder 3)) (to-string 1.5) (list (mk-adder 1) (mk-adder 2))`,
	`(json:dump-string big)`,
	`(json:dump-string (sorted-map "b" (vector 1 2.5 "x" ()) "a" (sorted-map "z" true "y" false "x" 1e21)))`,
	`(json:load-string "{\"q\":1,\"a\":[1,2,{\"z\":null,\"b\":2}],\"m\":9007199254740993}")`,
	`(list (gensym) (gensym) (gensym))`,
	`(error 'custom-condition big (mk-adder 1) "text" 1.25 (vector 1 2))`,
	`(car big)`,
	`(foldl (lambda (acc k) (concat 'string acc (to-string k))) "" (keys big))`,
	`(s:validate c10rec (sorted-map "id" 0))`,
	`(s:validate c10rec (sorted-map "id" 5 "tags" 3))`,
	`(s:validate c10rec (sorted-map "id" 5 "tags" (vector 1 2)))`,
	`(new point 1 2)`,
	`(list (type (new point 1 2)) (user-data (new point 3 4)))`,
	`(format-string "{} {} {}" big (vector 1 2) '(a b))`,
	`(equal? big (assoc big "new" 1))`,
	`(let ([m (sorted-map)]) (dotimes (i 40) (assoc! m (to-string (mod (* i 7919) 101)) i)) (debug-print m) (keys m))`,
	`(stable-sort string< (map 'list to-string (keys big)))`,
	`(nth (vector 1 2) "x")`,
	`(undefined-function-here 1 2)`,
	`(labels ((f (n) (if (<= n 0) (error 'deep (list n big)) (f (- n 1))))) (f 5))`,
	`(handler-bind ((condition (lambda (c &rest args) (list c args)))) (json:load-string "{bad"))`,
	`(string:join (map 'list to-string (keys big)) ",")`,
	`(math:floor 2.5)`,
	`(regexp:regexp-match? (regexp:regexp-compile "^a.*z$") "abcz")`,
	`(base64:encode (to-bytes "hello world"))`,
	`(macroexpand '(defun foo (x) (+ x 1)))`,
	`(list (function car) 'car #'car)`,
	`(debug-stack) (assert (= 1 2) "failed {} {}" big 3)`,
	`(set 'm2 (sorted-map)) (assoc! m2 "self" m2) (debug-print m2) (equal? m2 m2)`,
	`(time:format-rfc3339 (time:parse-rfc3339 "2020-02-29T12:00:00Z"))`,
	`(time:duration-s (time:parse-duration "1h30m"))`,
	`(defun kf (&key a b) (list a b)) (handler-bind ((condition (lambda (c &rest args) (debug-print c args) (rethrow)))) (kf :zeta 1 :alpha 2 :mid 3 :omega 4 :b 5))`,
	`((lambda (&key p q) p) :x1 1 :x2 2 :x3 3 :x4 4 :x5 5 :x6 6)`,
	`(s:validate (s:make-validator s:sorted-map (s:no-other-keys (s:has-key "a"))) (sorted-map "a" 1 "z1" 1 "z2" 2 "z3" 3 "z4" 4 "z5" 5))`,
	`(json:load-string "{\"a\":1,\"a\":2,\"b\":[}")`,
	// a function reachable under several names, some of them rebound: the name an error reports
	`(defun al-f (x) (car x)) (set 'al-g al-f) (set 'al-h al-f) (set 'al-i al-f) (set 'al-j al-f) (set 'al-j 0) (set 'al-i 1) (handler-bind ((condition (lambda (c &rest a) (debug-print c a) (rethrow)))) (al-g 5))`,
	`(defun pair-up (a b) (list a b)) (set 'mk-pair pair-up) (set 'mk2 pair-up) (set 'mk3 pair-up) (set 'mk3 ()) (list (mk-pair 1))`,
	`(labels ((inner (x) (undefined-thing x))) (set 'k1 inner) (set 'k2 inner) (set 'k3 inner) (set 'k4 inner) (set 'k4 0) (k2 1))`,
	// listings of what packages export, and the error for an export that is not bound
	`(list (help:help-package-symbols 's) (help:help-package-symbols 'math) (help:help-package-symbols 'string) (help:help-package-symbols 'json))`,
	`(help:help-package 'math) (help:help-package 'time)`,
	`(in-package 'greek) (export 'alpha 'beta 'gamma 'delta 'nu 'xi 'omicron) (in-package 'user) (use-package 'greek)`,
	`(in-package 'latin) (export 'a1) (export 'b1 'c1 'd1 'e1 'f1 'g1) (set 'a1 1) (in-package 'user) (handler-bind ((condition (lambda (c &rest a) (debug-print c a) (rethrow)))) (use-package 'latin))`,
	// several children of one container fail: which failure is reported must not depend on map order
	`(json:load-string "{\"k1\":9223372036854775808,\"k2\":99999999999999999999,\"k3\":18446744073709551616,\"k4\":9223372036854775809,\"k5\":-9223372036854775809,\"k6\":123456789012345678901234}" :exact-integers true)`,
	`(json:load-bytes (to-bytes "[1,{\"p\":{\"x\":-9223372036854775810,\"y\":9223372036854775811,\"z\":9223372036854775812,\"w\":9223372036854775813},\"q\":9223372036854775814}]") :exact-integers true)`,
	`(json:dump-string (sorted-map "k1" (mk-adder 1) "k2" car "k3" (mk-adder 2) "k4" (gensym) "k5" (new point 1 2)))`,
	`(s:validate (s:make-validator s:sorted-map (s:has-key "a" s:int) (s:has-key "b" s:int) (s:has-key "c" s:int) (s:has-key "d" s:int) (s:has-key "e" s:int)) (sorted-map "a" "x" "b" 1.5 "c" () "d" 'q "e" (vector)))`,
	// time arithmetic on instants written with the offsets real zones use in summer and
	// winter: nothing printed may depend on the zone of the host (the separate processes
	// of the driver phase run under different TZ / LANG settings)
	`(map 'list (lambda (ts) (map 'list (lambda (d) (let ([t (time:time-add (time:parse-rfc3339 ts) (time:parse-duration d))]) (list (time:format-rfc3339 t) (time:format-rfc3339-nano t)))) '("4000h" "-4000h" "24h" "0s" "-1ns"))) '("2021-07-01T12:00:00+02:00" "2021-01-01T12:00:00+01:00" "2021-07-01T12:00:00-04:00" "2021-01-15T08:30:00-05:00" "2021-01-01T00:00:00+11:00" "2021-07-01T00:00:00+10:30" "2021-07-01T12:00:00Z" "2021-07-01T12:00:00+00:00" "2021-03-28T01:59:59+01:00" "2021-11-07T01:30:00-04:00"))`,
	// an anonymous validator (never fetched through a symbol) on the call stack of an error
	c10AnonValidator,
	`(map 'list (lambda (ts) (let* ([t (time:parse-rfc3339-nano ts)] [u (time:time-add t (time:parse-duration "2500h30m0.5s"))]) (list (time:format-rfc3339-nano u) (time:duration-s (time:time-from t u)) (time:time< t u) (to-string (time:format-rfc3339 (time:time-add u (time:time-from u t))))))) '("2022-10-30T02:30:00.123456789+02:00" "2022-03-13T01:59:59.999999999-05:00" "2022-04-03T01:45:00.5+11:00" "2022-06-15T23:59:60+05:30" "1999-12-31T23:59:59-03:30" "2022-07-01T00:00:00.000000001+01:00"))`,
}

const c10AnonValidator = `(debug-print (handler-bind ((condition (lambda (c &rest a) (list c a)))) (funcall (s:gt 1)))) (funcall (s:make-validator s:int (s:gt 1)))`

// c10Named: templates whose finding key names the input class instead of the
// template's position in the list.
var c10Named = map[string]string{c10AnonValidator: "anonymous-validator-frame-name"}

func c10Program(w interface{ RNG(int, string) *fw.RNG }, idx int) (src, label string, feats map[string]bool) {
	if idx%3 != 0 {
		k := (idx / 3 * 2) + idx%3 - 1
		all := len(c10Templates) + len(c10CapTemplates)
		if k%all >= len(c10Templates) {
			// the allocation cap is lowered for the whole runtime, so no prelude here
			return c10CapTemplates[k%all-len(c10Templates)] + "\n", fmt.Sprintf("cap-template-%d", k%all-len(c10Templates)), nil
		}
		t := c10Templates[k%all]
		r := w.RNG(idx, "tmpl")
		// vary the data the template prints
		extra := fmt.Sprintf("(assoc! big %q %d)\n(assoc! big '%s %d)\n", fw.Pick(r, []string{"n1", "zz", "A", "m"}), r.Intn(100), fw.Pick(r, []string{"sym1", "q", "beta"}), r.Intn(100))
		label = fmt.Sprintf("template-%d", k%all)
		if n, ok := c10Named[t]; ok {
			label = n
		}
		return c10Prelude + extra + t + "\n", label, nil
	}
	r := w.RNG(idx, "gen")
	p := gen.DefaultProfile()
	p.Hostile = []int{0, 20, 50}[(idx/3)%3]
	g := gen.New(r, p)
	return sx.Render(g.Program(), nil), "generated", g.Feat
}

// c10Arr renders a JSON array of n ones (escaped for use inside a lisp string).
func c10Arr(n int) string { return "[" + strings.Repeat("1,", n-1) + "1]" }

// templates that run under a host-lowered allocation cap (directive on the first line)
var c10CapTemplates = []string{
	";;c10:maxalloc=64\n(json:load-string \"{\\\"a\\\":" + c10Arr(70) + ",\\\"b\\\":" + c10Arr(80) + ",\\\"c\\\":" + c10Arr(90) + ",\\\"d\\\":" + c10Arr(100) + ",\\\"e\\\":" + c10Arr(110) + ",\\\"f\\\":" + c10Arr(120) + "}\")",
	";;c10:maxalloc=64\n(json:load-bytes (to-bytes \"[{\\\"p\\\":" + c10Arr(66) + ",\\\"q\\\":" + c10Arr(67) + ",\\\"r\\\":" + c10Arr(68) + ",\\\"s\\\":" + c10Arr(69) + ",\\\"t\\\":" + c10Arr(71) + "}]\") :string-numbers true)",
	";;c10:maxalloc=64\n(list (ignore-errors (make-sequence 0 100)) (handler-bind ((condition (lambda (c &rest a) a))) (concat 'vector (make-sequence 0 40) (make-sequence 0 40))))",
}

// c10Opts is the configuration a source runs under (directive on its first line).
func c10Opts(src string) rt.Opts {
	o := rt.Opts{MaxSteps: 600_000}
	if strings.HasPrefix(src, ";;c10:maxalloc=") {
		fmt.Sscanf(src, ";;c10:maxalloc=%d", &o.MaxAlloc)
	}
	return o
}

func c10Transcript(src string) string {
	r := rt.New(c10Opts(src))
	t, v := r.RunV("c10", src)
	var sb strings.Builder
	fmt.Fprintf(&sb, "value=%s\nerr=%v cond=%s\nmsg=%s\nstderr=%s\nsteps=%d\ntrace=%s\n", t.Value, t.IsErr, t.Cond, t.Msg, t.Stderr, t.Steps, t.TraceString())
	// the message and the call stack as the embedding API hands them to the host
	if v != nil && v.Type == lisp.LError {
		fmt.Fprintf(&sb, "goerror=%s\n", lisp.GoError(v).Error())
		if cs := v.CallStack(); cs != nil {
			for i := len(cs.Frames) - 1; i >= 0; i-- {
				f := cs.Frames[i]
				loc := ""
				if f.Source != nil {
					loc = f.Source.String()
				}
				fmt.Fprintf(&sb, "frame=%s@%s\n", f.QualifiedFunName(lisp.DefaultUserPackage), loc)
			}
		}
	}
	return sb.String()
}

// c10Prior runs unrelated activity in other runtimes of this process.
func c10Prior(r *fw.RNG, n int) {
	for i := 0; i < n; i++ {
		rr := rt.New(rt.Opts{MaxSteps: 200_000})
		rr.Run("prior", c10Prelude+c10Templates[r.Intn(len(c10Templates))]+"\n(gensym)(gensym)(s:deftype \"x\" s:int (s:gt 1))")
	}
}

func c10Hash(s string) string {
	h := sha256.Sum256([]byte(s))
	return hex.EncodeToString(h[:8])
}

func c10Run(w *fw.W, idx int) {
	src, label, feats := c10Program(w, idx)
	first := c10Transcript(src)
	w.Eval(1)
	r := w.RNG(idx, "prior")
	c10Prior(r, r.Intn(3))
	var wg sync.WaitGroup
	outs := make([]string, 4)
	for i := range outs {
		wg.Add(1)
		go func(i int) {
			defer wg.Done()
			outs[i] = c10Transcript(src)
		}(i)
	}
	wg.Wait()
	w.Eval(4)
	w.Logf("%s\n--- transcript ---\n%s", src, first)
	for i, o := range outs {
		if o != first {
			w.Violation("nondeterministic:"+label, fmt.Sprintf("run %d of the same source in a fresh runtime differs from the first run (%s)", i+2, c10FirstDiff(first, o)),
				src+"\n--- first ---\n"+first+"\n--- other ---\n"+o)
			return
		}
	}
	steps := c10Field(first, "steps=")
	if n, _ := strconv.Atoi(steps); n >= 5 {
		out := "value"
		if strings.Contains(first, "err=true") {
			out = "err:" + c10Field(first, "cond=")
		}
		w.CoverKey(label + "|" + out)
		for f := range feats {
			w.CoverKey("gen|" + f + "|" + out)
		}
	}
	w.Count("transcripts_compared", 4)
	if w.WantSample() && label != "generated" {
		w.Sample(map[string]any{"template": label, "transcript_sha": c10Hash(first), "transcript_head": first[:min(len(first), 300)]})
	}
}

func c10Field(t, key string) string {
	i := strings.Index(t, key)
	if i < 0 {
		return ""
	}
	rest := t[i+len(key):]
	if j := strings.IndexAny(rest, "\n "); j >= 0 {
		rest = rest[:j]
	}
	return rest
}

func c10FirstDiff(a, b string) string {
	la, lb := strings.Split(a, "\n"), strings.Split(b, "\n")
	for i := 0; i < len(la) && i < len(lb); i++ {
		if la[i] != lb[i] {
			return fmt.Sprintf("first differing line: %q vs %q", trunc(la[i], 200), trunc(lb[i], 200))
		}
	}
	return "different length"
}

func trunc(s string, n int) string {
	if len(s) > n {
		return s[:n] + "…"
	}
	return s
}

// --- cross-process phase -------------------------------------------------------------

type c10Seeder struct{ seed int64 }

func (s c10Seeder) RNG(idx int, sub string) *fw.RNG { return fw.NewRNG(s.seed, "C10/"+sub, idx) }

// c10Aux: print "idx hash" for the first n cases, after `prior` rounds of unrelated activity.
func c10Aux(args []string) int {
	if args[0] == "earlier" {
		return c10EarlierAux(args[1:])
	}
	n, _ := strconv.Atoi(args[0])
	prior, _ := strconv.Atoi(args[1])
	seed, _ := strconv.ParseInt(os.Getenv("VERIF_SEED"), 10, 64)
	if seed == 0 {
		seed = 1
	}
	sd := c10Seeder{seed}
	c10Prior(fw.NewRNG(seed, "aux-prior", prior), prior)
	for idx := 0; idx < n; idx++ {
		src, _, _ := c10Program(sd, idx)
		fmt.Printf("%d %s\n", idx, c10Hash(c10Transcript(src)))
	}
	// which zone this process really runs in (a TZ name the host has no data for falls
	// back to UTC silently: the evidence shows what was exercised)
	_, jan := time.Date(2021, 1, 15, 12, 0, 0, 0, time.Local).Zone()
	_, jul := time.Date(2021, 7, 15, 12, 0, 0, 0, time.Local).Zone()
	fmt.Printf("zone %s/jan%+d/jul%+d\n", strings.ReplaceAll(time.Local.String(), " ", "_"), jan, jul)
	return 0
}

func c10Driver(d *fw.D) {
	// the earlier-different-program family (c10_earlier.go) runs its processes meanwhile
	defer c10EarlierStart(d)()
	n := pick(d.Tier, 400, 6000)
	confs := []struct {
		name  string
		env   []string
		prior int
	}{
		// the host environment differs as well: time zone, locale, home and temp directories
		{"GOMAXPROCS=1 GOGC=100 prior=0 TZ=UTC", []string{"GOMAXPROCS=1", "GOGC=100", "TZ=UTC", "LANG=C", "LC_ALL=C"}, 0},
		{"GOMAXPROCS=16 GOGC=20 prior=7 TZ=Europe/Berlin", []string{"GOMAXPROCS=16", "GOGC=20", "TZ=Europe/Berlin", "LANG=tr_TR.UTF-8", "LC_ALL=tr_TR.UTF-8"}, 7},
		{"GOMAXPROCS=3 GOGC=off prior=2 TZ=America/New_York", []string{"GOMAXPROCS=3", "GOGC=off", "TZ=America/New_York", "LANG=en_US.UTF-8", "HOME=/nonexistent"}, 2},
		{"GOMAXPROCS=8 GOGC=400 prior=19 TZ=Australia/Lord_Howe", []string{"GOMAXPROCS=8", "GOGC=400", "TZ=Australia/Lord_Howe", "LANG=de_DE.ISO-8859-1", "USER=nobody"}, 19},
	}
	outs := make([]map[string]string, len(confs))
	zones := make([]string, len(confs))
	var wg sync.WaitGroup
	errs := make([]error, len(confs))
	for i, c := range confs {
		wg.Add(1)
		go func(i int, env []string, prior int) {
			defer wg.Done()
			b, err := d.RunAux("", env, 30*time.Minute, strconv.Itoa(n), strconv.Itoa(prior))
			errs[i] = err
			m := map[string]string{}
			for _, l := range strings.Split(string(b), "\n") {
				f := strings.Fields(l)
				if len(f) == 2 && f[0] == "zone" {
					zones[i] = f[1]
					continue
				}
				if len(f) == 2 {
					m[f[0]] = f[1]
				}
			}
			outs[i] = m
		}(i, c.env, c.prior)
	}
	wg.Wait()
	for i, e := range errs {
		if e != nil {
			d.Violation("cross-process-run-failed", "process "+confs[i].name+" failed: "+e.Error(), "")
			return
		}
		if len(outs[i]) != n {
			d.Inconclusive(fmt.Sprintf("process %s produced %d of %d transcripts", confs[i].name, len(outs[i]), n))
			return
		}
	}
	sd := c10Seeder{d.Seed}
	reported := map[string]bool{}
	for idx := 0; idx < n; idx++ {
		k := strconv.Itoa(idx)
		for i := 1; i < len(confs); i++ {
			if outs[i][k] != outs[0][k] {
				src, label, _ := c10Program(sd, idx)
				// one report per input class; the comparison goes on (a listed
				// finding must not hide a different one further down)
				if !reported[label] {
					reported[label] = true
					d.Violation("nondeterministic-across-processes:"+label,
						fmt.Sprintf("case %d: transcript hash %s under [%s] but %s under [%s]", idx, outs[0][k], confs[0].name, outs[i][k], confs[i].name), src)
				}
				break
			}
		}
	}
	d.Eval(n * len(confs))
	d.Count("cross_process_transcripts", int64(n*len(confs)))
	for i, c := range confs {
		d.SetAdd("process_configurations", c.name)
		d.SetAdd("process_local_zones_in_effect", zones[i])
	}
}
