package props

import (
	"context"
	"fmt"
	"strings"
	"time"

	"github.com/luthersystems/elps/lisp"

	"verifharness/fw"
	"verifharness/rt"
)

// C03 (4) — the formals zoo.
//
// The registry sweep applies every builtin to hostile VALUES.  The operators that
// DEFINE functions (lambda, defun, defmacro, labels, flet, macrolet, deftype) take a
// formals list as an argument and, except for a symbol check in lambda, do not
// interpret it: whatever list they are handed is met by the evaluator's binder one
// step later, when the function, macro, constructor, handler or callback is CALLED.
// So the argument tuple of a definer is only exercised by the pair (define, call).
//
// This family enumerates formals lists instead of sampling them: every list over an
// alphabet of plain symbols, the three control symbols, unknown and bare &-symbols,
// keyword / qualified / constant symbols and non-symbol elements (number, string,
// nested list, empty list, quoted symbol), complete up to length 3, complete at
// length 4 over the symbol core of the alphabet, then the rest of length 4 in a
// scattered order, then random longer lists; plus formals that are not a list at
// all.  Each one is defined through every definer and used at every kind of call
// site (direct call, funcall, apply, macro call and macroexpand, type constructor,
// condition handler, callback of every higher-order builtin, compose/flip/
// curry-function wrappers) with 0..4 positional arguments and keyword-style
// argument lists.  Oracle: the one of the rest of C03.

type c03Elem struct {
	text string
	kind int
}

const (
	c03Plain = iota
	c03Opt
	c03Rest
	c03Key
	c03UnknownCtl
	c03OddSym
	c03NonSym
)

// the first six are the symbol core (complete at length 4)
var c03FormalAlphabet = []c03Elem{
	{"a", c03Plain}, {"b", c03Plain}, {"&optional", c03Opt}, {"&rest", c03Rest}, {"&key", c03Key}, {"&body", c03UnknownCtl},
	{"&", c03UnknownCtl}, {":k", c03OddSym}, {"x:y", c03OddSym}, {"true", c03OddSym},
	{"1", c03NonSym}, {"\"s\"", c03NonSym}, {"(c)", c03NonSym}, {"()", c03NonSym}, {"'q", c03NonSym},
}

const c03FormalCore = 6

// formals that are not a plain list of elements
var c03WholeFormals = []struct{ name, text string }{
	{"nil-symbol", "nil"}, {"number", "5"}, {"string", "\"s\""}, {"symbol", "a"}, {"keyword", ":k"},
	{"quoted-list", "'(a b)"}, {"quoted-empty-list", "'()"}, {"quote-form", "(quote (a))"}, {"bracket-list", "[a b]"},
	{"vector-form", "(vector a b)"}, {"quoted-symbol", "'a"}, {"float", "1.5"},
}

type c03FormalsItem struct {
	text  string // the formals as written in the definition
	class string // class of the list, by construction
	syms  []string
}

// c03FormalsClass names the first irregularity of a formals list with respect to
// docs/lang.md (plain symbols, then `&optional` names, then `&rest` name or `&key`
// names).  It is computed from the generated list, never from what elps answers.
func c03FormalsClass(es []c03Elem) string {
	n := len(es)
	if n > 0 && (es[n-1].kind == c03Opt || es[n-1].kind == c03Rest || es[n-1].kind == c03Key) {
		return "dangling-" + es[n-1].text
	}
	for _, e := range es {
		if e.kind == c03NonSym {
			return "non-symbol-element"
		}
	}
	for _, e := range es {
		if e.kind == c03UnknownCtl {
			return "unknown-control-symbol"
		}
	}
	isCtl := func(e c03Elem) bool { return e.kind == c03Opt || e.kind == c03Rest || e.kind == c03Key }
	for i, e := range es {
		if e.kind == c03Rest && n-i-1 >= 2 && !isCtl(es[i+1]) {
			return "&rest-followed-by-several"
		}
	}
	for i := 0; i+1 < n; i++ {
		if isCtl(es[i]) && isCtl(es[i+1]) {
			return "adjacent-control-symbols"
		}
	}
	// plain* [&optional plain+] [&rest plain | &key plain+]
	stage := 0
	for _, e := range es {
		switch e.kind {
		case c03Opt:
			if stage >= 1 {
				return "control-symbol-order"
			}
			stage = 1
		case c03Rest, c03Key:
			if stage >= 2 {
				return "control-symbol-order"
			}
			stage = 2
		}
	}
	seen := map[string]bool{}
	for _, e := range es {
		if isCtl(e) {
			continue
		}
		if seen[e.text] {
			return "duplicate-formal"
		}
		seen[e.text] = true
	}
	for _, e := range es {
		if e.kind == c03OddSym {
			return "odd-symbol-formal"
		}
	}
	return "well-formed"
}

func c03FormalsFromElems(es []c03Elem) c03FormalsItem {
	parts := make([]string, len(es))
	it := c03FormalsItem{class: c03FormalsClass(es)}
	seen := map[string]bool{}
	for i, e := range es {
		parts[i] = e.text
		if e.kind == c03Plain && !seen[e.text] {
			seen[e.text] = true
			it.syms = append(it.syms, e.text)
		}
	}
	it.text = "(" + strings.Join(parts, " ") + ")"
	return it
}

func c03Pow(b, e int) int {
	p := 1
	for ; e > 0; e-- {
		p *= b
	}
	return p
}

// c03FormalsAt is item n of the fixed sequence (the tier only changes how far it is walked).
func c03FormalsAt(w *fw.W, idx, n int) c03FormalsItem {
	if n < len(c03WholeFormals) {
		wf := c03WholeFormals[n]
		return c03FormalsItem{text: wf.text, class: "formals-not-an-element-list:" + wf.name}
	}
	n -= len(c03WholeFormals)
	digits := func(n, base, length int, alphabet []c03Elem) []c03Elem {
		es := make([]c03Elem, length)
		for i := length - 1; i >= 0; i-- {
			es[i] = alphabet[n%base]
			n /= base
		}
		return es
	}
	full := len(c03FormalAlphabet)
	for length := 0; length <= 3; length++ {
		if c := c03Pow(full, length); n < c {
			return c03FormalsFromElems(digits(n, full, length, c03FormalAlphabet))
		} else {
			n -= c
		}
	}
	if c := c03Pow(c03FormalCore, 4); n < c {
		return c03FormalsFromElems(digits(n, c03FormalCore, 4, c03FormalAlphabet))
	} else {
		n -= c
	}
	if c := c03Pow(full, 4); n < c {
		// scattered walk over all lists of length 4 (the multiplier is coprime to 15^4)
		return c03FormalsFromElems(digits(int(int64(n)*10007%int64(c)), full, 4, c03FormalAlphabet))
	} else {
		n -= c
	}
	r := w.RNG(idx, fmt.Sprintf("formals%d", n))
	es := make([]c03Elem, r.Range(5, 7))
	for i := range es {
		// symbols and control symbols three times as often as the rest
		if r.Intn(4) > 0 {
			es[i] = c03FormalAlphabet[r.Intn(c03FormalCore)]
		} else {
			es[i] = c03FormalAlphabet[r.Intn(full)]
		}
	}
	return c03FormalsFromElems(es)
}

// argument lists of the call: 0..4 positional, and keyword-style
var c03CallShapes = []struct{ name, args string }{
	{"0", ""}, {"1", "1"}, {"2", "1 2"}, {"3", "1 2 3"}, {"4", "1 2 3 4"},
	{"key-a", ":a 1"}, {"key-a-b", ":a 1 :b 2"}, {"key-unknown", ":zz 1"}, {"key-odd", ":a"}, {"1+key-a", "1 :b 2"}, {"2+key-b", "1 2 :b 3"}, {"key-twice", ":a 1 :a 2"},
}

// c03FormalSites: a site defines the function once (wrap; %C stands for the calls) and
// calls it once per call shape (call; %A stands for the arguments).  %F formals, %B
// function body, %M macro body, %N a fresh number.  A site without call fixes the
// argument list itself.  kind is part of the finding key: how the function came to be called.
var c03FormalSites = []struct {
	name, kind, wrap, call string
}{
	{"lambda", "function", "(list %C)", "((lambda %F %B) %A)"},
	{"defun", "function", "(progn (defun zf%N %F %B) (list %C))", "(zf%N %A)"},
	{"labels", "function", "(labels ([h %F %B]) (list %C))", "(h %A)"},
	{"flet", "function", "(flet ([h %F %B]) (list %C))", "(h %A)"},
	{"funcall-lambda", "function", "(let ([f (lambda %F %B)]) (list %C))", "(funcall f %A)"},
	{"funcall-labels", "function", "(labels ([h %F %B]) (list %C))", "(funcall h %A)"},
	{"funcall-symbol", "function", "(progn (defun zf%N %F %B) (list %C))", "(funcall 'zf%N %A)"},
	{"apply-labels", "function", "(labels ([h %F %B]) (list %C))", "(apply h (list %A))"},
	{"apply-flet-spread", "function", "(flet ([h %F %B]) (list %C))", "(apply h %A '())"},
	{"deftype-new", "constructor", "(progn (deftype zt%N %F %B) (list %C))", "(new zt%N %A)"},
	{"defmacro", "macro", "(progn (defmacro zm%N %F %M) (list %C))", "(zm%N %A)"},
	{"macrolet", "macro", "(macrolet ([m %F %M]) (list %C))", "(m %A)"},
	{"macroexpand", "macro", "(progn (defmacro zm%N %F %M) (list %C))", "(macroexpand '(zm%N %A))"},
	{"macroexpand-1", "macro", "(progn (defmacro zm%N %F %M) (list %C))", "(macroexpand-1 '(zm%N %A))"},
	{"handler-lambda", "handler", "(list %C)", "(handler-bind ([condition (lambda %F %B)]) (error 'boom %A))"},
	{"handler-labels", "handler", "(labels ([h %F %B]) (list %C))", "(handler-bind ([condition h]) (error 'boom %A))"},
	{"handler-named", "handler", "(flet ([h %F %B]) (list %C))", "(handler-bind ([boom h]) (error 'boom %A))"},
	// compose reads the formals of its second function to build the wrapper's own
	{"compose-inner", "wrapper", "(labels ([h %F %B]) (list %C))", "((compose list h) %A)"},
	{"map", "callback", "(labels ([h %F %B]) (map 'list h '(1 2)))", ""},
	{"map-vector", "callback", "(flet ([h %F %B]) (map 'vector h (vector 1 2)))", ""},
	{"map-lambda", "callback", "(map 'list (lambda %F %B) '(1 2))", ""},
	{"foldl", "callback", "(labels ([h %F %B]) (foldl h 0 '(1 2)))", ""},
	{"foldr", "callback", "(labels ([h %F %B]) (foldr h 0 '(1 2)))", ""},
	{"select", "callback", "(labels ([h %F %B]) (select 'list h '(1 2)))", ""},
	{"reject", "callback", "(labels ([h %F %B]) (reject 'list h '(1 2)))", ""},
	{"all?", "callback", "(labels ([h %F %B]) (all? h '(1 2)))", ""},
	{"any?", "callback", "(labels ([h %F %B]) (any? h '(1 2)))", ""},
	{"stable-sort", "callback", "(labels ([h %F %B]) (stable-sort h '(3 1 2)))", ""},
	{"stable-sort-key", "callback", "(labels ([h %F %B]) (stable-sort < '(3 1 2) h))", ""},
	{"insert-sorted", "callback", "(labels ([h %F %B]) (insert-sorted 'list '(1 3) h 2))", ""},
	{"insert-sorted-key", "callback", "(labels ([h %F %B]) (insert-sorted 'list '(1 3) < 2 h))", ""},
	{"search-sorted", "callback", "(labels ([h %F %B]) (search-sorted 3 h))", ""},
	{"unpack", "callback", "(labels ([h %F %B]) (unpack h '(1 2)))", ""},
	{"flip", "wrapper", "(labels ([h %F %B]) ((flip h) 1 2))", ""},
	{"compose-outer", "wrapper", "(labels ([h %F %B]) ((compose h list) 1 2))", ""},
	{"curry-function", "wrapper", "(labels ([h %F %B]) ((curry-function h 1) 2))", ""},
	{"thread-first", "function", "(labels ([h %F %B]) (thread-first 1 (h 2)))", ""},
	{"thread-last", "function", "(labels ([h %F %B]) (thread-last 1 (h 2)))", ""},
}

const c03FormalsPerCase = 3

var c03FormalsOpts = rt.Opts{MaxSteps: 400_000, MaxAlloc: 200_000, MaxPhys: 2000}

// the catch-all every use sits in when the uses of a formals list are loaded together
const c03FormalsGuardDef = "(defun c03-refused (c &rest a) c)"

func c03Guarded(form string) string {
	return "(handler-bind ([condition c03-refused]) " + form + ")"
}

// c03FormalsLoad loads one source text; failure is "" when the answer is acceptable.
func c03FormalsLoad(rr *rt.R, src string) (v *lisp.LVal, failure, summary string) {
	ctx, cancel := context.WithTimeout(context.Background(), 30*time.Second)
	defer cancel()
	var escaped any
	func() {
		defer func() { escaped = recover() }()
		v = rr.Env.LoadStringContext(ctx, "c03-formals", src)
	}()
	switch {
	case escaped != nil:
		return nil, "go-panic", fmt.Sprintf("panicked in Go: %v", escaped)
	case v == nil:
		return nil, "nil-result", "returned a nil *LVal to the host"
	case lisp.IsInternalPanic(v):
		return v, "internal-panic", "answered with internal-panic: " + trunc(rt.ErrMsg(v), 300)
	}
	return v, "", ""
}

func c03FormalsRuntime() *rt.R {
	rr := rt.New(c03FormalsOpts)
	rr.Env.LoadString("c03-formals-guard", c03FormalsGuardDef)
	return rr
}

func c03Formals(w *fw.W, idx, z int) {
	rr := c03FormalsRuntime()
	stop := c03Watch(w, idx, "formals zoo")
	defer func() { stop() }()
	reported := map[string]bool{}
	serial := 0
	outcome := func(a *lisp.LVal) string {
		if a.Type == lisp.LSymbol {
			return a.Str // the condition the catch-all was handed (or a symbol value)
		}
		return "value"
	}
	for n := z * c03FormalsPerCase; n < (z+1)*c03FormalsPerCase; n++ {
		it := c03FormalsAt(w, idx, n)
		body := "(list " + strings.Join(it.syms, " ") + ")"
		mbody := "(quasiquote (list (unquote-splicing " + body + ")))" // expands to (list <the arguments bound>)
		// All uses of one formals list are read and evaluated as ONE source text (reading
		// is most of what a small evaluation costs): a list of one answer per site, each
		// site a list of one answer per call shape, every site and every call in its own
		// catch-all handler - which, by the documented carve-out, does not contain
		// internal-panic: the list of answers comes back unless some use panicked.  Only
		// then is each use loaded on its own, unguarded, to name the ones that do.
		type use struct{ site, kind, shape, src string }
		var uses []use
		nshapes := make([]int, len(c03FormalSites))
		var sb strings.Builder
		sb.WriteString("(list")
		for si, site := range c03FormalSites {
			serial++
			fill := strings.NewReplacer("%F", it.text, "%B", body, "%M", mbody, "%N", fmt.Sprint(serial))
			wrap := fill.Replace(site.wrap)
			if site.call == "" {
				uses = append(uses, use{site.name, site.kind, "fixed", wrap})
				sb.WriteString("\n " + c03Guarded(wrap))
				continue
			}
			var calls strings.Builder
			for _, sh := range c03CallShapes {
				call := strings.Replace(fill.Replace(site.call), "%A", sh.args, 1)
				uses = append(uses, use{site.name, site.kind, sh.name, strings.Replace(wrap, "%C", call, 1)})
				calls.WriteString("\n  " + c03Guarded(call))
				nshapes[si]++
			}
			sb.WriteString("\n " + c03Guarded(strings.Replace(wrap, "%C", calls.String(), 1)))
		}
		sb.WriteString(")")
		what := "formals " + it.text + ", every definer and call site"
		w.Logf("%s", what)
		stop()
		stop = c03Watch(w, idx, what)
		v, failure, summary := c03FormalsLoad(rr, sb.String())
		w.Eval(len(uses))
		w.Count("formals_lists", 1)
		w.SetAdd("formals_classes", it.class)
		if failure == "" {
			if w.Verbose {
				w.Logf("%s\n  => %s", sb.String(), v.String())
			}
			if v.Type == lisp.LError || len(v.Cells) != len(c03FormalSites) {
				// an ordinary condition the catch-all does not contain (the step budget, say):
				// nothing this check judges, but nothing was learnt either
				w.Count("formals_lists_not_fully_evaluated", 1)
				w.SetAdd("formals_outcomes", "whole-list:"+trunc(v.Str, 40))
				continue
			}
			for si, site := range c03FormalSites {
				a := v.Cells[si]
				if nshapes[si] > 0 && a.Type == lisp.LSExpr && len(a.Cells) == nshapes[si] {
					for _, b := range a.Cells {
						w.CoverKey("formals|" + it.class + "|" + site.name + "|" + outcome(b))
						w.SetAdd("formals_outcomes", outcome(b))
					}
					continue
				}
				w.CoverKey("formals|" + it.class + "|" + site.name + "|at-definition|" + outcome(a))
				w.SetAdd("formals_outcomes", outcome(a))
			}
			continue
		}
		w.Logf("  => %s; loading each use alone", failure)
		if failure == "go-panic" { // the runtime may be left in any state
			rr = c03FormalsRuntime()
		}
		named := false
		for _, u := range uses {
			what := fmt.Sprintf("formals %s via %s, call shape %s", it.text, u.site, u.shape)
			stop()
			stop = c03Watch(w, idx, what)
			v1, f1, s1 := c03FormalsLoad(rr, u.src)
			w.Eval(1)
			if w.Verbose && v1 != nil {
				w.Logf("%s: %s\n  => %s", what, u.src, trunc(v1.String(), 200))
			}
			if f1 == "" {
				continue
			}
			named = true
			if key := f1 + "-from-user-formals:" + it.class + ":" + u.kind; !reported[key] {
				reported[key] = true
				w.Violation(key, u.src+" "+s1, what+"\n"+u.src)
			}
			if f1 == "go-panic" {
				rr = c03FormalsRuntime()
			}
		}
		if !named { // only the sequence of uses does it
			if key := failure + "-from-user-formals:" + it.class + ":uses-in-sequence"; !reported[key] {
				reported[key] = true
				w.Violation(key, "the uses of formals "+it.text+" loaded as one source "+summary, sb.String())
			}
		}
	}
}
