package props

// C19 family 5 — one name defined more than once.  A file is loaded top to
// bottom; every defun/defmacro replaces what the name was bound to in the
// current package before.  The target call sits before, between or after the
// definitions (at top level or in the body of a function that is invoked
// earlier or later), in one package or two.  Which definition the call reaches
// is decided by evaluating, never by the harness's reading of the file:
//
//   - control run: the target is replaced by (verif:c19-which NAME), a builtin
//     added for this family that records what NAME is bound to at that moment
//     (function or macro, formals, package) and counts as the target probe;
//   - real run: the call either runs the body of exactly one definition (each
//     body has its own probe tag) or fails binding with NAME on top of the
//     error's call stack.
//
// Demands (the same as families 2 and 3): a call that binds is not reported by
// any arity analyzer in any lint mode; a call that fails binding of a function
// defined with defun (no &key) is reported when semantic analysis is on.  A
// call that fails binding of a user macro owes no report (the property names
// functions defined with defun).

import (
	"fmt"
	"strings"
	"sync"

	"github.com/luthersystems/elps/lisp"

	"verifharness/fw"
	"verifharness/rt"
)

// c19RedefFormals are the parameter lists a definition can have; every ordered
// pair of different lists is a "growing", "shrinking" or "otherwise changed"
// redefinition.
var c19RedefFormals = []string{"()", "(a)", "(a b)", "(a &optional o)", "(a &rest r)"}

// c19RedefDefiners are the (first, last) definer pairs.
var c19RedefDefiners = [][2]string{{"defun", "defun"}, {"defun", "defmacro"}, {"defmacro", "defun"}, {"defmacro", "defmacro"}}

const (
	c19RedefMaxK = 3
	c19RedefPkg1 = "c19-p1"
	c19RedefPkg2 = "c19-p2"
)

// c19RedefPlace is one placement of the target call relative to the
// definitions.  first = text of the first definition, rest = text of the later
// definition(s).
type c19RedefPlace struct {
	Name  string
	Build func(first, rest string) string
}

const (
	c19RedefG     = "(defun c19-g ()\n  " + c19Mark + ")\n"
	c19RedefCallG = "(c19-g)\n"
	c19RedefIn1   = "(in-package '" + c19RedefPkg1 + ")\n"
	c19RedefIn2   = "(in-package '" + c19RedefPkg2 + ")\n"
)

var c19RedefPlaces = []c19RedefPlace{
	// ---- one package
	{"call-after-definitions", func(first, rest string) string { return first + rest + c19Mark + "\n" }},
	{"call-between-definitions", func(first, rest string) string { return first + c19Mark + "\n" + rest }},
	{"call-in-fn-defined-before-invoked-after", func(first, rest string) string {
		return c19RedefG + first + rest + c19RedefCallG
	}},
	{"call-in-fn-defined-between-invoked-after", func(first, rest string) string {
		return first + c19RedefG + rest + c19RedefCallG
	}},
	{"call-in-fn-defined-between-invoked-between", func(first, rest string) string {
		return first + c19RedefG + c19RedefCallG + rest
	}},
	{"call-in-fn-defined-after-invoked-after", func(first, rest string) string {
		return first + rest + c19RedefG + c19RedefCallG
	}},
	// ---- two packages: the first definition lives in one package, the later
	// one(s) in another; the call is made by bare name from either
	{"two-packages:call-in-second-after-definitions", func(first, rest string) string {
		return c19RedefIn1 + first + c19RedefIn2 + rest + c19Mark + "\n"
	}},
	{"two-packages:call-in-first-after-definitions", func(first, rest string) string {
		return c19RedefIn1 + first + c19RedefIn2 + rest + c19RedefIn1 + c19Mark + "\n"
	}},
	{"two-packages:call-in-first-between-definitions", func(first, rest string) string {
		return c19RedefIn1 + first + c19Mark + "\n" + c19RedefIn2 + rest
	}},
}

// c19RedefDef renders definition number n (1-based) of name.
func c19RedefDef(definer, name, formals string, n int) string {
	probe := fmt.Sprintf("(verif:probe 'c19-def%d)", n)
	if definer == "defmacro" {
		return fmt.Sprintf("(defmacro %s %s (quasiquote %s))\n", name, formals, probe)
	}
	return fmt.Sprintf("(defun %s %s %s)\n", name, formals, probe)
}

// c19RedefCase is one enumerated case (x k = 0..c19RedefMaxK).
type c19RedefCase struct {
	Definers [2]string
	Formals  [2]string
	Place    int
}

var (
	c19RedefOnce sync.Once
	c19RedefList []c19RedefCase
)

func c19RedefCases() []c19RedefCase {
	c19RedefOnce.Do(func() {
		for pi := range c19RedefPlaces {
			for _, d := range c19RedefDefiners {
				for _, f1 := range c19RedefFormals {
					for _, f2 := range c19RedefFormals {
						if f1 != f2 {
							c19RedefList = append(c19RedefList, c19RedefCase{d, [2]string{f1, f2}, pi})
						}
					}
				}
			}
		}
	})
	return c19RedefList
}

// c19RedefInst is a concrete program family member: two or three definitions
// of Name, a placement, optional neutral variation.
type c19RedefInst struct {
	Name     string
	Definers []string
	Formals  []string
	Place    c19RedefPlace
	Wrap     *c19Wrap
}

func (in c19RedefInst) template() string {
	var defs []string
	for i := range in.Definers {
		defs = append(defs, c19RedefDef(in.Definers[i], in.Name, in.Formals[i], i+1))
	}
	return c19ApplyWrap(in.Place.Build(defs[0], strings.Join(defs[1:], "")), in.Wrap)
}

// pair names the definers of the first and of the last definition: whatever
// the placement, these are the two a linter could confuse.
func (in c19RedefInst) pair() string {
	return in.Definers[0] + "+" + in.Definers[len(in.Definers)-1]
}

func (in c19RedefInst) describe() string {
	var ss []string
	for i := range in.Definers {
		ss = append(ss, fmt.Sprintf("%d: (%s %s %s ..)", i+1, in.Definers[i], in.Name, in.Formals[i]))
	}
	return strings.Join(ss, ", ")
}

// c19Which is what the name was bound to when the control run reached the
// target position.
type c19Which struct {
	Kind    string // function | macro | operator | <type name>
	Pkg     string
	FID     string
	Formals []string
}

func (wh c19Which) String() string {
	return fmt.Sprintf("%s (%s) of package %s", wh.Kind, strings.Join(wh.Formals, " "), wh.Pkg)
}

type c19Builtin struct {
	name    string
	formals *lisp.LVal
	fn      lisp.LBuiltin
}

func (b c19Builtin) Name() string                               { return b.name }
func (b c19Builtin) Formals() *lisp.LVal                        { return b.formals }
func (b c19Builtin) Eval(e *lisp.LEnv, a *lisp.LVal) *lisp.LVal { return b.fn(e, a) }

// c19EvalWhich evaluates src like c19Eval in a runtime that additionally has
// (verif:c19-which VALUE): it records what VALUE is and leaves a c19-target
// probe in the trace.
func c19EvalWhich(src string, p c19Pos) (c19Obs, []c19Which) {
	var seen []c19Which
	obs := c19EvalWith(src, p, func(r *rt.R) {
		if rc := r.Env.InPackage(lisp.Symbol("verif")); !rc.IsNil() {
			panic(rc.String())
		}
		r.Env.AddBuiltins(true, c19Builtin{"c19-which", lisp.Formals("value"), func(e *lisp.LEnv, a *lisp.LVal) *lisp.LVal {
			v := a.Cells[0]
			wh := c19Which{Kind: v.Type.String()}
			if v.Type == lisp.LFun {
				switch {
				case v.IsMacro():
					wh.Kind = "macro"
				case v.IsSpecialOp():
					wh.Kind = "operator"
				default:
					wh.Kind = "function"
				}
				wh.Pkg, wh.FID = v.Package(), v.FID()
				if len(v.Cells) > 0 {
					for _, c := range v.Cells[0].Cells {
						wh.Formals = append(wh.Formals, c.Str)
					}
				}
			}
			seen = append(seen, wh)
			r.Trace = append(r.Trace, rt.Probe{Tag: "c19-target"})
			return lisp.Nil()
		}})
		if rc := r.Env.InPackage(lisp.String(lisp.DefaultUserPackage)); !rc.IsNil() {
			panic(rc.String())
		}
	})
	return obs, seen
}

func c19DefProbes(o c19Obs) (total int, tags []string) {
	for _, p := range o.T.Trace {
		if strings.HasPrefix(p.Tag, "c19-def") {
			total++
			tags = append(tags, p.Tag)
		}
	}
	return
}

// c19JudgeRedef evaluates control + real program for k arguments, lints the
// real program in the three modes and applies the property.
func c19JudgeRedef(w *fw.W, fnd *c19Findings, family string, in c19RedefInst, k int, keyExtra string) (violated bool) {
	tmpl := in.template()
	csrc, cpos := c19Place(tmpl, "(verif:c19-which "+in.Name+")")
	ctl, whichs := c19EvalWhich(csrc, cpos)
	w.Eval(1)
	nDefCtl, _ := c19DefProbes(ctl)
	if ctl.T.IsErr || len(whichs) != 1 || c19CountTag(ctl, "c19-target") != 1 || nDefCtl != 0 ||
		(whichs[0].Kind != "function" && whichs[0].Kind != "macro") {
		fnd.add("harness-template:redefined:"+in.Place.Name+keyExtra, "control run of a redefinition template is not clean (harness bug, not a finding about elps)",
			fmt.Sprintf("control source:\n%s\nrun: %s\nname bound to: %v", csrc, ctl, whichs))
		return true
	}
	reached := whichs[0]
	rsig := c19ParseFormals(reached.Formals)

	args := c19Ints(k, 1)
	if in.Wrap != nil && in.Wrap.Args != nil {
		args = in.Wrap.Args(k)
	}
	src, pos := c19Place(tmpl, c19Call(in.Name, args))
	obs := c19Eval(src, pos)
	w.Eval(1)
	nDef, tags := c19DefProbes(obs)
	// The control run is clean, so every call other than the target binds; a
	// binder error with the name on top of its call stack is the target's.
	fails := obs.BindFailed() && obs.TopName == in.Name && obs.TopPkg == reached.Pkg
	bodyOf := 0 // number of the definition whose body ran
	switch {
	case fails && nDef == 0:
	case !obs.T.IsErr && nDef == 1:
		fmt.Sscanf(tags[0], "c19-def%d", &bodyOf)
		// cross-check of the two observations: the body that ran belongs to a
		// definition with the definer and formals the control run saw bound
		wantKind := "function"
		if bodyOf >= 1 && bodyOf <= len(in.Definers) && in.Definers[bodyOf-1] == "defmacro" {
			wantKind = "macro"
		}
		if bodyOf < 1 || bodyOf > len(in.Definers) || wantKind != reached.Kind ||
			strings.Join(reached.Formals, " ") != strings.Trim(in.Formals[bodyOf-1], "()") {
			fnd.add("harness-redefined-unclassified:"+in.Place.Name, "the body that ran is not the definition the control run saw bound (harness cannot classify)",
				fmt.Sprintf("source:\n%s\nrun: %s\ncontrol run saw the name bound to: %s", src, obs, reached))
			return true
		}
	default:
		fnd.add("harness-redefined-unclassified:"+in.Place.Name, "a redefinition run neither ran exactly one definition body nor failed binding at the target (harness cannot classify)",
			fmt.Sprintf("source:\n%s\nrun: %s\ncontrol run saw the name bound to: %s", src, obs, reached))
		return true
	}
	if fails && !obs.AtTarget {
		w.Count("bind_errors_located_off_target", 1)
	}
	runClass := "bound"
	if fails {
		runClass = "bind-fail:" + reached.Kind
		w.Count("calls_failing_binding", 1)
	} else {
		w.Count("calls_binding_ok", 1)
	}
	w.Count("redefined:reach:"+runClass, 1)
	rel := c19Rel(rsig, k)

	var lints []c19LintResult
	lintClass := ""
	for _, mode := range c19Modes {
		lr := c19Lint(mode, src)
		lints = append(lints, lr)
		if lr.Err != nil {
			fnd.add("harness-lint-error:redefined", "lint failed on a generated redefinition source: "+lr.Err.Error(), src)
			violated = true
			continue
		}
		w.Count("lint_runs", 1)
		arity, other := lr.arityAt(pos)
		lc := "none"
		if len(arity) > 0 {
			lc = c19Analyzers(arity)
			w.Count("calls_reported", 1)
		}
		lintClass += mode + "=" + lc + ","
		detail := fmt.Sprintf("source:\n%s\ntarget call %s at %d:%d; definitions in file order: %s; placement %s; wrappers [%s]\n"+
			"when the evaluator reaches the call the name is bound to: %s\nlint mode %s: arity diagnostics at the call: %s\nrun time: %s",
			src, c19Call(in.Name, args), pos.Line, pos.Col, in.describe(), in.Place.Name, in.Wrap.label(), reached, mode, c19DiagList(arity), obs)
		if len(arity) > 0 && !fails {
			fnd.add(fmt.Sprintf("spurious:redefined:%s:%s%s", in.Place.Name, c19Analyzers(arity), keyExtra),
				fmt.Sprintf("%s reports a call of a name defined more than once (%s, %s) although the definition in force when the call is evaluated (%s) binds it, e.g. %s",
					c19Analyzers(arity), in.pair(), in.Place.Name, reached, c19Call(in.Name, args)), detail)
			violated = true
		}
		if fails && reached.Kind == "function" && !rsig.HasKey() && mode != "syn" && len(arity) == 0 {
			if len(other) > 0 {
				w.Count("failing_calls_reported_only_by_non_arity_analyzer", 1)
				continue
			}
			fnd.add(fmt.Sprintf("missed:redefined:%s%s", in.Place.Name, keyExtra),
				fmt.Sprintf("no arity diagnostic (semantic analysis on) for a call of a name defined more than once (%s, %s) that fails binding of the defun in force when the call is evaluated (%s), e.g. %s",
					in.pair(), in.Place.Name, reached, c19Call(in.Name, args)), detail)
			violated = true
		}
	}
	w.CoverKey(fmt.Sprintf("%s|%s|%s|%s|reached:%s:%s|%s|lint:%s|run:%s|wrap:%v", family, in.pair(), in.Place.Name,
		c19RedefChange(in.Formals[0], in.Formals[len(in.Formals)-1]), reached.Kind, rsig.Class(), rel, lintClass, runClass, in.Wrap.label() != ""))
	w.SetAdd("redefined_placements", in.Place.Name)
	w.SetAdd("redefined_reach_by_placement", fmt.Sprintf("%s -> definition %s", in.Place.Name, c19RedefWhichDef(in, reached)))
	w.SetAdd("signature_classes", rsig.Class())
	c19Sample(w, family, src, pos, lints, obs)
	return violated
}

// c19RedefChange classifies how the last formals list relates to the first.
func c19RedefChange(first, last string) string {
	a := c19ParseFormals(strings.Fields(strings.Trim(first, "()")))
	b := c19ParseFormals(strings.Fields(strings.Trim(last, "()")))
	return a.Class() + ">" + b.Class()
}

// c19RedefWhichDef says (for the evidence only) which of the definitions the
// bound value corresponds to: first, last or a middle one.
func c19RedefWhichDef(in c19RedefInst, wh c19Which) string {
	got := strings.Join(wh.Formals, " ")
	var ss []string
	for i := range in.Definers {
		kind := "function"
		if in.Definers[i] == "defmacro" {
			kind = "macro"
		}
		if kind == wh.Kind && got == strings.Trim(in.Formals[i], "()") {
			switch {
			case i == 0:
				ss = append(ss, "first")
			case i == len(in.Definers)-1:
				ss = append(ss, "last")
			default:
				ss = append(ss, "middle")
			}
		}
	}
	if len(ss) == 0 {
		return "none"
	}
	return strings.Join(ss, "/")
}

func c19RunRedefCase(w *fw.W, rc c19RedefCase) {
	var fnd c19Findings
	in := c19RedefInst{Name: "c19-f", Definers: rc.Definers[:], Formals: rc.Formals[:], Place: c19RedefPlaces[rc.Place]}
	for k := 0; k <= c19RedefMaxK; k++ {
		c19JudgeRedef(w, &fnd, "redefined", in, k, "")
	}
	w.Count("redefined_cases_enumerated", 1)
	fnd.flush(w)
}

// c19RandomRedef is the sampled variant: other names, two or three
// definitions, neutral wrappers around the call, filler lines, inert
// non-integer argument expressions.
func c19RandomRedef(w *fw.W, r *fw.RNG) {
	in := c19RedefInst{Name: fw.Pick(r, c19UserNames), Place: fw.Pick(r, c19RedefPlaces)}
	n := 2
	if r.Chance(1, 3) {
		n = 3
	}
	for i := 0; i < n; i++ {
		in.Definers = append(in.Definers, fw.Pick(r, []string{"defun", "defun", "defmacro"}))
		f := fw.Pick(r, c19RedefFormals)
		for i > 0 && f == in.Formals[i-1] {
			f = fw.Pick(r, c19RedefFormals)
		}
		in.Formals = append(in.Formals, f)
	}
	in.Wrap = c19RandWrap(r, true)
	k := r.Intn(c19RedefMaxK + 2)
	var fnd c19Findings
	if c19JudgeRedef(w, &fnd, "redefined-sampled", in, k, "") {
		// attribute to the variation only if the plain two-definition program
		// of the same first/last definitions, placement and count does not violate
		plain := c19RedefInst{Name: "c19-f", Place: in.Place,
			Definers: []string{in.Definers[0], in.Definers[n-1]}, Formals: []string{in.Formals[0], in.Formals[n-1]}}
		var pf c19Findings
		if in.Formals[0] == in.Formals[n-1] || !c19JudgeRedef(w, &pf, "redefined-sampled", plain, k, "") {
			fnd = c19Findings{}
			c19JudgeRedef(w, &fnd, "redefined-sampled", in, k, ":only-when-varied")
		}
	}
	c19AddWrapperNames(w, in.Wrap)
	w.Count(fmt.Sprintf("sampled_redefined_with_%d_definitions", n), 1)
	fnd.flush(w)
}
