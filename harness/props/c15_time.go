package props

// C15 — time values round-trip, order and add consistently; sleeping is bounded.
//
// Shape: history + independent reference (verifharness/c15x: strict RFC 3339
// parser, proleptic-Gregorian day numbers, big.Int nanoseconds, exact duration
// parser).  The real code is driven through the lisp builtins of package
// "time"; nothing in the oracle calls time.Parse / time.ParseDuration.
//
// This file: registration, shared plumbing, the RFC 3339 string workloads.
// c15_order.go: ordering / add / from laws and durations.
// c15_sleep.go: the sleep cross product.

import (
	"fmt"
	"sort"
	"strconv"
	"strings"
	"time"

	"github.com/luthersystems/elps/lisp"

	"verifharness/c15x"
	"verifharness/fw"
	"verifharness/rt"
)

// c15JudgeLowercase decides whether "t"/"z" spellings are demanded.  RFC 3339
// section 5.6 says they are part of the grammar (ABNF literals are case
// insensitive, and the NOTE spells it out), and the property demands "every
// well-formed RFC 3339 timestamp", so the answer is yes.
const c15JudgeLowercase = true

const (
	c15StampBatch = 50
	c15MissBatch  = 50
	c15OrderBatch = 10
	c15DurBatch   = 40
	c15SleepBatch = 4
)

type c15Plan struct{ nStamp, nMiss, nOrder, nDur, nSleep int }

func (p c15Plan) total() int { return p.nStamp + p.nMiss + p.nOrder + p.nDur + p.nSleep }

func c15PlanFor(tier string) c15Plan {
	if tier == "thorough" {
		return c15Plan{nStamp: 75_000, nMiss: 25_000, nOrder: 100_000, nDur: 20_000, nSleep: 5_000}
	}
	return c15Plan{nStamp: 1_500, nMiss: 500, nOrder: 1_000, nDur: 500, nSleep: 500}
}

var c15Needed = []string{
	"parse-rfc3339", "parse-rfc3339-nano", "format-rfc3339", "format-rfc3339-nano",
	"time=", "time<", "time>", "time-add", "time-from",
	"parse-duration", "duration-s", "duration-ms", "duration-ns", "sleep",
}

type c15State struct {
	r       *rt.R
	evals   int
	blocked int // sleep calls that never returned (goroutines abandoned)
	perKey  map[string]int
	probe   *c15Probe
	sampled map[string]bool
}

func init() {
	fw.Register(&fw.Prop{
		ID:    "C15",
		Level: "exploration",
		Rule: "cases are PRNG-determined batches of five kinds: (a) well-formed RFC 3339 strings from a field grammar " +
			"(year class x day class x 0-9 fractional digits x T/t/space x Z/z/every +-hh:mm), each run through both parsers and both " +
			"formatters; (b) named near-miss mutations of a well-formed string; (c) triples of instants (same, equal instant in another " +
			"offset, +-delta from 1ns to beyond 2^63ns, independent) compared pairwise in both directions with time=/</>/time-from and the " +
			"time-add/time-from inverse laws; (d) duration strings from the Go grammar (all units, fractions, signs, int64 edges, junk); " +
			"(e) sleep configurations (duration x :max x WithMaxSleep ceiling x context kind) around every cap boundary. A distinct " +
			"non-trivial case is a distinct (kind, input feature class, outcome class) signature; every counted case executed the real builtins.",
		Assumptions: []string{
			"the oracle (c15x) is written from RFC 3339 section 5.6/5.7 and the proleptic Gregorian rules; its two day-number routines and their inverse are cross-checked over all years 0000-9999 in every worker before any case runs",
			"math/big is trusted for exact integer/rational arithmetic and for the correctly rounded quotient",
			"leap second :60, ten or more fractional digits and a space instead of 'T' are generated but not judged (statement silent); lowercase t/z are judged as well-formed (RFC 3339 5.6 NOTE)",
			"parse-duration of a string that denotes a non-integral number of nanoseconds may round either way (|result - exact| < 1ns); integral values must be exact",
			"time-add / time-from laws are judged only when the exact difference fits int64 ns and the sum stays inside the RFC 3339 instant range",
			"sleep assertions read the wall clock with a 1 s margin; a sleep finding is counted only if it reproduces identically in 4 attempts (2 when the call never returns within bound+6 s) and no attempt came out clean; timing observations made while the worker's own 2 ms lateness probe was more than 250 ms late are discarded",
			"a sleep that fits a context deadline is only generated with the deadline >= 60 s away and >= 100x the duration; a sleep beyond the deadline is generated at any distance (the remaining time only shrinks)",
			"(:max above the host ceiling) with a duration at or below the ceiling may either be refused with sleep-limit-exceeded or sleep; :max <= 0 is not judged beyond the blocking bound",
		},
		Cases:       func(tier string) int { return c15PlanFor(tier).total() },
		Init:        c15Init,
		Run:         c15Run,
		Driver:      c15Driver,
		MinDistinct: func(tier string) int { return 5000 },
	})
}

func c15Init(w *fw.W) {
	st := &c15State{probe: &c15Probe{}}
	w.State = st
	go st.probe.loop()
	if msg := c15x.SelfTest(); msg != "" {
		c15Violate(w, "harness-oracle-selftest", "c15x calendar self-test failed: "+msg, msg)
	}
	st.fresh()
	pkg := st.r.Env.Runtime.Registry.Package("time")
	if pkg == nil {
		c15Violate(w, "time-package-missing", "no package named time in the standard library", "")
		return
	}
	have := map[string]bool{}
	for _, n := range pkg.Externals() {
		have[n] = true
		w.SetAdd("time_exports", n)
	}
	for _, n := range c15Needed {
		if !have[n] {
			c15Violate(w, "time-export-missing:"+n, "package time does not export "+n, strings.Join(pkg.Externals(), " "))
		}
	}
}

func (st *c15State) fresh() { st.r = rt.New(rt.Opts{NoProbes: true}); st.evals = 0 }

// ev evaluates src in the long-lived runtime (recycled between cases now and
// then, see c15Run, so that nothing accumulates).
func (st *c15State) ev(w *fw.W, src string) *lisp.LVal {
	st.evals++
	w.Eval(1)
	v := st.r.Load("c15", src)
	if v == nil {
		return lisp.Nil()
	}
	return v
}

// c15Violate reports at most three violations per finding key per worker (the
// framework keeps 200 per worker in total; a frequent finding must not crowd
// out a rare one) and counts the rest.
func c15Violate(w *fw.W, key, summary, detail string) {
	st, _ := w.State.(*c15State)
	if st != nil {
		if st.perKey == nil {
			st.perKey = map[string]int{}
		}
		st.perKey[key]++
		w.Count("finding:"+key, 1)
		if st.perKey[key] > 3 && !w.Verbose {
			return
		}
	}
	w.Violation(key, summary, detail)
}

// c15WantSample allows one written-out sample per worker.
func c15WantSample(w *fw.W, kind string) bool {
	st := w.State.(*c15State)
	if st.sampled == nil {
		st.sampled = map[string]bool{}
	}
	// worker k writes out a sample of kind k mod 5, so that the six samples the
	// driver keeps (workers in order) show every workload
	order := map[string]int{"stamp": 0, "miss": 1, "triple": 2, "duration": 3, "sleep": 4}
	if st.sampled[kind] || !w.WantSample() || (w.NShards > 1 && w.Shard%5 != order[kind]) {
		return false
	}
	st.sampled[kind] = true
	return true
}

func c15Q(s string) string { return strconv.Quote(s) }

func c15IsErr(v *lisp.LVal) bool { return v.Type == lisp.LError }

func c15Show(v *lisp.LVal) string {
	if v.Type == lisp.LError {
		return "ERR(" + v.Str + "): " + rt.ErrMsg(v)
	}
	return v.String()
}

func c15True(v *lisp.LVal) (val, ok bool) {
	if v.Type != lisp.LSymbol {
		return false, false
	}
	switch v.Str {
	case "true":
		return true, true
	case "false":
		return false, true
	}
	return false, false
}

func c15Run(w *fw.W, idx int) {
	st := w.State.(*c15State)
	p := c15PlanFor(w.Tier)
	if st.evals > 200_000 {
		// only between cases: a case keeps operands in globals of the runtime
		st.fresh()
	}
	t0 := time.Now()
	kind := ""
	switch {
	case idx < p.nStamp:
		kind = "stamps"
		c15StampCase(w, st, idx)
	case idx < p.nStamp+p.nMiss:
		kind = "near-misses"
		c15MissCase(w, st, idx)
	case idx < p.nStamp+p.nMiss+p.nOrder:
		kind = "order"
		c15OrderCase(w, st, idx)
	case idx < p.nStamp+p.nMiss+p.nOrder+p.nDur:
		kind = "durations"
		c15DurCase(w, st, idx)
	default:
		kind = "sleep"
		c15SleepCase(w, st, idx)
	}
	// informational only (never part of a verdict): where the wall time goes
	w.Count("worker_wall_ms:"+kind, time.Since(t0).Milliseconds())
	w.Count("cases:"+kind, 1)
}

// ---------------------------------------------------------------------------
// generation of well-formed stamps

func c15GenYear(r *fw.RNG) int {
	switch r.Intn(20) {
	case 0:
		return 0
	case 1:
		return 9999
	case 2:
		return r.Range(1, 4)
	case 3:
		return fw.Pick(r, []int{400, 800, 1600, 2000, 2400, 9600})
	case 4:
		return fw.Pick(r, []int{100, 1700, 1800, 1900, 2100, 9900})
	case 5:
		return fw.Pick(r, []int{1969, 1970, 1971})
	case 6:
		return fw.Pick(r, []int{1677, 1678, 2261, 2262, 2263})
	case 7:
		return fw.Pick(r, []int{1884, 1885, 1886, 2156, 2157, 2158})
	case 8:
		return r.Range(5, 999)
	case 9:
		y := 4 * r.Intn(2500)
		if !c15x.IsLeap(y) {
			y += 4
		}
		return y
	}
	return r.Range(0, 9999)
}

func c15YearClass(y int) string {
	switch {
	case y == 0:
		return "0000"
	case y == 9999:
		return "9999"
	case y < 1000:
		return "<1000"
	case y%100 == 0 && c15x.IsLeap(y):
		return "400k"
	case y%100 == 0:
		return "century"
	case y < 1678 || y > 2262:
		return "outside-int64-unixnano"
	case c15x.IsLeap(y):
		return "leap"
	}
	return "common"
}

func c15GenFrac(r *fw.RNG, n int) string {
	if n == 0 {
		return ""
	}
	b := make([]byte, n)
	switch r.Intn(6) {
	case 0:
		for i := range b {
			b[i] = '9'
		}
	case 1:
		for i := range b {
			b[i] = '0'
		}
	case 2:
		for i := range b {
			b[i] = '0'
		}
		b[n-1] = '1'
	default:
		for i := range b {
			b[i] = byte('0' + r.Intn(10))
		}
	}
	return string(b)
}

func c15GenZone(r *fw.RNG, st *c15x.Stamp, exotic bool) {
	st.Zulu, st.OffNeg, st.OffH, st.OffM = 0, false, 0, 0
	switch r.Intn(20) {
	case 0, 1, 2, 3, 4, 5:
		st.Zulu = 'Z'
	case 6:
		st.Zulu = 'Z'
		if exotic {
			st.Zulu = 'z'
		}
	case 7:
	case 8:
		st.OffNeg = true
	case 9:
		st.OffH, st.OffM = 23, 59
	case 10:
		st.OffNeg, st.OffH, st.OffM = true, 23, 59
	case 11:
		c := fw.Pick(r, [][3]int{{0, 5, 30}, {0, 5, 45}, {0, 14, 0}, {1, 12, 0}, {0, 1, 0}, {1, 8, 0}, {1, 3, 30}, {0, 12, 45}})
		st.OffNeg, st.OffH, st.OffM = c[0] == 1, c[1], c[2]
	case 12:
		st.OffNeg, st.OffH, st.OffM = r.Bool(), r.Intn(24), 59
	case 13:
		st.OffNeg, st.OffH, st.OffM = r.Bool(), 23, r.Intn(60)
	default:
		st.OffNeg, st.OffH, st.OffM = r.Bool(), r.Intn(24), r.Intn(60)
	}
}

func c15ZoneClass(st c15x.Stamp) string {
	switch {
	case st.Zulu != 0:
		return string(st.Zulu)
	case st.OffH == 0 && st.OffM == 0 && st.OffNeg:
		return "-00:00"
	case st.OffH == 0 && st.OffM == 0:
		return "+00:00"
	case st.OffH == 23 && st.OffM == 59:
		return "max" + map[bool]string{false: "+", true: "-"}[st.OffNeg]
	case st.OffH > 14:
		return "beyond14" + map[bool]string{false: "+", true: "-"}[st.OffNeg]
	case st.OffM%15 != 0:
		return "odd-minutes" + map[bool]string{false: "+", true: "-"}[st.OffNeg]
	}
	return "common" + map[bool]string{false: "+", true: "-"}[st.OffNeg]
}

// c15GenStamp draws a well-formed stamp.  exotic additionally allows the
// t / z / space spellings.
func c15GenStamp(r *fw.RNG, exotic bool) (c15x.Stamp, string) {
	var st c15x.Stamp
	st.Year = c15GenYear(r)
	dayClass := "mid"
	switch r.Intn(10) {
	case 0:
		st.Month, st.Day = 2, 28
		dayClass = "feb28"
		if c15x.IsLeap(st.Year) {
			st.Day = 29
			dayClass = "leapday"
		}
	case 1:
		st.Month, st.Day = 12, 31
		dayClass = "dec31"
	case 2:
		st.Month, st.Day = 1, 1
		dayClass = "jan1"
	case 3:
		st.Month, st.Day = 3, 1
		dayClass = "mar1"
	case 4:
		st.Month = r.Range(1, 12)
		st.Day = c15x.DaysInMonth(st.Year, st.Month)
		dayClass = "month-end"
	default:
		st.Month = r.Range(1, 12)
		st.Day = r.Range(1, c15x.DaysInMonth(st.Year, st.Month))
		if st.Month == 2 && st.Day == 29 {
			dayClass = "leapday"
		}
	}
	switch r.Intn(8) {
	case 0:
	case 1:
		st.Hour, st.Min, st.Sec = 23, 59, 59
	default:
		st.Hour, st.Min, st.Sec = r.Intn(24), r.Intn(60), r.Intn(60)
	}
	st.Frac = c15GenFrac(r, r.Intn(10))
	st.Sep = 'T'
	if exotic {
		switch x := r.Intn(100); {
		case x < 6:
			st.Sep = 't'
		case x < 9:
			st.Sep = ' '
		}
	}
	c15GenZone(r, &st, exotic)
	return st, dayClass
}

// ---------------------------------------------------------------------------
// (a) well-formed strings: acceptance and round trips

var c15Parsers = []string{"parse-rfc3339", "parse-rfc3339-nano"}
var c15Formatters = []string{"format-rfc3339", "format-rfc3339-nano"}

func c15StampCase(w *fw.W, st *c15State, idx int) {
	r := w.RNG(idx, "stamp")
	for i := 0; i < c15StampBatch; i++ {
		s, dayClass := c15GenStamp(r, true)
		text := s.Render()
		p := c15x.ParseStrict(text)
		if p.Class == c15x.Malformed {
			c15Violate(w, "harness-generator-malformed", "generator produced a string the oracle calls malformed: "+text, p.Reason)
			continue
		}
		if !c15JudgeLowercase && (s.Sep == 't' || s.Zulu == 'z') {
			p.Class, p.Reason = c15x.Unjudged, "lowercase t/z"
		}
		w.SetAdd("offsets_seen", s.OffsetText())
		outcome := c15CheckString(w, st, text, p, "")
		w.CoverKey(fmt.Sprintf("stamp|y=%s|d=%s|f=%d|sep=%c|z=%s|%s", c15YearClass(s.Year), dayClass, len(s.Frac), s.Sep, c15ZoneClass(s), outcome))
		if i == 0 && c15WantSample(w, "stamp") {
			w.Sample(map[string]any{"kind": "well-formed stamp", "input": text, "oracle_instant_ns_since_0000": p.Stamp.Instant().String(), "outcome": outcome})
		}
	}
}

// c15CheckString runs one string through both parsers and judges it against
// the oracle's classification.  mut is the mutation name for near misses.
func c15CheckString(w *fw.W, st *c15State, text string, p c15x.Parsed, mut string) string {
	outcomes := make([]string, 0, 2)
	for _, parser := range c15Parsers {
		v := st.ev(w, fmt.Sprintf("(set 'c15-t (time:%s %s))", parser, c15Q(text)))
		accepted := !c15IsErr(v)
		w.Logf("  %s %q -> %s (oracle: %s %s)", parser, text, c15Show(v), p.Class, p.Reason)
		switch p.Class {
		case c15x.Malformed:
			if accepted {
				got := st.ev(w, "(time:format-rfc3339-nano c15-t)")
				c15Violate(w, "rfc3339-accepts:"+mut,
					fmt.Sprintf("time:%s accepts %q (near miss %q: %s)", parser, text, mut, p.Reason),
					fmt.Sprintf("input: %q\noracle (strict RFC 3339 5.6): malformed, %s\nobserved: accepted, value formats as %s", text, p.Reason, c15Show(got)))
				outcomes = append(outcomes, "ACCEPTED")
			} else {
				w.Count("near_miss_rejected", 1)
				outcomes = append(outcomes, "rejected")
			}
		case c15x.Unjudged:
			o := "rejected"
			if accepted {
				o = "accepted"
			}
			w.SetAdd("unjudged_outcomes", p.Reason+" => "+o)
			outcomes = append(outcomes, "unjudged-"+o)
		case c15x.WellFormed:
			if !accepted {
				c15BlameReject(w, st, parser, text, p.Stamp, v)
				outcomes = append(outcomes, "REJECTED")
				continue
			}
			w.Count("well_formed_accepted", 1)
			if c15RoundTrip(w, st, parser, text, p.Stamp) {
				outcomes = append(outcomes, "ok")
			} else {
				outcomes = append(outcomes, "ROUNDTRIP")
			}
		}
	}
	return strings.Join(outcomes, "/")
}

// c15RoundTrip: c15-t holds (parser text).  Format with both formatters,
// compare the formatted text's instant (by the oracle) with the input's, parse
// the formatted text again and compare inside the implementation.
func c15RoundTrip(w *fw.W, st *c15State, parser, text string, s c15x.Stamp) bool {
	ok := true
	inst := s.Instant()
	floor := c15x.FloorSecond(inst)
	sub := c15x.SubSecond(inst)
	for _, formatter := range c15Formatters {
		nano := strings.HasSuffix(parser, "-nano") && strings.HasSuffix(formatter, "-nano")
		key := parser + "/" + formatter
		v := st.ev(w, fmt.Sprintf("(let* ((f (time:%s c15-t)) (u (time:%s f))) (list f (time:time= c15-t u) (time:duration-ns (time:time-from u c15-t))))", formatter, parser))
		if c15IsErr(v) || v.Len() != 3 || v.Cells[0].Type != lisp.LString || v.Cells[2].Type != lisp.LInt {
			// find the failing step for the report
			f := st.ev(w, fmt.Sprintf("(time:%s c15-t)", formatter))
			c15Violate(w, "rfc3339-roundtrip-error:"+key,
				fmt.Sprintf("(time:%s (time:%s (time:%s %q))) fails: %s", parser, formatter, parser, text, c15Show(v)),
				fmt.Sprintf("input: %q\nformatted: %s\nre-parse: %s", text, c15Show(f), c15Show(v)))
			ok = false
			continue
		}
		ftext := v.Cells[0].Str
		eq, _ := c15True(v.Cells[1])
		back := int64(v.Cells[2].Int)
		fp := c15x.ParseStrict(ftext)
		if fp.Class != c15x.WellFormed {
			c15Violate(w, "format-not-rfc3339:"+formatter,
				fmt.Sprintf("time:%s produced %q, which is not a well-formed RFC 3339 timestamp (%s)", formatter, ftext, fp.Reason),
				fmt.Sprintf("input: %q\nformatted: %q\noracle: %s %s", text, ftext, fp.Class, fp.Reason))
			ok = false
			continue
		}
		got := fp.Stamp.Instant()
		if nano {
			if got.Cmp(inst) != 0 {
				c15Violate(w, "rfc3339-roundtrip-instant:"+key,
					fmt.Sprintf("%q formats back as %q: a different instant", text, ftext),
					fmt.Sprintf("input: %q = %s ns since 0000-01-01T00:00:00Z\nformatted: %q = %s ns", text, inst, ftext, got))
				ok = false
			}
			if !eq || back != 0 {
				c15Violate(w, "rfc3339-roundtrip-reparse:"+key,
					fmt.Sprintf("parsing the formatted form of %q does not give an equal instant", text),
					fmt.Sprintf("input: %q\nformatted: %q\ntime= original reparsed: %v, original - reparsed = %d ns (want true, 0)", text, ftext, eq, back))
				ok = false
			}
			continue
		}
		// second precision somewhere in the chain: demand equality to the second.
		secondOnly := !strings.HasSuffix(formatter, "-nano")
		if secondOnly {
			if got.Cmp(floor) != 0 {
				c15Violate(w, "rfc3339-roundtrip-instant:"+key,
					fmt.Sprintf("%q formats at second precision as %q: not the same second", text, ftext),
					fmt.Sprintf("input: %q = %s ns, truncated to the second %s\nformatted: %q = %s ns", text, inst, floor, ftext, got))
				ok = false
			}
			// original - reparsed is the sub-second part the parser kept (all of it, or none)
			if back != sub && back != 0 {
				c15Violate(w, "rfc3339-roundtrip-reparse:"+key,
					fmt.Sprintf("parsing the second-precision form of %q is not the original truncated to the second", text),
					fmt.Sprintf("input: %q\nformatted: %q\noriginal - reparsed = %d ns; want %d (or 0 if the parser keeps no fraction)", text, ftext, back, sub))
				ok = false
			}
		} else {
			// parse-rfc3339 then format-rfc3339-nano: the fraction may or may not survive the second-precision parser
			if c15x.FloorSecond(got).Cmp(floor) != 0 || (got.Cmp(inst) != 0 && got.Cmp(floor) != 0) {
				c15Violate(w, "rfc3339-roundtrip-instant:"+key,
					fmt.Sprintf("%q formats back as %q: a different instant", text, ftext),
					fmt.Sprintf("input: %q = %s ns\nformatted: %q = %s ns", text, inst, ftext, got))
				ok = false
			}
			if !eq || back != 0 {
				c15Violate(w, "rfc3339-roundtrip-reparse:"+key,
					fmt.Sprintf("parsing the formatted form of %q does not give an equal instant", text),
					fmt.Sprintf("input: %q\nformatted: %q\ntime=: %v, difference %d ns", text, ftext, eq, back))
				ok = false
			}
		}
	}
	return ok
}

// c15Features lists the grammar features of a stamp that a parser might
// conceivably mishandle, most specific first.
func c15Features(s c15x.Stamp) []string {
	var f []string
	if s.Sep == 't' {
		f = append(f, "lowercase-t")
	}
	if s.Zulu == 'z' {
		f = append(f, "lowercase-z")
	}
	if s.Frac != "" {
		f = append(f, fmt.Sprintf("fraction-%d-digits", len(s.Frac)))
	}
	if s.Zulu == 0 {
		switch {
		case s.OffH == 0 && s.OffM == 0 && s.OffNeg:
			f = append(f, "offset-minus-zero")
		case s.OffH > 14:
			f = append(f, "offset-beyond-14h")
		default:
			f = append(f, "numeric-offset")
		}
	}
	switch {
	case s.Year == 0:
		f = append(f, "year-0000")
	case s.Year < 1000:
		f = append(f, "year-below-1000")
	case s.Year == 9999:
		f = append(f, "year-9999")
	}
	if s.Month == 2 && s.Day == 29 {
		f = append(f, "leap-day")
	}
	return f
}

// c15Isolate returns a plain stamp carrying only the named feature of s.
func c15Isolate(s c15x.Stamp, feature string) c15x.Stamp {
	n := s
	n.Sep, n.Zulu, n.Frac = 'T', 'Z', ""
	n.OffNeg, n.OffH, n.OffM = false, 0, 0
	if n.Year < 1000 || n.Year == 9999 {
		n.Year = 2000
	}
	if n.Month == 2 && n.Day == 29 {
		n.Day = 28
	}
	switch {
	case feature == "lowercase-t":
		n.Sep = 't'
	case feature == "lowercase-z":
		n.Zulu = 'z'
	case strings.HasPrefix(feature, "fraction-"):
		n.Frac = s.Frac
	case strings.HasPrefix(feature, "offset-") || feature == "numeric-offset":
		n.Zulu, n.OffNeg, n.OffH, n.OffM = 0, s.OffNeg, s.OffH, s.OffM
	case strings.HasPrefix(feature, "year-"):
		n.Year = s.Year
	case feature == "leap-day":
		n.Day = 29
		if !c15x.IsLeap(n.Year) {
			n.Year = 2000
		}
	}
	return n
}

// c15BlameReject reports a rejected well-formed string under the key of each
// single feature that reproduces the rejection on an otherwise plain string.
func c15BlameReject(w *fw.W, st *c15State, parser, text string, s c15x.Stamp, errv *lisp.LVal) {
	feats := c15Features(s)
	blamed := 0
	plain := c15Isolate(s, "").Render()
	if v := st.ev(w, fmt.Sprintf("(time:%s %s)", parser, c15Q(plain))); c15IsErr(v) {
		c15Violate(w, "rfc3339-rejects:plain", fmt.Sprintf("time:%s rejects the plain well-formed timestamp %q", parser, plain),
			fmt.Sprintf("input: %q\nobserved: %s", plain, c15Show(v)))
		return
	}
	for _, f := range feats {
		iso := c15Isolate(s, f).Render()
		if p := c15x.ParseStrict(iso); p.Class != c15x.WellFormed {
			continue
		}
		if v := st.ev(w, fmt.Sprintf("(time:%s %s)", parser, c15Q(iso))); c15IsErr(v) {
			blamed++
			c15Violate(w, "rfc3339-rejects:"+f,
				fmt.Sprintf("time:%s rejects the well-formed RFC 3339 timestamp %q (feature %s; first seen in %q)", parser, iso, f, text),
				fmt.Sprintf("input: %q\nisolated: %q (accepted without the feature: %q)\noracle: well-formed per RFC 3339 5.6\nobserved: %s", text, iso, plain, c15Show(v)))
		}
	}
	if blamed == 0 {
		sort.Strings(feats)
		c15Violate(w, "rfc3339-rejects:combination:"+strings.Join(feats, "+"),
			fmt.Sprintf("time:%s rejects the well-formed RFC 3339 timestamp %q", parser, text),
			fmt.Sprintf("input: %q\noracle: well-formed\nobserved: %s\n(no single feature reproduces the rejection)", text, c15Show(errv)))
	}
}

// ---------------------------------------------------------------------------
// (b) named near misses

type c15Pieces struct{ Y, Mo, D, Sep, H, Mi, S, Frac, Zone, DSep, TSep string }

func (p c15Pieces) join() string {
	return p.Y + p.DSep + p.Mo + p.DSep + p.D + p.Sep + p.H + p.TSep + p.Mi + p.TSep + p.S + p.Frac + p.Zone
}

func c15PiecesOf(s c15x.Stamp) c15Pieces {
	p := c15Pieces{
		Y: fmt.Sprintf("%04d", s.Year), Mo: fmt.Sprintf("%02d", s.Month), D: fmt.Sprintf("%02d", s.Day),
		Sep: string(s.Sep), H: fmt.Sprintf("%02d", s.Hour), Mi: fmt.Sprintf("%02d", s.Min), S: fmt.Sprintf("%02d", s.Sec),
		Zone: s.OffsetText(), DSep: "-", TSep: ":",
	}
	if s.Frac != "" {
		p.Frac = "." + s.Frac
	}
	return p
}

type c15Mut struct {
	name  string
	apply func(r *fw.RNG, s c15x.Stamp) string
}

func c15NumericZone(r *fw.RNG, s *c15x.Stamp) {
	s.Zulu, s.OffNeg, s.OffH, s.OffM = 0, r.Bool(), r.Intn(24), r.Intn(60)
}

func c15Sign(neg bool) string {
	if neg {
		return "-"
	}
	return "+"
}

const c15JunkAlphabet = "abcxyzTZ0159 +-:.,/_()"

func c15Junk(r *fw.RNG) string {
	n := r.Range(1, 4)
	b := make([]byte, n)
	for i := range b {
		b[i] = c15JunkAlphabet[r.Intn(len(c15JunkAlphabet))]
	}
	return string(b)
}

func c15NonLeapYear(r *fw.RNG) int {
	for {
		y := r.Range(0, 9999)
		if !c15x.IsLeap(y) && y%100 != 0 {
			return y
		}
	}
}

var c15Muts = []c15Mut{
	{"one-digit-hour", func(r *fw.RNG, s c15x.Stamp) string {
		s.Hour = r.Intn(10)
		p := c15PiecesOf(s)
		p.H = strconv.Itoa(s.Hour)
		return p.join()
	}},
	{"one-digit-minute", func(r *fw.RNG, s c15x.Stamp) string {
		s.Min = r.Intn(10)
		p := c15PiecesOf(s)
		p.Mi = strconv.Itoa(s.Min)
		return p.join()
	}},
	{"one-digit-second", func(r *fw.RNG, s c15x.Stamp) string {
		s.Sec = r.Intn(10)
		p := c15PiecesOf(s)
		p.S = strconv.Itoa(s.Sec)
		return p.join()
	}},
	{"one-digit-month", func(r *fw.RNG, s c15x.Stamp) string {
		s.Month, s.Day = r.Range(1, 9), r.Range(10, 28)
		p := c15PiecesOf(s)
		p.Mo = strconv.Itoa(s.Month)
		return p.join()
	}},
	{"one-digit-day", func(r *fw.RNG, s c15x.Stamp) string {
		s.Day = r.Range(1, 9)
		p := c15PiecesOf(s)
		p.D = strconv.Itoa(s.Day)
		return p.join()
	}},
	{"one-digit-offset-hour", func(r *fw.RNG, s c15x.Stamp) string {
		c15NumericZone(r, &s)
		s.OffH = r.Intn(10)
		p := c15PiecesOf(s)
		p.Zone = fmt.Sprintf("%s%d:%02d", c15Sign(s.OffNeg), s.OffH, s.OffM)
		return p.join()
	}},
	{"one-digit-offset-minute", func(r *fw.RNG, s c15x.Stamp) string {
		c15NumericZone(r, &s)
		s.OffM = r.Intn(10)
		p := c15PiecesOf(s)
		p.Zone = fmt.Sprintf("%s%02d:%d", c15Sign(s.OffNeg), s.OffH, s.OffM)
		return p.join()
	}},
	{"short-year", func(r *fw.RNG, s c15x.Stamp) string {
		s.Year = r.Range(0, 999)
		if s.Month == 2 && s.Day == 29 {
			s.Day = 28
		}
		p := c15PiecesOf(s)
		p.Y = strconv.Itoa(s.Year)
		if r.Chance(1, 3) {
			p.Y = fmt.Sprintf("%03d", s.Year)
		}
		return p.join()
	}},
	{"five-digit-year", func(r *fw.RNG, s c15x.Stamp) string {
		p := c15PiecesOf(s)
		if r.Bool() {
			p.Y = "0" + p.Y
		} else {
			p.Y = strconv.Itoa(r.Range(10000, 99999))
		}
		return p.join()
	}},
	{"signed-year", func(r *fw.RNG, s c15x.Stamp) string {
		p := c15PiecesOf(s)
		p.Y = fw.Pick(r, []string{"+", "-"}) + p.Y
		return p.join()
	}},
	{"extra-digit-field", func(r *fw.RNG, s c15x.Stamp) string {
		p := c15PiecesOf(s)
		switch r.Intn(5) {
		case 0:
			p.Mo = "0" + p.Mo
		case 1:
			p.D = "0" + p.D
		case 2:
			p.H = "0" + p.H
		case 3:
			p.Mi = "0" + p.Mi
		default:
			p.S = "0" + p.S
		}
		return p.join()
	}},
	{"missing-seconds", func(r *fw.RNG, s c15x.Stamp) string {
		p := c15PiecesOf(s)
		return p.Y + "-" + p.Mo + "-" + p.D + p.Sep + p.H + ":" + p.Mi + p.Zone
	}},
	{"missing-minutes-and-seconds", func(r *fw.RNG, s c15x.Stamp) string {
		p := c15PiecesOf(s)
		return p.Y + "-" + p.Mo + "-" + p.D + p.Sep + p.H + p.Zone
	}},
	{"missing-time", func(r *fw.RNG, s c15x.Stamp) string {
		p := c15PiecesOf(s)
		return p.Y + "-" + p.Mo + "-" + p.D + fw.Pick(r, []string{"", "T", "Z", "T" + p.Zone, p.Zone})
	}},
	{"missing-date", func(r *fw.RNG, s c15x.Stamp) string {
		p := c15PiecesOf(s)
		return fw.Pick(r, []string{"", "T"}) + p.H + ":" + p.Mi + ":" + p.S + p.Frac + p.Zone
	}},
	{"missing-day", func(r *fw.RNG, s c15x.Stamp) string {
		p := c15PiecesOf(s)
		return p.Y + "-" + p.Mo + p.Sep + p.H + ":" + p.Mi + ":" + p.S + p.Frac + p.Zone
	}},
	{"missing-offset", func(r *fw.RNG, s c15x.Stamp) string {
		p := c15PiecesOf(s)
		p.Zone = ""
		return p.join()
	}},
	{"missing-offset-minutes", func(r *fw.RNG, s c15x.Stamp) string {
		c15NumericZone(r, &s)
		p := c15PiecesOf(s)
		p.Zone = fmt.Sprintf("%s%02d", c15Sign(s.OffNeg), s.OffH)
		if r.Bool() {
			p.Zone += ":"
		}
		return p.join()
	}},
	{"missing-offset-colon", func(r *fw.RNG, s c15x.Stamp) string {
		c15NumericZone(r, &s)
		p := c15PiecesOf(s)
		p.Zone = fmt.Sprintf("%s%02d%02d", c15Sign(s.OffNeg), s.OffH, s.OffM)
		return p.join()
	}},
	{"missing-offset-sign", func(r *fw.RNG, s c15x.Stamp) string {
		c15NumericZone(r, &s)
		p := c15PiecesOf(s)
		p.Zone = fmt.Sprintf("%02d:%02d", s.OffH, s.OffM)
		return p.join()
	}},
	{"missing-separator", func(r *fw.RNG, s c15x.Stamp) string {
		p := c15PiecesOf(s)
		p.Sep = ""
		return p.join()
	}},
	{"bad-separator", func(r *fw.RNG, s c15x.Stamp) string {
		p := c15PiecesOf(s)
		p.Sep = fw.Pick(r, []string{"_", "x", "TT", "-", ":", "T ", " T", "  ", "\t", "\n"})
		return p.join()
	}},
	{"missing-date-dashes", func(r *fw.RNG, s c15x.Stamp) string {
		p := c15PiecesOf(s)
		p.DSep = ""
		return p.join()
	}},
	{"missing-time-colons", func(r *fw.RNG, s c15x.Stamp) string {
		p := c15PiecesOf(s)
		p.TSep = ""
		return p.join()
	}},
	{"slash-date-separator", func(r *fw.RNG, s c15x.Stamp) string {
		p := c15PiecesOf(s)
		p.DSep = fw.Pick(r, []string{"/", ".", ":"})
		return p.join()
	}},
	{"dot-time-separator", func(r *fw.RNG, s c15x.Stamp) string {
		p := c15PiecesOf(s)
		p.TSep = fw.Pick(r, []string{".", "-", "h"})
		return p.join()
	}},
	{"comma-fraction", func(r *fw.RNG, s c15x.Stamp) string {
		if s.Frac == "" {
			s.Frac = c15GenFrac(r, r.Range(1, 9))
		}
		p := c15PiecesOf(s)
		p.Frac = "," + s.Frac
		return p.join()
	}},
	{"empty-fraction", func(r *fw.RNG, s c15x.Stamp) string {
		p := c15PiecesOf(s)
		p.Frac = "."
		return p.join()
	}},
	{"double-fraction", func(r *fw.RNG, s c15x.Stamp) string {
		p := c15PiecesOf(s)
		p.Frac = "." + c15GenFrac(r, r.Range(1, 4)) + fw.Pick(r, []string{".", ","}) + c15GenFrac(r, r.Range(1, 4))
		return p.join()
	}},
	{"fraction-other-separator", func(r *fw.RNG, s c15x.Stamp) string {
		p := c15PiecesOf(s)
		p.Frac = fw.Pick(r, []string{":", ";", " ", "'"}) + c15GenFrac(r, r.Range(1, 9))
		return p.join()
	}},
	{"fraction-10plus-digits", func(r *fw.RNG, s c15x.Stamp) string { // unjudged
		s.Frac = c15GenFrac(r, r.Range(10, 30))
		return s.Render()
	}},
	{"space-separator", func(r *fw.RNG, s c15x.Stamp) string { // unjudged
		s.Sep = ' '
		return s.Render()
	}},
	{"second-60", func(r *fw.RNG, s c15x.Stamp) string { // unjudged
		s.Sec = 60
		if r.Bool() {
			// a real leap second: 23:59:60 UTC at the end of June/December
			s.Month, s.Day, s.Hour, s.Min = 12, 31, 23, 59
			s.Zulu, s.OffNeg, s.OffH, s.OffM = 'Z', false, 0, 0
		}
		return s.Render()
	}},
	{"hour-24", func(r *fw.RNG, s c15x.Stamp) string {
		if r.Bool() {
			s.Min, s.Sec, s.Frac = 0, 0, ""
		}
		p := c15PiecesOf(s)
		p.H = "24"
		return p.join()
	}},
	{"hour-out-of-range", func(r *fw.RNG, s c15x.Stamp) string {
		p := c15PiecesOf(s)
		p.H = strconv.Itoa(r.Range(25, 99))
		return p.join()
	}},
	{"minute-60", func(r *fw.RNG, s c15x.Stamp) string {
		p := c15PiecesOf(s)
		p.Mi = "60"
		return p.join()
	}},
	{"minute-out-of-range", func(r *fw.RNG, s c15x.Stamp) string {
		p := c15PiecesOf(s)
		p.Mi = strconv.Itoa(r.Range(61, 99))
		return p.join()
	}},
	{"second-out-of-range", func(r *fw.RNG, s c15x.Stamp) string {
		p := c15PiecesOf(s)
		p.S = strconv.Itoa(r.Range(61, 99))
		return p.join()
	}},
	{"month-00", func(r *fw.RNG, s c15x.Stamp) string {
		p := c15PiecesOf(s)
		p.Mo = "00"
		return p.join()
	}},
	{"month-13", func(r *fw.RNG, s c15x.Stamp) string {
		p := c15PiecesOf(s)
		p.Mo = "13"
		return p.join()
	}},
	{"month-out-of-range", func(r *fw.RNG, s c15x.Stamp) string {
		p := c15PiecesOf(s)
		p.Mo = strconv.Itoa(r.Range(14, 99))
		return p.join()
	}},
	{"day-00", func(r *fw.RNG, s c15x.Stamp) string {
		p := c15PiecesOf(s)
		p.D = "00"
		return p.join()
	}},
	{"day-32", func(r *fw.RNG, s c15x.Stamp) string {
		s.Month = fw.Pick(r, []int{1, 3, 5, 7, 8, 10, 12})
		p := c15PiecesOf(s)
		p.D = "32"
		return p.join()
	}},
	{"day-out-of-range", func(r *fw.RNG, s c15x.Stamp) string {
		p := c15PiecesOf(s)
		p.D = strconv.Itoa(r.Range(33, 99))
		return p.join()
	}},
	{"day-31-in-30-day-month", func(r *fw.RNG, s c15x.Stamp) string {
		s.Month = fw.Pick(r, []int{4, 6, 9, 11})
		p := c15PiecesOf(s)
		p.D = "31"
		return p.join()
	}},
	{"feb-30", func(r *fw.RNG, s c15x.Stamp) string {
		s.Month = 2
		if r.Bool() {
			s.Year = fw.Pick(r, []int{0, 4, 2000, 2024, 9996})
		}
		p := c15PiecesOf(s)
		p.D = fw.Pick(r, []string{"30", "30", "31"})
		return p.join()
	}},
	{"feb-29-non-leap", func(r *fw.RNG, s c15x.Stamp) string {
		s.Year, s.Month = c15NonLeapYear(r), 2
		p := c15PiecesOf(s)
		p.D = "29"
		return p.join()
	}},
	{"feb-29-non-leap-century", func(r *fw.RNG, s c15x.Stamp) string {
		k := r.Range(1, 99)
		for k%4 == 0 {
			k = r.Range(1, 99)
		}
		s.Year, s.Month = 100*k, 2
		p := c15PiecesOf(s)
		p.D = "29"
		return p.join()
	}},
	{"offset-hour-24", func(r *fw.RNG, s c15x.Stamp) string {
		p := c15PiecesOf(s)
		m := 0
		if r.Chance(1, 3) {
			m = r.Intn(60)
		}
		p.Zone = fmt.Sprintf("%s24:%02d", c15Sign(r.Bool()), m)
		return p.join()
	}},
	{"offset-hour-out-of-range", func(r *fw.RNG, s c15x.Stamp) string {
		p := c15PiecesOf(s)
		p.Zone = fmt.Sprintf("%s%02d:%02d", c15Sign(r.Bool()), r.Range(25, 99), r.Intn(60))
		return p.join()
	}},
	{"offset-minute-60", func(r *fw.RNG, s c15x.Stamp) string {
		p := c15PiecesOf(s)
		p.Zone = fmt.Sprintf("%s%02d:60", c15Sign(r.Bool()), r.Intn(24))
		return p.join()
	}},
	{"offset-minute-out-of-range", func(r *fw.RNG, s c15x.Stamp) string {
		p := c15PiecesOf(s)
		p.Zone = fmt.Sprintf("%s%02d:%02d", c15Sign(r.Bool()), r.Intn(24), r.Range(61, 99))
		return p.join()
	}},
	{"offset-with-seconds", func(r *fw.RNG, s c15x.Stamp) string {
		c15NumericZone(r, &s)
		return s.Render() + fmt.Sprintf(":%02d", r.Intn(60))
	}},
	{"double-zone", func(r *fw.RNG, s c15x.Stamp) string {
		c15NumericZone(r, &s)
		p := c15PiecesOf(s)
		if r.Bool() {
			p.Zone = "Z" + p.Zone
		} else {
			p.Zone += "Z"
		}
		return p.join()
	}},
	{"named-zone", func(r *fw.RNG, s c15x.Stamp) string {
		p := c15PiecesOf(s)
		p.Zone = fw.Pick(r, []string{"UTC", "GMT", "EST", " UTC", "UT", "Zulu", "+UTC", "PST"})
		return p.join()
	}},
	{"trailing-junk", func(r *fw.RNG, s c15x.Stamp) string { return s.Render() + c15Junk(r) }},
	{"leading-junk", func(r *fw.RNG, s c15x.Stamp) string { return c15Junk(r) + s.Render() }},
	{"trailing-space", func(r *fw.RNG, s c15x.Stamp) string {
		return s.Render() + fw.Pick(r, []string{" ", "  ", "\t", "\n", "\r\n"})
	}},
	{"leading-space", func(r *fw.RNG, s c15x.Stamp) string {
		return fw.Pick(r, []string{" ", "  ", "\t", "\n"}) + s.Render()
	}},
	{"inner-space", func(r *fw.RNG, s c15x.Stamp) string {
		t := s.Render()
		i := r.Range(1, len(t)-1)
		return t[:i] + " " + t[i:]
	}},
	{"sign-in-field", func(r *fw.RNG, s c15x.Stamp) string {
		p := c15PiecesOf(s)
		sg := fw.Pick(r, []string{"+", "-"})
		d := strconv.Itoa(r.Range(1, 9))
		switch r.Intn(5) {
		case 0:
			p.Mo = sg + d
		case 1:
			p.D = sg + d
		case 2:
			p.H = sg + d
		case 3:
			p.Mi = sg + d
		default:
			p.S = sg + d
		}
		return p.join()
	}},
	{"space-padded-field", func(r *fw.RNG, s c15x.Stamp) string {
		p := c15PiecesOf(s)
		d := strconv.Itoa(r.Range(1, 9))
		switch r.Intn(5) {
		case 0:
			p.Mo = " " + d
		case 1:
			p.D = " " + d
		case 2:
			p.H = " " + d
		case 3:
			p.Mi = " " + d
		default:
			p.S = " " + d
		}
		return p.join()
	}},
	{"letter-in-field", func(r *fw.RNG, s c15x.Stamp) string {
		b := []byte(s.Render())
		for tries := 0; tries < 100; tries++ {
			i := r.Intn(len(b))
			if b[i] >= '0' && b[i] <= '9' {
				b[i] = fw.Pick(r, []byte{'O', 'l', 'x', 'a', 'I'})
				break
			}
		}
		return string(b)
	}},
	{"non-ascii-digits", func(r *fw.RNG, s c15x.Stamp) string {
		t := s.Render()
		for tries := 0; tries < 100; tries++ {
			i := r.Intn(len(t))
			if t[i] >= '0' && t[i] <= '9' {
				base := fw.Pick(r, []rune{0xFF10, 0x0660, 0x0966}) // fullwidth, Arabic-Indic, Devanagari
				return t[:i] + string(base+rune(t[i]-'0')) + t[i+1:]
			}
		}
		return t + "０"
	}},
	{"truncated", func(r *fw.RNG, s c15x.Stamp) string {
		t := s.Render()
		return t[:r.Intn(len(t))]
	}},
	{"duplicated-part", func(r *fw.RNG, s c15x.Stamp) string {
		p := c15PiecesOf(s)
		switch r.Intn(3) {
		case 0:
			return p.join() + p.join()
		case 1:
			return p.Y + "-" + p.Mo + "-" + p.D + p.Sep + p.Y + "-" + p.Mo + "-" + p.D + p.Sep + p.H + ":" + p.Mi + ":" + p.S + p.Zone
		}
		return p.Y + "-" + p.Mo + "-" + p.D + p.Sep + p.H + ":" + p.Mi + ":" + p.S + ":" + p.S + p.Zone
	}},
	{"whitespace-only", func(r *fw.RNG, s c15x.Stamp) string { return fw.Pick(r, []string{"", " ", "T", "Z", "-", "0"}) }},
	{"other-format", func(r *fw.RNG, s c15x.Stamp) string {
		p := c15PiecesOf(s)
		switch r.Intn(4) {
		case 0: // RFC 1123-ish
			return fmt.Sprintf("Mon, %s Jan %s %s:%s:%s GMT", p.D, p.Y, p.H, p.Mi, p.S)
		case 1: // unix seconds
			return strconv.Itoa(r.Intn(2_000_000_000))
		case 2: // ISO week date
			return fmt.Sprintf("%s-W%02d-%dT%s:%s:%sZ", p.Y, r.Range(1, 52), r.Range(1, 7), p.H, p.Mi, p.S)
		}
		// ISO ordinal date
		return fmt.Sprintf("%s-%03dT%s:%s:%sZ", p.Y, r.Range(1, 365), p.H, p.Mi, p.S)
	}},
}

func c15MissCase(w *fw.W, st *c15State, idx int) {
	r := w.RNG(idx, "miss")
	for i := 0; i < c15MissBatch; i++ {
		m := c15Muts[r.Intn(len(c15Muts))]
		base, _ := c15GenStamp(r, false) // 'T', 'Z' or numeric offset: no second irregularity
		text := m.apply(r, base)
		p := c15x.ParseStrict(text)
		if p.Class == c15x.WellFormed {
			// the mutation did not leave the grammar (should not happen; counted)
			w.Count("mutation_noop", 1)
			w.SetAdd("mutation_noop_names", m.name)
			continue
		}
		w.SetAdd("mutations_run", m.name)
		outcome := c15CheckString(w, st, text, p, m.name)
		w.CoverKey("miss|" + m.name + "|" + p.Class.String() + "|" + outcome)
		if i == 0 && c15WantSample(w, "miss") {
			w.Sample(map[string]any{"kind": "near miss", "mutation": m.name, "input": text, "oracle": p.Class.String() + ": " + p.Reason, "outcome": outcome})
		}
	}
}
