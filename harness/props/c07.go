package props

import (
	"fmt"
	"regexp"
	"strings"

	"github.com/luthersystems/elps/lisp"

	"verifharness/fw"
	"verifharness/refint"
	"verifharness/rt"
	"verifharness/sx"
	"verifharness/tree"
)

// C07 — a macro call means evaluating its expansion; quasiquote builds its
// template; gensyms are fresh.
//
//   idx%4 == 0,1  macro programs: (a) real vs reference interpreter, (b) twin: every call site
//                 replaced by (eval (macroexpand '(call))) must give the same transcript,
//                 (c) macroexpand-1 iterated to a fixpoint equals macroexpand
//                 (idx%8 == 5: expansions that embed live objects, four evaluation routes - c07_live.go)
//                 (idx%32 == 9: the two routes at the expansion bound - c07_depth.go)
//                 (idx%16 == 4: overlapping lifetimes of two expansions of one macro - c07_overlap.go)
//   idx%4 == 2    quasiquote templates: real vs template model (quote marks compared)
//   idx%4 == 3    gensym: distinctness among themselves and from the program's symbols
//                 (idx%16 == 15: over long histories, the counter fast-forwarded - c07_long.go)

func init() {
	fw.Register(&fw.Prop{
		ID:    "C07",
		Level: "exploration",
		Rule: "macro definitions generated from quasiquote templates (unquote / unquote-splicing at first, middle, last position, adjacent and empty splices, under quote marks, in nested lists; macros expanding to macro calls, to definitions, using gensym; defmacro and macrolet) with call sites whose argument forms carry effect probes; macros whose templates unquote a live mutable object computed at expansion time (global sorted-map, vector, runtime list, deftype instance over a map or vector, closure over a counter or a map, components of nested structures of those, an object private to the macro) into a form that mutates it (assoc!, dissoc!, append!, stable-sort in place, a call of the closure; the object occurring once, twice, spliced, let-bound, passed on as argument of another macro), called directly, through eval of macroexpand, through eval of the macroexpand-1 fixpoint and nested in another macro's expansion, each route in a fresh runtime, the state of every object (read through its global after every call) and equal?-readings between global and embedded object compared across the routes and with the reference model where it models the constructs; quasiquote templates of depth <= 6; gensym runs of up to 2000 symbols per runtime incl. through trace/get-default/deftype/curry-function in programs whose text contains gen-prefixed numbered symbols; gensym over long histories: one runtime, symbols taken through (gensym), user macros, builtin macro expansions, Runtime.GenSym and LEnv.GenSym, the counter fast-forwarded (hook VerifAdvanceGenSym) 1-4 times between the takes and inside evaluations by amounts around 10^1..10^19, 2^31, 2^32, 2^53, 2^63 and up to 2^64-2^32 in total, all symbols of the runtime pairwise distinct (Go strings and equal?) and absent from the texts loaded, macro-hygiene programs whose expansions are made before and after fast-forwards agreeing with the reference model; overlapping lifetimes of two expansions of one defmacro / macrolet macro (every 16th case): macros whose body - or a helper function - expands or evaluates a form headed by the same macro (macroexpand, macroexpand-1, eval; the form built by cons or by quasiquote) while its own expansion is being computed and reads its parameters afterwards (and-like / list / progn / + macros expanding their own tail, a macro summing at expansion time, a code walker expanding an argument form that is a call of itself), macros whose body makes a closure over its parameters that outlives the expansion (embedded and called in the expansion, kept in a global list and called at the end, put into a function the expansion defines), 2-5 calls of 1-3 such macros with calls of the same macro among the arguments, run directly, as (eval (macroexpand '(call))) and with ALL expansions taken first (macroexpand or macroexpand-1, program order or reversed) and evaluated afterwards, each route in a fresh runtime; parameters snapshotted before the re-entry must equal the parameters after it, run-time events and outcome must be those of the direct program, and the reference model (macroexpand modelled, every macro call in a frame of its own) judges the direct and the held program. " +
			"distinct_nontrivial counts distinct (template shapes, call shape, outcome) and (qq template skeleton) signatures",
		Assumptions: []string{
			"the template model is refint's quasiquote (everything literal, unquote inserts a value, unquote-splicing splices a list, written quote marks are re-applied)",
			"gensym names in the model differ from the real ones; programs are generated so that a gensym never leaks into a compared value",
			"overlapping expansions: the model's macroexpand / macroexpand-1 (refint.InstallMacroexpand) follow the docstrings for macros defined in lisp (head resolved where macroexpand is called, one fresh frame per expansion, the expansion returned as quoted data) and decline macros the model implements directly",
		},
		Cases:       func(tier string) int { return pick(tier, 16000, 500000) },
		Run:         c07Run,
		Driver:      c07Driver,
		MinDistinct: func(tier string) int { return pick(tier, 300, 900) },
	})
}

type c07Gen struct {
	r      *fw.RNG
	nprobe int
	macros []c07Macro
	feat   map[string]bool
}

type c07Macro struct {
	name      string
	req       int
	rest      bool
	definesFn string // non-empty: expands to a defun of this name
}

func (g *c07Gen) probe(tag string, e *sx.N) *sx.N {
	g.nprobe++
	return sx.Call("verif:probe", sx.QY(fmt.Sprintf("%s%d", tag, g.nprobe)), e)
}

func uq(x *sx.N) *sx.N  { return sx.Call("unquote", x) }
func uqs(x *sx.N) *sx.N { return sx.Call("unquote-splicing", x) }

// template builds the body of macro k with params p1..pn (+ body).
func (g *c07Gen) template(k int, m *c07Macro) *sx.N {
	p := func(i int) *sx.N { return sx.Y(fmt.Sprintf("p%d", i)) }
	var t *sx.N
	choice := g.r.Intn(15)
	if m.rest {
		choice = 100 + g.r.Intn(10)
	}
	switch choice {
	case 0:
		g.feat["tmpl:arith"] = true
		t = sx.Call("+", uq(p(1)), uq(p(m.req)))
	case 1:
		g.feat["tmpl:if"] = true
		t = sx.Call("if", uq(p(1)), uq(p(m.req)), sx.I(0))
	case 2:
		g.feat["tmpl:let-once"] = true
		t = sx.Call("let", sx.L(sx.L(sx.Y("tmp"), uq(p(1)))), sx.Call("list", sx.Y("tmp"), sx.Y("tmp")))
	case 3:
		g.feat["tmpl:arg-twice"] = true
		t = sx.Call("list", uq(p(1)), uq(p(1)))
	case 4:
		g.feat["tmpl:arg-unused"] = true
		t = sx.Call("list", sx.I(1), uq(p(m.req)))
	case 5:
		g.feat["tmpl:quoted-arg"] = true
		t = sx.Call("list", sx.Q(uq(p(1))), uq(p(m.req)))
	case 6:
		if len(g.macros) > 0 {
			g.feat["tmpl:expands-to-macro-call"] = true
			o := g.macros[g.r.Intn(len(g.macros))]
			args := []*sx.N{}
			for i := 0; i < o.req; i++ {
				args = append(args, uq(p(1+i%m.req)))
			}
			if o.rest {
				args = append(args, uq(p(m.req)), sx.I(int64(g.r.Intn(9))))
			}
			t = sx.Call(o.name, args...)
			break
		}
		fallthrough
	case 7:
		g.feat["tmpl:gensym-let"] = true
		// (let ([g (gensym)]) `(let ([,g ,p1]) (+ ,g ,g)))
		inner := sx.Call("quasiquote", sx.Call("let", sx.L(sx.L(uq(sx.Y("g")), uq(p(1)))), sx.Call("+", uq(sx.Y("g")), uq(sx.Y("g")))))
		return sx.Call("let", sx.L(sx.L(sx.Y("g"), sx.Call("gensym"))), inner)
	case 8:
		g.feat["tmpl:defines-function"] = true
		m.definesFn = fmt.Sprintf("made-by-%s", m.name)
		t = sx.Call("defun", sx.Y(m.definesFn), sx.L(sx.Y("x")), sx.Call("+", sx.Y("x"), uq(p(1))))
	case 9:
		g.feat["tmpl:computed-at-expansion"] = true
		// the macro body computes on the (unevaluated) argument form itself
		return sx.Call("progn", g.probe("exp", sx.I(int64(k))), sx.Call("quasiquote", sx.Call("list", sx.Q(uq(p(1))), uq(sx.Call("length", sx.Call("quasiquote", sx.L(uq(p(1)), uq(p(m.req)))))))))
	case 10:
		g.feat["tmpl:nested-list"] = true
		t = sx.Call("list", sx.Call("list", uq(p(1)), sx.Call("list", uq(p(m.req)))), sx.Q(sx.L(sx.Y("a"), sx.L(sx.Y("b")))))
	case 11:
		g.feat["tmpl:set-global"] = true
		t = sx.Call("set", sx.Q(uq(sx.Y("p1"))), uq(p(m.req)))
		t = sx.Call("progn", sx.Call("set", sx.QY(fmt.Sprintf("set-by-%s", m.name)), uq(p(1))), uq(p(m.req)))
	case 12:
		// the WHOLE expansion is not a call form: the argument form itself, a quoted
		// argument form (one or two marks, written as marks or as (quote ...))
		g.feat["tmpl:whole-expansion-is-arg"] = true
		switch g.r.Intn(5) {
		case 0:
			t = uq(p(1))
		case 1:
			t = sx.Q(uq(p(1)))
		case 2:
			t = sx.Q(sx.Q(uq(p(1))))
		case 3:
			t = sx.Call("quote", uq(p(1)))
		default:
			t = sx.Q(sx.Call("quote", uq(p(1))))
		}
	case 13:
		// no quasiquote at all: the macro body returns a datum
		g.feat["tmpl:whole-expansion-is-datum"] = true
		return fw.Pick(g.r, []*sx.N{sx.I(5), sx.S("str"), sx.Y(":kw"), sx.Nil(), sx.QY("lex"), sx.Q(sx.QY("sym")), sx.Q(sx.Q(sx.QY("sym"))), sx.Q(sx.Q(sx.L(sx.Y("a"), sx.Y("b")))),
			sx.Q(sx.Call("list", sx.I(1), sx.I(2))), sx.Q(sx.Q(sx.Call("list", sx.I(1), sx.I(2)))), sx.Call("list", sx.QY("quote"), sx.Y("p1")), sx.Call("list", sx.QY("list"), sx.Y("p1"), sx.Y("p1"))})
	case 14:
		g.feat["tmpl:whole-expansion-quoted-list"] = true
		t = sx.Q(sx.L(uq(p(1)), sx.Y("b"), sx.L(uq(p(m.req)))))
		if g.r.Chance(1, 2) {
			t = sx.Q(t)
		}
	case 100:
		g.feat["tmpl:splice-last"] = true
		t = sx.Call("list", uq(p(1)), uqs(sx.Y("body")))
	case 101:
		g.feat["tmpl:splice-first"] = true
		t = sx.Call("list", uqs(sx.Y("body")), uq(p(1)))
	case 102:
		g.feat["tmpl:splice-middle-adjacent"] = true
		t = sx.Call("list", sx.I(0), uqs(sx.Y("body")), uqs(sx.Y("body")), sx.I(9))
	case 103:
		g.feat["tmpl:progn-body"] = true
		t = sx.Call("progn", uq(p(1)), uqs(sx.Y("body")))
	case 107, 108, 109:
		if len(g.macros) > 0 {
			// a front-end macro that hands its whole &rest list, UNSPLICED, to another
			// macro (a chain of at least two expansion steps)
			g.feat["tmpl:rest-list-passed-to-macro"] = true
			o := g.macros[g.r.Intn(len(g.macros))]
			args := []*sx.N{uq(sx.Y("body"))}
			for i := 1; i < o.req; i++ {
				args = append(args, uq(p(1+i%m.req)))
			}
			if o.rest {
				args = append(args, uq(sx.Call("cdr", sx.Y("body"))), sx.I(int64(g.r.Intn(9))))
			}
			t = sx.Call(o.name, args...)
			break
		}
		g.feat["tmpl:splice-in-nested"] = true
		t = sx.Call("list", sx.Call("list", uqs(sx.Y("body"))), sx.Call("length", sx.Q(sx.L(uqs(sx.Y("body"))))))
	case 105:
		g.feat["tmpl:splice-under-two-quotes"] = true
		t = sx.Call("list", sx.Q(sx.Q(sx.L(sx.I(1), uqs(sx.Y("body")), sx.I(4)))), uq(p(1)))
	default:
		g.feat["tmpl:splice-in-nested"] = true
		t = sx.Call("list", sx.Call("list", uqs(sx.Y("body"))), sx.Call("length", sx.Q(sx.L(uqs(sx.Y("body"))))))
	}
	return sx.Call("quasiquote", t)
}

func (g *c07Gen) defmacro(k int) *sx.N {
	m := c07Macro{name: fmt.Sprintf("m%d", k), req: g.r.Range(1, 3), rest: g.r.Chance(1, 3)}
	var formals []*sx.N
	for i := 1; i <= m.req; i++ {
		formals = append(formals, sx.Y(fmt.Sprintf("p%d", i)))
	}
	if m.rest {
		formals = append(formals, sx.Y("&rest"), sx.Y("body"))
	}
	body := g.template(k, &m)
	g.macros = append(g.macros, m)
	return sx.Call("defmacro", sx.Y(m.name), sx.L(formals...), body)
}

func (g *c07Gen) argForm() *sx.N {
	switch g.r.Intn(6) {
	case 0:
		return sx.I(int64(g.r.Intn(20)))
	case 1:
		return g.probe("arg", sx.I(int64(g.r.Intn(20))))
	case 2:
		return g.probe("arg", sx.Call("+", sx.I(1), sx.I(int64(g.r.Intn(5)))))
	case 3:
		return sx.Y("lex")
	case 4:
		return sx.Call("progn", g.probe("side", sx.I(0)), sx.I(int64(g.r.Intn(20))))
	}
	return sx.Y("true")
}

func (g *c07Gen) call(m c07Macro) *sx.N {
	var args []*sx.N
	for i := 0; i < m.req; i++ {
		args = append(args, g.argForm())
	}
	if m.rest {
		for i := g.r.Intn(4); i > 0; i-- {
			args = append(args, g.argForm())
		}
	}
	if g.r.Chance(1, 12) { // wrong arity now and then
		g.feat["call:wrong-arity"] = true
		args = args[:len(args)/2]
	}
	return sx.Call(m.name, args...)
}

func c07Run(w *fw.W, idx int) {
	w.Count("c07_cases", 1)
	switch idx % 4 {
	case 2:
		c07Quasi(w, idx)
	case 3:
		if idx%16 == 15 {
			c07GensymLong(w, idx) // c07_long.go
		} else {
			c07Gensym(w, idx)
		}
	default:
		if idx%32 == 9 {
			c07Depth(w, idx) // c07_depth.go
		} else if idx%16 == 4 {
			c07Overlap(w, idx) // c07_overlap.go
		} else if idx%8 == 5 {
			c07Live(w, idx) // c07_live.go
		} else {
			c07Macros(w, idx)
		}
	}
}

func c07Macros(w *fw.W, idx int) {
	r := w.RNG(idx, "macros")
	g := &c07Gen{r: r, feat: map[string]bool{}}
	var defs []*sx.N
	for k := 1; k <= r.Range(2, 5); k++ {
		defs = append(defs, g.defmacro(k))
	}
	// call statements; `lex` is a lexical variable visible at every call site
	type stmt struct{ call *sx.N }
	var calls []*sx.N
	for i := r.Range(2, 5); i > 0; i-- {
		m := g.macros[r.Intn(len(g.macros))]
		calls = append(calls, g.call(m))
		if m.definesFn != "" {
			calls = append(calls, sx.Call(m.definesFn, sx.I(int64(r.Intn(9)))))
		}
	}
	useMacrolet := r.Chance(1, 4)
	// macros of ANOTHER package (one of them without body forms), called from here: the
	// expansion is evaluated in the caller's package and scope
	otherPkg := r.Chance(1, 3)
	if otherPkg {
		g.feat["other-package-macros"] = true
		calls = append(calls, sx.Call("c07util:cmt", g.argForm(), sx.I(1)), sx.Call("list", sx.Call("set", sx.QY("after-cmt"), sx.I(int64(r.Intn(50)))), sx.Y("user:after-cmt")),
			sx.Call("c07util:wrap-once", g.argForm()), sx.Call("list", sx.Call("set", sx.QY("after-wrap"), sx.I(int64(r.Intn(50)))), sx.Y("user:after-wrap")))
	}
	build := func(viaExpand bool) []*sx.N {
		var out []*sx.N
		if otherPkg {
			out = append(out, sx.Call("in-package", sx.QY("c07util")),
				sx.Call("defmacro", sx.Y("cmt"), sx.L(sx.Y("&rest"), sx.Y("forms"))),
				sx.Call("defmacro", sx.Y("wrap-once"), sx.L(sx.Y("x")), sx.Call("quasiquote", sx.Call("list", uq(sx.Y("x"))))),
				sx.Call("export", sx.QY("cmt"), sx.QY("wrap-once")),
				sx.Call("in-package", sx.QY("user")))
		}
		for _, d := range defs {
			out = append(out, d.Clone())
		}
		var body []*sx.N
		for i, c := range calls {
			cc := c.Clone()
			if viaExpand && strings.HasPrefix(cc.Head(), "m") {
				cc = sx.Call("eval", sx.Call("macroexpand", sx.Q(cc)))
			}
			body = append(body, sx.Call("verif:probe", sx.QY(fmt.Sprintf("r%d", i)), cc))
		}
		scope := sx.Call("let", append([]*sx.N{sx.L(sx.L(sx.Y("lex"), sx.I(7)))}, body...)...)
		if useMacrolet {
			// the same first macro again as a local macrolet shadowing the global one
			// a DIFFERENT local macro under the first global macro's name: call sites
			// (and macroexpand of them) must resolve it lexically
			d := defs[0]
			ml := sx.L(sx.Y(d.L[1].S), d.L[2].Clone(), sx.Call("quasiquote", sx.Call("list", sx.QY("local-macro"), uq(sx.Y("p1")))))
			scope = sx.Call("macrolet", sx.L(ml), scope)
		}
		return append(out, scope)
	}
	forms := build(false)
	src := sx.Render(forms, nil)
	rr := rt.New(rt.Opts{MaxSteps: 300_000})
	t1 := rr.Run("c07", src)
	w.Eval(1)
	w.Logf("source:\n%s\n=> %s trace %s", src, t1.Outcome(), t1.TraceString())

	// (a) reference interpreter
	if bad, declined, in := c07AgainstModel(forms, rr, t1); declined {
		w.Count("model_declined", 1)
	} else if bad != "" {
		w.Violation("macro-model-disagreement", bad, fmt.Sprintf("source:\n%s\nreal: %s\n trace %s\nmodel: %s\n trace %s", src, t1.Outcome(), t1.TraceString(), bad, in.TraceString()))
		return
	}

	// (b) twin: call == eval of its macroexpansion, in the same environment
	src2 := sx.Render(build(true), nil)
	r2 := rt.New(rt.Opts{MaxSteps: 300_000})
	t2 := r2.Run("c07", src2)
	w.Eval(1)
	if t1.Outcome() != t2.Outcome() || t1.TraceString() != t2.TraceString() || t1.Stderr != t2.Stderr {
		w.Violation("macro-call-differs-from-eval-of-expansion",
			fmt.Sprintf("(m args) gave %s, (eval (macroexpand '(m args))) gave %s", t1.Outcome(), t2.Outcome()),
			fmt.Sprintf("call program:\n%s\ntrace %s\nexpansion program:\n%s\ntrace %s", src, t1.TraceString(), src2, t2.TraceString()))
		return
	}

	// (c) macroexpand-1 iterated == macroexpand, on a fresh runtime holding only the definitions
	r3 := rt.New(rt.Opts{MaxSteps: 300_000})
	var defsrc []*sx.N
	for _, d := range defs {
		defsrc = append(defsrc, d.Clone())
	}
	r3.Run("defs", sx.Render(defsrc, nil))
	for _, c := range calls {
		if !strings.HasPrefix(c.Head(), "m") {
			continue
		}
		q := sx.Q(c.Clone()).String()
		full := r3.Run("me", "(format-string \"{}\" (macroexpand "+q+"))")
		step := r3.Run("me1", `(labels ((fix (f n) (let ([g (macroexpand-1 f)]) (if (or (<= n 0) (not (list? g)) (nil? g) (string= (format-string "{}" g) (format-string "{}" f))) g (fix g (- n 1)))))) (format-string "{}" (fix `+q+` 60)))`)
		w.Eval(2)
		// probes inside macro bodies fire at every expansion; only the resulting forms are compared
		if full.Outcome() != step.Outcome() {
			if !c07HasGensym(full.Value) {
				w.Violation("macroexpand-1-fixpoint-differs", fmt.Sprintf("macroexpand gave %s, iterating macroexpand-1 gave %s", full.Outcome(), step.Outcome()), "definitions:\n"+sx.Render(defsrc, nil)+"\nform: "+q)
				return
			}
			w.Count("expansion_compare_skipped_gensym", 1)
		}
	}
	out := "value"
	if t1.IsErr {
		out = "err:" + t1.Cond
	}
	for f := range g.feat {
		w.CoverKey("macro|" + f + "|" + out)
		for f2 := range g.feat {
			if f < f2 {
				w.CoverKey("macro-pair|" + f + "+" + f2)
			}
		}
	}
	if useMacrolet {
		w.CoverKey("macrolet|" + out)
	}
	w.Count("probe_events", int64(len(t1.Trace)))
	if w.WantSample() && len(src) < 900 && len(t1.Trace) > 3 {
		w.Sample(map[string]any{"source": src, "outcome": t1.Outcome(), "trace": t1.TraceString()})
	}
}

// c07AgainstModel loads forms into the reference interpreter and compares its effect
// trace and outcome with those of the real run (rr, t1).  declined: the model does not
// predict this program (fuel / a construct it is unsure about).
func c07AgainstModel(forms []*sx.N, rr *rt.R, t1 rt.Transcript) (bad string, declined bool, in *refint.Interp) {
	return c07AgainstModelWith(forms, rr, t1, nil)
}

// c07AgainstModelWith: setup (optional) prepares the model before the forms are loaded;
// when the model declines, bad carries its reason.
func c07AgainstModelWith(forms []*sx.N, rr *rt.R, t1 rt.Transcript, setup func(*refint.Interp)) (bad string, declined bool, in *refint.Interp) {
	in = refint.New()
	if setup != nil {
		setup(in)
	}
	_, merr := func() (mv *refint.V, me *refint.Err) {
		defer func() {
			if rec := recover(); rec != nil {
				me = &refint.Err{Cond: fmt.Sprint("<model panic: ", rec, ">"), Unsure: true}
			}
		}()
		return in.LoadForms(forms)
	}()
	if merr != nil && (merr.Fuel || merr.Unsure) {
		return merr.Cond, true, in
	}
	if len(rr.Trace) != len(in.Trace) {
		bad = fmt.Sprintf("effect trace length %d vs model %d", len(rr.Trace), len(in.Trace))
	}
	for i := 0; bad == "" && i < len(rr.Trace); i++ {
		a, b := rr.Trace[i], in.Trace[i]
		ok := a.Tag == b.Tag && len(a.Trees) == len(b.Vals)
		for j := 0; ok && j < len(a.Trees); j++ {
			ok = tree.Equal(a.Trees[j], b.Vals[j], tree.Opts{IgnoreQuote: true})
		}
		if !ok {
			bad = fmt.Sprintf("effect %d: real %s vs model %s", i, a.String(), b.Tag)
		}
	}
	if bad == "" && t1.IsErr != (merr != nil) {
		bad = fmt.Sprintf("real %s vs model err=%v", t1.Outcome(), merr)
	}
	if bad == "" && t1.IsErr && t1.Cond != merr.Cond {
		bad = fmt.Sprintf("condition %s vs model %s", t1.Cond, merr.Cond)
	}
	return bad, false, in
}

var c07GensymRe = regexp.MustCompile(`gen[0-9]{8}`)

func c07HasGensym(s string) bool { return c07GensymRe.MatchString(s) }

// --- quasiquote templates ---------------------------------------------------------------

func (g *c07Gen) qqTemplate(d int, skel *[]string) *sx.N {
	if d <= 0 || g.r.Chance(1, 4) {
		switch g.r.Intn(8) {
		case 0:
			*skel = append(*skel, "int")
			return sx.I(int64(g.r.Intn(9)))
		case 1:
			*skel = append(*skel, "sym")
			return sx.Y(fw.Pick(g.r, []string{"a", "b", "foo", "unquoted"}))
		case 2:
			*skel = append(*skel, "str")
			return sx.S("s")
		case 3:
			*skel = append(*skel, "uq")
			return uq(sx.Y(fw.Pick(g.r, []string{"va", "vl", "vs", "ve", "vq"})))
		case 4:
			*skel = append(*skel, "uq-expr")
			return uq(sx.Call("+", sx.Y("va"), sx.I(int64(g.r.Intn(5)))))
		case 5:
			*skel = append(*skel, "quoted-uq")
			return sx.Q(uq(sx.Y(fw.Pick(g.r, []string{"va", "vl", "vq"}))))
		case 6:
			*skel = append(*skel, "quoted-sym")
			return sx.QY("q")
		default:
			*skel = append(*skel, "nil")
			return sx.Nil()
		}
	}
	n := g.r.Range(0, 4)
	*skel = append(*skel, fmt.Sprintf("list%d(", n))
	var xs []*sx.N
	for i := 0; i < n; i++ {
		if g.r.Chance(1, 4) {
			*skel = append(*skel, "splice")
			xs = append(xs, uqs(sx.Y(fw.Pick(g.r, []string{"vl", "ve", "vl2"}))))
			if g.r.Chance(1, 3) { // adjacent splices
				xs = append(xs, uqs(sx.Y(fw.Pick(g.r, []string{"vl", "ve"}))))
			}
			continue
		}
		xs = append(xs, g.qqTemplate(d-1, skel))
	}
	*skel = append(*skel, ")")
	l := sx.L(xs...)
	switch g.r.Intn(8) {
	case 0:
		*skel = append(*skel, "quoted-list")
		return sx.Q(l)
	case 2:
		*skel = append(*skel, "quoted2-list")
		return sx.Q(sx.Q(l))
	case 3:
		*skel = append(*skel, "quoted3-list")
		return sx.Q(sx.Q(sx.Q(l)))
	case 1:
		*skel = append(*skel, "bracket")
		return &sx.N{K: sx.Brack, L: xs}
	}
	return l
}

func c07Quasi(w *fw.W, idx int) {
	r := w.RNG(idx, "qq")
	g := &c07Gen{r: r, feat: map[string]bool{}}
	var skel []string
	t := g.qqTemplate(r.Range(1, 6), &skel)
	form := sx.Call("let", sx.L(
		sx.L(sx.Y("va"), sx.I(int64(r.Intn(9)))),
		sx.L(sx.Y("vl"), sx.Call("list", sx.I(1), sx.QY("two"), sx.Call("list", sx.I(3)))),
		sx.L(sx.Y("vl2"), sx.Q(sx.L(sx.Y("x"), sx.Y("y")))),
		sx.L(sx.Y("vs"), sx.S("str")),
		sx.L(sx.Y("ve"), sx.Nil()),
		sx.L(sx.Y("vq"), sx.QY("sym"))),
		sx.Call("quasiquote", t))
	forms := []*sx.N{form}
	src := sx.Render(forms, nil)
	rr := rt.New(rt.Opts{MaxSteps: 100_000})
	v := rr.Env.LoadString("c07", src)
	w.Eval(1)
	in := refint.New()
	mv, merr := in.LoadForms(forms)
	w.Logf("%s=> %s | model %v %v", src, v, c06Val(mv), merr)
	if merr != nil && (merr.Fuel || merr.Unsure) {
		return
	}
	realErr := v.Type == lisp.LError
	if realErr != (merr != nil) {
		w.Violation("quasiquote-model-disagreement:error-vs-value", fmt.Sprintf("real %s vs model val=%s err=%v", trunc(v.String(), 200), c06Val(mv), merr), src)
		return
	}
	if !realErr {
		got := tree.FromLVal(v)
		want := mv.ToTree()
		if !tree.Equal(got, want, tree.Opts{IgnoreQuote: true}) {
			w.Violation("quasiquote-structure", fmt.Sprintf("quasiquote built %s, the template gives %s", got, want), src)
			return
		}
		if !tree.Equal(got, want, tree.Opts{}) {
			w.Violation("quasiquote-quote-marks", fmt.Sprintf("quasiquote built %s, the template gives %s (quote marks differ)", got, want), src)
			return
		}
	}
	sk := strings.Join(skel, "")
	if len(sk) > 80 {
		sk = sk[:80]
	}
	w.CoverKey("qq|" + sk)
	if w.WantSample() && !realErr && len(skel) > 6 {
		w.Sample(map[string]any{"quasiquote": src, "result": v.String()})
	}
}

// --- gensym -------------------------------------------------------------------------------

func c07Gensym(w *fw.W, idx int) {
	r := w.RNG(idx, "gensym")
	n := r.Range(10, pick(w.Tier, 300, 2000))
	// the program text deliberately contains gen-prefixed numbered symbols
	k := r.Range(1, n)
	mine := fmt.Sprintf("gen%08d", k)
	src := fmt.Sprintf(`(set '%s 'program-symbol)
(set 'plain-gen 1) (set 'gen-1 2) (set 'gen0 3)
(defun use-internal-gensyms (m)
  (list (trace (+ 1 2) "t") (get-default m "missing" 5) ((curry-function + 1) 2)))
(deftype gtype (a) a)
(set 'acc ())
(dotimes (i %d)
  (if (= 0 (mod i 7)) (use-internal-gensyms (sorted-map)) ())
  (set 'acc (cons (gensym) acc)))
(map 'list to-string acc)
`, mine, n)
	rr := rt.New(rt.Opts{MaxSteps: 5_000_000})
	v := rr.Env.LoadString("c07", src)
	w.Eval(1)
	if v.Type == lisp.LError {
		w.Violation("gensym-program-failed", v.String(), src)
		return
	}
	seen := map[string]bool{}
	programSyms := map[string]bool{mine: true, "plain-gen": true, "gen-1": true, "gen0": true, "acc": true, "i": true, "m": true, "a": true, "gtype": true, "use-internal-gensyms": true, "program-symbol": true}
	for _, c := range v.Cells {
		s := c.Str
		if seen[s] {
			w.Violation("gensym-not-distinct", "gensym returned the symbol "+s+" twice in one runtime", src)
			return
		}
		seen[s] = true
		if programSyms[s] {
			w.Violation("gensym-collides-with-program-symbol", fmt.Sprintf("gensym returned %s, a symbol the program text contains (and has bound)", s), src)
			return
		}
	}
	w.Count("gensyms_checked", int64(len(v.Cells)))
	w.CoverKey(fmt.Sprintf("gensym|n=%d", n/50))
}
