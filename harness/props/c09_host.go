package props

import (
	"context"
	"fmt"
	"strings"

	"github.com/luthersystems/elps/lisp"

	"verifharness/fw"
	"verifharness/rt"
)

// C09, family "the host hands a value back".
//
// Every other case of the check keeps the values a Program produces inside lisp.  An
// embedder does not: LoadProgram RETURNS the value of the last form - for a program
// ending in a quoted literal, the literal itself, a node of the shared tree - and the
// documented way to call a lisp function from Go takes an argument LIST
// (FunCall / FunCallContext).  "Whatever was done to values obtained from it earlier"
// includes what the host does with that value: here it passes it on to functions the
// Program defined, (i) as the argument list itself (the Go spelling of `apply`), (ii)
// as one argument in a list of the host's own - to functions with every kind of
// formals (&rest, required + &rest, &optional + &rest, one parameter) whose body is
// one of the mutators of the table in c09.go.  Afterwards the Program's snapshot and
// fingerprint are what they were, and the Program loaded again (same runtime, fresh
// runtime) yields what it yielded the first time.  The lisp-level twin of (i),
// (apply f '(3 1 2)), is what seed C09 round 1 broke and `apply` guards against.
// Finding key: host-call|<how the value is handed over>|<formals> (the entry point is in the summary).

var c09HostFormals = []struct{ name, fn, formals, bind string }{
	{"rest", "hf-rest", "(&rest xs)", "xs"},
	{"required+rest", "hf-req-rest", "(a &rest xs)", "xs"},
	{"optional+rest", "hf-opt-rest", "(&optional a &rest xs)", "xs"},
	{"one-parameter", "hf-one", "(v0)", "v0"},
}

func c09HostCasesPerPass() int { return len(c09Mutators) }

func c09HostCases(tier string) int {
	return c09HostCasesPerPass() * pick(tier, 1, len(c09LibShapes[0].kinds))
}

func c09HostRun(w *fw.W, idx, j int) {
	mu := c09Mutators[j%len(c09Mutators)]
	kinds := c09LibShapes[0].kinds
	kind := kinds[(j/len(c09Mutators)+j+int(w.Seed))%len(kinds)]
	var sb strings.Builder
	sb.WriteString(`(defmacro sort-args-m (&rest xs) (stable-sort < xs) (quasiquote (quote (unquote xs))))
(defmacro lit-m (&rest xs) (quasiquote (list (unquote-splicing (stable-sort < xs)))))
(defmacro checked-m (form) form)
`)
	mform := strings.ReplaceAll(mu.form, "V", "v")
	for _, f := range c09HostFormals {
		fmt.Fprintf(&sb, "(defun %s %s (let ([v %s]) (handler-bind ((condition (lambda (&rest e) 'failed))) %s)))\n", f.fn, f.formals, f.bind, mform)
	}
	// the same bodies as MACROS (round 10): MacroCall is the third entry point that binds a
	// list the host hands over to a lisp-defined parameter list
	for _, f := range c09HostFormals {
		fmt.Fprintf(&sb, "(defmacro %s-m %s (let ([v %s]) (handler-bind ((condition (lambda (&rest e) 'failed))) %s)) ())\n", f.fn, f.formals, f.bind, mform)
	}
	fmt.Fprintf(&sb, "(defun lit () %s)\n(lit)\n", kind.expr)
	src := sb.String()
	w.Logf("source:\n%s", src)

	parser := rt.New(rt.Opts{})
	calls := 0
	for _, entry := range []string{"FunCall", "FunCallContext", "MacroCall"} {
		for _, f := range c09HostFormals {
			// every class gets a Program of its own: a finding in one must not hide the others
			prog, err := parser.Env.ParseProgram("c09", "c09.lisp", strings.NewReader(src))
			if err != nil {
				w.Violation("harness-parse-error", err.Error(), src)
				return
			}
			roots := lisp.VerifProgramExprs(prog)
			before := c09Snapshot(roots)
			fpBefore := lisp.SealedASTFingerprint(roots)
			main := rt.New(c09Opts(0))
			first := c09Load(main, func() *lisp.LVal { return main.Env.LoadProgram(prog) })
			w.Eval(1)
			if strings.HasPrefix(first.val, "c09") || strings.Contains(first.val, "error") {
				w.Count("host_programs_failed_to_load", 1)
				return
			}
			// a new load hands the host a new value of the literal
			lit := main.Env.LoadProgram(prog)
			fun := main.Env.GetFun(lisp.Symbol(f.fn))
			if entry == "MacroCall" {
				fun = main.Env.Get(lisp.Symbol(f.fn + "-m"))
			}
			if fun.Type != lisp.LFun {
				w.Violation("harness-host-function-missing", f.fn, src)
				return
			}
			how, args := "args-list", lit
			if f.name == "one-parameter" {
				how, args = "one-argument", lisp.SExpr([]*lisp.LVal{lit})
			} else if lit.Type != lisp.LSExpr {
				continue
			}
			if entry == "FunCall" {
				main.Env.FunCall(fun, args)
			} else if entry == "MacroCall" {
				main.Env.MacroCall(fun, args)
			} else {
				main.Env.FunCallContext(context.Background(), fun, args)
			}
			calls++
			w.Eval(1)
			class := fmt.Sprintf("host-call|%s|%s", how, f.name) // FunCall and FunCallContext are one class: they share the binder
			if entry == "MacroCall" {
				class = fmt.Sprintf("host-macro-call|%s|%s", how, f.name)
			}
			w.CoverKey(class + "|" + entry + "|" + mu.name)
			w.SetAdd("host_call_classes", class+"|"+entry)
			what := fmt.Sprintf("the host passed the value LoadProgram returned (the program's literal %s) to %s of a function with formals %s whose body is %s, as %s", kind.expr, entry, f.formals, mform, how)
			if d := c09Compare(before, c09Snapshot(roots)); d != "" {
				w.Violation("program-mutated:"+class, what+"; the parsed Program changed: "+d, src)
				continue
			}
			if fp := lisp.SealedASTFingerprint(roots); fp != fpBefore {
				w.Violation("program-fingerprint-changed:"+class, fmt.Sprintf("%s; %x -> %x", what, fpBefore, fp), src)
				continue
			}
			again := c09Load(main, func() *lisp.LVal { return main.Env.LoadProgram(prog) })
			if again.val != first.val {
				w.Violation("literal-changed:"+class, what+"; loaded again the Program yields "+trunc(again.val, 200)+" instead of "+trunc(first.val, 200), src)
				continue
			}
			fresh := rt.New(c09Opts(1))
			if got := c09Load(fresh, func() *lisp.LVal { return fresh.Env.LoadProgram(prog) }); got.val != first.val {
				w.Violation("fresh-runtime-load-differs:"+class, what+"; a fresh runtime then loads "+trunc(got.val, 200)+" instead of "+trunc(first.val, 200), src)
			}
		}
	}
	w.Count("host_calls_with_program_values", int64(calls))
	w.SetAdd("host_value_spellings", kind.name)
}
