package props

// C17 — generator family "a name defined more than once, referenced from elsewhere".
//
// A library file of the session defines one package-level name two (sometimes
// three) times, in one package, the way such files grow: a function that is
// redefined further down, `(set 'name ())` as a declaration before the defun, a
// function later replaced by a variable holding a lambda, by a plain variable
// or by a macro (and the reverse orders).  At least one of the defining forms
// is a defun — the kind of package-level name the minifier renames.  The name is
// then REFERENCED FROM OTHER FILES of the session: later files (the group's own
// references, then everything the rest of the generator writes, since the name
// joins the model as what its LAST definition makes it) and, sometimes, a
// function of an earlier file that is only called once the library is loaded.
// The references come from the same package, through `pkg:name`, or through
// export + use-package.
//
// What the statement demands is independent of how many defining forms there
// are: a file is loaded as a whole, so every reference evaluated after it sees
// the last definition, in the original and in the minified session alike.
//
// Domain (what the family does NOT write, because the unfixed defect D8 covers
// it and its probes report it): a reference that is EVALUATED between the first
// and the last definition (only defining forms stand between them, nothing in
// the session runs code there), and — when the last definition is a `set` that
// follows a defun — any other mention of the name in the defining file (a
// reference after the definitions, an `(export 'name)` form).  Mentions in the
// defining file that lie after the last definition, or inside a function that
// is only called later, are written when the last definition is a defun or a
// defmacro: those hold on the unchanged tree and are judged.
//
// Everything is drawn from a stream of its own (see c17Generate): sessions
// without a group are exactly the ones generated before the family existed.

import (
	"strconv"
	"strings"
)

var c17RedefPool = []string{"on-tick", "render-row", "settle", "fmt-cell", "norm-key", "apply-fee", "version-of", "lookup-it"}
var c17RedefLibNames = []string{"rlib", "slib"}

// kinds of one defining form
const (
	c17RdDefun     = "defun"
	c17RdSetNil    = "set-nil"    // (set 'name ()) - a declaration; never the last form
	c17RdSetInt    = "set-int"    // (set 'name 7)
	c17RdSetLambda = "set-lambda" // (set 'name (lambda (p) ...))
	c17RdDefmacro  = "defmacro"
)

// c17RedefInfo describes one group of a session (for the evidence only: the
// oracle never looks at it).
type c17RedefInfo struct {
	Name   string
	Pkg    string
	File   int // the defining file
	Kinds  []string
	Access string
}

func (i c17RedefInfo) kinds() string { return strings.Join(i.Kinds, "+") }

// c17RedefKinds draws the kinds of the defining forms: two (sometimes three),
// at least one of them a defun.
func c17RedefKinds(r *c17Rng) []string {
	n := 2
	if r.chance(1, 5) {
		n = 3
	}
	for {
		ks := make([]string, n)
		hasDefun := false
		for i := range ks {
			switch k := r.intn(10); {
			case k < 5:
				ks[i] = c17RdDefun
			case k < 6:
				ks[i] = c17RdSetNil
			case k < 7:
				ks[i] = c17RdSetInt
			case k < 9:
				ks[i] = c17RdSetLambda
			default:
				ks[i] = c17RdDefmacro
			}
			if ks[i] == c17RdDefun {
				hasDefun = true
			}
		}
		if hasDefun && ks[n-1] != c17RdSetNil {
			return ks
		}
	}
}

// fileSpells: some atom of file f is spelled name (bare or qualified).
func (g *c17Gen) fileSpells(f int, name string) bool {
	for _, top := range g.files[f] {
		found := false
		c17Walk(top, false, func(x *c17N, _ bool) {
			if x.isAtom() && len(x.A) > 0 && x.A[0] != '"' && x.A[0] != ':' {
				if _, b := c17SplitQual(x.A); b == name {
					found = true
				}
			}
		})
		if found {
			return true
		}
	}
	return false
}

// redefGroup emits one group while file f (current package u, f >= 1) is being
// written: the defining forms are appended to an earlier file, the references
// are written here.
func (g *c17Gen) redefGroup(f int, u *c17Pkg, pkgChoices []string, r *c17Rng) {
	if f < 1 {
		return
	}
	k := g.redefGroups + 1
	a := r.intn(f) // the library file
	var name string
	if r.chance(1, 3) {
		// an everyday name, provided nothing of the session means or spells it yet
		// where it matters: no package defines or imports it, no macro template
		// names it, and the library file does not spell it at all
		name = c17Pick(r, c17PlainNames)
		if _, t := g.tmplFree[name]; t || g.fileSpells(a, name) {
			name = ""
		}
	}
	if name == "" {
		name = c17Pick(r, c17RedefPool)
		if k > 1 {
			name += "-" + strconv.Itoa(k)
		}
	}
	if g.nameTaken(name) {
		return
	}
	if _, site := g.siteNames[name]; site {
		return
	}
	for _, pn := range g.pkgOrder {
		if g.pkgs[pn].usedBuiltin[name] {
			return
		}
	}
	kinds := c17RedefKinds(r)
	last := kinds[len(kinds)-1]
	// may the defining file mention the name apart from its definitions?
	inFileOK := last == c17RdDefun || last == c17RdDefmacro

	// ---- where the library lives and how the using package reaches it ----------
	home, access := u, "same-package"
	if g.has("packages") && r.chance(1, 2) {
		var cands []string
		seen := map[string]bool{u.name: true}
		for _, pn := range pkgChoices {
			if !seen[pn] {
				seen[pn] = true
				cands = append(cands, pn)
			}
		}
		for _, pn := range c17RedefLibNames {
			if g.pkgs[pn] == nil {
				cands = append(cands, pn)
				break
			}
		}
		if len(cands) > 0 {
			q := g.pkg(c17Pick(r, cands))
			canImport := inFileOK && g.has("export") && g.has("use-package") && !q.frozen && !u.used[q.name] &&
				u.defs[name] == nil && u.imports[name] == nil
			if canImport && r.chance(1, 2) {
				home, access = q, "imported"
			} else {
				home, access = q, "qualified"
			}
		}
	}
	exported := access == "imported" || (inFileOK && g.has("export") && !home.frozen && r.chance(1, 4))
	if exported && c17Contains(c17ShadowableBuiltins, name) {
		return
	}
	g.redefGroups = k
	if !inFileOK {
		if g.noMention == nil {
			g.noMention = map[int]map[string]bool{}
		}
		if g.noMention[a] == nil {
			g.noMention[a] = map[string]bool{}
		}
		g.noMention[a][name] = true
	}
	oldFile := g.curFile
	defer func() { g.curFile = oldFile }()
	g.curFile = a
	g.inPackage(a, home.name, r)
	g.names[name] = true
	henv := g.topEnv(home)

	param := func(avoid ...string) string {
		for try := 0; try < 10; try++ {
			p := g.pickLocalName(henv, r)
			// (not spelled like a builtin: the forms land in an EARLIER file than the
			// one being written, where the domain check would read the spelling as a
			// use of the builtin that precedes a later global of that name)
			ok := p != name && !c17Contains(c17ShadowableBuiltins, p)
			for _, x := range avoid {
				if p == x {
					ok = false
				}
			}
			if ok {
				return p
			}
		}
		return "q" + strconv.Itoa(len(avoid))
	}
	// self-contained bodies: nothing of the package's later state is needed to read
	// them, and every defining form computes something else
	mults := []int{2, 10, 3, 7}
	arith := func(i int, x *c17N, more ...*c17N) *c17N {
		sum := []*c17N{c17Call("*", x, c17Int(mults[i])), c17Int(r.rng(0, 5) + 10*i)}
		return c17Call("+", append(sum, more...)...)
	}
	var sig *c17Glob
	var forms []*c17N
	for i, kd := range kinds {
		sig = &c17Glob{name: name, lvl: 1}
		switch kd {
		case c17RdDefun:
			p0 := param()
			ps, more := []*c17N{c17Sym(p0)}, []*c17N(nil)
			sig.kind, sig.req = c17KFn, 1
			if r.chance(1, 3) {
				p1 := param(p0)
				ps, more = append(ps, c17Sym(p1)), []*c17N{c17Sym(p1)}
				sig.req = 2
			}
			forms = append(forms, c17Call("defun", c17Sym(name), c17List(ps...), arith(i, c17Sym(p0), more...)))
		case c17RdSetNil:
			sig.kind = c17KVar
			forms = append(forms, c17Call("set", c17QSym(name), &c17N{IsL: true}))
		case c17RdSetInt:
			sig.kind = c17KVar
			forms = append(forms, c17Call("set", c17QSym(name), c17Int(100*(i+1)+r.rng(0, 9))))
		case c17RdSetLambda:
			p0 := param()
			sig.kind, sig.req = c17KVarFn, 1
			forms = append(forms, c17Call("set", c17QSym(name), c17Call("lambda", c17List(c17Sym(p0)), arith(i, c17Sym(p0)))))
		case c17RdDefmacro:
			mp := c17Pick(r, []string{"form", "arg", "e1"})
			g.names[mp] = true
			sig.kind, sig.req, sig.crossOK = c17KMacro, 1, true
			forms = append(forms, c17Call("defmacro", c17Sym(name), c17List(c17Sym(mp)),
				c17Call("quasiquote", arith(i, c17Call("unquote", c17Sym(mp))))))
		}
	}

	// ---- what stands between (before, after) the defining forms: definitions only ---
	type extra struct {
		form *c17N
		gl   *c17Glob
	}
	var between []extra
	free := func(n string) bool {
		for _, e := range between {
			if e.gl.name == n {
				return false
			}
		}
		return home.defs[n] == nil && !g.nameTaken(n)
	}
	for n := r.rng(0, 2); n > 0; n-- {
		switch r.intn(3) {
		case 0:
			an := name + "-aux"
			if free(an) {
				p0 := param()
				between = append(between, extra{c17Call("defun", c17Sym(an), c17List(c17Sym(p0)), c17Call("-", c17Sym(p0), g.lit(r))),
					&c17Glob{name: an, kind: c17KFn, req: 1, lvl: 1}})
				g.tag("redef:between:unrelated-defun")
			}
		case 1:
			vn := name + "-k"
			if free(vn) {
				between = append(between, extra{c17Call("set", c17QSym(vn), g.lit(r)), &c17Glob{name: vn, kind: c17KVar}})
				g.tag("redef:between:unrelated-set")
			}
		default:
			vn := name + "-via"
			if inFileOK && last == c17RdDefun && free(vn) {
				// a function of the defining file that calls the name; nothing calls IT
				// before the file is loaded
				p0 := param()
				as := []*c17N{c17Sym(name), c17Sym(p0)}
				if sig.req == 2 {
					as = append(as, g.lit(r))
				}
				between = append(between, extra{c17Call("defun", c17Sym(vn), c17List(c17Sym(p0)), c17Call("+", &c17N{IsL: true, L: as}, g.lit(r))),
					&c17Glob{name: vn, kind: c17KFn, req: 1, lvl: 2}})
				g.tag("redef:referenced-in-defining-file-from-a-function-called-later")
			}
		}
	}
	// placement: slot 0 = before the first defining form, slot i = after form i-1
	slots := make([][]extra, len(forms)+1)
	for _, e := range between {
		s := 1 + r.intn(len(forms)-1) // between two defining forms
		if r.chance(1, 4) {
			s = r.intn(len(forms) + 1)
		}
		slots[s] = append(slots[s], e)
	}
	expAt := -1
	if exported {
		expAt = r.intn(len(forms) + 1)
	}
	for s := 0; s <= len(forms); s++ {
		if s == expAt {
			g.emit(a, g.exportForm(name))
			g.tag("redef:exported")
		}
		for _, e := range slots[s] {
			g.emit(a, e.form)
			g.names[e.gl.name] = true
			g.define(home, e.gl)
		}
		if s < len(forms) {
			g.emit(a, forms[s])
		}
	}
	g.define(home, sig)
	if exported {
		sig.exported = true
		if !c17Contains(home.exports, name) {
			home.exports = append(home.exports, name)
		}
		home.exportFiles[a] = true
	}
	// use writes one reference to the name; env == nil: in an earlier file, where
	// nothing but literals may accompany it
	use := func(env *c17Env, head string, arg *c17N) *c17N {
		switch sig.kind {
		case c17KVar:
			return c17Call("+", c17Sym(head), arg)
		case c17KVarFn:
			if r.chance(1, 2) {
				return c17Call("funcall", c17Sym(head), arg)
			}
			return c17List(c17Sym(head), arg)
		case c17KMacro:
			return c17List(c17Sym(head), arg)
		}
		as := []*c17N{arg}
		if sig.req == 2 {
			if env == nil {
				as = append(as, g.lit(r))
			} else {
				as = append(as, g.intExprNoCalls(env, r.fork()))
			}
		}
		if r.chance(1, 3) {
			ref := c17Sym(head)
			if r.chance(1, 2) {
				ref.Fn = true
			} else {
				ref = c17Call("function", ref)
			}
			g.tag("redef:function-value")
			if r.chance(1, 2) {
				return c17Call("apply", ref, c17Call("list", as...))
			}
			return &c17N{IsL: true, L: append([]*c17N{c17Sym("funcall"), ref}, as...)}
		}
		return &c17N{IsL: true, L: append([]*c17N{c17Sym(head)}, as...)}
	}
	if inFileOK && r.chance(1, 4) {
		// a reference in the defining file, after the last definition
		g.observe(a, home, use(nil, name, g.lit(r)))
		g.tag("redef:referenced-in-defining-file-after-the-last-definition")
	}
	if a >= 1 && sig.kind != c17KMacro && r.chance(1, 4) {
		// an EARLIER file refers to the name from a function that is only called
		// once the library file is loaded
		e := r.intn(a)
		en := name + "-early"
		if home.defs[en] == nil && !g.nameTaken(en) {
			g.curFile = e
			g.inPackage(e, home.name, r)
			p0 := param()
			g.emit(e, c17Call("defun", c17Sym(en), c17List(c17Sym(p0)), c17Call("+", use(nil, name, c17Sym(p0)), g.lit(r))))
			g.names[en] = true
			g.define(home, &c17Glob{name: en, kind: c17KFn, req: 1, lvl: 2})
			g.tag("redef:referenced-from-an-earlier-file")
		}
	}

	// ---- the references from this file --------------------------------------------
	g.curFile = f
	g.inPackage(f, u.name, r)
	if access == "imported" {
		if g.canUse(u, home, f) {
			home.frozen = true
			u.used[home.name] = true
			for _, e := range home.exports {
				u.imports[e] = home.defs[e]
			}
			arg := c17QSym(home.name)
			if r.chance(1, 4) {
				arg = c17Str(home.name)
			}
			g.emit(f, c17Call("use-package", arg))
			g.tag("use-package")
		} else {
			access = "qualified"
		}
	}
	head := name
	if access == "qualified" {
		head = home.name + ":" + name
		g.tag("qualified-call")
	}
	uenv := g.topEnv(u)
	g.observe(f, u, use(uenv, head, g.intExprNoCalls(uenv, r.fork())))
	if r.chance(1, 2) {
		// the reference inside a function body of the using file
		wname := g.pickGlobalName(u, r, false)
		wp := g.pickLocalName(uenv, r)
		if wp == name {
			wp = "n"
		}
		wenv := uenv.with(c17Loc{name: wp, kind: c17LInt}).fn()
		g.emit(f, c17Call("defun", c17Sym(wname), c17List(c17Sym(wp)), c17Call("+", use(wenv, head, c17Sym(wp)), g.intExprNoCalls(wenv, r.fork()))))
		g.define(u, &c17Glob{name: wname, kind: c17KFn, req: 1, lvl: 2})
		g.observe(f, u, c17List(c17Sym(wname), g.lit(r)))
		g.tag("redef:referenced-inside-a-function-body")
	}

	info := c17RedefInfo{Name: name, Pkg: home.name, File: a, Kinds: kinds, Access: access}
	g.redefInfo = append(g.redefInfo, info)
	g.tag("redef-group")
	g.tag("redef:kinds:" + info.kinds())
	g.tag("redef:access:" + access)
	if len(kinds) > 2 {
		g.tag("redef:three-definitions")
	}
}

// ---- the shape of a session with respect to names defined more than once ---------
//
// Used by the shrinker (which must not turn a session of this family into the
// shape of defect D8) and by the finding keys (which must tell the two apart).

type c17RedefShape struct {
	pkg, name string
	kinds     []string // heads of the defining forms, in order
	// d8: the shape defect D8 covers - a defun among the defining forms, and either
	// something other than a definition stands between the first and the last
	// defining form (code may run there and reach a reference), or the last
	// defining form is a set and the file mentions the name elsewhere
	d8 bool
	// mentioned: the defining file spells the name apart from its defining forms
	mentioned bool
}

// c17PureDefinition: a top-level form whose evaluation runs no code of the session.
func c17PureDefinition(top *c17N) bool {
	switch top.head() {
	case "defun", "defmacro", "in-package", "export", "use-package":
		return true
	case "set":
		if len(top.L) != 3 {
			return false
		}
		v := top.L[2]
		return v.isAtom() || v.Q || len(v.L) == 0 || v.head() == "lambda"
	}
	return false
}

// c17RedefShapes lists, per file, the (package, name) pairs with two or more
// top-level defining forms in that file.
func c17RedefShapes(c *c17Case) []c17RedefShape {
	var out []c17RedefShape
	for _, f := range c.Files {
		type occ struct {
			idx  int
			head string
		}
		defs := map[string][]occ{}
		var order []string
		pkg := "user"
		for i, top := range f {
			switch top.head() {
			case "in-package":
				if len(top.L) > 1 {
					pkg = strings.Trim(top.L[1].A, "\"")
				}
			case "defun", "defmacro", "set":
				if len(top.L) > 1 && top.L[1].isAtom() {
					key := pkg + "\x00" + top.L[1].A
					if defs[key] == nil {
						order = append(order, key)
					}
					defs[key] = append(defs[key], occ{i, top.head()})
				}
			}
		}
		for _, key := range order {
			os := defs[key]
			if len(os) < 2 {
				continue
			}
			sh := c17RedefShape{pkg: key[:strings.IndexByte(key, 0)], name: key[strings.IndexByte(key, 0)+1:]}
			hasDefun := false
			isDef := map[*c17N]bool{}
			for _, o := range os {
				sh.kinds = append(sh.kinds, o.head)
				if o.head == "defun" {
					hasDefun = true
				}
				isDef[f[o.idx].L[1]] = true
			}
			runs := false
			for i := os[0].idx + 1; i < os[len(os)-1].idx; i++ {
				if !c17PureDefinition(f[i]) {
					runs = true
				}
			}
			for _, top := range f {
				c17Walk(top, false, func(x *c17N, _ bool) {
					if x.isAtom() && !isDef[x] && len(x.A) > 0 && x.A[0] != '"' && x.A[0] != ':' {
						if _, b := c17SplitQual(x.A); b == sh.name {
							sh.mentioned = true
						}
					}
				})
			}
			sh.d8 = hasDefun && (runs || (sh.mentioned && sh.kinds[len(sh.kinds)-1] == "set"))
			out = append(out, sh)
		}
	}
	return out
}

// c17MultiDefs: the (package, name) pairs with two or more top-level defining
// forms in the session, whatever the files.
func c17MultiDefs(c *c17Case) map[string]bool {
	n := map[string]int{}
	for _, f := range c.Files {
		pkg := "user"
		for _, top := range f {
			switch top.head() {
			case "in-package":
				if len(top.L) > 1 {
					pkg = strings.Trim(top.L[1].A, "\"")
				}
			case "defun", "defmacro", "set":
				if len(top.L) > 1 && top.L[1].isAtom() {
					n[pkg+"\x00"+top.L[1].A]++
				}
			}
		}
	}
	out := map[string]bool{}
	for k, v := range n {
		if v > 1 {
			out[k] = true
		}
	}
	return out
}

// c17HasD8Shape: some name of the case is defined more than once in the way
// defect D8 covers.
func c17HasD8Shape(c *c17Case) bool {
	for _, sh := range c17RedefShapes(c) {
		if sh.d8 {
			return true
		}
	}
	return false
}

// c17RedefFamily names the input class of a case in which a name is defined
// more than once in one file and NO such name has the shape of D8 ("" otherwise).
func c17RedefFamily(c *c17Case) string {
	shs := c17RedefShapes(c)
	if len(shs) == 0 {
		return ""
	}
	for _, sh := range shs {
		if sh.d8 {
			return ""
		}
	}
	// the group whose definitions include a defun (the renamed kind) tells the class
	pick := shs[0]
	for _, sh := range shs {
		if c17Contains(sh.kinds, "defun") {
			pick = sh
			break
		}
	}
	fam := "name-defined-twice-referenced-from-another-file"
	if pick.mentioned {
		// (a reference after the last definition, a function of the file that is
		// called later, or the export form)
		fam = "name-defined-twice-mentioned-in-the-defining-file-too"
	}
	return fam + ":" + strings.Join(pick.kinds, "-then-")
}
