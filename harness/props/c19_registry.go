package props

// C19 family 1 — every function value of the default environment x every
// argument count 0..named+2, one call per source.

import (
	"fmt"
	"sort"
	"strings"

	"verifharness/fw"
)

// c19ArgList is one argument list to try for a signature.
type c19ArgList struct {
	Args  []string
	Style string // ints | kwpairs | kwodd | kwunknown
}

// c19ArgLists enumerates the argument lists for a signature: k integer
// literals for k = 0..named+2 (integer literals cannot fail before binding and
// are inert for operators/macros, which receive them unevaluated), and for
// &key signatures the well-formed / odd / unknown keyword tails after every
// positional prefix.
func c19ArgLists(s c19Sig, maxK int) []c19ArgList {
	var out []c19ArgList
	for k := 0; k <= maxK; k++ {
		out = append(out, c19ArgList{c19Ints(k, 1), "ints"})
	}
	if s.HasKey() {
		for p := 0; p <= s.Req+s.Opt; p++ {
			for j := 0; j <= len(s.Keys); j++ {
				args := c19Ints(p, 1)
				for i := 0; i < j; i++ {
					args = append(args, ":"+s.Keys[i], fmt.Sprint(50+i))
				}
				if j > 0 {
					out = append(out, c19ArgList{append([]string(nil), args...), "kwpairs"})
				}
				out = append(out, c19ArgList{append(append([]string(nil), args...), ":"+s.Keys[0]), "kwodd"})
				out = append(out, c19ArgList{append(append([]string(nil), args...), ":c19-no-such-key", "7"), "kwunknown"})
			}
		}
	}
	return out
}

// c19Rel relates an argument count to the positional range of a signature.
func c19Rel(s c19Sig, k int) string {
	switch {
	case k < s.Req:
		return "too-few"
	case !s.Rest && !s.HasKey() && k > s.Req+s.Opt:
		return "too-many"
	case s.HasKey() && k > s.Req+s.Opt:
		return "key-tail"
	}
	return "in-range"
}

// c19Findings collects violations of one case so that the three lint modes
// produce one record per finding key.
type c19Findings struct {
	keys    []string
	summary map[string]string
	detail  map[string][]string
}

func (f *c19Findings) add(key, summary, detail string) {
	if f.summary == nil {
		f.summary = map[string]string{}
		f.detail = map[string][]string{}
	}
	if _, ok := f.summary[key]; !ok {
		f.keys = append(f.keys, key)
		f.summary[key] = summary
	}
	if len(f.detail[key]) < 6 {
		f.detail[key] = append(f.detail[key], detail)
	}
}

// c19KeySeen counts, per worker process, how often a finding key was recorded.
// The framework keeps at most 200 violations per worker; a handful of finding
// keys that fire on hundreds of cases must not crowd out a different key, so
// each key is recorded at most c19PerKeyCap times per worker and counted after.
var c19KeySeen = map[string]int{}

const c19PerKeyCap = 3

func (f *c19Findings) flush(w *fw.W) {
	sort.Strings(f.keys)
	for _, k := range f.keys {
		w.SetAdd("finding_keys", k)
		c19KeySeen[k]++
		if c19KeySeen[k] > c19PerKeyCap && !w.Verbose {
			w.Count("violations_not_recorded_again_for_a_known_key", 1)
			continue
		}
		w.Violation(k, f.summary[k], strings.Join(f.detail[k], "\n----\n"))
	}
}

func c19RunRegistry(w *fw.W, f c19Fun) {
	sig := f.sig()
	var fnd c19Findings
	spellings := []string{f.Name}
	if f.Core {
		spellings = append(spellings, f.Pkg+":"+f.Name)
	} else {
		spellings = []string{f.Pkg + ":" + f.Name}
	}
	for si, head := range spellings {
		qualifiedCore := f.Core && si == 1
		for _, al := range c19ArgLists(sig, sig.Named+2) {
			src, pos := c19Place(c19Mark+"\n", c19Call(head, al.Args))
			obs := c19Eval(src, pos)
			w.Eval(1)
			k := len(al.Args)
			rel := c19Rel(sig, k)
			fails := obs.BindFailed() && obs.TopFID == f.FID
			if obs.T.IsErr && obs.Binder && !fails {
				// a binder message that is not this call's own binding (raised
				// for a call made by the body or by the expansion)
				w.Count("binder_errors_not_from_target", 1)
			}
			runClass := "value"
			switch {
			case fails && obs.Count:
				runClass = "bind-fail-count"
			case fails:
				runClass = "bind-fail-keyword"
			case obs.T.IsErr:
				runClass = "later-error"
			}
			if fails && !obs.AtTarget {
				w.Count("bind_errors_located_off_target", 1)
			}
			if fails {
				w.Count("calls_failing_binding", 1)
			} else {
				w.Count("calls_binding_ok", 1)
			}
			var lints []c19LintResult
			lintClass := ""
			for _, mode := range c19Modes {
				lr := c19Lint(mode, src)
				lints = append(lints, lr)
				if lr.Err != nil {
					fnd.add("harness-lint-error:registry", "lint failed on a generated one-call source: "+lr.Err.Error(), src)
					continue
				}
				arity, other := lr.arityAt(pos)
				w.Count("lint_runs", 1)
				lc := "none"
				if len(arity) > 0 {
					lc = c19Analyzers(arity)
					w.Count("calls_reported", 1)
				}
				lintClass += mode + "=" + lc + ","
				detail := fmt.Sprintf("source: %s\nfunction: %s:%s (%s) formals (%s)\nlint mode %s: arity diagnostics at the call: %s\nrun time: %s",
					strings.TrimSpace(src), f.Pkg, f.Name, f.Kind, strings.Join(f.Formals, " "), mode, c19DiagList(arity), obs)
				if len(arity) > 0 && !fails {
					key := fmt.Sprintf("spurious:%s:%s:%s", c19Family(f), f.Name, c19Analyzers(arity))
					if qualifiedCore {
						key = "spurious:core-qualified-spelling:" + c19Analyzers(arity)
					}
					fnd.add(key, fmt.Sprintf("%s reports %s with %d argument(s) [%s] but the evaluator binds the call", c19Analyzers(arity), c19Call(head, al.Args), k, al.Style), detail)
				}
				if fails && f.Core && !sig.HasKey() && len(arity) == 0 {
					if len(other) > 0 {
						w.Count("failing_calls_reported_only_by_non_arity_analyzer", 1)
						continue
					}
					key := fmt.Sprintf("missed:core:%s:%s", f.Name, rel)
					if qualifiedCore {
						key = "missed:core-qualified-spelling"
					}
					fnd.add(key, fmt.Sprintf("no arity diagnostic for %s but binding fails at run time (%s)", c19Call(head, al.Args), obs.T.Msg), detail)
				}
			}
			sp := "bare"
			if qualifiedCore || !f.Core {
				sp = "qualified"
			}
			w.CoverKey(fmt.Sprintf("reg|%s:%s|%s|%s|%s|%s|lint:%s|run:%s", f.Pkg, f.Name, f.Kind, sp, al.Style, rel, lintClass, runClass))
			w.SetAdd("registry_kinds", f.Kind+"/"+c19Family(f))
			w.SetAdd("signature_classes", sig.Class())
			c19Sample(w, "registry", src, pos, lints, obs)
		}
	}
	if f.Core {
		w.Count("core_names_enumerated", 1)
	} else {
		w.Count("stdlib_names_enumerated", 1)
	}
	fnd.flush(w)
}

func c19Family(f c19Fun) string {
	if f.Core {
		return "core"
	}
	return "stdlib"
}
