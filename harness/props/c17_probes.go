package props

// C17 — known-defect probes.
//
// Every defect this check found in the minifier has a few hand-written minimal
// sessions here.  They are run through the same oracle as the generated
// sessions, once per run, and a probe that fails is reported under a FIXED key
// (`known-defect:<defect>:<variant>`), which is what a known-findings file can
// list.  A probe that passes is not reported.
//
// The probes also decide, per defect, whether the shape that triggers it is
// kept OUT of the random workload: a defect whose probes fail is "present in
// the tree under test", and the generator then avoids its trigger (counting
// every avoided use), so that the random workload only reports failures that
// are NOT already known.  A defect whose probes all pass is treated as fixed
// and its trigger is part of the random workload again.

import (
	"fmt"
	"sort"
	"strings"
)

type c17Probe struct {
	Defect  string // "D1" ... "D15"
	Name    string // readable defect name
	Variant string
	Files   []string
	Cfg     c17Cfg
}

func (p c17Probe) key() string {
	return "known-defect:" + p.Defect + "-" + p.Name + ":" + p.Variant
}

var c17Defaults = c17Cfg{PreserveParams: true}

var c17Probes = []c17Probe{
	// D1 — assigned names x1, x2, ... are not checked against names in use
	{"D1", "name-collision", "preserved-parameter", []string{
		"(defun scale (x2) (let ((y 5)) (+ x2 y)))\n(debug-print (scale 1))\n"}, c17Defaults},
	{"D1", "name-collision", "global-set-name", []string{
		"(set 'x1 10)\n(defun helper (v) (+ v x1))\n(debug-print (helper 1))\n"}, c17Defaults},
	{"D1", "name-collision", "exported-name", []string{
		"(export 'x2)\n(defun x2 () 1)\n(defun other () 2)\n(defun third () (+ (x2) (other)))\n(debug-print (third))\n"}, c17Defaults},
	{"D1", "name-collision", "excluded-name", []string{
		"(defun x1 () 1)\n(defun g () (+ (x1) 1))\n(debug-print (g))\n"}, c17Cfg{PreserveParams: true, Excl: []string{"x1"}}},

	// D2 — an exported function is renamed when the importing package is in the same file
	{"D2", "export-use-package-in-one-file", "defaults", []string{
		"(in-package 'liba)\n(export 'pub)\n(defun pub (v) (+ v 1))\n(in-package 'libb)\n(use-package 'liba)\n(debug-print (pub 1))\n"}, c17Defaults},
	{"D2", "export-use-package-in-one-file", "rename-exports", []string{
		"(in-package 'liba)\n(export 'pub)\n(defun pub (v) (+ v 1))\n(in-package 'libb)\n(use-package 'liba)\n(debug-print (pub 1))\n"}, c17Cfg{PreserveParams: true, RenameExports: true}},

	// D3 — pkg:name inside a [...] binding list is not seen
	{"D3", "qualified-name-inside-bracket-list", "let", []string{
		"(in-package 'liba)\n(defun helper (v) (+ v 1))\n(defun run (v) (let ([w (liba:helper v)]) w))\n(debug-print (run 1))\n"}, c17Defaults},
	{"D3", "qualified-name-inside-bracket-list", "labels", []string{
		"(in-package 'liba)\n(defun helper (v) (+ v 1))\n(defun run (v) (labels ([go (n) (liba:helper n)]) (go v)))\n(debug-print (run 1))\n"}, c17Defaults},

	// D4 — symbols in quasiquote DATA are renamed
	{"D4", "quasiquote-data", "local", []string{
		"(defun tag (v) (let ((item v)) (quasiquote (item (unquote item)))))\n(debug-print (tag 3))\n"}, c17Defaults},
	{"D4", "quasiquote-data", "global-function", []string{
		"(defun gamma (a) a)\n(debug-print (quasiquote (gamma (unquote 5))))\n"}, c17Defaults},
	{"D4", "quasiquote-data", "parameter@rename-params", []string{
		"(defun f (item) (quasiquote (item (unquote item))))\n(debug-print (f 3))\n"}, c17Cfg{PreserveParams: false}},
	{"D4", "quasiquote-data", "qualified-exported@rename-exports", []string{
		"(defun base (b) b)\n(export 'base)\n(debug-print (quasiquote (user:base 1)))\n"}, c17Cfg{PreserveParams: true, RenameExports: true}},

	// D5 — defmacro template symbol spelled like a macro parameter
	{"D5", "defmacro-template-spells-parameter", "defaults", []string{
		"(defun limit (v) (+ v 1))\n(defmacro clamp (limit) (quasiquote (limit (unquote limit))))\n(debug-print (clamp 4))\n"}, c17Defaults},
	{"D5", "defmacro-template-spells-parameter", "rename-params", []string{
		"(defun limit (v) (+ v 1))\n(defmacro clamp (limit) (quasiquote (limit (unquote limit))))\n(debug-print (clamp 4))\n"}, c17Cfg{PreserveParams: false}},

	{"D5", "defmacro-template-spells-parameter", "macro-body-local", []string{
		"(defun value () 7)\n(defmacro step (form) (let ((value 5)) (quasiquote (+ (value) (unquote value) (unquote form)))))\n(debug-print (step 1))\n"}, c17Defaults},

	// D6 — macrolet bodies are not analysed
	{"D6", "macrolet-template", "enclosing-local", []string{
		"(defun run (v) (let ((k 10)) (macrolet ((add-k (e) (quasiquote (+ k (unquote e))))) (add-k v))))\n(debug-print (run 1))\n"}, c17Defaults},
	{"D6", "macrolet-template", "global-function", []string{
		"(defun helper (v) (+ v 1))\n(defun run (v) (macrolet ((call (e) (quasiquote (helper (unquote e))))) (call v)))\n(debug-print (run 1))\n"}, c17Defaults},

	{"D6", "macrolet-template", "outer-local-rebound-by-the-enclosing-let*", []string{
		"(defun run (res) (let* ((res (macrolet ((twice (e) (quasiquote (+ res (unquote e))))) (twice 1)))) res))\n(debug-print (run 6))\n"}, c17Cfg{PreserveParams: false}},

	{"D6", "macrolet-template", "earlier-binding-of-the-same-let*", []string{
		"(debug-print (let* ((idx 4) (idx (macrolet ((v (e1) (quasiquote (+ idx (unquote e1))))) (v 1)))) idx))\n"}, c17Defaults},
	{"D6", "macrolet-template", "qualified-exported@rename-exports", []string{
		"(in-package 'app)\n(defun rhs (offset) (+ offset 9))\n(export 'rhs)\n",
		"(debug-print (macrolet ((right (form) (quasiquote (app:rhs (unquote form))))) (right -1)))\n"}, c17Cfg{PreserveParams: true, RenameExports: true}},

	// D7 — defun inside a top-level let is registered in the let's scope
	{"D7", "defun-inside-toplevel-let", "let", []string{
		"(let ((k 10)) (defun add-k (n) (+ n k)))\n(debug-print (add-k 1))\n"}, c17Defaults},
	{"D7", "defun-inside-toplevel-let", "let*", []string{
		"(let* ((k 10) (j k)) (defun add-j (n) (+ n j)))\n(debug-print (add-j 1))\n"}, c17Defaults},

	// D8 — one package-level name defined twice in a file
	{"D8", "name-defined-twice-in-one-file", "defun-defun", []string{
		"(defun version () 1)\n(debug-print (version))\n(defun version () 2)\n(debug-print (version))\n"}, c17Defaults},
	{"D8", "name-defined-twice-in-one-file", "defun-then-set", []string{
		"(defun mk () 6)\n(set 'mk 0)\n(debug-print mk)\n"}, c17Defaults},
	{"D8", "name-defined-twice-in-one-file", "defun-then-defmacro", []string{
		"(defun total (o) 0)\n(defun step (w) (map 'list #'total (list 0)))\n(debug-print (step 0))\n(defmacro total (value) 0)\n"}, c17Defaults},

	// D9 — two Minify calls over the same bytes differ
	{"D9", "nondeterministic", "name-defined-in-two-files-of-one-package", []string{
		"(defun idx () -1)\n", "(defun alpha () (idx))\n", "(defun idx () 0)\n(debug-print (alpha))\n"}, c17Defaults},
	{"D9", "nondeterministic", "same-name-in-two-packages-and-a-macro-template", []string{
		"(defun beta () 0)\n(in-package 'app)\n(defun beta (a b) (+ a b))\n",
		"(in-package 'app)\n(defmacro run (x) (quasiquote (beta (unquote x) 8)))\n(debug-print (run 1))\n"}, c17Defaults},

	// D10 — use-package written in another file of the package (rename-exports)
	{"D10", "use-package-in-another-file", "rename-exports", []string{
		"(in-package 'liba)\n(export 'left)\n(defun left (v) (+ v 1))\n",
		"(in-package 'app)\n(use-package 'liba)\n",
		"(in-package 'app)\n(debug-print (left 8))\n"}, c17Cfg{PreserveParams: true, RenameExports: true}},

	// D11 — (export 'f) written in another file of the package than (defun f ...)
	{"D11", "export-in-another-file", "defaults", []string{
		"(in-package 'app)\n(export 'acc)\n",
		"(in-package 'app)\n(defun acc (v) (+ v 1))\n",
		"(in-package 'main)\n(use-package 'app)\n(debug-print (acc 1))\n"}, c17Defaults},
	{"D11", "export-in-another-file", "rename-exports", []string{
		"(in-package 'app)\n(export 'acc)\n",
		"(in-package 'app)\n(defun acc (v) (+ v 1))\n",
		"(in-package 'main)\n(use-package 'app)\n(debug-print (acc 1))\n"}, c17Cfg{PreserveParams: true, RenameExports: true}},

	// D12 — an exported global spelled like a builtin is not seen by its importers (rename-exports)
	{"D12", "exported-builtin-name", "rename-exports", []string{
		"(in-package 'app)\n(export 'max)\n(defun max (a b) (+ a b))\n(in-package 'user)\n(use-package 'app)\n(debug-print (max 1 2))\n"}, c17Cfg{PreserveParams: true, RenameExports: true}},

	// D13, D14 — found while building the "site names" family (c17_gen_site.go),
	// repaired in /repo by 5b0c6f8 (every global spelled like a template name keeps
	// its name); ordinary probes now: a failure is a violation, and the family
	// avoids the two shapes while their probes fail.
	// D13 — a template's free name is defined by the macro's own package AND by the using package
	{"D13", "template-name-defined-in-macro-package-and-using-package", "qualified-macro", []string{
		"(in-package 'lib)\n(defun scale-it (v) (* v 3))\n(defmacro m1 (e) (quasiquote (+ (scale-it (unquote e)) 1)))\n(debug-print (m1 2))\n(in-package 'user)\n(defun scale-it (v) (* v 10))\n(debug-print (lib:m1 2))\n"}, c17Defaults},
	// D14 — a template's free name is defined by a using package other than `user`, in another file than the macro
	{"D14", "template-name-defined-by-non-user-package-in-another-file", "qualified-macro", []string{
		"(in-package 'lib)\n(defmacro m1 (e) (quasiquote (+ (hh (unquote e)) 1)))\n",
		"(in-package 'app)\n(defun hh (v) (* v 10))\n(debug-print (lib:m1 2))\n"}, c17Defaults},
	{"D14", "template-name-defined-by-non-user-package-in-another-file", "imported-macro", []string{
		"(in-package 'lib)\n(export 'm1)\n(defmacro m1 (e) (quasiquote (+ (hh (unquote e)) 1)))\n",
		"(in-package 'app)\n(use-package 'lib)\n(defun hh (v) (* v 10))\n(debug-print (m1 2))\n"}, c17Defaults},
	// D15 — an anaphoric template: a free name of the template is bound LOCALLY around the macro call
	// (side finding of the round-9 seeding agent; the preservation set of 5b0c6f8 keeps only GLOBAL
	// definitions spelled like a template name, and the repository's own test
	// TestMinifySource_MacroTemplateBindersDoNotBlockUnrelatedRenames pins that a local spelled like a
	// name the template binds itself is still renamed, so "keep every binding of that spelling" is not
	// a repair the suite accepts; telling free template names from bound ones needs an analysis of the
	// template).  The random workload never binds a template's free name locally, so no leak key.
	{"D15", "anaphoric-template-name-bound-locally-at-the-use-site", "let-local", []string{
		"(defmacro with-acc (expr) (quasiquote (+ acc (unquote expr))))\n(defun f (n) (let ([acc 10]) (with-acc n)))\n(debug-print (f 1))\n"}, c17Defaults},
	{"D15", "anaphoric-template-name-bound-locally-at-the-use-site", "parameter@rename-params", []string{
		"(defmacro with-acc (expr) (quasiquote (+ acc (unquote expr))))\n(defun f (acc n) (with-acc n))\n(debug-print (f 10 1))\n"}, c17Cfg{PreserveParams: false}},
}

// c17QuietDefects: defects found while extending the workload whose probes are
// not (yet) reported as findings: the probes only steer the generator, and the
// evidence lists them (observed_sets.quiet_probes_failing_not_reported).
var c17QuietDefects = map[string]bool{}

// c17HazardDefect: the hazard family whose only purpose is to trigger a defect.
var c17HazardDefect = map[string]string{
	"minilike-names":         "D1",
	"qq-data":                "D4",
	"template-name-eq-param": "D5",
	"macrolet-free":          "D6",
	"toplevel-let-defun":     "D7",
	"redefine-global":        "D8",
}

type c17ProbeResult struct {
	Probe   c17Probe
	Finding *c17Finding
	Detail  string
}

// c17RunProbes runs every probe.  present lists the defects with at least one
// failing probe.
func c17RunProbes(evals *int) (results []c17ProbeResult, present map[string]bool) {
	present = map[string]bool{}
	for _, p := range c17Probes {
		paths := make([]string, len(p.Files))
		for i := range p.Files {
			paths[i] = fmt.Sprintf("f%d.lisp", i+1)
		}
		det := 2
		if p.Defect == "D9" {
			det = 40 // the order that differs is drawn at random per call
		}
		fs, m, _ := c17Judge(paths, p.Files, p.Cfg, nil, evals, det)
		var hit *c17Finding
		for i := range fs {
			if fs[i].Cat != "unaligned" && fs[i].Cat != "ambiguous-not-judged" {
				hit = &fs[i]
				break
			}
		}
		r := c17ProbeResult{Probe: p, Finding: hit}
		if hit != nil {
			present[p.Defect] = true
			var sb strings.Builder
			fmt.Fprintf(&sb, "configuration: %s exclusions=%v\n", p.Cfg.name(), p.Cfg.Excl)
			for i, s := range p.Files {
				fmt.Fprintf(&sb, "---- original %s ----\n%s", paths[i], s)
			}
			for i, s := range m.Outs {
				fmt.Fprintf(&sb, "---- minified %s ----\n%s", paths[i], s)
			}
			fmt.Fprintf(&sb, "---- symbol map ----\n%v\n%s", m.Map.MinifiedToOriginal, hit.Detail)
			r.Detail = sb.String()
		}
		results = append(results, r)
	}
	return results, present
}

func c17SortedKeys(m map[string]bool) []string {
	var out []string
	for k, v := range m {
		if v {
			out = append(out, k)
		}
	}
	sort.Strings(out)
	return out
}
