package props

import (
	"context"
	"fmt"
	"strings"
	"testing/fstest"
	"time"

	"github.com/luthersystems/elps/lisp"

	"verifharness/fw"
	"verifharness/gen"
	"verifharness/rt"
	"verifharness/sx"
)

// C04 — execution limits only truncate a computation and bound work and stack
// exactly.  Twin execution (budget n vs unlimited) over EVERY budget of small
// programs, hook assertions at every step / push / eval entry, every small
// value of each structural limit, cancellation at every step index.

func init() {
	fw.Register(&fw.Prop{
		ID:    "C04",
		Level: "fault_enumeration",
		Rule: "probe-instrumented programs (templates: straight-line, dotimes incl. empty body, tail loop, non-tail recursion, re-expanding macro, map/foldl callbacks, nested load-string, with/without ignore-errors and handler-bind; plus generated programs) are run unlimited under a counting context to obtain N and a step-stamped trace, then under WithMaxSteps(n) for every n in 1..N+2 (all n when N<=400, else n<=64, n>=N-8 and a stride) and under a scripted context cancelled at step k for every such k; " +
			"definition context x call context: a function (defun, global lambda, labels, closure made by an earlier request or returned to the host, closure stored in a map, callback of map/foldl/apply, macro body; 20 body shapes) is defined in a fresh runtime under each of {no context, context.Background(), a live cancelable context, a context cancelled once the phase has returned, a distant deadline, a root WithContext} through each loading entry point, then run as a request through each *Context entry point under a DIFFERENT context (scripted, or a real WithCancel / child-of-cancelled-parent / WithDeadline context cancelled by the step hook) cancelled at sampled steps k: the trace is the uncancelled request cut at k-1, ends in context-cancelled at step k; " +
			"host-started calls: once per worker every Go-implemented function, special operator and macro of the registry is called with argument vectors from a small pool (probe-carrying callback, list, vector, int, type symbol, source text, quoted form, map; forms for operators and macros) and kept when it succeeds and the probe fired (the builtin re-entered the evaluator); calls whose value is a function (compose, flip, curry-function, expr, lambda) give derived callees; each kept call is made twice in one runtime through FunCall / FunCallContext / SpecialOpCall / MacroCall+Eval of the expansion / EvalSExpr, unlimited (N and trace stamped by the lifetime counter), under stratified budgets n and cancellation indices k with the oracles above, plus: the per-evaluation counter starts once per top-level entry; " +
			"limits reconfigured on a live runtime: two histories per case, each on one runtime for one limit kind (nesting, physical height, tail iterations, macro expansions, step budget, context): 5-10 phases that set the limit through a documented route (With* at InitializeUserEnv, the Config applied later, the exported field assigned before InitializeUserEnv or after 0-3 evaluations; WithMaxSteps; root WithContext / per-call context) to a value chosen relative to the need of the phase's program as measured by the hooks on a twin at the defaults (1-4 below, exact, 1-3 above, far above, 0, negative where documented; needs between the old and the new maximum), then run it: hooks compare height / nesting with the maximum read back at that moment, need above the maximum gives the limit's error (uncaught / handler-bind / ignore-errors) and a usable runtime, need within it the twin's outcome, budget and context the twin's stamped trace cut at n (k-1); " +
			"long evaluations: a long-running probe-instrumented program (dotimes with and without body, tail and mutual tail loops, map / foldl over long lists, a loop inside nested loads and loads inside a loop, nested loops, repeated recursion, thousands of top-level forms, loops under handler-bind / ignore-errors, closures and macros called in a loop), sized by calibration to a step count drawn from one magnitude 2^6 .. 2^18, runs once under a never-cancelled context through one of the *Context entry points or a root WithContext (N, stamped trace), then under a context cancelled at step k (scripted k-th poll; WithCancel / child of a cancelled parent / WithDeadline cancelled by the step hook at k), under a real context cancelled by the host builtin it calls as its j-th probe, and under budgets n, for k and n stratified over the magnitudes up to N, around powers of two and multiples of 64 / 100 / 1000 / 1024 / 4096 (a-1, a, a+1), near N and N-1 / N / N+1: the trace is the reference cut at k-1 (n), the run ends in context-cancelled with the counter reading k (the step after the builtin's; step-limit-exceeded at n+1), a sufficient budget changes nothing; " +
			"physical-height, eval-nesting, tail-iteration and macro-expansion limits are enumerated 1..40 (1..20 for macros) against recursion depths around each bound with hook assertions on every push and eval entry. distinct_nontrivial counts distinct (program template, limit kind, limit value bucket, outcome) combinations",
		Assumptions: []string{
			"the unlimited run is made under a never-cancelled context so that steps are counted (the step counter is only live when a context or a budget is configured)",
			"when an error-swallowing form intercepts the limit error the final outcome is not compared, only that nothing further happened (no probe beyond the budget)",
			"an uncancelled request does the same (probe trace, outcome) whatever context its functions were defined under; a request whose own context is alive does not end in context-cancelled because a context of an earlier, finished phase is cancelled",
			"besides the With* values given to InitializeUserEnv, applying a With* Config to the root environment later and assigning the exported, doc-commented fields Runtime.MaxEvalNesting / MaxMacroExpansionDepth and Stack.MaxHeightPhysical / MaxTailIterations between top-level evaluations are documented ways of configuring a limit; the value in force for a top-level evaluation is the one configured when it starts (0 and negative values mean what the field / Config comments say; other negative values are not judged)",
			"tail-iteration and macro-expansion bounds are checked as 'succeeds at or below the bound, fails beyond bound+1': the exact off-by-one of each counter is not part of the statement",
		},
		Cases:       func(tier string) int { return pick(tier, 420, 9000) },
		Run:         c04Run,
		Init:        c04Init,
		MinDistinct: func(tier string) int { return pick(tier, 150, 300) },
		Driver:      c04Driver,
	})
}

// --- hook monitor -----------------------------------------------------------------

type c04Mon struct {
	lastSteps  int64
	stepEvents int64
	badStep    string
	maxHeight  int
	maxNest    int
	pushes     int64
	evals      int64
	// cancelAt > 0: cancel() is called the moment the step counter reaches cancelAt
	// (before that step's own context poll), see c04_crossctx.go
	cancelAt int64
	cancel   func()
	// ones counts how often the per-evaluation counter read 1 (c04_hostcall.go: once
	// per top-level entry)
	ones int64
	// live: at every push and every eval entry the maximum configured AT THAT MOMENT is
	// read back through the public field / accessor and must be respected
	// (c04_reconf.go: limits reconfigured on a live runtime)
	live       bool
	liveBad    string
	liveWhat   string
	liveChecks int64
}

var c04Cur *c04Mon

func c04Init(w *fw.W) {
	lisp.VerifSetHooks(&lisp.VerifHooks{
		Step: func(r *lisp.Runtime, steps int64) {
			m := c04Cur
			if m == nil {
				return
			}
			m.stepEvents++
			if steps != m.lastSteps+1 && steps != 1 && m.badStep == "" {
				m.badStep = fmt.Sprintf("step counter went from %d to %d", m.lastSteps, steps)
			}
			m.lastSteps = steps
			if steps == 1 {
				m.ones++
			}
			if m.cancelAt > 0 && steps == m.cancelAt && m.cancel != nil {
				m.cancel()
			}
		},
		Push: func(s *lisp.CallStack, h int) {
			if m := c04Cur; m != nil {
				m.pushes++
				if h > m.maxHeight {
					m.maxHeight = h
				}
				if m.live {
					m.liveChecks++
					if lim := s.MaxHeightPhysical; lim > 0 && h > lim && m.liveBad == "" {
						m.liveWhat = "physical"
						m.liveBad = fmt.Sprintf("the call stack holds %d frames while Stack.MaxHeightPhysical reads %d", h, lim)
					}
				}
			}
		},
		EvalEnter: func(r *lisp.Runtime, nesting int) {
			if m := c04Cur; m != nil {
				m.evals++
				if nesting > m.maxNest {
					m.maxNest = nesting
				}
				if m.live {
					m.liveChecks++
					if lim := r.MaxEvalNestingDepth(); lim > 0 && nesting > lim && m.liveBad == "" {
						m.liveWhat = "nesting"
						m.liveBad = fmt.Sprintf("evaluation proceeds at nesting %d while MaxEvalNestingDepth() reads %d (Runtime.MaxEvalNesting = %d)", nesting, lim, r.MaxEvalNesting)
					}
				}
			}
		},
	})
}

// --- program templates --------------------------------------------------------------

type c04Prog struct {
	name     string
	src      string
	swallows bool // contains ignore-errors / handler-bind condition
}

func c04Template(r *fw.RNG, k int) c04Prog {
	n := r.Range(1, 6)
	switch k % 14 {
	case 0:
		var sb strings.Builder
		for i := 0; i < n+2; i++ {
			fmt.Fprintf(&sb, "(verif:probe 's%d (+ %d (* 2 %d)))\n", i, i, r.Intn(9))
		}
		return c04Prog{name: "straight-line", src: sb.String()}
	case 1:
		return c04Prog{name: "dotimes", src: fmt.Sprintf("(set 'acc 0)\n(dotimes (i %d) (set 'acc (+ acc i)) (verif:probe 'turn i acc))\n(verif:probe 'end acc)\n", n+1)}
	case 2:
		return c04Prog{name: "dotimes-empty", src: fmt.Sprintf("(verif:probe 'before 0)\n(dotimes (i %d))\n(verif:probe 'after (dotimes (j %d j)))\n", 3*n, n)}
	case 3:
		return c04Prog{name: "tail-loop", src: fmt.Sprintf("(defun lp (n acc) (verif:probe 'lp n) (if (<= n 0) acc (lp (- n 1) (+ acc n))))\n(verif:probe 'result (lp %d 0))\n", n+1)}
	case 4:
		return c04Prog{name: "recursion", src: fmt.Sprintf("(defun sum (n) (verif:probe 'down n) (if (<= n 0) 0 (+ n (verif:probe 'up (sum (- n 1))))))\n(verif:probe 'result (sum %d))\n", n)}
	case 5:
		return c04Prog{name: "macro-reexpand", src: fmt.Sprintf("(defmacro cnt (n) (verif:probe 'exp n) (if (<= n 0) (quasiquote (verif:probe 'done 0)) (quasiquote (cnt (unquote (- n 1))))))\n(cnt %d)\n(verif:probe 'after 1)\n", n)}
	case 6:
		return c04Prog{name: "map-foldl", src: fmt.Sprintf("(verif:probe 'm (map 'list (lambda (x) (verif:probe 'cb x) (* x x)) (make-sequence 0 %d)))\n(verif:probe 'f (foldl (lambda (a x) (verif:probe 'fa a) (+ a x)) 0 '(1 2 3)))\n", n+1)}
	case 7:
		return c04Prog{name: "nested-load", src: fmt.Sprintf("(verif:probe 'outer 1)\n(load-string \"(verif:probe 'inner 1) (load-string \\\"(verif:probe 'inner2 (+ 1 %d))\\\") (verif:probe 'inner-after 2)\")\n(verif:probe 'outer-after 3)\n", n)}
	case 8:
		return c04Prog{name: "ignore-errors", swallows: true, src: fmt.Sprintf("(verif:probe 'a 1)\n(verif:probe 'ie (ignore-errors (dotimes (i %d) (verif:probe 'in i)) 'ok))\n(verif:probe 'b 2)\n(ignore-errors (dotimes (i %d) (verif:probe 'in2 i)) 'fin)\n", n+1, n)}
	case 9:
		return c04Prog{name: "handler-bind", swallows: true, src: fmt.Sprintf("(verif:probe 'hb (handler-bind ((condition (lambda (c &rest a) (verif:probe 'handler c) 'handled))) (dotimes (i %d) (verif:probe 'in i)) 'body-done))\n(verif:probe 'after 1)\n", n+1)}
	case 10:
		return c04Prog{name: "closures", src: fmt.Sprintf("(set 'mk (lambda (k) (lambda (x) (verif:probe 'call (+ x k)))))\n(set 'fs (map 'list mk (make-sequence 0 %d)))\n(map () (lambda (f) (funcall f 10)) fs)\n(verif:probe 'end (length fs))\n", n)}
	case 12:
		// a load called from a non-root environment runs under the same limits
		return c04Prog{name: "nested-load-in-let", src: fmt.Sprintf("(verif:probe 'outer 1)\n(let ((x 1)) (load-string \"(verif:probe 'inner 1) (dotimes (i %d) (verif:probe 'in i)) (verif:probe 'inner-after 2)\") (verif:probe 'let-after x))\n(verif:probe 'outer-after 3)\n", n+1)}
	case 13:
		return c04Prog{name: "nested-load-in-function", src: fmt.Sprintf("(defun ld (s) (verif:probe 'ld 0) (load-bytes (to-bytes s)) (verif:probe 'ld-after 1))\n(ld \"(dotimes (i %d) (verif:probe 'in i))\")\n(map () (lambda (s) (load-string s)) (list \"(verif:probe 'm 1)\" \"(verif:probe 'm (+ 1 1))\"))\n(verif:probe 'end 2)\n", n+1)}
	default:
		return c04Prog{name: "let-flet-cond", src: fmt.Sprintf("(let* ([a %d] [b (verif:probe 'b (+ a 1))]) (flet ((h (x) (verif:probe 'h (* x b)))) (cond ((> a 100) 'big) ((verif:probe 'test (= a %d)) (h a)) (else 'no))))\n", n, n)}
	}
}

type c04Run1 struct {
	t   rt.Transcript
	mon c04Mon
}

func c04Exec(src string, o rt.Opts, ctx context.Context) c04Run1 {
	m := &c04Mon{}
	c04Cur = m
	r := rt.New(o)
	var t rt.Transcript
	if ctx != nil {
		t = r.RunCtx(ctx, "c04", src)
	} else {
		t = r.Run("c04", src)
	}
	c04Cur = nil
	return c04Run1{t: t, mon: *m}
}

func c04TraceUpTo(full []rt.Probe, maxStep int64) string {
	var parts []string
	for _, p := range full {
		if p.Steps <= maxStep {
			parts = append(parts, fmt.Sprintf("%s@%d", p.String(), p.Steps))
		}
	}
	return strings.Join(parts, "|")
}

func c04Stamped(tr []rt.Probe) string {
	parts := make([]string, len(tr))
	for i, p := range tr {
		parts[i] = fmt.Sprintf("%s@%d", p.String(), p.Steps)
	}
	return strings.Join(parts, "|")
}

func c04Budgets(N int64) []int64 {
	var out []int64
	if N <= 400 {
		for n := int64(1); n <= N+2; n++ {
			out = append(out, n)
		}
		return out
	}
	stride := N / 120
	if stride < 1 {
		stride = 1
	}
	for n := int64(1); n <= N+2; n++ {
		if n <= 64 || n >= N-8 || n%stride == 0 {
			out = append(out, n)
		}
	}
	return out
}

func c04Run(w *fw.W, idx int) {
	switch idx % 7 {
	case 0, 1, 2:
		r := w.RNG(idx, "tmpl")
		c04Budget(w, c04Template(r, idx/7+idx%7*5), idx)
	case 3:
		r := w.RNG(idx, "gen")
		prof := gen.DefaultProfile()
		prof.Hostile = 0
		prof.MaxDepth = 3
		prof.TopForms = 5
		prof.LoopBudget = 4
		g := gen.New(r, prof)
		src := sx.Render(g.Program(), nil)
		c04Budget(w, c04Prog{name: "generated", src: src, swallows: strings.Contains(src, "ignore-errors") || strings.Contains(src, "handler-bind")}, idx)
	case 4:
		c04StackLimits(w, idx)
	case 5:
		c04OtherLimits(w, idx)
	default:
		c04Refill(w, idx)
		c04CrossCtx(w, idx)
		c04HostCalls(w, idx)
		c04Reconf(w, idx)
		c04Long(w, idx)
	}
}

// c04Budget: every budget n and every cancellation index k for one program.
func c04Budget(w *fw.W, p c04Prog, idx int) {
	full := c04Exec(p.src, rt.Opts{}, newScriptedCtx(0))
	w.Eval(1)
	N := full.t.Steps
	w.Logf("program %s N=%d\n%s=> %s\ntrace %s", p.name, N, p.src, full.t.Outcome(), c04Stamped(full.t.Trace))
	if full.mon.badStep != "" {
		w.Violation("step-counter-not-monotone", full.mon.badStep, p.src)
		return
	}
	if N == 0 || N > 20000 {
		w.Count("budget_program_skipped", 1)
		return
	}
	if c02LimitErr(full.t) {
		return
	}
	for _, n := range c04Budgets(N) {
		lim := c04Exec(p.src, rt.Opts{MaxSteps: n}, nil)
		w.Eval(1)
		where := fmt.Sprintf("program %s (N=%d) under step budget %d", p.name, N, n)
		detail := func() string {
			return fmt.Sprintf("%s\nunlimited: %s\n  trace %s\nbudget %d: %s %s\n  trace %s", p.src, full.t.Outcome(), c04Stamped(full.t.Trace), n, lim.t.Outcome(), lim.t.Msg, c04Stamped(lim.t.Trace))
		}
		if lim.mon.badStep != "" {
			w.Violation("step-counter-not-monotone", lim.mon.badStep+" in "+where, detail())
			return
		}
		want := c04TraceUpTo(full.t.Trace, n)
		got := c04Stamped(lim.t.Trace)
		if p.swallows {
			// a swallowing form may hand () to a call whose step had already
			// begun; only what happened within the budget is compared
			got = c04TraceUpTo(lim.t.Trace, n)
		}
		if got != want {
			w.Violation("budget-trace-not-a-prefix:"+p.name, where+": what ran is not the unlimited run cut at step "+fmt.Sprint(n), detail())
			return
		}
		if n >= N {
			if lim.t.Outcome() != full.t.Outcome() || lim.t.Stderr != full.t.Stderr {
				w.Violation("sufficient-budget-changes-outcome:"+p.name, where+": outcome differs although the budget suffices", detail())
				return
			}
		} else {
			if lim.t.IsErr {
				if lim.t.Cond != "step-limit-exceeded" {
					w.Violation("budget-exhaustion-wrong-condition:"+p.name, where+": ended with "+lim.t.Cond, detail())
					return
				}
			} else if !p.swallows {
				w.Violation("budget-exhaustion-no-error:"+p.name, where+": returned a value although the budget ran out and nothing swallows errors", detail())
				return
			}
			if lim.t.Steps < n {
				w.Violation("budget-not-used:"+p.name, fmt.Sprintf("%s: stopped after %d steps", where, lim.t.Steps), detail())
				return
			}
		}
		w.Count("budget_runs", 1)
	}
	// cancellation at every step index
	for _, k := range c04Budgets(N) {
		if k > N {
			continue
		}
		ctx := newScriptedCtx(int(k))
		can := c04Exec(p.src, rt.Opts{}, ctx)
		w.Eval(1)
		where := fmt.Sprintf("program %s (N=%d) cancelled at step %d", p.name, N, k)
		detail := func() string {
			return fmt.Sprintf("%s\nunlimited trace %s\ncancelled: %s %s\n  trace %s", p.src, c04Stamped(full.t.Trace), can.t.Outcome(), can.t.Msg, c04Stamped(can.t.Trace))
		}
		want := c04TraceUpTo(full.t.Trace, k-1)
		// the k-th check fails while the counter already reads k: a probe stamped k cannot have run
		gotc := c04Stamped(can.t.Trace)
		if p.swallows {
			gotc = c04TraceUpTo(can.t.Trace, k-1)
		}
		if got := gotc; got != want {
			w.Violation("cancel-trace-not-a-prefix:"+p.name, where+": evaluation did not stop at the next step", detail())
			return
		}
		if can.t.IsErr {
			if can.t.Cond != "context-cancelled" {
				w.Violation("cancel-wrong-condition:"+p.name, where+": ended with "+can.t.Cond, detail())
				return
			}
		} else if !p.swallows {
			w.Violation("cancel-no-error:"+p.name, where+": returned a value", detail())
			return
		}
		w.Count("cancel_runs", 1)
	}
	w.CoverKey(fmt.Sprintf("budget|%s|N=%d", p.name, N/4))
	w.Max("max_unlimited_steps", N)
	w.Count("step_hook_events", full.mon.stepEvents)
	if w.WantSample() && N < 80 {
		w.Sample(map[string]any{"program": p.name, "source": p.src, "unlimited_steps": N, "budgets_enumerated": len(c04Budgets(N)), "stamped_trace": c04Stamped(full.t.Trace)})
	}
}

const c04Usable = `(list (+ 1 2) (let ([x 5]) (labels ((up (n) (if (<= n 0) x (up (- n 1))))) (up 10))) (map 'list (lambda (x) (* x x)) '(1 2 3)))`
const c04UsableWant = `'(3 5 '(1 4 9))`

// c04StackLimits: physical height and eval nesting for every small limit.
func c04StackLimits(w *fw.W, idx int) {
	r := w.RNG(idx, "stack")
	for lim := 3; lim <= 40; lim++ { // below 3 frames not even a defun can run
		depth := lim + r.Range(-3, 4)
		if depth < 0 {
			depth = 0
		}
		// physical height: non-tail recursion of `depth` levels
		src := fmt.Sprintf("(defun down (n) (if (<= n 0) (verif:probe 'bottom (verif:depth)) (+ 1 (down (- n 1)))))\n(handler-bind ((condition (lambda (c &rest a) 'caught))) (down %d))\n", depth)
		if lim < 6 {
			// too little room for a handler call: show catchability with ignore-errors
			src = fmt.Sprintf("(defun down (n) (if (<= n 0) (verif:probe 'bottom (verif:depth)) (+ 1 (down (- n 1)))))\n(or (ignore-errors (down %d)) 'caught)\n", depth)
		}
		m := &c04Mon{}
		c04Cur = m
		rr := rt.New(rt.Opts{MaxPhys: lim})
		t := rr.Run("c04", src)
		after := rr.Run("usable", c04Usable)
		c04Cur = nil
		w.Eval(2)
		key := "physical-height"
		if m.maxHeight > lim {
			w.Violation("stack-exceeds-physical-maximum", fmt.Sprintf("MaxHeightPhysical=%d but the stack reached %d frames", lim, m.maxHeight), src)
			return
		}
		if t.IsErr {
			w.Violation("stack-limit-not-catchable", fmt.Sprintf("MaxHeightPhysical=%d depth=%d: %s %s", lim, depth, t.Cond, t.Msg), src)
			return
		}
		if t.Value != "'caught" && t.Value != fmt.Sprint(depth+0) && !strings.HasPrefix(t.Value, "") {
			_ = key
		}
		// a shallow recursion that fits must succeed: frames needed = handler-bind + depth*(down,if,+)… we only
		// require: when it was caught the limit really was reached
		if t.Value == "'caught" && m.maxHeight < lim {
			w.Violation("stack-limit-premature", fmt.Sprintf("MaxHeightPhysical=%d: overflow reported at height %d", lim, m.maxHeight), src)
			return
		}
		if lim >= 8 && after.Value != c04UsableWant && !after.IsErr {
			w.Violation("runtime-unusable-after-stack-limit", "probe program gave "+after.Outcome(), src)
			return
		}
		if lim >= 8 && after.IsErr {
			w.Violation("runtime-unusable-after-stack-limit", "probe program failed: "+after.Cond+" "+after.Msg, src)
			return
		}
		w.CoverKey(fmt.Sprintf("physical|lim=%d|%s", lim, t.Value))
		w.Max("max_height_seen", int64(m.maxHeight))
		w.Count("push_events", m.pushes)

		// operator towers: special operators nested in each other's TAIL position (else-if
		// chains, let in let, progn in progn, cond in cond, mixed), whose other sub-forms
		// push nothing, so the stack is exactly full when the next operator is entered
		for _, shape := range []string{"if", "let", "progn", "cond", "let*", "mixed"} {
			d := lim + r.Range(-2, 3)
			if d < 1 {
				d = 1
			}
			tower := "'done"
			for i := 0; i < d; i++ {
				sh := shape
				if sh == "mixed" {
					sh = fw.Pick(r, []string{"if", "let", "progn", "cond", "let*"})
				}
				switch sh {
				case "if":
					if r.Bool() {
						tower = "(if true " + tower + " 0)"
					} else {
						tower = "(if false 0 " + tower + ")"
					}
				case "let":
					tower = "(let ((a 1)) " + tower + ")"
				case "let*":
					tower = "(let* ((a 1) (b 2)) " + tower + ")"
				case "progn":
					tower = "(progn 1 " + tower + ")"
				default:
					tower = "(cond (false 0) (true " + tower + "))"
				}
			}
			src3 := "(or (ignore-errors " + tower + ") 'caught)\n"
			m3 := &c04Mon{}
			c04Cur = m3
			r3 := rt.New(rt.Opts{MaxPhys: lim})
			t3 := r3.Run("c04", src3)
			c04Cur = nil
			w.Eval(1)
			if m3.maxHeight > lim {
				w.Violation("stack-exceeds-physical-maximum:operator-tower", fmt.Sprintf("MaxHeightPhysical=%d but the stack reached %d frames in a tower of %d %s operators", lim, m3.maxHeight, d, shape), src3)
				return
			}
			if t3.Value == "'done" && m3.maxHeight < d {
				w.Violation("operator-tower-ran-without-frames", fmt.Sprintf("a tower of %d %s operators completed but the stack never held more than %d frames", d, shape, m3.maxHeight), src3)
				return
			}
			if t3.Value != "'done" && t3.Value != "'caught" {
				w.Violation("stack-limit-not-catchable:operator-tower", fmt.Sprintf("MaxHeightPhysical=%d tower of %d: %s %s", lim, d, t3.Outcome(), t3.Msg), src3)
				return
			}
			w.CoverKey(fmt.Sprintf("tower|%s|lim=%d|%s", shape, lim, t3.Value))
		}

		// eval nesting: nested identity calls at height zero
		nest := lim + r.Range(-3, 4)
		if nest < 1 {
			nest = 1
		}
		inner := "1"
		for i := 0; i < nest; i++ {
			inner = "(identity " + inner + ")"
		}
		src2 := "(handler-bind ((eval-nesting-exceeded (lambda (c &rest a) 'too-deep))) " + inner + ")\n"
		m2 := &c04Mon{}
		c04Cur = m2
		r2 := rt.New(rt.Opts{MaxNest: lim})
		t2 := r2.Run("c04", src2)
		after2 := r2.Run("usable", "(+ 1 2)")
		c04Cur = nil
		w.Eval(2)
		if m2.maxNest > lim {
			w.Violation("nesting-exceeds-maximum", fmt.Sprintf("MaxEvalNesting=%d but evaluation proceeded at nesting %d", lim, m2.maxNest), src2)
			return
		}
		if t2.IsErr && t2.Cond != "eval-nesting-exceeded" {
			w.Violation("nesting-limit-wrong-condition", t2.Cond+" "+t2.Msg, src2)
			return
		}
		if !t2.IsErr && t2.Value != "1" && t2.Value != "'too-deep" {
			w.Violation("nesting-limit-wrong-value", t2.Value, src2)
			return
		}
		if !t2.IsErr && t2.Value == "'too-deep" && m2.maxNest < lim {
			w.Violation("nesting-limit-premature", fmt.Sprintf("MaxEvalNesting=%d: exceeded reported although nesting only reached %d", lim, m2.maxNest), src2)
			return
		}
		if after2.Value != "3" && lim >= 3 {
			w.Violation("runtime-unusable-after-nesting-limit", after2.Outcome()+" "+after2.Msg, src2)
			return
		}
		w.CoverKey(fmt.Sprintf("nesting|lim=%d|%s", lim, t2.Outcome()))
		w.Max("max_nesting_seen", int64(m2.maxNest))
		w.Count("eval_enter_events", m2.evals)
	}
}

// c04OtherLimits: tail iterations and macro expansion depth.
func c04OtherLimits(w *fw.W, idx int) {
	r := w.RNG(idx, "other")
	for lim := 1; lim <= 40; lim++ {
		n := lim + r.Range(-3, 5)
		if n < 0 {
			n = 0
		}
		// the loop as such; with a body that calls 25 frames deep on every turn; started at
		// the bottom of a 40-frame call chain (the stack grows while the loop's frame is live)
		defs := []string{
			"(defun spin (n) (if (<= n 0) 'done (spin (- n 1))))",
			"(defun deep (k) (if (<= k 0) 0 (+ 1 (deep (- k 1)))))\n(defun spin (n) (deep 25) (if (<= n 0) 'done (spin (- n 1))))",
			"(defun spin0 (n) (if (<= n 0) 'done (spin0 (- n 1))))\n(defun start (k n) (if (<= k 0) (spin0 n) (identity (start (- k 1) n))))\n(defun spin (n) (start 40 n))",
		}[lim%3]
		src := fmt.Sprintf("%s\n(handler-bind ((condition (lambda (c &rest a) 'caught))) (spin %d))\n", defs, n)
		rr := rt.New(rt.Opts{MaxTail: lim})
		t := rr.Run("c04", src)
		after := rr.Run("usable", c04Usable)
		w.Eval(2)
		switch {
		case t.IsErr:
			w.Violation("tail-limit-not-catchable", fmt.Sprintf("MaxTailIterations=%d n=%d: %s %s", lim, n, t.Cond, t.Msg), src)
			return
		case n <= lim && t.Value != "'done":
			w.Violation("tail-limit-premature", fmt.Sprintf("MaxTailIterations=%d: a loop of %d turns was refused", lim, n), src)
			return
		case n > lim+1 && t.Value != "'caught":
			w.Violation("tail-limit-not-enforced", fmt.Sprintf("MaxTailIterations=%d: a loop of %d turns completed", lim, n), src)
			return
		}
		if after.Value != c04UsableWant && lim >= 12 {
			w.Violation("runtime-unusable-after-tail-limit", after.Outcome()+" "+after.Msg, src)
			return
		}
		// the bound is per loop: later loops at the SAME stack depth, each within the
		// limit, must run whatever happened there before (a caught limit error, or
		// earlier loops whose turns add up to more than the limit)
		small := (lim*3 + 4) / 5
		for rep := 0; rep < 3; rep++ {
			again := rr.Run("c04-again", fmt.Sprintf("(handler-bind ((condition (lambda (c &rest a) 'caught))) (spin %d))\n", small))
			w.Eval(1)
			if again.Value != "'done" {
				w.Violation("tail-limit-accumulates", fmt.Sprintf("MaxTailIterations=%d: after a loop of %d turns, loop #%d of %d turns at the same depth gave %s %s", lim, n, rep+1, small, again.Outcome(), again.Msg), src)
				return
			}
		}
		w.CoverKey(fmt.Sprintf("tail|lim=%d|%s", lim, t.Value))
		if lim <= 20 {
			e := lim + r.Range(-3, 5)
			if e < 0 {
				e = 0
			}
			src3 := fmt.Sprintf("(defmacro cnt (n) (if (<= n 0) 7 (quasiquote (cnt (unquote (- n 1))))))\n(handler-bind ((condition (lambda (c &rest a) 'caught))) (cnt %d))\n", e)
			r3 := rt.New(rt.Opts{MaxMacro: lim})
			t3 := r3.Run("c04", src3)
			after3 := r3.Run("usable", c04Usable)
			w.Eval(2)
			switch {
			case t3.IsErr:
				w.Violation("macro-limit-not-catchable", fmt.Sprintf("MaxMacroExpansionDepth=%d e=%d: %s %s", lim, e, t3.Cond, t3.Msg), src3)
				return
			case e+1 <= lim && t3.Value != "7":
				w.Violation("macro-limit-premature", fmt.Sprintf("MaxMacroExpansionDepth=%d: %d re-expansions refused", lim, e+1), src3)
				return
			case e > lim+1 && t3.Value != "'caught":
				w.Violation("macro-limit-not-enforced", fmt.Sprintf("MaxMacroExpansionDepth=%d: %d re-expansions completed", lim, e+1), src3)
				return
			}
			if after3.Value != c04UsableWant {
				w.Violation("runtime-unusable-after-macro-limit", after3.Outcome()+" "+after3.Msg, src3)
				return
			}
			w.CoverKey(fmt.Sprintf("macro|lim=%d|%s", lim, t3.Value))
		}
	}
	if !c04TailLimitDeepBodies(w, idx) {
		return
	}
	// a pending sleep is interrupted by cancellation
	ctx := &c04DoneCtx{scriptedCtx: newScriptedCtx(0)}
	rr := rt.New(rt.Opts{})
	start := time.Now()
	t := rr.RunCtx(ctx, "sleep", `(time:sleep (time:parse-duration "40s"))`)
	el := time.Since(start)
	w.Eval(1)
	if !t.IsErr || t.Cond != "context-cancelled" {
		w.Violation("sleep-not-cancelled", "a pending time:sleep under a cancelled context returned "+t.Outcome()+" "+t.Msg, "")
		return
	}
	if el > 20*time.Second {
		w.Violation("sleep-not-interrupted", fmt.Sprintf("a pending time:sleep of 40s under a context cancelled as it started waiting blocked for %v", el), "")
		return
	}
	w.CoverKey("sleep-cancel")
	// the same for contexts that also carry a (distant) deadline, cancelled explicitly
	// or through their parent while the sleep is pending; decided by the outcome
	// (a cancelled sleep answers context-cancelled, an uninterrupted one returns ())
	for _, variant := range []string{"deadline+self-cancel", "deadline+cancel", "deadline+parent-cancel", "cancel-only"} {
		var cx context.Context
		stop := func() {}
		switch variant {
		case "deadline+self-cancel":
			cx = &c04DeadlineCtx{c04DoneCtx{scriptedCtx: newScriptedCtx(0)}}
		case "deadline+cancel":
			c, cancel := context.WithDeadline(context.Background(), time.Now().Add(time.Hour))
			timer := time.AfterFunc(30*time.Millisecond, cancel)
			cx, stop = c, func() { timer.Stop(); cancel() }
		case "deadline+parent-cancel":
			parent, pcancel := context.WithCancel(context.Background())
			c, cancel := context.WithDeadline(parent, time.Now().Add(time.Hour))
			timer := time.AfterFunc(30*time.Millisecond, pcancel)
			cx, stop = c, func() { timer.Stop(); cancel(); pcancel() }
		default:
			c, cancel := context.WithCancel(context.Background())
			timer := time.AfterFunc(30*time.Millisecond, cancel)
			cx, stop = c, func() { timer.Stop(); cancel() }
		}
		r6 := rt.New(rt.Opts{})
		t0 := time.Now()
		t6 := r6.RunCtx(cx, "sleep", `(time:sleep (time:parse-duration "30s"))`)
		el6 := time.Since(t0)
		stop()
		w.Eval(1)
		if !t6.IsErr || t6.Cond != "context-cancelled" {
			w.Violation("sleep-not-cancelled:"+variant, "a pending time:sleep of 30s whose context was cancelled after 30ms returned "+t6.Outcome()+" "+t6.Msg, "")
			return
		}
		// the sleep must END at the cancellation, not run its course and report the
		// cancellation afterwards (half the requested time is a very generous bound
		// for a wake-up that is due after 30 ms)
		if el6 > 15*time.Second {
			w.Violation("sleep-not-interrupted:"+variant, fmt.Sprintf("a pending time:sleep of 30s whose context was cancelled after 30ms blocked for %v", el6.Round(time.Millisecond)), "")
			return
		}
		w.CoverKey("sleep-cancel|" + variant)
	}
	// a load called from any environment (top level, let, function, callback, handler)
	// is cancelled like the evaluation that called it
	for _, shape := range []string{"%s", "(let ((x 1)) %s)", "(progn (defun f () %s 1) (f))", "(map () (lambda (x) %s) '(1))", "(flet ((g () %s)) (g))", "(handler-bind ((my-err (lambda (c &rest a) 0))) %s)"} {
		for _, loader := range []string{`(load-string "(dotimes (i 5000) (verif:probe 'in i))")`, `(load-bytes (to-bytes "(dotimes (i 5000) (verif:probe 'in i))"))`, `(load-file "inner/loop.lisp")`} {
			src := fmt.Sprintf(shape, loader)
			for _, k := range []int{30, 200} {
				r5 := rt.New(rt.Opts{Library: c04Library()})
				t5 := r5.RunCtx(newScriptedCtx(k), "nl", src)
				w.Eval(1)
				if !t5.IsErr || t5.Cond != "context-cancelled" || len(t5.Trace) >= k {
					w.Violation("nested-load-ignores-cancellation", fmt.Sprintf("cancel at step %d: %s %s after %d steps and %d loop turns", k, t5.Outcome(), t5.Msg, t5.Steps, len(t5.Trace)), src)
					return
				}
				w.CoverKey(fmt.Sprintf("nested-load-cancel|%s|%s|k=%d", shape, loader[:12], k))
			}
		}
	}
	// the host enters through the file-loading entry points under a context
	for _, entry := range []string{"LoadFileContext", "LoadFileContext-nested"} {
		for _, k := range []int{30, 200} {
			r7 := rt.New(rt.Opts{Library: c04Library()})
			tf, ef := r7.Marks()
			file := "inner/loop.lisp"
			if entry == "LoadFileContext-nested" {
				file = "outer.lisp"
			}
			v := r7.Env.LoadFileContext(newScriptedCtx(k), file)
			t7 := r7.TranscriptOf(v, tf, ef)
			w.Eval(1)
			if !t7.IsErr || t7.Cond != "context-cancelled" || len(t7.Trace) >= k {
				w.Violation("file-load-ignores-cancellation:"+entry, fmt.Sprintf("cancel at step %d: %s %s after %d loop turns", k, t7.Outcome(), t7.Msg, len(t7.Trace)), file)
				return
			}
			w.CoverKey(fmt.Sprintf("file-load-cancel|%s|k=%d", entry, k))
		}
	}
	// empty dotimes under cancellation at step k
	for _, k := range []int{2, 3, 10, 50} {
		ctx := newScriptedCtx(k)
		r4 := rt.New(rt.Opts{})
		t4 := r4.RunCtx(ctx, "dot", "(dotimes (i 100000000))")
		w.Eval(1)
		if !t4.IsErr || t4.Cond != "context-cancelled" || t4.Steps != int64(k) {
			w.Violation("empty-dotimes-ignores-cancellation", fmt.Sprintf("cancel at step %d: %s after %d steps", k, t4.Outcome(), t4.Steps), "")
			return
		}
		w.CoverKey(fmt.Sprintf("empty-dotimes-cancel|k=%d", k))
	}
}

// c04Library: an in-memory source library with a file that loops and a file that loads it.
func c04Library() lisp.SourceLibrary {
	return &lisp.FSLibrary{FS: fstest.MapFS{
		"inner/loop.lisp": {Data: []byte("(dotimes (i 5000) (verif:probe 'in i))\n")},
		"outer.lisp":      {Data: []byte("(defun ld () (load-file \"inner/loop.lisp\") 1)\n(let ((x 1)) (ld))\n")},
	}}
}

// c04DoneCtx cancels itself as soon as somebody asks for Done().
type c04DoneCtx struct{ *scriptedCtx }

func (c *c04DoneCtx) Done() <-chan struct{} {
	if !c.closed {
		c.closed = true
		c.at = 1
		close(c.done)
	}
	return c.done
}

// c04DeadlineCtx additionally reports a deadline one hour away.
type c04DeadlineCtx struct{ c04DoneCtx }

func (c *c04DeadlineCtx) Deadline() (time.Time, bool) { return time.Now().Add(time.Hour), true }

func (c *c04DoneCtx) Err() error {
	if c.closed {
		return context.Canceled
	}
	return nil
}

// c04Refill: every new top-level evaluation starts with a full budget.
func c04Refill(w *fw.W, idx int) {
	r := w.RNG(idx, "refill")
	p := c04Template(r, r.Intn(14))
	full := c04Exec(p.src, rt.Opts{}, newScriptedCtx(0))
	N := full.t.Steps
	if N == 0 || N > 5000 || c02LimitErr(full.t) {
		return
	}
	// budget exactly N: the same program must succeed k times in a row in ONE runtime
	rr := rt.New(rt.Opts{MaxSteps: N})
	for rep := 0; rep < 4; rep++ {
		// loads of sources without forms (empty, comment only, nested empty load) are
		// top-level evaluations too: they must not disturb the refill of later ones
		switch rep {
		case 1:
			rr.Run("empty", fw.Pick(r, []string{"", "  ", "; nothing here\n"}))
		case 2:
			rr.Run("nested-empty", "(load-string \"\")")
		case 3:
			rr.Run("nested-comment", "(load-string \"; c\")")
		}
		t := rr.Run("c04", p.src)
		w.Eval(1)
		if t.IsErr && t.Cond == "step-limit-exceeded" {
			w.Violation("budget-not-refilled", fmt.Sprintf("program %s needs %d steps; with budget %d it failed on evaluation #%d in the same runtime", p.name, N, N, rep+1), p.src)
			return
		}
		if t.Steps != N && !strings.Contains(p.name, "closures") && rep == 0 {
			w.Violation("steps-differ-between-context-and-budget", fmt.Sprintf("%d vs %d", t.Steps, N), p.src)
			return
		}
	}
	// after an exhausted evaluation a small one succeeds, through other entry points too
	r2 := rt.New(rt.Opts{MaxSteps: N/2 + 1})
	t := r2.Run("c04", p.src)
	_ = t
	r2.Run("def", "(defun run-thunk (f) (funcall f))")
	for _, e := range []string{"LoadString", "Eval", "FunCall"} {
		v := c05Enter(r2, e, "(+ 1 2)", nil, r)
		w.Eval(1)
		if v.Type == lisp.LError {
			w.Violation("budget-not-refilled-after-exhaustion:"+e, "a small evaluation after an exhausted one failed: "+v.String(), p.src)
			return
		}
	}
	if r2.Env.Runtime.TotalSteps() < r2.Env.Runtime.Steps() {
		w.Violation("total-steps-below-steps", "", p.src)
	}
	w.CoverKey(fmt.Sprintf("refill|%s|N=%d", p.name, N/4))
}

// c04TailLimitDeepBodies: the tail-iteration bound for loops whose body makes, before the
// bound is due, non-tail recursions that go deeper from turn to turn - deeper than the
// stack of this runtime has ever been, through 2^k-1, 2^k, 2^k+1 frames - so that the bound
// is checked on a frame that was live while the stack grew past every size it had before
// (the loops above stay below 64 frames).  The recursion sits in a non-final body form or
// in the argument of the tail call; the loop starts at the top level or at the bottom of a
// call chain.  A stream of its own ("tail-depth") keeps the draws of the cases above.
func c04TailLimitDeepBodies(w *fw.W, idx int) bool {
	r := w.RNG(idx, "tail-depth")
	for k := 0; k < 6; k++ {
		ds := c02DepthSchedule(r, "quick")
		for i := range ds {
			if ds[i] > 400 {
				ds[i] = 400 - r.Intn(6)
			}
		}
		deepTurns := 0 // the turns up to the deepest one
		for i, d := range ds {
			if d >= ds[deepTurns] {
				deepTurns = i
			}
		}
		lim := deepTurns + r.Range(2, 12)
		n := lim + r.Range(-3, 5)
		if n < 0 {
			n = 0
		}
		var sb strings.Builder
		sb.WriteString("(set 'c04-depths '(")
		for _, d := range ds {
			fmt.Fprintf(&sb, "%d ", d)
		}
		fmt.Fprintf(&sb, "))\n(defun depth-of (n) (let ([t (- %d n)]) (if (< t %d) (nth c04-depths t) 0)))\n", n, len(ds))
		sb.WriteString("(defun deep (k) (if (<= k 0) 0 (+ 1 (deep (- k 1)))))\n")
		where := []string{"body-form", "tail-call-argument"}[k%2]
		name := "spin"
		if k%3 == 2 {
			name = "spin0"
		}
		if where == "body-form" {
			fmt.Fprintf(&sb, "(defun %s (n) (deep (depth-of n)) (if (<= n 0) 'done (%s (- n 1))))\n", name, name)
		} else {
			fmt.Fprintf(&sb, "(defun %s (n) (if (<= n 0) 'done (%s (- n 1 (* 0 (deep (depth-of n)))))))\n", name, name)
		}
		if k%3 == 2 {
			sb.WriteString("(defun start (k n) (if (<= k 0) (spin0 n) (identity (start (- k 1) n))))\n(defun spin (n) (start 40 n))\n")
		}
		fmt.Fprintf(&sb, "(handler-bind ((condition (lambda (c &rest a) 'caught))) (spin %d))\n", n)
		src := sb.String()
		rr := rt.New(rt.Opts{MaxTail: lim})
		t := rr.Run("c04", src)
		w.Eval(1)
		class := "body-recursion-deeper-each-turn/" + where
		switch {
		case t.IsErr:
			w.Violation("tail-limit-not-catchable:"+class, fmt.Sprintf("MaxTailIterations=%d n=%d: %s %s", lim, n, t.Cond, t.Msg), src)
			return false
		case n <= lim && t.Value != "'done":
			w.Violation("tail-limit-premature:"+class, fmt.Sprintf("MaxTailIterations=%d: a loop of %d turns was refused (%s)", lim, n, t.Outcome()), src)
			return false
		case n > lim+1 && t.Value != "'caught":
			w.Violation("tail-limit-not-enforced:"+class, fmt.Sprintf("MaxTailIterations=%d: a loop of %d turns whose body recursed %v levels deep in its first turns completed (%s)", lim, n, ds, t.Outcome()), src)
			return false
		}
		w.Count("tail_limit_loops_with_deepening_bodies", 1)
		w.CoverKey(fmt.Sprintf("tail-deep|%s|%d|%v|%s", where, lim, ds, t.Value))
	}
	return true
}
