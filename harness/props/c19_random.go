package props

// C19 family 4 (sampled) — the three exhaustive families under neutral
// variation: the target call nested in forms that bind nothing relevant,
// non-integer inert argument expressions, other function names, filler lines
// that move the call to other lines/columns, calls made from inside another
// function's body.

import (
	"fmt"
	"strings"

	"verifharness/fw"
)

// neutral wrappers: the marker is evaluated exactly once (the control run
// checks it) and none binds or mentions a shadowing target name.
var c19InnerWrappers = []struct{ Name, Tmpl string }{
	{"progn", "(progn 0 " + c19Mark + ")"},
	{"let-other", "(let ((c19-w 1)) " + c19Mark + ")"},
	{"let-other-init", "(let* ((c19-w " + c19Mark + ")) c19-w)"},
	{"lambda-call", "((lambda () " + c19Mark + "))"},
	{"funcall-lambda", "(funcall (lambda () " + c19Mark + "))"},
	{"cond", "(cond (true " + c19Mark + ") (else 0))"},
	{"dotimes", "(dotimes (c19-i 1) " + c19Mark + ")"},
	{"and", "(and true " + c19Mark + ")"},
	{"or", "(or () " + c19Mark + ")"},
	{"arg-of-identity", "(identity " + c19Mark + ")"},
	{"arg-of-vector", "(vector 0 " + c19Mark + ")"},
	{"flet-other", "(flet ((c19-wf () " + c19Mark + ")) (c19-wf))"},
	{"labels-other", "(labels ((c19-wl () " + c19Mark + ")) (c19-wl))"},
	{"handler-bind", "(handler-bind () " + c19Mark + ")"},
	{"newline-indent", "(progn\n      " + c19Mark + ")"},
	// the bracket spelling of binding entries (docs/lang.md) and of cond clauses
	{"let-other-init-brackets", "(let ([c19-w " + c19Mark + "]) c19-w)"},
	{"let*-other-init-brackets", "(let* ([c19-v 1] [c19-w " + c19Mark + "]) c19-w)"},
	{"let-other-brackets", "(let ([c19-w 1]) " + c19Mark + ")"},
	{"flet-other-brackets", "(flet ([c19-wf () " + c19Mark + "]) (c19-wf))"},
	{"labels-other-brackets", "(labels ([c19-wl () " + c19Mark + "]) (c19-wl))"},
	{"cond-brackets", "(cond [true " + c19Mark + "] [else 0])"},
}

// inert argument expressions: evaluating them cannot fail and calls none of
// the shadowing targets.
var c19ArgExprs = []string{"1", "-7", "2.5", "\"s\"", "()", "'c19-sym", "true", "(vector 1)", "(+ 1 2)", "(sorted-map)", "\"\"", "'(1 2)"}

func c19RandWrap(r *fw.RNG, allowArgExprs bool) *c19Wrap {
	wr := &c19Wrap{}
	n := r.Intn(4)
	for i := 0; i < n; i++ {
		x := fw.Pick(r, c19InnerWrappers)
		wr.Inner = append(wr.Inner, x.Tmpl)
		wr.Names = append(wr.Names, x.Name)
	}
	// reverse names so the label reads outermost first
	for i, j := 0, len(wr.Names)-1; i < j; i, j = i+1, j-1 {
		wr.Names[i], wr.Names[j] = wr.Names[j], wr.Names[i]
	}
	switch r.Intn(4) {
	case 1:
		wr.Prefix = "; c19 filler comment\n\n"
	case 2:
		wr.Prefix = "(set 'c19-u 1)\n\n\n"
	case 3:
		wr.Prefix = "(defun c19-unrelated (c19-p &optional c19-q) (vector c19-p c19-q))\n"
	}
	if wr.Prefix != "" {
		wr.Names = append([]string{"prefix"}, wr.Names...)
	}
	if allowArgExprs && r.Chance(2, 3) {
		seed := r.Uint64()
		wr.Args = func(k int) []string {
			a := make([]string, k)
			s := seed
			for i := range a {
				s = s*6364136223846793005 + 1442695040888963407
				a[i] = c19ArgExprs[int((s>>33)%uint64(len(c19ArgExprs)))]
			}
			return a
		}
		wr.Names = append(wr.Names, "argexprs")
	}
	return wr
}

var c19UserNames = []string{"f", "c19-fn", "add2", "my-func", "g1", "do-it!", "x->y", "car2", "is-ok?"}

func c19RunRandom(w *fw.W, idx int) {
	r := w.RNG(idx, "main")
	switch r.Intn(14) {
	case 0, 1, 2, 3, 4: // shadowing contexts
		cases := c19ShadowCases()
		sc := cases[r.Intn(len(cases))]
		wr := c19RandWrap(r, true)
		k := r.Intn(c19ShadowMaxK + 1)
		// half of the shapes that have binding entries: the bracket spelling
		if r.Chance(1, 2) && strings.Contains(c19Shapes[sc.Shape].Build(sc.Target, sc.Shadow), c19EO) {
			wr.Brackets = true
			wr.Names = append(wr.Names, "bracket-entries")
		}
		c19RunShadowCase(w, sc, wr, k)
		w.Count("sampled_shadow_cases", 1)
	case 5, 6, 7: // defun signatures
		c19RandomUser(w, r)
		w.Count("sampled_defun_cases", 1)
	case 8, 9: // registry names under wrappers
		c19RandomRegistry(w, r)
		w.Count("sampled_registry_cases", 1)
	case 10, 11: // a name defined more than once
		c19RandomRedef(w, r)
		w.Count("sampled_redefined_cases", 1)
	case 12: // any core name or defun at any syntactic position
		c19RandomPosition(w, r)
		w.Count("sampled_position_cases", 1)
	default:
		// a stream of its own decides between families 7 and 8, so that the
		// package movement cases draw what they drew before family 8 existed
		if w.RNG(idx, "placement-or-movement").Chance(1, 2) {
			// where the global shadowing definition sits
			c19RandomPlacement(w, w.RNG(idx, "placement"))
			w.Count("sampled_placement_cases", 1)
			break
		}
		// package movement between a global shadowing definition and the call
		c19RandomMove(w, r)
		w.Count("sampled_pkgmove_cases", 1)
	}
}

func c19RandomUser(w *fw.W, r *fw.RNG) {
	sigs := c19UserSigs()
	us := sigs[r.Intn(len(sigs))]
	// a few more formals shapes than the exhaustive family
	if us.Rebound == "" && r.Chance(1, 4) {
		us.Formals = append([]string{"z"}, us.Formals...) // a fourth required parameter
	}
	sig := c19ParseFormals(us.Formals)
	name := fw.Pick(r, c19UserNames)
	wr := c19RandWrap(r, false)
	var tmpl, placement string
	def := c19DefunSrc(name, us.Formals)
	keyClass := "defun:" + sig.Class()
	if us.Rebound != "" {
		def += strings.ReplaceAll(c19Rebinders[us.Rebound], "NAME", name)
		keyClass = "defun-name-rebound-elsewhere:" + us.Rebound
	}
	switch r.Intn(3) {
	case 0:
		placement = "after-defun"
		tmpl = def + c19Mark + "\n"
	case 1: // call in a function defined before the defun, invoked after it
		placement = "in-earlier-fn"
		tmpl = "(defun c19-caller ()\n  " + c19Mark + ")\n" + def + "(c19-caller)\n"
	default: // call in a function defined after the defun
		placement = "in-later-fn"
		tmpl = def + "(defun c19-caller ()\n  " + c19Mark + ")\n(c19-caller)\n"
	}
	wrapped := c19ApplyWrap(tmpl, wr)
	lists := c19ArgLists(sig, 7)
	al := lists[r.Intn(len(lists))]
	var fnd c19Findings
	if c19JudgeUser(w, &fnd, "defun-sampled", name, sig, us.Formals, wrapped, al, keyClass, "") {
		// attribute to the variation only if the plain program does not violate
		var plain c19Findings
		if !c19JudgeUser(w, &plain, "defun-sampled", "c19-f", sig, us.Formals, c19DefunSrc("c19-f", us.Formals)+
			strings.ReplaceAll(c19Rebinders[us.Rebound], "NAME", "c19-f")+c19Mark+"\n", al, keyClass, "") {
			fnd = c19Findings{}
			c19JudgeUser(w, &fnd, "defun-sampled", name, sig, us.Formals, wrapped, al, keyClass, ":only-when-wrapped")
		}
	}
	c19AddWrapperNames(w, wr)
	w.SetAdd("defun_call_placements", placement)
	fnd.flush(w)
}

func c19RandomRegistry(w *fw.W, r *fw.RNG) {
	reg := c19Registry()
	var core []c19Fun
	for _, f := range reg {
		if f.Core {
			core = append(core, f)
		}
	}
	f := core[r.Intn(len(core))]
	sig := f.sig()
	wr := c19RandWrap(r, false)
	k := r.Intn(sig.Named + 3)
	args := c19Ints(k, 1)
	tmpl := c19ApplyWrap(c19Mark+"\n", wr)
	var fnd c19Findings
	csrc, cpos := c19Place(tmpl, "(verif:probe 'c19-target)")
	ctl := c19Eval(csrc, cpos)
	w.Eval(1)
	if ctl.T.IsErr || c19CountTag(ctl, "c19-target") != 1 {
		fnd.add("harness-template:wrappers", "control run of a wrapper stack is not clean (harness bug, not a finding about elps)",
			fmt.Sprintf("control source:\n%s\nrun: %s", csrc, ctl))
		fnd.flush(w)
		return
	}
	src, pos := c19Place(tmpl, c19Call(f.Name, args))
	obs := c19Eval(src, pos)
	w.Eval(1)
	fails := obs.BindFailed() && obs.TopFID == f.FID
	rel := c19Rel(sig, k)
	lintClass := ""
	var lints []c19LintResult
	for _, mode := range c19Modes {
		lr := c19Lint(mode, src)
		lints = append(lints, lr)
		if lr.Err != nil {
			fnd.add("harness-lint-error:registry-sampled", "lint failed on a generated source: "+lr.Err.Error(), src)
			continue
		}
		w.Count("lint_runs", 1)
		arity, other := lr.arityAt(pos)
		lc := "none"
		if len(arity) > 0 {
			lc = c19Analyzers(arity)
		}
		lintClass += mode + "=" + lc + ","
		detail := fmt.Sprintf("source:\n%s\ntarget %s at %d:%d, function %s (%s) formals (%s), wrappers [%s]\nlint mode %s: arity diagnostics at the call: %s\nrun time: %s",
			src, c19Call(f.Name, args), pos.Line, pos.Col, f.Name, f.Kind, strings.Join(f.Formals, " "), wr.label(), mode, c19DiagList(arity), obs)
		// Keys equal the exhaustive family's: a finding that only shows under a
		// wrapper is marked as such (the exhaustive family reports the plain call).
		// (binding depends only on the argument count, so the bare call binds or
		// fails exactly like the wrapped one; only the lint side can differ).
		suffix := ""
		if wr.label() != "" && c19BareReported(mode, f.Name, args) != (len(arity) > 0) {
			suffix = ":only-when-wrapped"
		}
		if len(arity) > 0 && !fails {
			fnd.add(fmt.Sprintf("spurious:core:%s:%s%s", f.Name, c19Analyzers(arity), suffix),
				fmt.Sprintf("%s reports %s but the evaluator binds the call", c19Analyzers(arity), c19Call(f.Name, args)), detail)
		}
		if fails && !sig.HasKey() && len(arity) == 0 {
			if len(other) > 0 {
				w.Count("failing_calls_reported_only_by_non_arity_analyzer", 1)
				continue
			}
			fnd.add(fmt.Sprintf("missed:core:%s:%s%s", f.Name, rel, suffix),
				fmt.Sprintf("no arity diagnostic for %s but binding fails at run time (%s)", c19Call(f.Name, args), obs.T.Msg), detail)
		}
	}
	runClass := "ok"
	if fails {
		runClass = "bind-fail"
	}
	w.CoverKey(fmt.Sprintf("reg-sampled|%s|%s|%s|lint:%s|run:%s|depth%d", f.Kind, sig.Class(), rel, lintClass, runClass, len(wr.Inner)))
	c19AddWrapperNames(w, wr)
	c19Sample(w, "registry-sampled", src, pos, lints, obs)
	fnd.flush(w)
}

func c19AddWrapperNames(w *fw.W, wr *c19Wrap) {
	if wr == nil {
		return
	}
	for _, n := range wr.Names {
		w.SetAdd("wrappers", n)
	}
	w.Max("max_wrapper_depth", int64(len(wr.Inner)))
}
