package props
