package props

import (
	"context"
	"fmt"
	"math"
	"sort"
	"strings"
	"testing/fstest"

	"github.com/luthersystems/elps/lisp"

	"verifharness/fw"
	"verifharness/rt"
)

// C04, long evaluations (round 10).
//
// The budget / cancellation matrix enumerates EVERY index of small programs: the
// longest unlimited run it ever saw had a few hundred steps.  The dimension held
// constant was the LENGTH of the evaluation before the budget runs out or the
// context is cancelled: "late in a long evaluation" was never sampled, although
// the property quantifies over cancellation at every step index and a host's
// requests run for thousands to millions of steps.
//
// A case fixes one long-running, probe-instrumented program (loops of 2^6 .. 2^18
// steps: dotimes with and without body, tail loops, callbacks over long lists,
// loads inside loops and loops inside loads, repeated recursion, thousands of
// top-level forms, loops under handler-bind / ignore-errors), sized by calibration
// to a target step count drawn from one magnitude 2^e.  The request runs once under
// a never-cancelled context (reference: N and the step-stamped trace) and then
//   - under a context cancelled at step k (scripted: the k-th poll fails; real
//     WithCancel / child-of-cancelled-parent / WithDeadline contexts cancelled by the
//     step hook when the counter reaches k), through one of the *Context entry
//     points or under a root WithContext;
//   - under a real context cancelled by a host builtin the program calls (the j-th
//     probe): the step after the one the builtin ran in is the last one;
//   - under a step budget n, set once the definitions are loaded;
//
// for k, n stratified over the magnitudes up to N, around powers of two and
// multiples of 64 / 100 / 1000 / 1024 / 4096 (a-1, a, a+1), near N, and N-1, N, N+1
// for budgets.  Oracles as in the matrix: the trace is the reference cut at k-1 (n),
// the run ends in context-cancelled with the counter reading exactly k
// (step-limit-exceeded with the counter at n+1), nothing is recorded after the cut;
// a sufficient budget changes nothing.  A cancelled run costs k steps, so the cost
// of a case is the reference plus the sum of its indices.  Nothing is timed.

type c04LongProg struct {
	name     string
	defs     string // loaded first, under no context and no budget
	call     string // the request under test
	swallows bool
	loadOnly bool // the request is a source of many forms: loading entry points only
}

type c04LongShape struct {
	name     string
	swallows bool
	loadOnly bool
	maxTurns int
	mk       func(t int) (defs, call string)
}

var c04LongShapes = []c04LongShape{
	{name: "dotimes-probe", mk: func(t int) (string, string) {
		return "", fmt.Sprintf("(dotimes (i %d) (verif:probe 'turn i))", t)
	}},
	{name: "dotimes-empty", mk: func(t int) (string, string) {
		return "", fmt.Sprintf("(progn (verif:probe 'before 0) (dotimes (i %d)) (verif:probe 'after 1))", t)
	}},
	{name: "dotimes-set-sparse-probe", mk: func(t int) (string, string) {
		return "", fmt.Sprintf("(progn (set 'acc 0) (dotimes (i %d) (set 'acc (+ acc i)) (if (= 0 (mod i 3)) (verif:probe 'third i acc) ())) (verif:probe 'end acc))", t)
	}},
	{name: "tail-loop", mk: func(t int) (string, string) {
		return "(defun lp (n acc) (verif:probe 'lp n) (if (<= n 0) acc (lp (- n 1) (+ acc n))))\n", fmt.Sprintf("(verif:probe 'result (lp %d 0))", t)
	}},
	{name: "map-long-list", mk: func(t int) (string, string) {
		return "", fmt.Sprintf("(verif:probe 'm (length (map 'list (lambda (x) (verif:probe 'cb x) (* x x)) (make-sequence 0 %d))))", t)
	}},
	{name: "foldl-long-list", mk: func(t int) (string, string) {
		return "", fmt.Sprintf("(verif:probe 'f (foldl (lambda (a x) (verif:probe 'fa x) (+ a x)) 0 (make-sequence 0 %d)))", t)
	}},
	{name: "loop-in-nested-load", mk: func(t int) (string, string) {
		return "(defun ld (s) (verif:probe 'ld 0) (load-string s) (verif:probe 'ld-after 1))\n", fmt.Sprintf("(let ((x 1)) (ld \"(dotimes (i %d) (verif:probe 'in i))\") (verif:probe 'let-after x))", t)
	}},
	{name: "nested-loads-in-loop", mk: func(t int) (string, string) {
		return "", fmt.Sprintf("(dotimes (j %d) (verif:probe 'outer j) (load-string \"(dotimes (i 5) (verif:probe 'in i))\") (load-bytes (to-bytes \"(verif:probe 'in-bytes 1)\")))", t)
	}},
	{name: "nested-dotimes", mk: func(t int) (string, string) {
		return "", fmt.Sprintf("(dotimes (i %d) (dotimes (j 7) (verif:probe 'ij i j)) (dotimes (e 5)))", t)
	}},
	{name: "recursion-repeated", mk: func(t int) (string, string) {
		return "(defun sum (n) (if (<= n 0) 0 (+ n (sum (- n 1)))))\n", fmt.Sprintf("(dotimes (r %d) (verif:probe 'sum r (sum 12)))", t)
	}},
	{name: "top-level-forms", loadOnly: true, maxTurns: 40000, mk: func(t int) (string, string) {
		var sb strings.Builder
		for i := 0; i < t; i++ {
			fmt.Fprintf(&sb, "(verif:probe 's %d)\n", i)
		}
		return "", sb.String()
	}},
	{name: "handler-bind-other", mk: func(t int) (string, string) {
		return "", fmt.Sprintf("(handler-bind ((my-err (lambda (c &rest a) 0))) (dotimes (i %d) (verif:probe 'in i)) (verif:probe 'hb-end 0))", t)
	}},
	{name: "ignore-errors", swallows: true, mk: func(t int) (string, string) {
		return "", fmt.Sprintf("(progn (verif:probe 'ie (ignore-errors (dotimes (i %d) (verif:probe 'in i)) 'ok)) (verif:probe 'post 1))", t)
	}},
	{name: "closure-calls", mk: func(t int) (string, string) {
		return "", fmt.Sprintf("(let ((f (lambda (x) (verif:probe 'call x) x))) (dotimes (i %d) (funcall f i)) (verif:probe 'end 0))", t)
	}},
	{name: "macro-in-loop", mk: func(t int) (string, string) {
		return "(defmacro twice (x) (quasiquote (progn (unquote x) (unquote x))))\n", fmt.Sprintf("(dotimes (i %d) (twice (verif:probe 'm i)))", t)
	}},
	{name: "mutual-tail-loop", mk: func(t int) (string, string) {
		return "", fmt.Sprintf("(labels ((ev (n) (verif:probe 'ev n) (if (<= n 0) 'done (od (- n 1)))) (od (n) (if (<= n 0) 'done (ev (- n 1))))) (verif:probe 'result (ev %d)))", t)
	}},
}

// c04LongEntries: how the request enters; "root-WithContext" hands the context to
// InitializeUserEnv and uses the plain LoadString.
var c04LongEntries = []string{"LoadStringContext", "LoadContext", "LoadProgramContext", "EvalContext", "FunCallContext", "LoadFileContext", "lisp-load-string", "lisp-load-file", "root-WithContext"}

// c04LongKinds: how the context of the request is cancelled at step k.
var c04LongKinds = []string{"scripted", "cancel-at-step", "parent-cancel-at-step", "deadline+cancel-at-step"}

type c04LongRun struct {
	kind   string // "reference", a member of c04LongKinds, "cancel-from-host-builtin", "budget"
	k      int64  // step index (cancel kinds), probe index (host builtin), budget
	budget bool
}

// c04LongExec runs definitions and request in a fresh runtime.
func c04LongExec(p c04LongProg, entry string, run c04LongRun) (res c04Run1, setup string) {
	o := rt.Opts{Library: &lisp.FSLibrary{FS: fstest.MapFS{"call.lisp": {Data: []byte(p.call + "\n")}}}}
	var ends []func()
	defer func() {
		for _, f := range ends {
			f()
		}
	}()
	var ctx context.Context
	arm := func(*c04Mon) {}
	var hostCancel func()
	switch run.kind {
	case "budget":
	case "reference":
		if entry == "root-WithContext" {
			c, cancel := context.WithCancel(context.Background())
			ctx, ends = c, append(ends, cancel)
		} else {
			ctx = newScriptedCtx(0)
		}
	case "cancel-from-host-builtin":
		c, cancel := context.WithCancel(context.Background())
		ctx, hostCancel, ends = c, cancel, append(ends, cancel)
	default:
		c, a, end := c04CallCtx(run.kind, run.k)
		ctx, arm, ends = c, a, append(ends, end)
	}
	callEntry := entry
	callCtx := ctx
	if entry == "root-WithContext" {
		callEntry, callCtx = "LoadStringContext", nil
		o.Ctx = ctx
	}
	m := rt.New(o)
	if p.defs != "" {
		if v := m.Env.LoadString("defs", p.defs); v.Type == lisp.LError {
			return res, "definitions failed: " + v.String()
		}
	}
	var fun *lisp.LVal
	if callEntry == "FunCallContext" {
		fun = m.Env.LoadString("thunk", "(lambda () "+p.call+")")
		if fun.Type != lisp.LFun {
			return res, "no function value for FunCallContext: " + fun.String()
		}
	}
	if run.kind == "budget" {
		if v := lisp.WithMaxSteps(run.k)(m.Env); v != nil && v.Type == lisp.LError {
			return res, "WithMaxSteps failed: " + v.String()
		}
	}
	mon := &c04Mon{}
	arm(mon)
	tf, ef := m.Marks()
	if hostCancel != nil {
		at := tf + int(run.k)
		m.OnProbe = func(string) {
			if len(m.Trace) == at {
				hostCancel()
			}
		}
	}
	c04Cur = mon
	v := c04Phase(m, callEntry, callCtx, p.call, "call.lisp", fun, nil)
	c04Cur = nil
	return c04Run1{t: m.TranscriptOf(v, tf, ef), mon: *mon}, ""
}

// c04LongCut: how many reference events are stamped <= maxStep (stamps never decrease).
func c04LongCut(ref []rt.Probe, maxStep int64) int {
	return sort.Search(len(ref), func(i int) bool { return ref[i].Steps > maxStep })
}

// c04LongDiff compares got with the first n reference events; "" when equal.
func c04LongDiff(ref, got []rt.Probe, n int) string {
	for i := 0; i < n && i < len(got); i++ {
		if ref[i].Tag != got[i].Tag || ref[i].Vals != got[i].Vals || ref[i].Steps != got[i].Steps {
			return fmt.Sprintf("event #%d is %s@%d, in the reference %s@%d", i+1, got[i].String(), got[i].Steps, ref[i].String(), ref[i].Steps)
		}
	}
	switch {
	case len(got) > n:
		last := got[len(got)-1]
		return fmt.Sprintf("%d events were recorded after the cut (the reference has %d events up to it); first %s@%d, last %s@%d", len(got)-n, n, got[n].String(), got[n].Steps, last.String(), last.Steps)
	case len(got) < n:
		return fmt.Sprintf("only %d of the %d events up to the cut were recorded", len(got), n)
	}
	return ""
}

// c04LongExcerpt renders the events around index at (traces are long).
func c04LongExcerpt(tr []rt.Probe, at int) string {
	lo, hi := at-3, at+4
	if lo < 0 {
		lo = 0
	}
	if hi > len(tr) {
		hi = len(tr)
	}
	var parts []string
	for i := lo; i < hi; i++ {
		parts = append(parts, fmt.Sprintf("#%d %s@%d", i+1, tr[i].String(), tr[i].Steps))
	}
	return fmt.Sprintf("(%d events) … %s …", len(tr), strings.Join(parts, " | "))
}

// c04LongIndices: step indices within 1..N, stratified: close to N, around a power
// of two, around multiples of 64 / 100 / 1000 / 1024 / 4096, log-uniform over the
// magnitudes from 2^6, uniform in the upper half; anchors a are used as a-1, a, a+1.
func c04LongIndices(r *fw.RNG, N int64, count int) []int64 {
	seen := map[int64]bool{}
	var out []int64
	add := func(k int64) {
		if k < 1 {
			k = 1
		}
		if k > N {
			k = N
		}
		if !seen[k] {
			seen[k] = true
			out = append(out, k)
		}
	}
	mult := func(m int64) int64 {
		if N < m {
			return N
		}
		return m * (1 + int64(r.Intn(int(N/m))))
	}
	hi := 0 // floor(log2 N)
	for int64(1)<<(hi+1) <= N {
		hi++
	}
	start := r.Intn(8)
	for i := 0; len(out) < count && i < 6*count+8; i++ {
		off := int64(r.Intn(3) - 1)
		switch (start + i) % 8 {
		case 0:
			span := N / 8
			if span > 200 {
				span = 200
			}
			add(N - int64(r.Intn(int(span)+1)))
		case 1:
			e := hi - r.Intn(4)
			if e < 6 {
				e = 6
			}
			add(int64(1)<<e + off)
		case 2:
			add(mult(64) + off)
		case 3:
			lg := 6 + r.Float64()*(math.Log2(float64(N)+1)-6)
			add(int64(math.Exp2(lg)))
		case 4:
			add(mult(1024) + off)
		case 5:
			add(mult(fw.Pick(r, []int64{100, 1000, 4096})) + off)
		case 6:
			add(N/2 + int64(r.Intn(int(N/2)+1)))
		default:
			// the upper magnitudes once more: a multiple of 64 in the last quarter
			a := N - int64(r.Intn(int(N/4)+1))
			add(a/64*64 + off)
		}
	}
	return out
}

func c04LongMagnitude(k int64) string {
	e := 0
	for int64(1)<<(e+1) <= k {
		e++
	}
	return fmt.Sprintf("2^%02d", e)
}

// c04Long: one long program, sampled cancellation indices and budgets.
func c04Long(w *fw.W, idx int) {
	r := w.RNG(idx, "long")
	j := idx / 7
	sh := c04LongShapes[(j+j/13)%len(c04LongShapes)]
	// magnitudes 2^6 .. 2^18; the two largest ones (the bulk of the cost) every other round
	e := 6 + j%13
	if e >= 17 && (j/13)%2 == 1 {
		e -= 7
	}
	target := int64(1)<<e + int64(r.Intn(1<<e))
	build := func(t int) c04LongProg {
		d, c := sh.mk(t)
		return c04LongProg{name: sh.name, defs: d, call: c, swallows: sh.swallows, loadOnly: sh.loadOnly}
	}
	entry := fw.Pick(r, c04LongEntries)
	if sh.loadOnly && (entry == "EvalContext" || entry == "FunCallContext") {
		entry = "LoadStringContext"
	}
	// calibration: steps per turn from two small runs
	a, s1 := c04LongExec(build(8), entry, c04LongRun{kind: "reference"})
	b, s2 := c04LongExec(build(24), entry, c04LongRun{kind: "reference"})
	w.Eval(2)
	if s1 != "" || s2 != "" || a.t.IsErr || b.t.IsErr || b.t.Steps <= a.t.Steps {
		w.Logf("long program %s not usable: %s %s %s %s", sh.name, s1, s2, a.t.Outcome(), b.t.Outcome())
		w.Count("long_program_skipped", 1)
		return
	}
	per := float64(b.t.Steps-a.t.Steps) / 16
	turns := int((float64(target)-float64(a.t.Steps))/per) + 8
	if turns < 1 {
		turns = 1
	}
	if sh.maxTurns > 0 && turns > sh.maxTurns {
		turns = sh.maxTurns
	}
	p := build(turns)
	class := p.name
	head := func() string {
		c := p.call
		if len(c) > 400 {
			c = c[:400] + fmt.Sprintf(" … (%d bytes)", len(p.call))
		}
		return fmt.Sprintf(";; definitions (no context)\n%s;; request under test, through %s\n%s\n", p.defs, entry, c)
	}
	ref, setup := c04LongExec(p, entry, c04LongRun{kind: "reference"})
	w.Eval(1)
	N := ref.t.Steps
	w.Logf("long program %s through %s: %d turns, N=%d, %d events, %s", class, entry, turns, N, len(ref.t.Trace), ref.t.Outcome())
	if setup != "" || ref.t.IsErr || N < 32 {
		w.Logf("long program %s not usable: %s %s %s", class, setup, ref.t.Outcome(), ref.t.Msg)
		w.Count("long_program_skipped", 1)
		return
	}
	if ref.mon.badStep != "" {
		w.Violation("step-counter-not-monotone", ref.mon.badStep+" (long program "+class+")", head())
		return
	}
	for i := 1; i < len(ref.t.Trace); i++ {
		if ref.t.Trace[i].Steps < ref.t.Trace[i-1].Steps {
			w.Count("long_program_skipped", 1)
			return
		}
	}
	detailRef := func() string {
		return fmt.Sprintf("%snot cancelled: %s after %d steps\n  trace %s", head(), ref.t.Outcome(), N, c04LongExcerpt(ref.t.Trace, len(ref.t.Trace)))
	}
	nk, nb, nh := 5, 3, 1
	if w.Tier == "thorough" {
		nk, nb, nh = 10, 4, 2
	}

	// --- cancellation at step k ------------------------------------------------------
	for _, k := range c04LongIndices(r, N, nk) {
		kind := fw.Pick(r, c04LongKinds)
		if entry == "root-WithContext" && kind == "scripted" {
			// the root context is polled by everything the runtime evaluates, its polls
			// cannot be counted from the start of the request
			kind = "cancel-at-step"
		}
		can, setup := c04LongExec(p, entry, c04LongRun{kind: kind, k: k})
		w.Eval(1)
		where := fmt.Sprintf("long program %s (request of %d steps through %s) under a %q context cancelled at step %d", class, N, entry, kind, k)
		cut := c04LongCut(ref.t.Trace, k-1)
		detail := func() string {
			return fmt.Sprintf("%s\nreference around the cut %s\ncancelled at step %d: %s %s after %d steps\n  trace around the cut %s", detailRef(), c04LongExcerpt(ref.t.Trace, cut), k, can.t.Outcome(), can.t.Msg, can.t.Steps, c04LongExcerpt(can.t.Trace, cut))
		}
		if setup != "" {
			w.Violation("long-evaluation-setup-not-repeatable", setup+" ("+where+")", head())
			return
		}
		got := can.t.Trace
		if p.swallows {
			got = got[:c04LongCut(got, k-1)]
		}
		key := class + ":" + kind
		if d := c04LongDiff(ref.t.Trace, got, cut); d != "" {
			w.Violation("long-evaluation-cancel-trace-not-a-prefix:"+key, where+": evaluation did not stop at the next step: "+d, detail())
			return
		}
		if can.t.IsErr {
			if can.t.Cond != "context-cancelled" {
				w.Violation("long-evaluation-cancel-wrong-condition:"+key, where+": ended with "+can.t.Cond, detail())
				return
			}
		} else if !p.swallows {
			w.Violation("long-evaluation-cancel-no-error:"+key, where+": returned a value", detail())
			return
		}
		if !p.swallows && can.t.Steps != k {
			w.Violation("long-evaluation-cancel-overrun:"+key, fmt.Sprintf("%s: the step counter reads %d at the end (the step whose poll fails is the last one)", where, can.t.Steps), detail())
			return
		}
		w.Count("long_cancel_runs", 1)
		w.Count("long_cancel_runs_at_index_magnitude:"+c04LongMagnitude(k), 1)
		w.Max("long_max_cancel_index", k)
		w.SetAdd("long_context_kinds", kind)
		w.CoverKey(fmt.Sprintf("long-cancel|%s|%s|%s|%s", class, kind, entry, c04LongMagnitude(k)))
	}

	// --- cancellation by a host builtin the program calls -------------------------------
	if !p.swallows {
		for _, k := range c04LongIndices(r, N, nh) {
			jp := c04LongCut(ref.t.Trace, k) // the jp-th event is the last one stamped <= k
			if jp < 1 || ref.t.Trace[jp-1].Steps >= N {
				continue // no step follows the call
			}
			s := ref.t.Trace[jp-1].Steps
			can, setup := c04LongExec(p, entry, c04LongRun{kind: "cancel-from-host-builtin", k: int64(jp)})
			w.Eval(1)
			where := fmt.Sprintf("long program %s (request of %d steps through %s) whose context is cancelled by the host builtin it calls in step %d (event #%d)", class, N, entry, s, jp)
			detail := func() string {
				return fmt.Sprintf("%s\nreference around the cut %s\ncancelled during step %d: %s %s after %d steps\n  trace around the cut %s", detailRef(), c04LongExcerpt(ref.t.Trace, jp), s, can.t.Outcome(), can.t.Msg, can.t.Steps, c04LongExcerpt(can.t.Trace, jp))
			}
			if setup != "" {
				w.Violation("long-evaluation-setup-not-repeatable", setup+" ("+where+")", head())
				return
			}
			key := class + ":cancel-from-host-builtin"
			if d := c04LongDiff(ref.t.Trace, can.t.Trace, jp); d != "" {
				w.Violation("long-evaluation-cancel-trace-not-a-prefix:"+key, where+": evaluation did not stop at the next step: "+d, detail())
				return
			}
			if !can.t.IsErr {
				w.Violation("long-evaluation-cancel-no-error:"+key, where+": returned a value although "+fmt.Sprint(N-s)+" steps were still to come", detail())
				return
			}
			if can.t.Cond != "context-cancelled" {
				w.Violation("long-evaluation-cancel-wrong-condition:"+key, where+": ended with "+can.t.Cond, detail())
				return
			}
			if can.t.Steps != s+1 {
				w.Violation("long-evaluation-cancel-overrun:"+key, fmt.Sprintf("%s: the step counter reads %d at the end (the next step, %d, is the last one)", where, can.t.Steps, s+1), detail())
				return
			}
			w.Count("long_host_builtin_cancel_runs", 1)
			w.Max("long_max_cancel_index", s+1)
			w.CoverKey(fmt.Sprintf("long-host-cancel|%s|%s|%s", class, entry, c04LongMagnitude(s)))
		}
	}

	// --- step budgets ------------------------------------------------------------------
	budgets := c04LongIndices(r, N, nb-1)
	budgets = append(budgets, N+int64(r.Intn(3))-1)
	for _, n := range budgets {
		lim, setup := c04LongExec(p, entry, c04LongRun{kind: "budget", k: n})
		w.Eval(1)
		where := fmt.Sprintf("long program %s (request of %d steps through %s) under step budget %d", class, N, entry, n)
		cut := c04LongCut(ref.t.Trace, n)
		detail := func() string {
			return fmt.Sprintf("%s\nreference around the cut %s\nbudget %d: %s %s after %d steps\n  trace around the cut %s", detailRef(), c04LongExcerpt(ref.t.Trace, cut), n, lim.t.Outcome(), lim.t.Msg, lim.t.Steps, c04LongExcerpt(lim.t.Trace, cut))
		}
		if setup != "" {
			w.Violation("long-evaluation-setup-not-repeatable", setup+" ("+where+")", head())
			return
		}
		if lim.mon.badStep != "" {
			w.Violation("step-counter-not-monotone", lim.mon.badStep+" in "+where, detail())
			return
		}
		got := lim.t.Trace
		if p.swallows {
			got = got[:c04LongCut(got, n)]
		}
		if d := c04LongDiff(ref.t.Trace, got, cut); d != "" {
			w.Violation("long-evaluation-budget-trace-not-a-prefix:"+class, where+": what ran is not the unlimited run cut at step "+fmt.Sprint(n)+": "+d, detail())
			return
		}
		if n >= N {
			if lim.t.Outcome() != ref.t.Outcome() || lim.t.Stderr != ref.t.Stderr || lim.t.Steps != N {
				w.Violation("long-evaluation-sufficient-budget-changes-outcome:"+class, where+": outcome or step count differs although the budget suffices", detail())
				return
			}
		} else {
			if lim.t.IsErr {
				if lim.t.Cond != "step-limit-exceeded" {
					w.Violation("long-evaluation-budget-wrong-condition:"+class, where+": ended with "+lim.t.Cond, detail())
					return
				}
			} else if !p.swallows {
				w.Violation("long-evaluation-budget-no-error:"+class, where+": returned a value although the budget ran out and nothing swallows errors", detail())
				return
			}
			if lim.t.Steps < n {
				w.Violation("long-evaluation-budget-not-used:"+class, fmt.Sprintf("%s: stopped after %d steps", where, lim.t.Steps), detail())
				return
			}
			if !p.swallows && lim.t.Steps > n+1 {
				// nothing intercepts the error: the step that finds the budget spent is the last one
				w.Violation("long-evaluation-budget-overrun:"+class, fmt.Sprintf("%s: the step counter reads %d at the end", where, lim.t.Steps), detail())
				return
			}
		}
		w.Count("long_budget_runs", 1)
		w.Max("long_max_budget", n)
		w.CoverKey(fmt.Sprintf("long-budget|%s|%s|%s|%v", class, entry, c04LongMagnitude(n), n >= N))
	}
	w.Max("long_max_unlimited_steps", N)
	w.Max("long_max_trace_events", int64(len(ref.t.Trace)))
	w.Count("long_programs", 1)
	w.Count("long_reference_steps", N)
	w.SetAdd("long_shapes", class)
	w.SetAdd("long_entries", entry)
	w.SetAdd("long_program_magnitudes", c04LongMagnitude(N))
	if w.WantSample() && N > 2000 {
		w.Sample(map[string]any{"program": "long evaluation " + class, "entry": entry, "source": head(), "unlimited_steps": N, "trace_events": len(ref.t.Trace)})
	}
}

// c04LongDriver: the coverage floor of the family.
func c04LongDriver(d *fw.D) {
	if d.Counters["long_programs"] == 0 || d.Counters["long_cancel_runs"] == 0 || d.Counters["long_budget_runs"] == 0 || d.Counters["long_host_builtin_cancel_runs"] == 0 {
		d.Inconclusive("long evaluations: no program, cancellation or budget was judged")
		return
	}
	if d.Maxes["long_max_cancel_index"] < 1<<14 || d.Maxes["long_max_budget"] < 1<<14 {
		d.Inconclusive(fmt.Sprintf("long evaluations: no cancellation index / budget beyond 2^14 was judged (largest %d / %d)", d.Maxes["long_max_cancel_index"], d.Maxes["long_max_budget"]))
	}
}
