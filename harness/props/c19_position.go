package props

// C19 family 6 — syntactic positions.  The arity analyzers see a call only if
// the linter's tree walk visits the place the call is written in; the evaluator
// evaluates a call wherever the enclosing operator evaluates that place.  This
// family enumerates the places: the body, the initialisers and the local
// function bodies of every binding form in both spellings of the binding
// entries — (x init) and the [x init] of docs/lang.md, which the parser reads as
// a quoted list —, bracket-spelled formals lists, cond clauses, dotimes count /
// result / body, handler-bind handler expressions and handler bodies, lambda
// bodies inside arguments, threading-macro operands, assignment values,
// unquoted parts of quasiquote templates, templates evaluated after macro
// expansion.
//
// Nothing about a position is assumed: a control run replaces the target by a
// probe and decides how often the evaluator evaluates the place.
//
//   - evaluated exactly once  => an "evaluated position": the target call is a
//     direct call; it must be reported iff it fails binding (same demands as
//     family 1/2, keys missed:position:<position> / spurious:position:<position>:<analyzer>);
//   - never evaluated         => a "data position" (quoted list elements, quote
//     arguments, quasiquote template elements): the property speaks about direct
//     calls only, so nothing is demanded; what the analyzers do is recorded in
//     the evidence (data_positions).
//
// A third group are the places that are shaped like a call but that
// docs/lint-checks.md documents as never arity-checked (binding entries of
// let/let*/flet/labels/macrolet, formals lists, threading-macro children): when
// the program evaluates without a binding failure an arity diagnostic there is
// spurious:non-call:<position>:<analyzer>.  Call-shaped places the documentation
// does not mention (dotimes spec, cond clause) are recorded only.

import (
	"fmt"
	"strings"
	"sync"

	"verifharness/fw"
)

// c19Position is one place for the target call.
type c19Position struct {
	Name string
	Tmpl string // program text with one c19Mark
	// Ctl is the value expression the control probe returns at this place (the
	// place may need a number, a list, a true value to let the control program
	// finish); "" = nil.
	Ctl string
	// Key replaces Name in finding keys when several positions are one class.
	Key string
}

func (p c19Position) key() string {
	if p.Key != "" {
		return p.Key
	}
	return p.Name
}

const c19M = c19Mark

// c19BothSpellings returns the position in the paren spelling (name as given)
// and in the bracket spelling (name + ":bracket"); tmpl uses c19EO / c19EC.
func c19BothSpellings(name, tmpl, ctl string) []c19Position {
	return []c19Position{
		{Name: name, Tmpl: c19Spell(tmpl, false), Ctl: ctl},
		{Name: name + ":bracket", Tmpl: c19Spell(tmpl, true), Ctl: ctl},
	}
}

const (
	c19PO = c19EO
	c19PC = c19EC
)

var (
	c19PosOnce sync.Once
	c19PosList []c19Position
)

// c19Positions lists the places the control run is expected to find evaluated
// exactly once (it is a harness error if it does not).
func c19Positions() []c19Position {
	c19PosOnce.Do(func() {
		add := func(ps ...c19Position) { c19PosList = append(c19PosList, ps...) }
		one := func(name, tmpl string) { add(c19Position{Name: name, Tmpl: tmpl}) }
		two := func(name, tmpl string) { add(c19BothSpellings(name, tmpl, "")...) }
		hnd := "(lambda (c &rest a) 0)"

		// ---- plain evaluation
		one("toplevel", c19M+"\n")
		one("progn-final", "(progn 0 "+c19M+")\n")
		one("progn-non-final", "(progn "+c19M+" 0)\n")
		one("argument-of-call", "(identity "+c19M+")\n")
		one("argument-of-nested-call", "(vector 0 (list "+c19M+" 1))\n")
		one("if-test", "(if "+c19M+" 1 2)\n")
		one("if-then", "(if true "+c19M+" 2)\n")
		one("if-else", "(if () 1 "+c19M+")\n")
		one("and-argument", "(and true "+c19M+")\n")
		one("or-argument", "(or () "+c19M+")\n")
		// ---- cond clauses
		two("cond-test", "(cond "+c19PO+c19M+" 1"+c19PC+" "+c19PO+"else 2"+c19PC+")\n")
		two("cond-clause-body", "(cond "+c19PO+"true "+c19M+c19PC+" "+c19PO+"else 2"+c19PC+")\n")
		two("cond-else-body", "(cond "+c19PO+"() 1"+c19PC+" "+c19PO+"else "+c19M+c19PC+")\n")
		// ---- let / let*
		two("let-init", "(let ("+c19PO+"c19-x "+c19M+c19PC+")\n  c19-x)\n")
		two("let-init-second", "(let ("+c19PO+"c19-w 1"+c19PC+"\n      "+c19PO+"c19-x "+c19M+c19PC+")\n  c19-x)\n")
		two("let-body", "(let ("+c19PO+"c19-w 1"+c19PC+")\n  "+c19M+")\n")
		two("let*-init-first", "(let* ("+c19PO+"c19-x "+c19M+c19PC+"\n       "+c19PO+"c19-y c19-x"+c19PC+")\n  c19-y)\n")
		two("let*-init-later", "(let* ("+c19PO+"c19-w 1"+c19PC+"\n       "+c19PO+"c19-x "+c19M+c19PC+")\n  c19-x)\n")
		two("let*-body", "(let* ("+c19PO+"c19-w 1"+c19PC+")\n  "+c19M+")\n")
		two("let-init-inside-defun", "(defun c19-g (l)\n  (let ("+c19PO+"c19-h "+c19M+c19PC+")\n    c19-h))\n(c19-g 1)\n")
		two("let-init-inside-let-init", "(let ("+c19PO+"c19-x (let ("+c19PO+"c19-y "+c19M+c19PC+") c19-y)"+c19PC+")\n  c19-x)\n")
		// ---- flet / labels / macrolet
		two("flet-function-body", "(flet ("+c19PO+"c19-g (x) "+c19M+c19PC+")\n  (c19-g 1))\n")
		two("flet-second-function-body", "(flet ("+c19PO+"c19-h () 0"+c19PC+"\n       "+c19PO+"c19-g (x) "+c19M+c19PC+")\n  (c19-g 1))\n")
		two("flet-body", "(flet ("+c19PO+"c19-g (x) x"+c19PC+")\n  "+c19M+")\n")
		two("labels-function-body", "(labels ("+c19PO+"c19-g (x) "+c19M+c19PC+")\n  (c19-g 1))\n")
		two("labels-body", "(labels ("+c19PO+"c19-g (x) x"+c19PC+")\n  "+c19M+")\n")
		two("macrolet-macro-body", "(macrolet ("+c19PO+"c19-m () "+c19M+" 0"+c19PC+")\n  (c19-m))\n")
		two("macrolet-body", "(macrolet ("+c19PO+"c19-m () 0"+c19PC+")\n  "+c19M+")\n")
		one("flet-function-body:bracket-formals", "(flet ((c19-g [x] "+c19M+"))\n  (c19-g 1))\n")
		one("labels-function-body:bracket-entry-and-formals", "(labels ([c19-g [x] "+c19M+"])\n  (c19-g 1))\n")
		// ---- lambda / defun / defmacro bodies
		one("lambda-body-called-directly", "((lambda () "+c19M+"))\n")
		one("lambda-body:bracket-formals", "((lambda [x] "+c19M+") 1)\n")
		one("lambda-body-in-argument", "(funcall (lambda () "+c19M+"))\n")
		one("lambda-body-in-map-argument", "(map 'list (lambda (x) "+c19M+") '(1))\n")
		one("expr-body", "(funcall (expr "+c19M+"))\n")
		one("defun-body", "(defun c19-g ()\n  "+c19M+")\n(c19-g)\n")
		one("defun-body:bracket-formals", "(defun c19-g [x]\n  "+c19M+")\n(c19-g 1)\n")
		one("defun-body-after-docstring", "(defun c19-g ()\n  \"doc\"\n  "+c19M+")\n(c19-g)\n")
		one("defmacro-body", "(defmacro c19-m ()\n  "+c19M+"\n  0)\n(c19-m)\n")
		// ---- dotimes
		add(c19BothSpellings("dotimes-count", "(dotimes "+c19PO+"c19-i "+c19M+c19PC+" c19-i)\n", "1")...)
		two("dotimes-result", "(dotimes "+c19PO+"c19-i 1 "+c19M+c19PC+" c19-i)\n")
		two("dotimes-body", "(dotimes "+c19PO+"c19-i 1"+c19PC+" "+c19M+")\n")
		// ---- handler-bind
		// (the handler of the body position is for a condition nobody raises: it must not swallow the binding failure)
		two("handler-bind-body", "(handler-bind ("+c19PO+"c19-never-raised "+hnd+c19PC+")\n  "+c19M+")\n")
		// (a handler expression is evaluated when a condition reaches the clause)
		two("handler-bind-handler-expression", "(handler-bind ("+c19PO+"condition (progn "+c19M+" "+hnd+")"+c19PC+")\n  (error 'c19-e \"m\"))\n")
		two("handler-bind-handler-body", "(handler-bind ("+c19PO+"condition (lambda (c &rest a) "+c19M+")"+c19PC+")\n  (error 'c19-e \"m\"))\n")
		// ---- threading macros: the operands of the steps (the steps themselves
		// are documented as excluded, see c19NonCalls)
		one("thread-first-initial-value", "(thread-first "+c19M+" (identity))\n")
		one("thread-first-step-operand", "(thread-first 1 (vector "+c19M+"))\n")
		one("thread-last-step-operand", "(thread-last 1 (vector "+c19M+"))\n")
		// ---- assignment
		one("set-value", "(set 'c19-v "+c19M+")\n")
		one("set!-value", "(set 'c19-v 0)\n(set! c19-v "+c19M+")\n")
		add(c19Position{Name: "assert-argument", Tmpl: "(assert " + c19M + ")\n", Ctl: "true"})
		one("defconst-value", "(defconst c19-c "+c19M+")\n")
		// ---- operands of the remaining core macros / operators that evaluate them
		one("get-default-default-expression", "(get-default (sorted-map) \"k\" "+c19M+")\n")
		one("trace-argument", "(trace "+c19M+")\n")
		one("curry-function-argument", "(funcall (curry-function 'vector "+c19M+"))\n")
		one("deftype-constructor-body", "(deftype c19-t (x)\n  "+c19M+")\n(new c19-t 1)\n")
		one("deftype-constructor-body:bracket-formals", "(deftype c19-t [x]\n  "+c19M+")\n(new c19-t 1)\n")
		// ---- templates
		add(c19Position{Name: "unquote-in-quasiquote", Tmpl: "(set 'c19-v (quasiquote (1 (unquote " + c19M + "))))\n", Key: "inside-quasiquote"})
		add(c19Position{Name: "unquote-splicing-in-quasiquote", Tmpl: "(set 'c19-v (quasiquote (1 (unquote-splicing " + c19M + "))))\n", Ctl: "'(2)", Key: "inside-quasiquote"})
		add(c19Position{Name: "quasiquote-template-expanded", Tmpl: "(defmacro c19-m ()\n  (quasiquote (vector " + c19M + ")))\n(c19-m)\n", Key: "inside-quasiquote"})
		one("quoted-template-expanded", "(defmacro c19-m ()\n  '(vector "+c19M+"))\n(c19-m)\n")
	})
	return c19PosList
}

// c19DataPositions are places the control run is expected to find never
// evaluated.  Observed only.
var c19DataPositions = []c19Position{
	{Name: "quoted-list-element", Tmpl: "(set 'c19-v '(1 " + c19M + "))\n"},
	{Name: "quoted-list-nested-element", Tmpl: "(set 'c19-v '((" + c19M + ")))\n"},
	{Name: "bracket-list-element", Tmpl: "(set 'c19-v [1 " + c19M + "])\n"},
	{Name: "quote-argument", Tmpl: "(set 'c19-v (quote " + c19M + "))\n"},
	{Name: "quasiquote-template-element", Tmpl: "(set 'c19-v (quasiquote (1 " + c19M + ")))\n"},
}

// c19Callee is what the target call calls: a core name or a defun of the program.
type c19Callee struct {
	Name    string
	Core    bool
	Fun     c19Fun   // Core
	Formals []string // defun
}

func (c c19Callee) sig() c19Sig {
	if c.Core {
		return c.Fun.sig()
	}
	return c19ParseFormals(c.Formals)
}

// prefix is the program text in front of the position template.
func (c c19Callee) prefix() string {
	if c.Core {
		return ""
	}
	return c19DefunSrc(c.Name, c.Formals)
}

func (c c19Callee) kind() string {
	if c.Core {
		return c.Fun.Kind
	}
	return "defun"
}

// failed: the evaluation ended in a binding failure of this callee.
func (c c19Callee) failed(o c19Obs) bool {
	if !o.BindFailed() {
		return false
	}
	if c.Core {
		return o.TopFID == c.Fun.FID
	}
	return o.TopName == c.Name && o.TopPkg == "user"
}

// bareReported lints the callee's call alone at top level.
func (c c19Callee) bareReported(mode string, args []string) bool {
	src, pos := c19Place(c.prefix()+c19Mark+"\n", c19Call(c.Name, args))
	a, _ := c19Lint(mode, src).arityAt(pos)
	return len(a) > 0
}

// c19PosCallees are the callees of the exhaustive part: functions of arity 0, 1
// and 2, special operators (if has its own analyzer), a macro, and a defun.
// Arguments are integer literals.
var c19PosCalleeNames = []string{"car", "cons", "gensym", "if", "set!", "get-default"}

const c19PosDefun = "c19-f"

func c19PosCallees() []c19Callee {
	var cs []c19Callee
	for _, n := range c19PosCalleeNames {
		cs = append(cs, c19Callee{Name: n, Core: true, Fun: c19CoreFun(n)})
	}
	cs = append(cs, c19Callee{Name: c19PosDefun, Formals: []string{"a", "b"}})
	return cs
}

// c19PosMaxK: argument counts 0 .. named+1 (capped at 4).
func c19PosMaxK(s c19Sig) int {
	if s.Named+1 > 4 {
		return 4
	}
	return s.Named + 1
}

// c19NonCall is a call-shaped place that is not a call.
type c19NonCall struct {
	Name       string
	Documented bool // docs/lint-checks.md says the place is never arity-checked
	// Build returns the program (one c19Mark where the call-shaped list goes) and
	// the "arguments" of the call-shaped list; ok=false when the place cannot be
	// built for this name.
	Build func(f c19Fun) (tmpl string, args []string, ok bool)
}

func c19FixedNonCall(tmpl string, args ...string) func(c19Fun) (string, []string, bool) {
	return func(c19Fun) (string, []string, bool) { return tmpl, args, true }
}

// a threading step (NAME a1 .. a[req-2]) becomes a call with req arguments.
func c19ThreadStep(op string) func(c19Fun) (string, []string, bool) {
	return func(f c19Fun) (string, []string, bool) {
		s := f.sig()
		if s.Req < 1 {
			return "", nil, false
		}
		return "(" + op + " 1 " + c19M + ")\n", c19Ints(s.Req-1, 2), true
	}
}

var c19NonCalls = c19BuildNonCalls()

func c19BuildNonCalls() []c19NonCall {
	return []c19NonCall{
		{"let-entry", true, c19FixedNonCall("(let ("+c19M+")\n  0)\n", "1")},
		{"let*-entry", true, c19FixedNonCall("(let* ("+c19M+")\n  0)\n", "1")},
		{"flet-entry", true, c19FixedNonCall("(flet ("+c19M+")\n  0)\n", "(a)", "a")},
		{"labels-entry", true, c19FixedNonCall("(labels ("+c19M+")\n  0)\n", "(a)", "a")},
		{"macrolet-entry", true, c19FixedNonCall("(macrolet ("+c19M+")\n  0)\n", "(a)", "a")},
		{"flet-entry-formals", true, c19FixedNonCall("(flet ((c19-g "+c19M+" 0))\n  (c19-g 1 2))\n", "a")},
		{"labels-entry-formals", true, c19FixedNonCall("(labels ((c19-g "+c19M+" 0))\n  (c19-g 1 2))\n", "a")},
		{"defun-formals", true, c19FixedNonCall("(defun c19-g "+c19M+" 0)\n(c19-g 1 2)\n", "a")},
		{"defmacro-formals", true, c19FixedNonCall("(defmacro c19-m "+c19M+" 0)\n(c19-m 1 2)\n", "a")},
		{"lambda-formals", true, c19FixedNonCall("((lambda "+c19M+" 0) 1 2)\n", "a")},
		{"thread-first-step", true, c19ThreadStep("thread-first")},
		{"thread-last-step", true, c19ThreadStep("thread-last")},
		// not mentioned by the documentation: observed only
		{"dotimes-spec", false, c19FixedNonCall("(dotimes "+c19M+" 0)\n", "1")},
		{"cond-clause-with-symbol-test", false, c19FixedNonCall("(cond "+c19M+" (else 2))\n", "1")},
	}
}

// c19NonCallNames: core names whose arity the call-shaped lists above miss
// (if is left out: if-arity has no exclusions at all, a known finding).
var c19NonCallNames = []string{"car", "cons", "gensym", "list", "nth", "get-default", "trace", "set!"}

// ---------------------------------------------------------------------------
// case layout: evaluated positions, then data positions, then non-call places

func c19PositionCaseCount() int {
	return len(c19Positions()) + len(c19DataPositions) + len(c19NonCalls)
}

func c19RunPositionCase(w *fw.W, i int) {
	var fnd c19Findings
	ps := c19Positions()
	switch {
	case i < len(ps):
		for _, c := range c19PosCallees() {
			for k := 0; k <= c19PosMaxK(c.sig()); k++ {
				c19JudgePosition(w, &fnd, ps[i], ps[i].Tmpl, c, c19Ints(k, 1), "", "")
			}
		}
	case i < len(ps)+len(c19DataPositions):
		c19ObserveDataPosition(w, &fnd, c19DataPositions[i-len(ps)])
	default:
		c19JudgeNonCall(w, &fnd, c19NonCalls[i-len(ps)-len(c19DataPositions)])
	}
	w.Count("position_cases_enumerated", 1)
	c19NotePositionKeys(w, &fnd)
	fnd.flush(w)
}

// c19PosControl runs the program with the target replaced by a probe and
// returns how often the place was evaluated (-1: the control program failed).
func c19PosControl(w *fw.W, p c19Position, src string) (int, c19Obs, string) {
	probe := "(verif:probe 'c19-target)"
	if p.Ctl != "" {
		probe = "(verif:probe 'c19-target " + p.Ctl + ")"
	}
	csrc, cpos := c19Place(src, probe)
	ctl := c19Eval(csrc, cpos)
	w.Eval(1)
	if ctl.T.IsErr {
		return -1, ctl, csrc
	}
	return c19CountTag(ctl, "c19-target"), ctl, csrc
}

// c19JudgePosition applies the property to one call at one evaluated position.
// tmpl is the position's template, possibly with wrappers around the mark.
func c19JudgePosition(w *fw.W, fnd *c19Findings, p c19Position, tmpl string, c c19Callee, args []string, wrapLabel, keyExtra string) (violated bool) {
	full := c.prefix() + tmpl
	n, ctl, csrc := c19PosControl(w, p, full)
	if n != 1 {
		fnd.add("harness-template:position:"+p.Name+keyExtra, "control run of a position template is not clean: the place is not evaluated exactly once (harness bug, not a finding about elps)",
			fmt.Sprintf("control source:\n%s\nrun: %s", csrc, ctl))
		return true
	}
	src, pos := c19Place(full, c19Call(c.Name, args))
	obs := c19Eval(src, pos)
	w.Eval(1)
	sig := c.sig()
	k := len(args)
	rel := c19Rel(sig, k)
	fails := c.failed(obs)
	if obs.BindFailed() && !fails {
		fnd.add("harness-position-unclassified:"+p.Name, "binder error that does not belong to the target call although the control run is clean (harness cannot classify)",
			fmt.Sprintf("source:\n%s\nrun: %s", src, obs))
		return true
	}
	class := "bound"
	if fails {
		class = "bind-fail"
		w.Count("calls_failing_binding", 1)
		if !obs.AtTarget {
			w.Count("bind_errors_located_off_target", 1)
		}
	} else {
		w.Count("calls_binding_ok", 1)
	}
	var lints []c19LintResult
	lintClass := ""
	for _, mode := range c19Modes {
		lr := c19Lint(mode, src)
		lints = append(lints, lr)
		if lr.Err != nil {
			fnd.add("harness-lint-error:position", "lint failed on a generated position source: "+lr.Err.Error(), src)
			violated = true
			continue
		}
		w.Count("lint_runs", 1)
		arity, other := lr.arityAt(pos)
		lc := "none"
		if len(arity) > 0 {
			lc = c19Analyzers(arity)
			w.Count("calls_reported", 1)
		}
		lintClass += mode + "=" + lc + ","
		detail := fmt.Sprintf("source:\n%s\ntarget call %s at %d:%d; position %s; callee %s (%s) formals (%s); wrappers [%s]\nlint mode %s: arity diagnostics at the call: %s\nrun time: the place is evaluated exactly once (control run); %s",
			src, c19Call(c.Name, args), pos.Line, pos.Col, p.Name, c.Name, c.kind(), c19FormalsText(c), wrapLabel, mode, c19DiagList(arity), obs)
		switch {
		case fails && len(arity) == 0 && !sig.HasKey() && (c.Core || mode != "syn"):
			if len(other) > 0 {
				w.Count("failing_calls_reported_only_by_non_arity_analyzer", 1)
				break
			}
			key := "missed:position:" + p.key() + keyExtra
			summary := fmt.Sprintf("a direct call written at position %s is evaluated and fails binding but no arity analyzer reports it (e.g. %s, a %s); the same call at top level is reported", p.Name, c19Call(c.Name, args), c.kind())
			if !c.bareReported(mode, args) {
				// not a matter of the position: the call alone is not reported either
				if c.Core {
					key = fmt.Sprintf("missed:core:%s:%s", c.Name, rel)
				} else {
					key = fmt.Sprintf("missed:defun:%s:%s", sig.Class(), rel)
				}
				summary = fmt.Sprintf("no arity diagnostic for %s but binding fails at run time (seen at position %s)", c19Call(c.Name, args), p.Name)
			}
			fnd.add(key, summary, detail)
			violated = true
		case !fails && len(arity) > 0:
			key := fmt.Sprintf("spurious:position:%s:%s%s", p.key(), c19Analyzers(arity), keyExtra)
			if c.bareReported(mode, args) {
				if c.Core {
					key = fmt.Sprintf("spurious:core:%s:%s", c.Name, c19Analyzers(arity))
				} else {
					key = fmt.Sprintf("spurious:defun:%s:%s", sig.Class(), c19Analyzers(arity))
				}
			}
			fnd.add(key, fmt.Sprintf("%s reports a call at position %s that the evaluator binds (e.g. %s)", c19Analyzers(arity), p.Name, c19Call(c.Name, args)), detail)
			violated = true
		}
	}
	w.CoverKey(fmt.Sprintf("position|%s|%s|%s|%s|lint:%s|run:%s|wrap:%v", p.Name, c.kind(), c.Name, rel, lintClass, class, wrapLabel != ""))
	w.SetAdd("positions_evaluated_once", p.Name)
	c19Sample(w, "position", src, pos, lints, obs)
	return violated
}

func c19FormalsText(c c19Callee) string {
	if c.Core {
		return strings.Join(c.Fun.Formals, " ")
	}
	return strings.Join(c.Formals, " ")
}

// c19ObserveDataPosition: the place must never be evaluated; what the arity
// analyzers say about a call-shaped list there is recorded, not judged.
func c19ObserveDataPosition(w *fw.W, fnd *c19Findings, p c19Position) {
	n, ctl, csrc := c19PosControl(w, p, p.Tmpl)
	if n != 0 {
		fnd.add("harness-template:data-position:"+p.Name, "control run of a data-position template is not clean: the place is evaluated or the program fails (harness bug, not a finding about elps)",
			fmt.Sprintf("control source:\n%s\nrun: %s", csrc, ctl))
		return
	}
	for _, c := range c19PosCallees() {
		if !c.Core {
			continue
		}
		for k := 0; k <= c19PosMaxK(c.sig()); k++ {
			args := c19Ints(k, 1)
			src, pos := c19Place(p.Tmpl, c19Call(c.Name, args))
			obs := c19Eval(src, pos)
			w.Eval(1)
			if obs.T.IsErr {
				fnd.add("harness-template:data-position:"+p.Name, "a program with a call-shaped list at a data position fails (harness bug, not a finding about elps)",
					fmt.Sprintf("source:\n%s\nrun: %s", src, obs))
				return
			}
			said := map[string]bool{}
			for _, mode := range c19Modes {
				lr := c19Lint(mode, src)
				if lr.Err != nil {
					continue
				}
				w.Count("lint_runs", 1)
				arity, _ := lr.arityAt(pos)
				if len(arity) > 0 {
					said[c19Analyzers(arity)] = true
				}
			}
			if len(said) == 0 {
				continue
			}
			for a := range said {
				w.SetAdd("data_positions", p.Name+" -> a call-shaped list that would fail binding is reported by "+a+" (not judged: not a direct call)")
			}
			w.Count("data_position_lists_reported", 1)
		}
	}
	w.SetAdd("data_positions", p.Name+" -> never evaluated")
	w.CoverKey("position-data|" + p.Name)
}

// c19JudgeNonCall: call-shaped places that are not calls.
func c19JudgeNonCall(w *fw.W, fnd *c19Findings, nc c19NonCall) {
	for _, name := range c19NonCallNames {
		f := c19CoreFun(name)
		tmpl, args, ok := nc.Build(f)
		if !ok {
			continue
		}
		src, pos := c19Place(tmpl, c19Call(name, args))
		obs := c19Eval(src, pos)
		w.Eval(1)
		if obs.BindFailed() {
			// the program itself fails binding somewhere: nothing to demand
			w.Count("non_call_programs_failing_binding", 1)
			continue
		}
		rel := c19Rel(f.sig(), len(args))
		lintClass := ""
		for _, mode := range c19Modes {
			lr := c19Lint(mode, src)
			if lr.Err != nil {
				fnd.add("harness-lint-error:position", "lint failed on a generated position source: "+lr.Err.Error(), src)
				continue
			}
			w.Count("lint_runs", 1)
			arity, _ := lr.arityAt(pos)
			lc := "none"
			if len(arity) > 0 {
				lc = c19Analyzers(arity)
			}
			lintClass += mode + "=" + lc + ","
			if len(arity) == 0 {
				continue
			}
			if !nc.Documented {
				w.SetAdd("undocumented_non_call_places", nc.Name+" -> the call-shaped list is reported by "+c19Analyzers(arity)+" although the program evaluates without a binding failure (not judged: the place is not a direct call and the documentation does not mention it)")
				continue
			}
			fnd.add(fmt.Sprintf("spurious:non-call:%s:%s", nc.Name, c19Analyzers(arity)),
				fmt.Sprintf("%s reports the call-shaped list %s at place %s, which docs/lint-checks.md documents as excluded from arity checking; the program evaluates without a binding failure", c19Analyzers(arity), c19Call(name, args), nc.Name),
				fmt.Sprintf("source:\n%s\ncall-shaped list %s at %d:%d; place %s; builtin %s formals (%s)\nlint mode %s: arity diagnostics there: %s\nrun time: %s",
					src, c19Call(name, args), pos.Line, pos.Col, nc.Name, name, strings.Join(f.Formals, " "), mode, c19DiagList(arity), obs))
		}
		w.CoverKey(fmt.Sprintf("position-non-call|%s|%s|%s|lint:%s", nc.Name, f.Kind, rel, lintClass))
		w.SetAdd("non_call_places", nc.Name)
	}
}

// ---------------------------------------------------------------------------
// sampled part: any core name at any evaluated position, under neutral wrappers

func c19RandomPosition(w *fw.W, r *fw.RNG) {
	ps := c19Positions()
	p := ps[r.Intn(len(ps))]
	var c c19Callee
	if r.Chance(1, 4) {
		c = c19Callee{Name: fw.Pick(r, c19UserNames), Formals: fw.Pick(r, c19UserSigs()[:72]).Formals}
	} else {
		var core []c19Fun
		for _, f := range c19Registry() {
			if f.Core {
				core = append(core, f)
			}
		}
		f := core[r.Intn(len(core))]
		c = c19Callee{Name: f.Name, Core: true, Fun: f}
	}
	wr := c19RandWrap(r, true)
	if p.Ctl != "" {
		// the place needs a particular value, which the wrappers do not all pass on
		wr.Inner, wr.Names = nil, nil
	}
	wr.Prefix = "" // the callee's defun comes first; filler lines are family 4's business
	if len(wr.Names) > 0 && wr.Names[0] == "prefix" {
		wr.Names = wr.Names[1:]
	}
	k := r.Intn(c.sig().Named + 3)
	args := c19Ints(k, 1)
	if wr.Args != nil {
		args = wr.Args(k)
	}
	var fnd c19Findings
	if c19JudgePosition(w, &fnd, p, c19ApplyWrap(p.Tmpl, wr), c, args, wr.label(), "") {
		// attribute to the variation only if the plain position with the same
		// callee and count does not violate
		var plain c19Findings
		if !c19JudgePosition(w, &plain, p, p.Tmpl, c, c19Ints(k, 1), "", "") {
			fnd = c19Findings{}
			c19JudgePosition(w, &fnd, p, c19ApplyWrap(p.Tmpl, wr), c, args, wr.label(), ":only-when-wrapped")
		}
	}
	c19AddWrapperNames(w, wr)
	c19NotePositionKeys(w, &fnd)
	fnd.flush(w)
}

// c19NotePositionKeys lists this family's finding keys in the evidence (the
// framework prints only the first violations, and finding_keys is shared with
// the other families).
func c19NotePositionKeys(w *fw.W, fnd *c19Findings) {
	for _, k := range fnd.keys {
		w.SetAdd("position_finding_keys", k)
	}
}
