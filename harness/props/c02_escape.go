package props

import (
	"fmt"
	"strconv"
	"strings"

	"verifharness/fw"
	"verifharness/sx"
)

// C02, block (a''): per-turn state that outlives the turn.
//
// The loops of (a) and (a') carry numbers around: nothing created by a turn survives it, so
// an implementation that lets the turns of an eliminated loop SHARE state (one activation
// environment rebound in place, a scope of the previous turn left as parent of the next
// one ...) computes the same numbers.  Here every turn creates closures over the loop's
// own parameters and over locals of the turn and makes them escape the turn; they are
// called in a later turn or after the loop has ended.  Lexical scoping per call
// (docs/lang.md, "Scope") fixes what each of them returns, whatever the number of
// turns that followed, and the property fixes that elimination on and off agree.
//
// Dimensions (all combined with the wrappers, exit wrappers, call forms, recursion kinds
// and definers of the other blocks):
//   capture  how a closure of the turn refers to the turn's state (c02Captures)
//   escape   how it leaves the turn (c02Escapes)
//   mutate   set! of a captured parameter before / after the closure is created
//   extra    a fourth formal of kind &optional / &rest / &key, captured as well
//   hold     the closures are first bound by a let in tail position, then passed on
//   closures per turn: one or two; in a cycle every function has capture kinds of its own
//
// The loop functions are (lp n acc v [extra]): n counts down, acc is the escape route,
// v is a running sum (v' = v + n) that the set! forms change.

var c02Captures = []string{
	"param",          // (lambda () E)
	"nested-lambda",  // (lambda () (funcall (lambda () E)))
	"let-local",      // (let ([k ..]) <call>) around the call, E reads k too
	"let*-local",     // (let* ([k ..] [kk (+ k v)]) <call>)
	"flet-fn",        // (flet ([g () E]) <call>), g escapes
	"labels-fn",      // (labels ([g () E] [gg () (g)]) <call>), gg escapes
	"expr",           // (expr E)
	"inner-param",    // ((lambda (p) (lambda () (+ p E))) (* 2 n))
	"optional-param", // (lambda (&optional p) (+ (or p 5) E))
	"counter",        // (lambda () (set! v (+ v 1)) E): the closure changes the state it captured
}

var c02Escapes = []string{
	"cons",       // consed onto the accumulator
	"vector",     // append! to a vector
	"sorted-map", // assoc! into a sorted map
	"global",     // consed onto a global by a non-final form
	"chain",      // the accumulator is a closure calling the closures of the turn and the previous accumulator
	"next-turn",  // handed to the next turn, which calls it while the loop is still running
}

var c02Mutations = []string{"none", "before", "after", "both"}

var c02Extras = []string{"", "optional", "rest", "key"}

// call forms usable with any number of arguments
var c02EscCallForms = []string{"direct", "thread-first", "thread-last", "funcall", "apply", "apply-list", "unpack", "funcall-function", "call-form-by-turn"}

type c02Esc struct {
	capture [][]string // per function of the cycle: capture kinds of the closures one turn creates
	escape  string
	mutate  string
	extra   string
	hold    bool
}

func (e *c02Esc) name() string {
	var cs []string
	for _, c := range e.capture {
		cs = append(cs, strings.Join(c, "+"))
	}
	x := e.extra
	if x == "" {
		x = "none"
	}
	h := ""
	if e.hold {
		h = " held-in-let"
	}
	return fmt.Sprintf("capture=[%s] escape=%s mutate=%s extra=%s%s", strings.Join(cs, " | "), e.escape, e.mutate, x, h)
}

func c02EscExhaustive() int { return len(c02Escapes) * len(c02Captures) * len(c02Mutations) }

// c02EscShapeFor: j indexes the block; idx (the global index) seeds the sampled dimensions.
func c02EscShapeFor(w *fw.W, idx, j int, tier string) c02Shape {
	r := w.RNG(idx, "escape-shape")
	nw, ne := len(c02Wrappers), len(c02ExitWrappers)
	iters := []int{1, 2, 10, 100}
	if tier == "thorough" {
		iters = append(iters, 1000, 20000)
	} else if j%5 == 0 {
		iters = append(iters, 1000)
	}
	definers := []string{"defun", "labels", "set-lambda"}
	e := &c02Esc{}
	s := c02Shape{iters: iters, esc: e}
	if j < c02EscExhaustive() {
		// every (escape, capture, mutation); the other dimensions rotate
		e.escape = c02Escapes[j%len(c02Escapes)]
		rest := j / len(c02Escapes)
		first := c02Captures[rest%len(c02Captures)]
		e.mutate = c02Mutations[rest/len(c02Captures)]
		s.cycle = 1 + (j/5)%3
		s.definer = definers[(j/7)%3]
		s.call = c02EscCallForms[(j/3)%len(c02EscCallForms)]
		e.extra = c02Extras[(j/11)%len(c02Extras)]
		e.hold = (j/13)%2 == 1
		for i := 0; i < s.cycle; i++ {
			c := []string{first}
			if i > 0 {
				c[0] = fw.Pick(r, c02Captures)
			}
			if r.Chance(1, 3) {
				c = append(c, fw.Pick(r, c02Captures))
			}
			e.capture = append(e.capture, c)
		}
		if j%2 == 1 {
			if r.Chance(1, 2) {
				s.chain = []int{nw + r.Intn(ne)}
			} else {
				s.chain = []int{r.Intn(nw)}
			}
		}
	} else {
		e.escape = fw.Pick(r, c02Escapes)
		e.mutate = fw.Pick(r, c02Mutations)
		e.extra = fw.Pick(r, c02Extras)
		e.hold = r.Chance(1, 2)
		s.cycle = r.Range(1, 3)
		s.definer = fw.Pick(r, definers)
		s.call = fw.Pick(r, c02EscCallForms)
		for i := 0; i < s.cycle; i++ {
			c := []string{fw.Pick(r, c02Captures)}
			if r.Chance(1, 2) {
				c = append(c, fw.Pick(r, c02Captures))
			}
			e.capture = append(e.capture, c)
		}
		s.chain = make([]int, r.Range(0, 3))
		for i := range s.chain {
			if r.Chance(1, 2) {
				s.chain[i] = nw + r.Intn(ne)
			} else {
				s.chain[i] = r.Intn(nw)
			}
		}
	}
	if e.escape == "next-turn" {
		// one closure is handed over per turn
		for i := range e.capture {
			e.capture[i] = e.capture[i][:1]
		}
	}
	if e.mutate == "after" || e.mutate == "both" {
		e.hold = true // the closure has to exist before the set! that follows its creation
	}
	for _, c := range s.chain {
		if c >= nw {
			s.exits = true // the path through the chain depends on the turn
		}
	}
	if s.call == "call-form-by-turn" {
		s.exits = true
	}
	if s.exits {
		// iteration counts that are multiples of the selection period
		s.iters = []int{1, 2, 2 * c02ExitPeriod, 10 * c02ExitPeriod}
		if tier == "thorough" {
			s.iters = append(s.iters, 100*c02ExitPeriod, 2000*c02ExitPeriod)
		} else if j%5 == 0 {
			s.iters = append(s.iters, 100*c02ExitPeriod)
		}
	}
	return s
}

// c02CallArgs writes (callee a0 a1 ...) in one of the call forms.
func c02CallArgs(form, callee string, args []*sx.N) *sx.N {
	cl := func() []*sx.N {
		out := make([]*sx.N, len(args))
		for i, a := range args {
			out[i] = a.Clone()
		}
		return out
	}
	last := len(args) - 1
	switch form {
	case "thread-first":
		return sx.Call("thread-first", args[0], sx.Call(callee, args[1:]...))
	case "thread-last":
		return sx.Call("thread-last", args[last], sx.Call(callee, args[:last]...))
	case "funcall":
		return sx.Call("funcall", append([]*sx.N{sx.Y(callee)}, args...)...)
	case "apply":
		a := append([]*sx.N{sx.Y(callee)}, args[:last]...)
		return sx.Call("apply", append(a, sx.Call("list", args[last]))...)
	case "apply-list":
		return sx.Call("apply", sx.Y(callee), sx.Call("list", args...))
	case "unpack":
		return sx.Call("unpack", sx.Y(callee), sx.Call("list", args...))
	case "funcall-function":
		return sx.Call("funcall", append([]*sx.N{sx.Call("function", sx.Y(callee))}, args...)...)
	case "call-form-by-turn":
		return sx.Call("cond",
			sx.L(c02Turn(4, 0), c02CallArgs("direct", callee, args)),
			sx.L(c02Turn(4, 1), c02CallArgs("funcall", callee, cl())),
			sx.L(c02Turn(4, 2), c02CallArgs("apply", callee, cl())),
			sx.L(sx.Y("else"), c02CallArgs("thread-last", callee, cl())))
	}
	return sx.Call(callee, args...)
}

// c02EscValue is E: what a closure of the turn returns, reading every variable in its scope.
func (e *c02Esc) value(kind string, j int) *sx.N {
	terms := []*sx.N{sx.Y("n"), sx.Call("*", sx.I(1000), sx.Y("v"))}
	switch e.extra {
	case "optional", "key":
		terms = append(terms, sx.Call("*", sx.I(13), sx.Y("x")))
	case "rest":
		terms = append(terms, sx.Call("*", sx.I(13), sx.Call("+", sx.Call("car", sx.Y("x")), sx.Call("length", sx.Y("x")))))
	}
	switch kind {
	case "let-local":
		terms = append(terms, sx.Call("*", sx.I(17), sx.Y(fmt.Sprintf("k%d", j))))
	case "let*-local":
		terms = append(terms, sx.Call("*", sx.I(17), sx.Y(fmt.Sprintf("k%d", j))), sx.Call("*", sx.I(19), sx.Y(fmt.Sprintf("kk%d", j))))
	}
	return sx.Call("+", terms...)
}

// closure returns the expression yielding closure j of a turn and, for the kinds that
// need one, the binding form that goes around the call (nil otherwise).
func (e *c02Esc) closure(kind string, j int) (expr *sx.N, binder func(body *sx.N) *sx.N) {
	E := e.value(kind, j)
	k, kk, g, gg := fmt.Sprintf("k%d", j), fmt.Sprintf("kk%d", j), fmt.Sprintf("g%d", j), fmt.Sprintf("gg%d", j)
	kinit := sx.Call("+", sx.Call("*", sx.Y("n"), sx.I(10)), sx.I(int64(j+1)))
	switch kind {
	case "nested-lambda":
		return sx.Call("lambda", sx.L(), sx.Call("funcall", sx.Call("lambda", sx.L(), E))), nil
	case "let-local":
		return sx.Call("lambda", sx.L(), E), func(b *sx.N) *sx.N { return sx.Call("let", sx.L(sx.B(sx.Y(k), kinit)), b) }
	case "let*-local":
		return sx.Call("lambda", sx.L(), E), func(b *sx.N) *sx.N {
			return sx.Call("let*", sx.L(sx.B(sx.Y(k), kinit), sx.B(sx.Y(kk), sx.Call("+", sx.Y(k), sx.Y("v")))), b)
		}
	case "flet-fn":
		return sx.Y(g), func(b *sx.N) *sx.N { return sx.Call("flet", sx.L(c02Fn(g, nil, E)), b) }
	case "labels-fn":
		return sx.Y(gg), func(b *sx.N) *sx.N {
			return sx.Call("labels", sx.L(c02Fn(g, nil, E), c02Fn(gg, nil, sx.Call(g))), b)
		}
	case "expr":
		return sx.Call("expr", E), nil
	case "inner-param":
		return sx.L(sx.Call("lambda", sx.L(sx.Y("p")), sx.Call("lambda", sx.L(), sx.Call("+", sx.Y("p"), E))), sx.Call("*", sx.I(2), sx.Y("n"))), nil
	case "optional-param":
		return sx.Call("lambda", sx.L(sx.Y("&optional"), sx.Y("p")), sx.Call("+", sx.Call("or", sx.Y("p"), sx.I(5)), E)), nil
	case "counter":
		return sx.Call("lambda", sx.L(), sx.Call("set!", sx.Y("v"), sx.Call("+", sx.Y("v"), sx.I(1))), E), nil
	}
	return sx.Call("lambda", sx.L(), E), nil
}

func c02CallAll(seq *sx.N) *sx.N {
	return sx.Call("map", sx.QY("list"), sx.Call("lambda", sx.L(sx.Y("f")), sx.Call("funcall", sx.Y("f"))), seq)
}

// c02EscProgram renders the loop of an escape shape and the expression that calls what escaped.
func c02EscProgram(s c02Shape, n int) string {
	e := s.esc
	names := []string{"lp-a", "lp-b", "lp-c"}[:s.cycle]
	formals := []*sx.N{sx.Y("n"), sx.Y("acc"), sx.Y("v")}
	var extraArgs, extraStart []*sx.N
	x := sx.Call("+", sx.Y("n"), sx.I(50))
	switch e.extra {
	case "optional":
		formals = append(formals, sx.Y("&optional"), sx.Y("x"))
		extraArgs, extraStart = []*sx.N{x}, []*sx.N{sx.I(3)}
	case "rest":
		formals = append(formals, sx.Y("&rest"), sx.Y("x"))
		extraArgs, extraStart = []*sx.N{x, sx.Y("n")}, []*sx.N{sx.I(3), sx.I(4)}
	case "key":
		formals = append(formals, sx.Y("&key"), sx.Y("x"))
		extraArgs, extraStart = []*sx.N{sx.Y(":x"), x}, []*sx.N{sx.Y(":x"), sx.I(3)}
	}
	mk := func(i int) []*sx.N { // body forms after (verif:depth)
		next := names[(i+1)%s.cycle]
		var cl []*sx.N
		var binders []func(*sx.N) *sx.N
		for j, kind := range e.capture[i] {
			c, b := e.closure(kind, j)
			cl = append(cl, c)
			if b != nil {
				binders = append(binders, b)
			}
		}
		var held []*sx.N
		if e.hold {
			for j := range cl {
				f := fmt.Sprintf("f%d", j)
				held = append(held, sx.B(sx.Y(f), cl[j]))
				cl[j] = sx.Y(f)
			}
		}
		// the accumulator handed to the next turn
		var acc, pre *sx.N
		switch e.escape {
		case "vector":
			acc = sx.Call("append!", append([]*sx.N{sx.Y("acc")}, cl...)...)
		case "sorted-map":
			acc = sx.Y("acc")
			for j, c := range cl {
				key := sx.Call("to-string", sx.Call("+", sx.I(int64(100000+j)), sx.Call("*", sx.I(2), sx.Y("n"))))
				acc = sx.Call("assoc!", acc, key, c)
			}
		case "global":
			g := sx.Y("c02-escaped")
			for _, c := range cl {
				g = sx.Call("cons", c, g)
			}
			pre = sx.Call("set", sx.QY("c02-escaped"), g)
			acc = sx.Call("+", sx.Y("acc"), sx.I(1))
		case "chain":
			t := sx.Call("funcall", sx.Y("acc"))
			for j := len(cl) - 1; j >= 0; j-- {
				t = sx.Call("cons", sx.Call("funcall", cl[j]), t)
			}
			acc = sx.Call("lambda", sx.L(), t)
		case "next-turn":
			acc = sx.Call("cons", cl[0], sx.Call("cons", sx.Call("funcall", sx.Call("car", sx.Y("acc"))), sx.Call("cdr", sx.Y("acc"))))
		default: // cons
			acc = sx.Y("acc")
			for _, c := range cl {
				acc = sx.Call("cons", c, acc)
			}
		}
		args := append([]*sx.N{sx.Call("-", sx.Y("n"), sx.I(1)), acc, sx.Call("+", sx.Y("v"), sx.Y("n"))}, extraArgs...)
		t := c02CallArgs(s.call, next, args)
		if pre != nil {
			t = sx.Call("progn", pre, t)
		}
		if e.mutate == "after" || e.mutate == "both" {
			t = sx.Call("progn", sx.Call("set!", sx.Y("v"), sx.Call("-", sx.Y("v"), sx.I(1))), t)
		}
		if held != nil {
			t = sx.Call("let", sx.L(held...), t)
		}
		for k := len(binders) - 1; k >= 0; k-- {
			t = binders[k](t)
		}
		for k := len(s.chain) - 1; k >= 0; k-- {
			t = c02Wrap(s.chain[k]).wrap(t, k)
		}
		var forms []*sx.N
		if e.mutate == "before" || e.mutate == "both" {
			forms = append(forms, sx.Call("set!", sx.Y("v"), sx.Call("+", sx.Y("v"), sx.I(1000))))
		}
		return append(forms, sx.Call("if", sx.Call("<=", sx.Y("n"), sx.I(0)), sx.Y("acc"), t))
	}
	// the start of the loop and the use of what escaped
	var acc0 *sx.N
	switch e.escape {
	case "vector":
		acc0 = sx.Call("vector")
	case "sorted-map":
		acc0 = sx.Call("sorted-map")
	case "global":
		acc0 = sx.I(0)
	case "chain":
		acc0 = sx.Call("lambda", sx.L(), sx.Q(sx.L()))
	case "next-turn":
		acc0 = sx.Call("list", sx.Call("lambda", sx.L(), sx.I(0)))
	default:
		acc0 = sx.Q(sx.L())
	}
	start := sx.Call(names[0], append([]*sx.N{sx.I(int64(n)), acc0, sx.I(7)}, extraStart...)...)
	var use *sx.N
	switch e.escape {
	case "sorted-map":
		use = sx.Call("let", sx.L(sx.B(sx.Y("m"), start)),
			sx.Call("map", sx.QY("list"), sx.Call("lambda", sx.L(sx.Y("key")), sx.Call("funcall", sx.Call("get", sx.Y("m"), sx.Y("key")))), sx.Call("keys", sx.Y("m"))))
	case "global":
		use = sx.Call("let", sx.L(sx.B(sx.Y("turns"), start)), sx.Call("cons", sx.Y("turns"), c02CallAll(sx.Y("c02-escaped"))))
	case "chain":
		use = sx.Call("funcall", start)
	case "next-turn":
		use = sx.Call("let", sx.L(sx.B(sx.Y("r"), start)), sx.Call("cons", sx.Call("funcall", sx.Call("car", sx.Y("r"))), sx.Call("cdr", sx.Y("r"))))
	default:
		use = c02CallAll(start)
	}
	var defs []*sx.N
	if e.escape == "global" {
		defs = append(defs, sx.Call("set", sx.QY("c02-escaped"), sx.Q(sx.L())))
	}
	fl := sx.L(formals...)
	switch s.definer {
	case "labels":
		var bs []*sx.N
		for i, nm := range names {
			bs = append(bs, sx.L(append([]*sx.N{sx.Y(nm), fl.Clone(), sx.Call("verif:depth")}, mk(i)...)...))
		}
		return sx.Render(append(defs, sx.Call("labels", sx.L(bs...), use)), nil)
	case "set-lambda":
		for i, nm := range names {
			defs = append(defs, sx.Call("set", sx.QY(nm), sx.Call("lambda", append([]*sx.N{fl.Clone(), sx.Call("verif:depth")}, mk(i)...)...)))
		}
	default:
		for i, nm := range names {
			defs = append(defs, sx.Call("defun", append([]*sx.N{sx.Y(nm), fl.Clone(), sx.Call("verif:depth")}, mk(i)...)...))
		}
	}
	return sx.Render(append(defs, use), nil)
}

// c02EscCall is one call of an escaped closure, in the order the program makes them.
type c02EscCall struct {
	val  int64
	turn int    // the turn that created the closure (0 = first); -1: not a closure of a turn
	kind string // its capture kind
}

// predict runs the loop by construction: every turn has variables of its own, a closure
// reads (and, for "counter", writes) the variables of the turn that created it.
func (e *c02Esc) predict(cycle, N int) []c02EscCall {
	type turnEnv struct{ n, v, x int64 }
	type clo struct {
		call func() int64
		turn int
		kind string
	}
	var perTurn [][]clo
	var nextTurnVals []c02EscCall // next-turn: values in the order they are computed
	n, v, x := int64(N), int64(7), int64(0)
	switch e.extra {
	case "optional", "key":
		x = 3
	case "rest":
		x = 3 + 2
	}
	var prev *clo
	for t := 0; ; t++ {
		env := &turnEnv{n: n, v: v, x: x}
		if e.mutate == "before" || e.mutate == "both" {
			env.v += 1000
		}
		if n <= 0 {
			break
		}
		var cs []clo
		for j, kind := range e.capture[t%cycle] {
			kind := kind
			k := env.n*10 + int64(j+1)
			kk := k + env.v
			p := 2 * env.n
			cs = append(cs, clo{turn: t, kind: kind, call: func() int64 {
				if kind == "counter" {
					env.v++
				}
				r := env.n + 1000*env.v
				if e.extra != "" {
					r += 13 * env.x
				}
				switch kind {
				case "let-local":
					r += 17 * k
				case "let*-local":
					r += 17*k + 19*kk
				case "inner-param":
					r += p
				case "optional-param":
					r += 5
				}
				return r
			}})
		}
		perTurn = append(perTurn, cs)
		if e.mutate == "after" || e.mutate == "both" {
			env.v--
		}
		if e.escape == "next-turn" {
			// the closure of the previous turn is called while this turn's arguments are evaluated
			if prev == nil {
				nextTurnVals = append(nextTurnVals, c02EscCall{val: 0, turn: -1})
			} else {
				nextTurnVals = append(nextTurnVals, c02EscCall{val: prev.call(), turn: prev.turn, kind: prev.kind})
			}
			prev = &cs[0]
		}
		n, v = env.n-1, env.v+env.n
		x = env.n + 50
		if e.extra == "rest" {
			x += 2
		}
	}
	var out []c02EscCall
	call := func(c clo) { out = append(out, c02EscCall{val: c.call(), turn: c.turn, kind: c.kind}) }
	switch e.escape {
	case "vector":
		for _, cs := range perTurn {
			for _, c := range cs {
				call(c)
			}
		}
	case "sorted-map", "chain":
		// keys ascend with n: the last turn first, the closures of a turn in order
		for t := len(perTurn) - 1; t >= 0; t-- {
			for _, c := range perTurn[t] {
				call(c)
			}
		}
	case "next-turn":
		call(*prev)
		for i := len(nextTurnVals) - 1; i >= 0; i-- {
			out = append(out, nextTurnVals[i])
		}
	default: // cons, global: everything reversed
		if e.escape == "global" {
			out = append(out, c02EscCall{val: int64(N), turn: -1})
		}
		for t := len(perTurn) - 1; t >= 0; t-- {
			for j := len(perTurn[t]) - 1; j >= 0; j-- {
				call(perTurn[t][j])
			}
		}
	}
	return out
}

func c02EscRender(cs []c02EscCall) string {
	var sb strings.Builder
	sb.WriteString("'(")
	for i, c := range cs {
		if i > 0 {
			sb.WriteByte(' ')
		}
		sb.WriteString(strconv.FormatInt(c.val, 10))
	}
	sb.WriteByte(')')
	return sb.String()
}

// c02EscKey names the class of a wrong value: the escape route, the mutation and the way
// the first closure that returned a wrong value captured its turn.
func (e *c02Esc) key(want []c02EscCall, got string) string {
	kind := "whole-result"
	g := strings.Fields(strings.Trim(strings.TrimSpace(got), "'()"))
	if strings.HasPrefix(got, "'(") && len(g) == len(want) {
		for i, c := range want {
			if g[i] != strconv.FormatInt(c.val, 10) {
				if c.turn >= 0 {
					kind = c.kind
				} else {
					kind = "loop-value"
				}
				break
			}
		}
	}
	x := e.extra
	if x == "" {
		x = "none"
	}
	return fmt.Sprintf("escape=%s/capture=%s/mutate=%s/extra=%s", e.escape, kind, e.mutate, x)
}
