package props

// C14, LARGE declarations (round 10).
//
// "For all schemas composed from the constraint constructors": how many
// allowed values an s:in lists, how many keys a record declares, how many
// alternative types an s:of / s:has-key offers, how many constraints a
// validator carries and how long the measured value is are dimensions of that
// space which the workload held at 1-4 (lengths up to 6, arrays up to 8).  An
// implementation is free to change strategy with size (scan below a threshold,
// index above it); the documented meaning does not change with it.  Every
// tenth case therefore appends one case of this family: c14x.SizedSchema
// builds a top validator around ONE large declaration (size 5..max, half of
// the draws at a power of two or round number +-1), the value generator aims
// at every position of it, and the outcomes go through the same judgement,
// twins and attribution as every other well-formed case.  The oracle is the
// one of the ordinary workload - the model evaluates an enumeration of 70
// members exactly as one of 3.

import (
	"fmt"
	"strings"

	"verifharness/c14x"
	"verifharness/fw"
	"verifharness/rt"
)

func c14SizeMax(tier string) int {
	if tier == "thorough" {
		return 300
	}
	return 72
}

func c14SizedCase(w *fw.W, idx int) {
	rng := w.RNG(idx, "sized")
	c := &c14Ctx{w: w, idx: idx, g: &c14x.Gen{R: rng, Prefix: "c14z", Size: c14SizeMax(w.Tier)}}
	c.g.EqRef = c.eqRef
	c.g.OnKin = func(kin string, verdict int) {
		top := kin
		if i := strings.Index(kin, ":members:"); i >= 0 {
			top = kin[:i] + ":members"
		}
		if c.sized != nil && c.sized.Family == "in" {
			// the class the seeded index missed: an input that is kin to an allowed
			// value of a LARGE enumeration
			c.w.SetAdd("sized_in_kin_met", c14x.SizeBucket(c.sized.N)+" "+top+fmt.Sprintf(" equal?=%d", verdict))
		}
		c.w.CoverKey(fmt.Sprintf("sized-in-kin|%s|%d", kin, verdict))
	}
	c.r = rt.New(rt.Opts{NoProbes: true})
	if t := c.r.Run("c14prelude", c14Prelude); t.IsErr {
		w.Violation("harness:prelude-failed", "prelude did not evaluate: "+t.Cond+" "+t.Msg, c14Prelude)
		return
	}
	// families in rotation, so that none depends on the luck of the draw
	fam := c14x.SizedFamilies[(idx/10)%len(c14x.SizedFamilies)]
	top, info := c.g.SizedSchema(fam)
	if !c.define(c.g.Defs) {
		return
	}
	c.sized = info
	b := c14x.SizeBucket(info.N)
	w.Count("sized_cases:"+fam, 1)
	w.Count("sized_cases_by_size:"+fam+":"+b, 1)
	w.Max("sized_largest:"+fam, int64(info.N))
	w.SetAdd("sized_placements", fam+" "+info.Placement)
	w.SetAdd("sized_flavours", fam+" "+info.Flavour)
	w.SetAdd("sized_sizes:"+fam, fmt.Sprintf("%03d", info.N))
	c.judge(top, "sized="+fam+"/"+info.Placement+"/"+b+"|")
}

// sizedObserve records what the large declaration met: outcome per family and
// size class, and - for enumerations - where in the list the input's match
// sits.
func (c *c14Ctx) sizedObserve(v *c14x.Value, kind string, model c14x.Out, real string) {
	info := c.sized
	b := c14x.SizeBucket(info.N)
	c.w.Count("sized_outcomes:"+info.Family+":"+real, 1)
	c.w.SetAdd("sized_outcomes_by_size", info.Family+" "+b+" "+real)
	if model.Judged() {
		c.w.Count("sized_judged:"+info.Family, 1)
	}
	if info.Family != "in" {
		return
	}
	// the value that meets the enumeration (the top value, or what sits under it)
	for _, x := range c14Leaves(v) {
		pos, rel := "none", "no-member"
		for i, a := range info.Focus.Vals {
			r := ""
			if x.Canon(true) == a.Canon(true) {
				r = "the-member-itself"
			} else if k := c14x.KinOf(x, a); k != "" {
				r = k
			}
			if r == "" {
				continue
			}
			rel = r
			switch {
			case i == 0:
				pos = "first"
			case i == len(info.Focus.Vals)-1:
				pos = "last"
			default:
				pos = "inner"
			}
			break
		}
		if i := strings.Index(rel, ":members:"); i >= 0 {
			rel = rel[:i] + ":members"
		}
		c.w.SetAdd("sized_in_input_vs_member", b+" "+rel)
		c.w.CoverKey("sized-in|" + b + "|" + info.Placement + "|" + rel + "|" + pos + "|" + kind + "|" + real)
		c.w.Count("sized_in_member_position:"+pos, 1)
	}
}

// c14Leaves: the value and, for containers, their direct members (the large
// enumeration sits behind s:has-key / s:of / s:when in half of the cases).
func c14Leaves(v *c14x.Value) []*c14x.Value {
	out := []*c14x.Value{v}
	out = append(out, v.Elems...)
	for _, e := range v.Entries {
		out = append(out, e.Val)
	}
	if len(out) > 12 {
		out = out[:12]
	}
	return out
}

// attrWholeEnum names the finding when an s:in misjudges an input although
// each of its allowed values, alone in an enumeration of one, is compared as
// documented: the defect is in how the LIST is held.  The class in the key is
// the relation of the input to the allowed value it should have matched (or
// "no-member"); the smallest prefix of the list that still shows it goes into
// the minimal reproduction.
func (c *c14Ctx) attrWholeEnum(k *c14x.Cons, v *c14x.Value, expr string, cu *c14Culprit) {
	rel, at := "no-member", -1
	for i, a := range k.Vals {
		if v.Canon(true) == a.Canon(true) {
			rel, at = "the-member-itself", i
			break
		}
		if kin := c14x.KinOf(v, a); kin != "" && (at < 0 || c14x.EvalCons(&c14x.Cons{Op: "in", Vals: []*c14x.Value{a}, EqRef: k.EqRef}, v) == c14x.Accept) {
			rel, at = kin, i
			if i := strings.Index(rel, ":members:"); i >= 0 {
				rel = rel[:i] + ":members"
			}
		}
	}
	cu.cls = "enumeration-as-a-whole:" + rel
	// smallest enumeration that shows it: the matching member first, then the others one by one
	vals := append([]*c14x.Value{}, k.Vals...)
	if at > 0 {
		vals[0], vals[at] = vals[at], vals[0]
	}
	for n := 2; n <= len(vals); n++ {
		sub := &c14x.Cons{Op: "in", Vals: vals[:n], EqRef: k.EqRef}
		src := c14Iso("s:any " + sub.Src())
		if dir, got := c.mism(src, c14x.EvalCons(sub, v), expr); dir != "" {
			cu.src, cu.dir, cu.got, cu.want = src, dir, got, c14x.EvalCons(sub, v)
			c.w.SetAdd("whole_enum_smallest_size_showing_it", fmt.Sprintf("%03d", n))
			return
		}
	}
}

// c14SizedDriver is the coverage floor of the family.
func c14SizedDriver(d *fw.D) {
	total := int64(0)
	for _, f := range c14x.SizedFamilies {
		total += d.Counters["sized_cases:"+f]
	}
	if d.Counters["c14_sized_due"] == 0 {
		return // a replay or a truncated run without a case of the family
	}
	if total == 0 {
		d.Inconclusive("large declarations: the family generated nothing")
		return
	}
	for _, f := range c14x.SizedFamilies {
		if d.Counters["sized_cases:"+f] == 0 {
			d.Inconclusive("large declarations: no case of family " + f)
			continue
		}
		if d.Counters["sized_outcomes:"+f+":accept"] == 0 {
			d.Inconclusive("large declarations: no value was accepted by a validator of family " + f)
		}
		if d.Counters["sized_outcomes:"+f+":failed-constraint"]+d.Counters["sized_outcomes:"+f+":wrong-type"] == 0 {
			d.Inconclusive("large declarations: no value was refused by a validator of family " + f)
		}
	}
	if d.Counters["c14_sized_due"] < 50 {
		return // too few cases for the spread below to be expected
	}
	// enumerations: inputs that are kin to an allowed value, and the allowed
	// value itself, met in at least four size classes
	kin, self := map[string]bool{}, map[string]bool{}
	for m := range d.Sets["sized_in_input_vs_member"] {
		b, rel, _ := strings.Cut(m, " ")
		switch {
		case rel == "the-member-itself":
			self[b] = true
		case rel != "no-member":
			kin[b] = true
		}
	}
	if len(kin) < 4 || len(self) < 4 {
		d.Inconclusive(fmt.Sprintf("large declarations: enumerations met their own members in %d size classes and kin of them in %d, 4 of each expected", len(self), len(kin)))
	}
	for _, pos := range []string{"first", "inner", "last", "none"} {
		if d.Counters["sized_in_member_position:"+pos] == 0 {
			d.Inconclusive("large declarations: no input of an enumeration matched at position " + pos)
		}
	}
}
