package props

import (
	"context"
	"fmt"
	"os"
	"strings"
	"time"

	"github.com/luthersystems/elps/lisp"

	"verifharness/fw"
	"verifharness/rt"
)

// C03 (5) — re-entrant callbacks.
//
// The registry sweep hands every builtin hostile VALUES; the functions among them
// are pure.  A builtin that takes a function together with a container calls back
// into arbitrary lisp while it is in the middle of its own work on that container,
// and the callback can reach the very same container (it is a reference: a global,
// a closure variable, a view over the same storage).  Whatever the builtin read
// from the container before the callback (a length, a slice of cells, a precomputed
// table) and whatever it reads after it need not agree.  This family makes that
// dimension vary:
//
//   - WHO calls back is discovered, not listed: every function / operator / macro of
//     the registry is called, at arities 2..5, with the counting callback in one
//     position, a container in another (or in none) and fillers (a type specifier, a
//     pure predicate, a number) elsewhere; a (function, arity, callback position,
//     container position) where the callback is invoked at all is a *site*.  A short
//     list of call forms that are not a positional application (handler-bind,
//     compose / flip / curry-function wrappers, thread-last, dotimes over the length,
//     enumerating the keys of a map) is added as sites of their own.
//   - WHAT the callback does, on its k-th invocation (k = 1, 2, last, every): one
//     thing to the container it was invoked over, or to the vector a view was taken
//     from, or to a view of it, or to the element it was handed: append! (one, two
//     separate, nine at once), append-bytes!, assoc! (new / existing key), dissoc!,
//     the in-place elpspath operations (?set! ?del! ?del! twice ?nil!), a nested
//     stable-sort of the same container, re-binding the variable that holds it,
//     raising an error, calling the same builtin again on the same container,
//     re-entering the evaluator through load-string.
//   - over vectors (exactly full and with spare capacity), lists (built and quoted),
//     bytes, sorted-maps, a host-built two-dimensional array, list views (rest) and
//     slices of a vector, vectors of vectors; sizes 2, 3, 8, 25, 50 (the sort
//     switches algorithm at 20).
//
// Oracle: the one of the rest of C03 — the call returns, no Go panic escapes, the
// answer is not the internal-panic condition, the worker survives; and the container
// and the result are still consistent values for a few readers afterwards.  WHAT the
// builtin answers when its container changes under it is not specified and not judged.

// --- what the callback acts on -----------------------------------------------------------

// c03ReKind builds c03-c (what the builtin is handed) and c03-t (what the callback
// acts on).  %E stands for the elements (numbers, a permutation), %H for the first
// half of them, %S for a string of as many letters, %M for key/value pairs, %V for
// one-element vectors of them; onArg makes the callback act on its own first argument.
type c03ReKind struct {
	name, build string
	onArg       bool
}

var c03ReKinds = []c03ReKind{
	{"vector", "(set 'c03-c (lisp:vector %E)) (set 'c03-t c03-c)", false},
	{"vector-with-spare-capacity", "(set 'c03-c (lisp:vector %H)) (append! c03-c %R) (set 'c03-t c03-c)", false},
	{"list", "(set 'c03-c (lisp:list %E)) (set 'c03-t c03-c)", false},
	{"quoted-list", "(set 'c03-c '(%E)) (set 'c03-t c03-c)", false},
	{"bytes", "(set 'c03-c (to-bytes \"%S\")) (set 'c03-t c03-c)", false},
	{"sorted-map", "(set 'c03-c (sorted-map %M)) (set 'c03-t c03-c)", false},
	{"host-array-2xN", "(set 'c03-c c03-host-array) (set 'c03-t c03-c)", false},
	{"list-view-of-vector:callback-acts-on-the-vector", "(set 'c03-t (lisp:vector 0 %E)) (set 'c03-c (rest c03-t))", false},
	{"vector:callback-acts-on-a-list-view-of-it", "(set 'c03-c (lisp:vector %E)) (set 'c03-t (rest c03-c))", false},
	{"slice-of-vector:callback-acts-on-the-vector", "(set 'c03-t (lisp:vector 0 %E 0)) (set 'c03-c (slice 'vector c03-t 1 (- (length c03-t) 1)))", false},
	{"vector-of-vectors:callback-acts-on-its-argument", "(set 'c03-c (lisp:vector %V)) (set 'c03-t c03-c)", true},
}

// kinds tried when the site has no container argument: the callback acts on a bystander
var c03ReBystanderKinds = []int{0, 5}

// kinds used to find out whether a tuple calls back at all
var c03ReScoutKinds = []int{0, 2, 5, 4}

// --- what the callback does --------------------------------------------------------------

type c03ReAction struct {
	name, text string
	unguarded  bool // an error raised by the action leaves the callback
}

var c03ReActions = []c03ReAction{
	{"append!", "(append! c03-t 0)", false},
	{"append!-twice", "(append! c03-t 0)|(append! c03-t 1)", false},
	{"append!-nine-at-once", "(append! c03-t 0 0 0 0 0 0 0 0 0)", false},
	{"append-bytes!", "(append-bytes! c03-t \"zz\")", false},
	{"assoc!-new-key", "(assoc! c03-t \"zz\" 0)", false},
	{"assoc!-existing-key", "(assoc! c03-t \"a\" 7)|(assoc! c03-t 0 7)", false},
	{"dissoc!", "(dissoc! c03-t \"a\")", false},
	{"elpspath-?set!", "(elpspath:?set! c03-t 0 7)|(elpspath:?set! c03-t \"a\" 7)", false},
	{"elpspath-?del!", "(elpspath:?del! c03-t 0)|(elpspath:?del! c03-t \"a\")", false},
	{"elpspath-?del!-twice", "(elpspath:?del! c03-t 0)|(elpspath:?del! c03-t 0)|(elpspath:?del! c03-t \"a\")|(elpspath:?del! c03-t \"b\")", false},
	{"elpspath-?nil!", "(elpspath:?nil! c03-t 0)|(elpspath:?nil! c03-t \"a\")", false},
	{"nested-stable-sort", "(stable-sort c03-gt c03-t)", false},
	{"rebind-the-variable", "(set! c03-c (lisp:vector))|(set 'c03-t c03-c)", false},
	{"raise", "(error 'c03-from-callback 1)", true},
	{"same-call-again", "%CALL", false},
	{"load-string", "(load-string \"(append! c03-t 0)\")", false},
}

// --- what the callback answers -----------------------------------------------------------

var c03ReModes = []struct{ name, ret string }{
	// one argument: a key / mapping function; two: a strict order on numbers
	{"natural", "(cond ((nil? xs) true) ((nil? (cdr xs)) (car xs)) (else (c03-lt (car xs) (car (cdr xs)))))"},
	{"true", "true"},
	{"false", "false"},
}

// definitions a runtime gets once
const c03RePrelude = `(defun c03-lt (a b) (if (and (number? a) (number? b)) (< a b) false))
(defun c03-gt (a b) (if (and (number? a) (number? b)) (> a b) false))
(defun c03-refused (&rest e) 'c03-refused)
(set 'c03-n 0) (set 'c03-k 0) (set 'c03-did 0) (set 'c03-c ()) (set 'c03-t ())`

func c03ReGuard(form string) string {
	return "(handler-bind ([condition c03-refused]) " + form + ")"
}

// readers applied after the call: the callback count, how often the action took
// effect, and a few walks over what the builtin worked on
var c03RePost = "(lisp:list " + c03ReGuard("(length c03-c)") + " " + c03ReGuard("(length c03-t)") + " " +
	c03ReGuard("(format-string \"{} {}\" c03-c c03-t)") + " " + c03ReGuard("(equal? c03-c c03-t)") + " " +
	c03ReGuard("(map 'list identity c03-c)") + " " + c03ReGuard("(json:dump-string c03-t)") + " " + c03ReGuard("(nth c03-c (- (length c03-c) 1))") + ")"

// --- sites -------------------------------------------------------------------------------------

// c03ReSite is one way of getting the callback called: a call form over c03-cb (the
// callback), c03-c (the container) and fillers.
type c03ReSite struct {
	fn   string // package:name, or the name of a listed call form
	role string // where the callback sits: "callback-as-key-fun" (the formal it binds), or the listed form's own name
	form string
	hasC bool
}

// call forms that are not a positional application of one registered function
var c03ReListedSites = []c03ReSite{
	{"lisp:handler-bind", "handler-of-an-error-carrying-the-container", "(handler-bind ([condition c03-cb]) (error 'c03-boom c03-c))", true},
	{"lisp:handler-bind", "handler-around-map-over-the-container", "(handler-bind ([condition c03-cb]) (map 'vector (lambda (x) (error 'c03-boom x)) c03-c))", true},
	{"lisp:compose", "composed-outer-in-map", "(map 'vector (compose c03-cb identity) c03-c)", true},
	{"lisp:compose", "composed-inner-in-map", "(map 'vector (compose identity c03-cb) c03-c)", true},
	{"lisp:compose", "composed-key-function-of-stable-sort", "(stable-sort c03-lt c03-c (compose c03-cb identity))", true},
	{"lisp:flip", "flipped-in-foldl", "(foldl (flip c03-cb) 0 c03-c)", true},
	{"lisp:flip", "flipped-predicate-of-stable-sort", "(stable-sort (flip c03-cb) c03-c)", true},
	{"lisp:curry-function", "curried-in-map", "(map 'vector (curry-function c03-cb 1) c03-c)", true},
	{"lisp:thread-last", "threaded-into-map", "(thread-last c03-c (map 'vector c03-cb))", true},
	{"lisp:thread-first", "threaded-into-stable-sort-with-key-function", "(thread-first c03-lt (stable-sort c03-c c03-cb))", true},
	{"lisp:dotimes", "body-over-the-length", "(dotimes (i (length c03-c)) (c03-cb (nth c03-c i)))", true},
	{"lisp:keys", "map-over-the-keys-of-the-container", "(map 'list (lambda (k) (c03-cb (get c03-c k))) (keys c03-c))", true},
	{"lisp:funcall", "funcall-of-a-lambda-calling-map", "(funcall (lambda (f s) (map 'list f s)) c03-cb c03-c)", true},
	{"lisp:apply", "apply-of-map", "(apply map 'vector c03-cb (lisp:list c03-c))", true},
	{"lisp:unpack", "unpack-of-stable-sort-with-key-function", "(unpack stable-sort (lisp:list c03-lt c03-c c03-cb))", true},
}

var c03ReFillers = []string{"2", "c03-lt", "'vector"}

const c03ReMaxArity = 5

type c03ReRun struct {
	site   c03ReSite
	kind   int
	mode   int
	action int // -1: none
	k      int // 0: every invocation
	size   int
}

// c03ReElems: the elements of one container of the given size: 1..size in a fixed
// scrambled order (the same every time, so that a run can be redone).
func c03ReElems(size int) []int {
	gcd := func(a, b int) int {
		for b != 0 {
			a, b = b, a%b
		}
		return a
	}
	step := size/2 + 1
	for gcd(step, size) != 1 {
		step++
	}
	es := make([]int, size)
	for i := range es {
		es[i] = (i*step+1)%size + 1
	}
	return es
}

func c03ReBuild(kind c03ReKind, size int) string {
	es := c03ReElems(size)
	var e, h, rest, s, m, v []string
	for i, x := range es {
		e = append(e, fmt.Sprint(x))
		if i < (size+1)/2 {
			h = append(h, fmt.Sprint(x))
		} else {
			rest = append(rest, fmt.Sprint(x))
		}
		s = append(s, string(rune('a'+x%26)))
		// "a" and "b" are keys of every map (the actions address them)
		key := string(rune('a'+i%26)) + strings.Repeat("x", i/26)
		m = append(m, fmt.Sprintf("%q %d", key, x))
		v = append(v, fmt.Sprintf("(lisp:vector %d)", x))
	}
	if len(rest) == 0 {
		rest = []string{"0"}
	}
	return strings.NewReplacer("%E", strings.Join(e, " "), "%H", strings.Join(h, " "), "%R", strings.Join(rest, " "),
		"%S", strings.Join(s, ""), "%M", strings.Join(m, " "), "%V", strings.Join(v, " ")).Replace(kind.build)
}

// c03ReCallback is the definition of the callback of one run.
func c03ReCallback(run c03ReRun) string {
	kind := c03ReKinds[run.kind]
	var sb strings.Builder
	sb.WriteString("(defun c03-cb (&rest xs)\n  (set 'c03-n (+ c03-n 1))\n")
	if run.action >= 0 {
		act := c03ReActions[run.action]
		sb.WriteString("  (if (or (= c03-k 0) (= c03-n c03-k)) (progn")
		if kind.onArg {
			sb.WriteString(" (if (nil? xs) () (set 'c03-t (car xs)))")
		}
		for _, step := range strings.Split(act.text, "|") {
			step = strings.ReplaceAll(step, "%CALL", run.site.form)
			if act.unguarded {
				sb.WriteString(" " + step)
			} else {
				// c03-did counts the steps that were not refused
				sb.WriteString(" (if (equal? 'c03-refused " + c03ReGuard(step) + ") () (set 'c03-did (+ c03-did 1)))")
			}
		}
		sb.WriteString(") ())\n")
	}
	sb.WriteString("  " + c03ReModes[run.mode].ret + ")")
	return sb.String()
}

// c03ReProgram is the source text of one run (what a violation shows, and what is
// loaded to confirm one); the runs themselves evaluate the same forms, read once.
func c03ReProgram(run c03ReRun) string {
	return fmt.Sprintf("(set 'c03-n 0) (set 'c03-did 0) (set 'c03-k %d)\n", run.k) +
		c03ReBuild(c03ReKinds[run.kind], run.size) + "\n" + c03ReCallback(run) + "\n" + run.site.form
}

var c03ReOpts = rt.Opts{MaxSteps: 100_000, MaxAlloc: 200_000, MaxPhys: 2000}

func c03ReRuntime() *rt.R {
	rr := rt.New(c03ReOpts)
	rr.Env.LoadString("c03-reentrant-prelude", c03RePrelude)
	return rr
}

// c03ReHostArray: a fresh 2 x n array of numbers, put where the program finds it.
func c03ReHostArray(rr *rt.R, size int) {
	n := (size + 1) / 2
	es := c03ReElems(2 * n)
	cells := make([]*lisp.LVal, len(es))
	for i, x := range es {
		cells[i] = lisp.Int(x)
	}
	arr := lisp.Array(lisp.QExpr([]*lisp.LVal{lisp.Int(2), lisp.Int(n)}), cells)
	rr.Env.PutGlobal(lisp.Symbol("c03-host-array"), arr)
}

type c03ReResult struct {
	failure, summary string // failure "" when the answer is acceptable
	calls, did       int    // callback invocations, action steps that took effect
	outcome          string
}

// c03ReForms: source fragments are read once per worker and evaluated many times
// (reading costs several times what these small evaluations cost).
var c03ReFormCache = map[string][]*lisp.LVal{}

func c03ReForms(rr *rt.R, text string) []*lisp.LVal {
	if fs, ok := c03ReFormCache[text]; ok {
		return fs
	}
	fs, err := rr.Env.Runtime.Reader.Read("c03-reentrant", strings.NewReader(text))
	if err != nil {
		panic("c03 re-entrant callbacks: harness text does not read: " + err.Error() + "\n" + text)
	}
	c03ReFormCache[text] = fs
	return fs
}

// c03ReJudge: failure is "" when the answer is acceptable.
func c03ReJudge(v *lisp.LVal, escaped any) (failure, summary string) {
	switch {
	case escaped != nil:
		return "go-panic", fmt.Sprintf("panicked in Go: %v", escaped)
	case v == nil:
		return "nil-result", "returned a nil *LVal to the host"
	case lisp.IsInternalPanic(v):
		return "internal-panic", "answered with internal-panic: " + trunc(rt.ErrMsg(v), 300)
	}
	return "", ""
}

// c03ReEval evaluates forms like a load does: in order, until one fails.
func c03ReEval(rr *rt.R, forms []*lisp.LVal) (v *lisp.LVal, failure, summary string) {
	ctx, cancel := context.WithTimeout(context.Background(), 30*time.Second)
	defer cancel()
	var escaped any
	func() {
		defer func() { escaped = recover() }()
		v = lisp.Nil()
		for _, f := range forms {
			v = rr.Env.EvalContext(ctx, f)
			if v == nil || v.Type == lisp.LError {
				return
			}
		}
	}()
	failure, summary = c03ReJudge(v, escaped)
	return v, failure, summary
}

// c03ReExec performs one run: the container, the callback, the call, then (unless
// only the number of invocations is wanted) the readers.
func c03ReExec(rr *rt.R, run c03ReRun, readers bool) (res c03ReResult) {
	if strings.HasPrefix(c03ReKinds[run.kind].name, "host-array") {
		c03ReHostArray(rr, run.size)
	}
	env := rr.Env
	env.PutGlobal(lisp.Symbol("c03-n"), lisp.Int(0))
	env.PutGlobal(lisp.Symbol("c03-did"), lisp.Int(0))
	env.PutGlobal(lisp.Symbol("c03-k"), lisp.Int(run.k))
	if _, failure, summary := c03ReEval(rr, c03ReForms(rr, c03ReBuild(c03ReKinds[run.kind], run.size)+"\n"+c03ReCallback(run))); failure != "" {
		res.failure, res.summary = failure+"-while-building-the-container", summary
		return res
	}
	v, failure, summary := c03ReEval(rr, c03ReForms(rr, run.site.form))
	if failure != "" {
		res.failure, res.summary = failure, summary
		return res
	}
	res.outcome = "value"
	if v.Type == lisp.LError {
		res.outcome = v.Str
	} else if readers {
		// the result is printed like a host would print it
		func() {
			defer func() {
				if e := recover(); e != nil {
					res.failure, res.summary = "go-panic", fmt.Sprintf("printing the result panicked in Go: %v", e)
				}
			}()
			_ = v.String()
		}()
		if res.failure != "" {
			return res
		}
	}
	if n := env.GetGlobal(lisp.Symbol("c03-n")); n.Type == lisp.LInt {
		res.calls = n.Int
	}
	if n := env.GetGlobal(lisp.Symbol("c03-did")); n.Type == lisp.LInt {
		res.did = n.Int
	}
	if !readers {
		return res
	}
	if _, failure, summary := c03ReEval(rr, c03ReForms(rr, c03RePost)); failure != "" {
		res.failure, res.summary = failure+"-afterwards", "after the call, reading the container "+summary
	}
	return res
}

// c03ReConfirm loads the run as one source text in a fresh runtime: does the failure
// show there too?
func c03ReConfirm(run c03ReRun) string {
	rr := c03ReRuntime()
	if strings.HasPrefix(c03ReKinds[run.kind].name, "host-array") {
		c03ReHostArray(rr, run.size)
	}
	ctx, cancel := context.WithTimeout(context.Background(), 30*time.Second)
	defer cancel()
	var v *lisp.LVal
	var escaped any
	func() {
		defer func() { escaped = recover() }()
		v = rr.Env.LoadStringContext(ctx, "c03-reentrant", c03ReProgram(run))
	}()
	if failure, summary := c03ReJudge(v, escaped); failure != "" {
		return "loaded as one source text in a fresh runtime it " + summary
	}
	shown := ""
	func() {
		defer func() {
			if e := recover(); e != nil {
				shown = fmt.Sprintf("a value whose printing panics in Go: %v", e)
			}
		}()
		shown = trunc(v.String(), 120)
	}()
	return "loaded as one source text in a fresh runtime it answers " + shown
}

// c03ReTuples enumerates the positional call forms of one function at one arity:
// the callback in one position, the container in another or in none, fillers elsewhere.
func c03ReTuples(name string, formals []string, arity int, visit func(site c03ReSite, group string)) {
	nf := len(c03ReFillers)
	for cb := 0; cb < arity; cb++ {
		for c := -1; c < arity; c++ {
			if c == cb {
				continue
			}
			free := arity - 1
			if c >= 0 {
				free--
			}
			for code := 0; code < c03Pow(nf, free); code++ {
				args := make([]string, arity)
				x := code
				for i := range args {
					switch i {
					case cb:
						args[i] = "c03-cb"
					case c:
						args[i] = "c03-c"
					default:
						args[i] = c03ReFillers[x%nf]
						x /= nf
					}
				}
				// the position is named after the formal it binds (the last one takes the rest)
				role := fmt.Sprintf("callback-as-argument-%d", cb+1)
				if len(formals) > 0 {
					role = "callback-as-" + formals[min(cb, len(formals)-1)]
				}
				site := c03ReSite{fn: name, role: role, form: "(" + name + " " + strings.Join(args, " ") + ")", hasC: c >= 0}
				visit(site, fmt.Sprintf("%d/%d/%d", arity, cb, c))
			}
		}
	}
}

// c03ReDiscover finds the sites of one registered function: tuples on which the
// counting callback is invoked at all.  Per (arity, callback position, container
// position) the first filler variant that calls back is kept, and its twin with the
// other sequence type specifier.
func c03ReDiscover(w *fw.W, idx int, f c03Fun, stop *func(), reported map[string]bool) []c03ReSite {
	name := f.pkg + ":" + f.name
	maxAr := f.nformals
	if f.variadic {
		maxAr++
	}
	if maxAr > c03ReMaxArity {
		maxAr = c03ReMaxArity
	}
	rr := c03ReRuntime()
	found := map[string]bool{}
	var out []c03ReSite
	for arity := 2; arity <= maxAr; arity++ {
		c03ReTuples(name, f.formals, arity, func(site c03ReSite, group string) {
			if found[group] {
				return
			}
			kinds := c03ReScoutKinds
			if !site.hasC {
				kinds = kinds[:1]
			}
			for _, kind := range kinds {
				run := c03ReRun{site: site, kind: kind, mode: 0, action: -1, size: 3}
				(*stop)()
				*stop = c03Watch(w, idx, "re-entrant callbacks, looking for call sites: "+site.form)
				res := c03ReExec(rr, run, false)
				w.Eval(1)
				w.Count("reentrant_discovery_calls", 1)
				if strings.HasPrefix(res.failure, "go-panic") {
					rr = c03ReRuntime()
				}
				// with a pure callback a failure is the value sweep's business; it is
				// reported all the same, under its own key
				if res.failure != "" {
					if key := fmt.Sprintf("%s-from-reentrant-callback:%s:%s:pure-callback:%s", res.failure, site.fn, site.role, c03ReKinds[kind].name); !reported[key] {
						reported[key] = true
						w.Violation(key, site.form+" with a pure callback "+res.summary+"; "+c03ReConfirm(run), c03ReProgram(run))
					}
					return
				}
				if res.calls > 0 {
					found[group] = true
					out = append(out, site)
					if strings.Contains(site.form, "'vector") {
						twin := site
						twin.form = strings.ReplaceAll(site.form, "'vector", "'list")
						out = append(out, twin)
					}
					return
				}
			}
		})
	}
	if len(out) > 16 {
		w.Count("reentrant_sites_beyond_the_cap_of_16_per_function", int64(len(out)-16))
		out = out[:16]
	}
	return out
}

var c03ReSizes = []int{3, 8, 2, 25, 50}

// c03Reentrant: case z works on one registered function (or on the listed call
// forms): discovery, then every kind x action x k on every site found.
func c03Reentrant(w *fw.W, idx, z int) {
	st := w.State.(*c03State)
	stop := c03Watch(w, idx, "re-entrant callbacks")
	defer func() { stop() }()
	nslots := len(st.funs) + len(c03ReListedSites) // the last slots: the listed call forms
	slot, rep := z%nslots, z/nslots
	r := w.RNG(idx, "reentrant")
	size := 0
	if rep < len(c03ReSizes) {
		size = c03ReSizes[rep]
	} else {
		size = r.Range(2, 60)
	}
	reported := map[string]bool{}
	var sites []c03ReSite
	if slot >= len(st.funs) {
		sites = c03ReListedSites[slot-len(st.funs) : slot-len(st.funs)+1]
	} else {
		sites = c03ReDiscover(w, idx, st.funs[slot], &stop, reported)
	}
	w.Count("reentrant_functions_examined", 1)
	for _, site := range sites {
		kinds := make([]int, 0, len(c03ReKinds))
		if site.hasC {
			for i := range c03ReKinds {
				kinds = append(kinds, i)
			}
		} else {
			kinds = c03ReBystanderKinds
		}
		rr := c03ReRuntime()
		siteLive := false
		for _, kind := range kinds {
			kname := c03ReKinds[kind].name
			if !site.hasC {
				kname += ":not-an-argument"
			}
			exec := func(run c03ReRun, what string) (c03ReResult, bool) {
				stop()
				stop = c03Watch(w, idx, "re-entrant callback: "+site.form+" "+what)
				res := c03ReExec(rr, run, true)
				w.Eval(1)
				w.Count("reentrant_runs", 1)
				if w.Verbose {
					w.Logf("%s\n%s\n  => %+v", what, c03ReProgram(run), res)
				}
				if res.failure == "" {
					return res, true
				}
				if strings.HasPrefix(res.failure, "go-panic") {
					rr = c03ReRuntime()
				}
				an := "pure-callback"
				if run.action >= 0 {
					an = c03ReActions[run.action].name
				}
				key := fmt.Sprintf("%s-from-reentrant-callback:%s:%s:%s:%s", res.failure, site.fn, site.role, an, kname)
				if !reported[key] {
					reported[key] = true
					w.Violation(key, fmt.Sprintf("%s with a callback that does %s (%s) over a %s of %d elements %s; %s", site.form, an, what, kname, run.size, res.summary, c03ReConfirm(run)), c03ReProgram(run))
				}
				return res, false
			}
			// which answer of the callback makes the builtin call it most often, and how often
			mode, calls := 0, 0
			for m := range c03ReModes {
				res, ok := exec(c03ReRun{site: site, kind: kind, mode: m, action: -1, size: size}, "pure, answering "+c03ReModes[m].name)
				if ok && res.calls > calls {
					mode, calls = m, res.calls
				}
			}
			if calls == 0 {
				w.Count("reentrant_site_x_kind_without_a_callback", 1)
				continue
			}
			siteLive = true
			w.Max("reentrant_max_callback_invocations_of_one_call", int64(calls))
			// small containers: the first, the second, the last and every invocation; large
			// ones (a call makes hundreds of invocations): the first, the last (a drawn one
			// past the fixed sizes), and every invocation only for the two cheapest actions
			ks := []int{1, 0}
			if calls >= 2 && size <= 8 {
				ks = append(ks, 2)
			}
			if calls >= 3 {
				ks = append(ks, calls)
			}
			if rep >= len(c03ReSizes) && calls >= 5 {
				ks = append(ks, r.Range(3, calls-1))
			}
			for a, act := range c03ReActions {
				for _, k := range ks {
					if k == 0 && act.name == "same-call-again" {
						continue // unbounded by construction; the stack limit is C04's subject
					}
					if k == 0 && size > 8 && act.name != "append!" && act.name != "elpspath-?del!" {
						continue
					}
					kn := fmt.Sprintf("on invocation %d of %d", k, calls)
					if k == 0 {
						kn = "on every invocation"
					}
					res, ok := exec(c03ReRun{site: site, kind: kind, mode: mode, action: a, k: k, size: size}, kn)
					if !ok {
						continue
					}
					w.Count("reentrant_callback_invocations", int64(res.calls))
					if res.did > 0 {
						w.Count("reentrant_runs_in_which_the_action_took_effect", 1)
						w.SetAdd("reentrant_actions_that_took_effect", act.name+" on "+kname)
						w.CoverKey("reentrant|" + act.name + "|" + kname + "|" + res.outcome)
					} else if act.unguarded {
						w.SetAdd("reentrant_actions_that_took_effect", act.name+" on "+kname)
					}
					w.CoverKey("reentrant|" + site.fn + "|" + site.role + "|" + res.outcome)
					w.SetAdd("reentrant_outcomes", res.outcome)
					if w.WantSample() && res.did > 0 && a%5 == 2 {
						w.Sample(map[string]any{"family": "re-entrant callback", "call": site.form, "callback_does": act.name, "when": kn, "container": kname, "size": size, "outcome": res.outcome})
					}
				}
			}
		}
		if siteLive {
			w.SetAdd("reentrant_call_sites", site.fn+" "+site.role)
			w.SetAdd("reentrant_call_forms", site.form)
		}
	}
}

// c03Driver: the floor of the re-entrant family (the other families are covered by
// the distinct-signature floor).  docs/func.md alone names more callback takers than
// the floor asks for: map foldl foldr select reject all? any? stable-sort (predicate,
// key function) insert-sorted (predicate, key function) search-sorted funcall apply unpack.
func c03Driver(d *fw.D) {
	// The driver prints the first ten distinct keys.  One defect of one builtin shows
	// under many keys of this family (every action that grows the container, every
	// vector kind), so the violations are ordered: first one per (failure, function,
	// callback position), then the others, each group in the order it was found.
	stem := func(key string) string {
		// the operator forms (c03_opforms.go): one per (failure, operator) first
		if i := strings.Index(key, "-from-operator-form:"); i >= 0 {
			parts := strings.Split(strings.TrimPrefix(key[i+len("-from-operator-form:"):], "composed:"), ":")
			if len(parts) >= 2 {
				return key[:i] + "-from-operator-form:" + parts[0] + ":" + strings.SplitN(parts[1], "(", 2)[0]
			}
			return key
		}
		if parts := strings.SplitN(key, ":", 5); len(parts) == 5 {
			return strings.Join(parts[:4], ":")
		}
		return key
	}
	seen := map[string]bool{}
	var first, rest []fw.Violation
	for _, v := range d.Violations {
		if s := stem(v.Key); !seen[s] {
			seen[s] = true
			first = append(first, v)
		} else {
			rest = append(rest, v)
		}
	}
	d.Violations = append(first, rest...)
	c03OfFloor(d)
	if os.Getenv("VERIF_CASES") != "" && d.Counters["reentrant_functions_examined"] == 0 {
		return // a truncated development run that reached no case of the family
	}
	if d.Counters["reentrant_runs_in_which_the_action_took_effect"] == 0 {
		d.Inconclusive("re-entrant callbacks: no run in which the callback's action took effect")
	}
	full := d.Counters["reentrant_functions_examined"] >= 200 // one whole pass over the registry
	if n := len(d.Sets["reentrant_call_sites"]); full && n < 15 {
		d.Inconclusive(fmt.Sprintf("re-entrant callbacks: discovery found only %d call sites", n))
	}
}
