package props

import (
	"fmt"
	"sort"
	"strings"

	"verifharness/fw"
)

// C11, family "call forms": the operations the property names, written in
// every call form their docstrings give them, the heap model unchanged.
//
// Until round 10 every history wrote each operation in ONE form: stable-sort
// only as (stable-sort < v), insert-sorted only as (insert-sorted 'T xs < x),
// append! only with integers, assoc! / dissoc! only as single statements,
// append-bytes(!) only with a string, zip with two lists, concat with one or two
// operands.  The property quantifies over the operations, not over one
// spelling of them, and an implementation is free to take another code path
// for an optional argument (stable-sort with a key-fun did: decorate, sort a
// scratch copy, re-seat the target's backing).  The dimension now varies:
//
//	stable-sort   less-predicate < or > (bare, quoted, #', a lambda); the optional
//	              key-fun: identity, negation, a non-injective key (mod: equal keys,
//	              stability decides), a constant key (a stable sort must then change
//	              nothing), `first` / (nth r 0) over rows (sequences of sequences); a
//	              predicate that looks into the rows; the target a named value, or a
//	              view taken in the same expression (slice / cdr / rest)
//	insert-sorted the optional key-fun, descending sequences under >, rows keyed by first
//	search-sorted a predicate reading a live sorted sequence, n the whole length or a prefix
//	append!       several values, live containers among them (element identity)
//	assoc!/dissoc!/assoc/dissoc  nested in one expression (the mutators return their
//	              target, the others a new map), (assoc () k v) "creates a new map"
//	append-bytes! / append-bytes / append 'bytes   the value a byte string (the
//	              target itself included), a list or vector of integers, a live sequence
//	zip           one list, three lists;  concat with no operand, three operands
//
// slice, cdr, rest, reverse, map, select, reject, cons, insert-index, keys, get
// have no optional parameter (slice's end is required).
//
// Oracle: the sentences of the property and of docs/lang.md "Sharing, copying
// and mutation" that the single forms are judged by, said of the operation and
// therefore of all its forms: stable-sort "sorts in place and returns the
// sequence it sorted", "an optional key-fun extracts comparison keys from
// elements", "the sort is stable" -- so the target's cells are permuted by key
// and every value sharing them (views, the source of a view) shows the new
// order; insert-sorted "returns a new sequence"; append! "appends values to vec,
// mutating it in place"; assoc! / dissoc! "return the modified map".  Where the
// position of an inserted item among equal keys would matter (rows), a key that
// ties with no element is drawn.
//
// Keys: call-form-disagreement:<operation>:<form>:<who>, who = target | result |
// value-sharing-storage-with-target | other-value.

var c11CallFormOps = []string{"rows", "stable-sort-keyed", "stable-sort-keyed", "stable-sort-keyed-view-inline", "stable-sort-rows",
	"insert-sorted-keyed", "search-sorted", "append!-values", "map-chain", "bytes-values", "zip-n", "concat-n"}

// c11CallForms lists the forms the floor demands (c11Driver).
var c11CallForms = []string{
	"stable-sort:key-fun=identity", "stable-sort:key-fun=negate", "stable-sort:key-fun=noninjective", "stable-sort:key-fun=constant",
	"stable-sort:key-fun=first-of-row", "stable-sort:predicate-on-rows", "stable-sort:predicate=descending",
	"stable-sort:key-fun:inline-slice", "stable-sort:key-fun:inline-cdr-rest",
	"insert-sorted:key-fun", "insert-sorted:descending", "search-sorted",
	"append!:container-values", "map-chain:mutators-only", "map-chain:mixed", "assoc:nil-map",
	"bytes:value=bytes", "bytes:value=integer-sequence", "append:bytes", "zip:one-list", "zip:three-lists", "concat:no-operand", "concat:three-operands",
}

func c11IsCallFormOp(op string) bool {
	for _, o := range c11CallFormOps {
		if o == op {
			return true
		}
	}
	return false
}

// c11WhoIsWrong names the value that disagrees with the model relative to the step.
func c11WhoIsWrong(h *c11Heap, mv *c11Val) string {
	switch {
	case h.targetVal != nil && mv == h.targetVal:
		return "target"
	case h.resultVal != nil && mv == h.resultVal:
		return "result"
	case h.targetVal != nil && mv.b != nil && mv.b == h.targetVal.b:
		return "value-sharing-storage-with-target"
	}
	return "other-value"
}

type c11KeyFun struct {
	class string
	src   string
	key   func(int64) int64
}

var c11KeyFuns = []c11KeyFun{
	{"identity", "identity", func(x int64) int64 { return x }},
	{"identity", "'identity", func(x int64) int64 { return x }},
	{"identity", "#'identity", func(x int64) int64 { return x }},
	{"identity", "(lambda (x) x)", func(x int64) int64 { return x }},
	{"negate", "-", func(x int64) int64 { return -x }},
	{"negate", "'-", func(x int64) int64 { return -x }},
	{"negate", "(lambda (x) (- x))", func(x int64) int64 { return -x }},
	{"negate", "(lambda (x) (- 100 x))", func(x int64) int64 { return 100 - x }},
	{"noninjective", "(lambda (x) (mod x 5))", func(x int64) int64 { return x % 5 }},
	{"noninjective", "(lambda (x) (mod x 2))", func(x int64) int64 { return x % 2 }},
	{"noninjective", "(lambda (x) (if (< x 20) 0 1))", func(x int64) int64 {
		if x < 20 {
			return 0
		}
		return 1
	}},
	{"constant", "(lambda (x) 0)", func(x int64) int64 { return 0 }},
}

var c11RowKeyFuns = []string{"first", "'first", "#'first", "(lambda (row) (nth row 0))", "(lambda (row) (first row))"}

// c11Pred draws a less-predicate: ascending (<) or descending (>).
func c11Pred(r *fw.RNG) (src string, desc bool) {
	if r.Chance(1, 3) {
		return fw.Pick(r, []string{">", "'>", "#'>", "(lambda (a b) (> a b))"}), true
	}
	return fw.Pick(r, []string{"<", "'<", "#'<", "(lambda (a b) (< a b))"}), false
}

// c11IsRows: a non-empty sequence of non-empty sequences that start with an integer.
func c11IsRows(v *c11Val) bool {
	if !c11IsSeq(v) || v.n == 0 {
		return false
	}
	for _, e := range v.elems() {
		if !c11IsSeq(e) || e.n == 0 || e.elems()[0].kind != "int" {
			return false
		}
	}
	return true
}

func c11RowKey(e *c11Val) int64 { return e.elems()[0].i }

// c11Monotone: the integer sequence is sorted ascending (dir > 0) or descending (dir < 0), not strictly.
func c11Monotone(v *c11Val, dir int) bool {
	if !c11IsIntSeq(v) {
		return false
	}
	e := v.elems()
	for i := 1; i < len(e); i++ {
		if (dir > 0 && e[i-1].i > e[i].i) || (dir < 0 && e[i-1].i < e[i].i) {
			return false
		}
	}
	return true
}

// noteSort records, before a sort of target in one of the family's forms, what
// the step exercises: whether another NAMED value shares the target's cells
// (only then can a sort that misses them be seen) and whether the order changes.
func (h *c11Heap) noteSort(target *c11Val, key func(*c11Val) int64, desc bool) {
	if h.counts == nil {
		h.counts = map[string]int64{}
	}
	h.counts["call_form_sorts"]++
	if target.sealed {
		h.counts["call_form_sorts_of_a_literal"]++
		return
	}
	e := target.elems()
	changes := false
	for i := 1; i < len(e); i++ {
		if (desc && key(e[i-1]) < key(e[i])) || (!desc && key(e[i-1]) > key(e[i])) {
			changes = true
		}
	}
	shared := false
	for _, n := range h.names {
		if o := h.vals[n]; o != target && o.b != nil && o.b == target.b {
			shared = true
		}
	}
	if changes {
		h.counts["call_form_sorts_changing_the_order"]++
	}
	if changes && shared {
		h.counts["call_form_sorts_seen_through_another_value"]++
	}
}

// c11MapFresh is the new map a non-mutating assoc / dissoc returns.
func c11MapFresh(v *c11Val) *c11Val {
	t := &c11Val{kind: "map", m: map[string]*c11Val{}, msym: map[string]bool{}, spell: map[string]string{}, prov: "fresh"}
	for k, e := range v.m {
		t.m[k] = e
		t.spell[k] = v.spell[k]
	}
	return t
}

func c11MapSet(m *c11Val, k, sp string, val *c11Val) {
	c11Spell(m, k, sp)
	m.m[k] = val
}

func c11MapDel(m *c11Val, k string) {
	if m.spell != nil {
		delete(m.spell, k)
	}
	delete(m.m, k)
}

// c11CallFormStep generates the steps of the family (see c11CallFormOps).
func c11CallFormStep(r *fw.RNG, h *c11Heap, op string) (src, opname, sig string) {
	setq := func(v *c11Val, form string) string { return fmt.Sprintf("(set '%s %s)", h.bind(v), form) }
	form := func(f string) { h.forms = append(h.forms, f) }
	ints := func(n int) ([]*c11Val, string) {
		cs := make([]*c11Val, n)
		var sb strings.Builder
		for i := range cs {
			x := int64(r.Range(0, 40))
			cs[i] = c11Int(x)
			fmt.Fprintf(&sb, " %d", x)
		}
		return cs, sb.String()
	}
	switch op {
	case "rows":
		// a sequence of sequences that start with an integer: fresh rows, or live values stored as rows
		kind := fw.Pick(r, []string{"list", "vector"})
		var cs []*c11Val
		var sb strings.Builder
		for i := r.Range(2, 4); i > 0; i-- {
			if r.Chance(1, 3) {
				if n, v := h.pick(r, func(v *c11Val) bool { return c11IsSeq(v) && v.n > 0 && v.elems()[0].kind == "int" && v.small() }); v != nil {
					cs = append(cs, v)
					sb.WriteString(" " + n)
					continue
				}
			}
			rk := fw.Pick(r, []string{"list", "vector"})
			rc, txt := ints(r.Range(1, 3))
			cs = append(cs, c11Seq(rk, rc, "fresh"))
			fmt.Fprintf(&sb, " (%s%s)", rk, txt)
		}
		return setq(c11Seq(kind, cs, "fresh-rows"), "("+kind+sb.String()+")"), op, op + "|" + kind
	case "stable-sort-keyed":
		n, v := h.pick(r, c11IsIntSeq)
		if v == nil {
			return "", "", ""
		}
		kf := fw.Pick(r, c11KeyFuns)
		pred, desc := c11Pred(r)
		key := func(e *c11Val) int64 { return kf.key(e.i) }
		h.noteTarget(v)
		h.noteSort(v, key, desc)
		h.form, h.targetVal = "stable-sort:key-fun", v
		form("stable-sort:key-fun=" + kf.class)
		if desc {
			form("stable-sort:predicate=descending")
		}
		res := c11SortInPlaceBy(v, key, desc)
		if res != v {
			h.resultVal = res
		}
		f := fmt.Sprintf("(stable-sort %s %s %s)", pred, n, kf.src)
		sig = fmt.Sprintf("%s|%s|desc=%v|%s|%s", op, kf.class, desc, v.kind, v.prov)
		if r.Bool() {
			return fmt.Sprintf("(set '%s %s)", h.bind(res), f), "stable-sort:key-fun", sig + "|bound"
		}
		return f, "stable-sort:key-fun", sig
	case "stable-sort-keyed-view-inline":
		// sorting a view in place shows through its source, whatever the call form
		n, v := h.pick(r, c11IsIntSeq)
		if v == nil || v.n < 2 {
			return "", "", ""
		}
		kf := fw.Pick(r, c11KeyFuns)
		pred, desc := c11Pred(r)
		key := func(e *c11Val) int64 { return kf.key(e.i) }
		var view *c11Val
		var vsrc, how string
		if r.Chance(1, 3) {
			acc := "rest"
			if v.kind == "list" && r.Bool() {
				acc = "cdr"
			}
			view, vsrc, how = c11View(v, "list", 1, v.n, "inline-view"), fmt.Sprintf("(%s %s)", acc, n), "inline-cdr-rest"
		} else {
			i := r.Range(0, v.n-1)
			j := r.Range(i+1, v.n)
			kind := fw.Pick(r, []string{"list", "vector"})
			view, vsrc, how = c11View(v, kind, i, j, "inline-view"), fmt.Sprintf("(slice '%s %s %d %d)", kind, n, i, j), "inline-slice"
		}
		h.noteTarget(v)
		h.noteSort(view, key, desc)
		h.form, h.targetVal = "stable-sort:key-fun", view
		form("stable-sort:key-fun:" + how)
		form("stable-sort:key-fun=" + kf.class)
		c11SortInPlaceBy(view, key, desc)
		return fmt.Sprintf("(stable-sort %s %s %s)", pred, vsrc, kf.src), "stable-sort:key-fun", fmt.Sprintf("%s|%s|%s|desc=%v|%s|%s|%s", op, how, kf.class, desc, v.kind, view.kind, v.prov)
	case "stable-sort-rows":
		n, v := h.pick(r, c11IsRows)
		if v == nil {
			return "", "", ""
		}
		desc := r.Chance(1, 3)
		cmp := "<"
		if desc {
			cmp = ">"
		}
		h.noteTarget(v)
		h.noteSort(v, c11RowKey, desc)
		h.targetVal = v
		var f, cls string
		if r.Chance(1, 3) {
			// no key-fun: the predicate looks into the rows itself
			h.form, cls = "stable-sort:predicate-on-rows", "predicate-on-rows"
			form("stable-sort:predicate-on-rows")
			f = fmt.Sprintf("(stable-sort (lambda (a b) (%s (first a) (first b))) %s)", cmp, n)
		} else {
			h.form, cls = "stable-sort:key-fun", "first-of-row"
			form("stable-sort:key-fun=first-of-row")
			f = fmt.Sprintf("(stable-sort %s %s %s)", cmp, n, fw.Pick(r, c11RowKeyFuns))
		}
		res := c11SortInPlaceBy(v, c11RowKey, desc)
		sig = fmt.Sprintf("%s|%s|desc=%v|%s|%s", op, cls, desc, v.kind, v.prov)
		if r.Bool() {
			return fmt.Sprintf("(set '%s %s)", h.bind(res), f), h.form, sig + "|bound"
		}
		return f, h.form, sig
	case "insert-sorted-keyed":
		kind := fw.Pick(r, []string{"list", "vector"})
		if r.Chance(1, 4) {
			// rows sorted strictly by their first element, keyed by first; the item is a
			// fresh row whose key ties with none
			n, v := h.pick(r, func(v *c11Val) bool {
				if !c11IsRows(v) {
					return false
				}
				e := v.elems()
				for i := 1; i < len(e); i++ {
					if c11RowKey(e[i-1]) >= c11RowKey(e[i]) {
						return false
					}
				}
				return true
			})
			if v == nil {
				return "", "", ""
			}
			e := v.elems()
			x := int64(r.Range(0, 45))
			for _, row := range e {
				if c11RowKey(row) == x {
					return "", "", ""
				}
			}
			i := sort.Search(len(e), func(i int) bool { return x < c11RowKey(e[i]) })
			item := c11Seq("list", []*c11Val{c11Int(x), c11Int(0)}, "fresh")
			cs := append(c11CopyCells(e[:i]), item)
			cs = append(cs, e[i:]...)
			nv := c11Seq(kind, cs, "fresh-rows")
			h.form, h.resultVal = "insert-sorted:key-fun", nv
			form("insert-sorted:key-fun")
			form("insert-sorted:key-fun=first-of-row")
			return setq(nv, fmt.Sprintf("(insert-sorted '%s %s < (list %d 0) %s)", kind, n, x, fw.Pick(r, c11RowKeyFuns))), "insert-sorted:key-fun", op + "|rows|" + v.kind + "|" + kind
		}
		dir := 1
		if r.Bool() {
			dir = -1
		}
		n, v := h.pick(r, func(v *c11Val) bool { return c11Monotone(v, dir) })
		if v == nil {
			return "", "", ""
		}
		x := int64(r.Range(0, 40))
		e := v.elems()
		// the predicate is called (p (key item) (key elem)); the item goes before the first
		// element for which it holds.  Integers that tie are equal, so the result is determined.
		i := sort.Search(len(e), func(i int) bool {
			if dir > 0 {
				return x < e[i].i
			}
			return x > e[i].i
		})
		cs := append(c11CopyCells(e[:i]), c11Int(x))
		cs = append(cs, e[i:]...)
		nv := c11Seq(kind, cs, "fresh")
		h.resultVal = nv
		// (predicate, key-fun) pairs under which the sequence is sorted
		type pk struct{ p, k string }
		var cands []pk
		if dir > 0 {
			cands = []pk{{"<", "identity"}, {"<", "'identity"}, {"<", "(lambda (x) x)"}, {">", "-"}, {">", "'-"}, {">", "(lambda (x) (- 100 x))"}, {"(lambda (a b) (< a b))", "#'identity"}}
		} else {
			cands = []pk{{">", ""}, {">", ""}, {"(lambda (a b) (> a b))", ""}, {">", "identity"}, {"<", "-"}, {"<", "(lambda (x) (- x))"}}
		}
		c := fw.Pick(r, cands)
		if c.k == "" {
			h.form = "insert-sorted:descending"
			form("insert-sorted:descending")
			return setq(nv, fmt.Sprintf("(insert-sorted '%s %s %s %d)", kind, n, c.p, x)), h.form, op + "|descending|" + v.kind + "|" + kind + "|" + v.prov
		}
		h.form = "insert-sorted:key-fun"
		form("insert-sorted:key-fun")
		return setq(nv, fmt.Sprintf("(insert-sorted '%s %s %s %d %s)", kind, n, c.p, x, c.k)), h.form, fmt.Sprintf("%s|key-fun|dir=%d|%s|%s|%s", op, dir, v.kind, kind, v.prov)
	case "search-sorted":
		n, v := h.pick(r, func(v *c11Val) bool { return c11Monotone(v, 1) })
		if v == nil {
			return "", "", ""
		}
		x := int64(r.Range(0, 42))
		e := v.elems()
		m, ntxt := v.n, fmt.Sprintf("(length %s)", n)
		if r.Chance(1, 3) {
			m = r.Range(0, v.n)
			ntxt = fmt.Sprint(m)
		}
		strict := r.Bool()
		cmp := "<="
		if strict {
			cmp = "<"
		}
		i := sort.Search(m, func(i int) bool {
			if strict {
				return x < e[i].i
			}
			return x <= e[i].i
		})
		nv := c11Int(int64(i))
		h.form, h.resultVal = "search-sorted:over-live-sequence", nv
		form("search-sorted")
		return setq(nv, fmt.Sprintf("(search-sorted %s (lambda (i) (%s %d (nth %s i))))", ntxt, cmp, x, n)), "search-sorted", op + "|" + v.kind + "|" + v.prov
	case "append!-values":
		// several values, live containers among them: the vector holds the very values
		nv, v := h.pick(r, func(v *c11Val) bool { return c11IsVec(v) && v.small() })
		if v == nil {
			return "", "", ""
		}
		var cs []*c11Val
		var sb strings.Builder
		conts, budget := 0, 60
		v.size(&budget)
		for i := r.Range(1, 4); i > 0; i-- {
			if conts == 0 || r.Bool() {
				if n, x := h.pick(r, func(x *c11Val) bool { return x.kind != "int" && x.small() && !x.reaches(v, 0) }); x != nil {
					x.size(&budget)
					if budget > 0 {
						cs = append(cs, x)
						sb.WriteString(" " + n)
						conts++
						continue
					}
				}
			}
			x := int64(r.Range(0, 40))
			cs = append(cs, c11Int(x))
			fmt.Fprintf(&sb, " %d", x)
		}
		if conts == 0 {
			return "", "", ""
		}
		h.noteTarget(v)
		h.form, h.targetVal = "append!:container-values", v
		form("append!:container-values")
		c11AppendInPlace(v, cs)
		f := fmt.Sprintf("(append! %s%s)", nv, sb.String())
		sig = fmt.Sprintf("%s|%d|%s|%s", op, len(cs), cs[0].kind, v.prov)
		if r.Bool() {
			return fmt.Sprintf("(set '%s %s)", h.bind(v), f), h.form, sig + "|bound"
		}
		return f, h.form, sig
	case "map-chain":
		keyOf := func() (k, ktxt, sp string) {
			k = fw.Pick(r, []string{"a", "b", "c", "k1", "zz", "new"})
			if r.Bool() {
				return k, "'" + k, "y"
			}
			return k, fmt.Sprintf("%q", k), "s"
		}
		if r.Chance(1, 6) {
			// "If map is nil, creates a new map"
			k, ktxt, sp := keyOf()
			x := int64(r.Range(0, 40))
			m := &c11Val{kind: "map", m: map[string]*c11Val{}, msym: map[string]bool{}, spell: map[string]string{}, prov: "fresh"}
			c11MapSet(m, k, sp, c11Int(x))
			h.form, h.resultVal = "assoc:nil-map", m
			form("assoc:nil-map")
			return setq(m, fmt.Sprintf("(assoc () %s %d)", ktxt, x)), h.form, op + "|nil-map"
		}
		n, v := h.pick(r, c11IsMap)
		if v == nil {
			return "", "", ""
		}
		cur, expr := v, n
		allMut, anyMut := true, false
		var ops []string
		for i := r.Range(2, 3); i > 0; i-- {
			o := fw.Pick(r, []string{"assoc", "assoc!", "assoc!", "dissoc", "dissoc!", "dissoc!"})
			mut := strings.HasSuffix(o, "!")
			if mut && cur == v {
				anyMut = true
			}
			if !mut {
				allMut = false
				cur = c11MapFresh(cur)
			}
			k, ktxt, sp := keyOf()
			if strings.HasPrefix(o, "assoc") {
				x := int64(r.Range(0, 40))
				c11MapSet(cur, k, sp, c11Int(x))
				expr = fmt.Sprintf("(%s %s %s %d)", o, expr, ktxt, x)
			} else {
				c11MapDel(cur, k)
				expr = fmt.Sprintf("(%s %s %s)", o, expr, ktxt)
			}
			ops = append(ops, o)
		}
		if anyMut {
			h.targetVal = v
		}
		on := ""
		if v.prov == "json-loaded" {
			on = "|on-json-loaded"
		}
		sig = op + "|" + strings.Join(ops, ">") + on
		if allMut {
			h.form = "map-chain:mutators-only"
			form(h.form)
			if r.Bool() {
				return fmt.Sprintf("(set '%s %s)", h.bind(v), expr), h.form, sig + "|bound"
			}
			return expr, h.form, sig
		}
		h.form, h.resultVal = "map-chain:mixed", cur
		form(h.form)
		return setq(cur, expr), h.form, sig
	case "bytes-values":
		n, v := h.pick(r, c11IsBytes)
		if v == nil {
			return "", "", ""
		}
		opSel := r.Intn(4)
		if opSel == 1 {
			// (append 'bytes b x ...): the values are written out
			cs, txt := ints(r.Range(0, 3))
			nb := append([]byte(nil), v.by...)
			for _, c := range cs {
				nb = append(nb, byte(c.i))
			}
			nv := &c11Val{kind: "bytes", by: nb, prov: "append-result"}
			h.form, h.resultVal = "append:bytes", nv
			form("append:bytes")
			return setq(nv, fmt.Sprintf("(append 'bytes %s%s)", n, txt)), h.form, op + "|append-'bytes"
		}
		var add []byte
		var vtxt, vform string
		switch r.Intn(3) {
		case 0:
			// a byte string, the target itself included
			n2, v2 := h.pick(r, c11IsBytes)
			if v2 == nil {
				return "", "", ""
			}
			add, vtxt, vform = append([]byte(nil), v2.by...), n2, "bytes:value=bytes"
		case 1:
			k := r.Range(0, 3)
			var parts []string
			for i := 0; i < k; i++ {
				x := r.Range(32, 126)
				add = append(add, byte(x))
				parts = append(parts, fmt.Sprint(x))
			}
			vtxt = fmt.Sprintf(fw.Pick(r, []string{"(list %s)", "(vector %s)", "'(%s)"}), strings.Join(parts, " "))
			vform = "bytes:value=integer-sequence"
		default:
			// a live sequence of integers that are bytes
			n2, v2 := h.pick(r, func(x *c11Val) bool {
				if !c11IsIntSeq(x) {
					return false
				}
				for _, e := range x.elems() {
					if e.i < 0 || e.i > 255 {
						return false
					}
				}
				return true
			})
			if v2 == nil {
				return "", "", ""
			}
			for _, e := range v2.elems() {
				add = append(add, byte(e.i))
			}
			vtxt, vform = n2, "bytes:value=integer-sequence"
		}
		form(vform)
		if opSel == 0 {
			nv := &c11Val{kind: "bytes", by: append(append([]byte(nil), v.by...), add...), prov: "append-result"}
			h.form, h.resultVal = "append-bytes:"+strings.TrimPrefix(vform, "bytes:"), nv
			return setq(nv, fmt.Sprintf("(append-bytes %s %s)", n, vtxt)), h.form, op + "|append-bytes|" + vform
		}
		h.form, h.targetVal = "append-bytes!:"+strings.TrimPrefix(vform, "bytes:"), v
		v.by = append(v.by, add...)
		f := fmt.Sprintf("(append-bytes! %s %s)", n, vtxt)
		if r.Bool() {
			return fmt.Sprintf("(set '%s %s)", h.bind(v), f), h.form, op + "|append-bytes!|bound|" + vform
		}
		return f, h.form, op + "|append-bytes!|" + vform
	case "zip-n":
		kind := fw.Pick(r, []string{"list", "vector"})
		k := 1
		if r.Bool() {
			k = 3
		}
		var names []string
		var vs []*c11Val
		for i := 0; i < k; i++ {
			n, v := h.pick(r, c11IsSeq)
			if v == nil {
				return "", "", ""
			}
			names, vs = append(names, n), append(vs, v)
		}
		m := vs[0].n
		for _, v := range vs {
			if v.n < m {
				m = v.n
			}
		}
		rows := make([]*c11Val, m)
		for i := range rows {
			var rc []*c11Val
			for _, v := range vs {
				rc = append(rc, v.elems()[i])
			}
			rows[i] = c11Seq(kind, rc, "fresh")
		}
		nv := c11Seq(kind, rows, "fresh")
		h.form, h.resultVal = "zip:one-list", nv
		if k == 3 {
			h.form = "zip:three-lists"
		}
		form(h.form)
		return setq(nv, fmt.Sprintf("(zip '%s %s)", kind, strings.Join(names, " "))), h.form, fmt.Sprintf("%s|%d|%s|%s", op, k, kind, vs[0].kind)
	case "concat-n":
		kind := fw.Pick(r, []string{"list", "vector"})
		if r.Chance(1, 4) {
			nv := c11Seq(kind, nil, "fresh")
			h.form, h.resultVal = "concat:no-operand", nv
			form(h.form)
			return setq(nv, fmt.Sprintf("(concat '%s)", kind)), h.form, op + "|0|" + kind
		}
		var names []string
		var cs []*c11Val
		provs := ""
		for i := 0; i < 3; i++ {
			n, v := h.pick(r, c11IsSeq)
			if v == nil {
				return "", "", ""
			}
			names, cs = append(names, n), append(cs, v.elems()...)
			if i == 0 {
				provs = v.kind + "|" + v.prov
			}
		}
		nv := c11Seq(kind, cs, "fresh")
		h.form, h.resultVal = "concat:three-operands", nv
		form(h.form)
		return setq(nv, fmt.Sprintf("(concat '%s %s)", kind, strings.Join(names, " "))), h.form, op + "|3|" + kind + "|" + provs
	}
	return "", "", ""
}

// c11CallFormFloor: a run in which a call form was never written, or in which no
// sort of the family changed an order that another live value could see, says
// nothing about the family.
func c11CallFormFloor(d *fw.D) {
	seen := d.Sets["call_forms_seen"]
	var missing []string
	for _, f := range c11CallForms {
		if !seen[f] {
			missing = append(missing, f)
		}
	}
	sort.Strings(missing)
	if len(missing) > 0 {
		d.Inconclusive("call-form family: forms never generated: " + strings.Join(missing, " "))
	}
	for _, c := range []string{"call_form_steps", "call_form_sorts", "call_form_sorts_changing_the_order", "call_form_sorts_seen_through_another_value"} {
		if d.Counters[c] == 0 {
			d.Inconclusive("call-form family: counter " + c + " is 0")
		}
	}
}
