package props

// C12 part (a): data values built through the public Go constructors are
// printed with LVal.String, read back with the strict reader and compared with
// an independent structural comparison.

import (
	"fmt"
	"math"
	"sort"
	"strconv"
	"strings"
	"unicode"
	"unicode/utf8"

	"verifharness/fw"

	"github.com/luthersystems/elps/lisp"
)

// ---------------------------------------------------------------------------
// value model (independent of lisp.LVal)

type c12Kind uint8

const (
	c12KInt c12Kind = iota
	c12KFloat
	c12KStr
	c12KSym
	c12KList
	c12KOther // anything the data model does not contain (only produced by conversion)
)

func (k c12Kind) String() string {
	return [...]string{"int", "float", "string", "symbol", "list", "other"}[k]
}

// c12Val is one node of the harness's own value model.
type c12Val struct {
	K     c12Kind
	I     int64
	F     float64
	S     string
	Q     int // quote depth
	Kids  []*c12Val
	Class string // generator class (coverage / finding key); "" for converted values
	Note  string // for c12KOther: what was found
}

func (v *c12Val) hasNegZero() bool {
	if v.K == c12KFloat && v.F == 0 && math.Signbit(v.F) {
		return true
	}
	for _, k := range v.Kids {
		if k.hasNegZero() {
			return true
		}
	}
	return false
}

func (v *c12Val) depth() int {
	d := 0
	for _, k := range v.Kids {
		if kd := k.depth(); kd > d {
			d = kd
		}
	}
	if v.K == c12KList {
		return d + 1
	}
	return d
}

func (v *c12Val) size() int {
	n := 1
	for _, k := range v.Kids {
		n += k.size()
	}
	return n
}

// dump renders the model value unambiguously (Go syntax for leaves).
func (v *c12Val) dump() string {
	var b strings.Builder
	v.dumpTo(&b)
	return b.String()
}

func (v *c12Val) dumpTo(b *strings.Builder) {
	if b.Len() > 8000 {
		if !strings.HasSuffix(b.String(), "…") {
			b.WriteString("…")
		}
		return
	}
	if v.Q > 0 {
		fmt.Fprintf(b, "q%d:", v.Q)
	}
	switch v.K {
	case c12KInt:
		fmt.Fprintf(b, "int(%d)", v.I)
	case c12KFloat:
		fmt.Fprintf(b, "float(%s=0x%016x)", strconv.FormatFloat(v.F, 'e', -1, 64), math.Float64bits(v.F))
	case c12KStr:
		if len(v.S) > 200 {
			fmt.Fprintf(b, "string(len=%d %q…%q)", len(v.S), v.S[:80], v.S[len(v.S)-40:])
		} else {
			fmt.Fprintf(b, "string(%q)", v.S)
		}
	case c12KSym:
		fmt.Fprintf(b, "symbol(%q)", v.S)
	case c12KList:
		b.WriteString("list[")
		for i, k := range v.Kids {
			if i > 0 {
				b.WriteString(" ")
			}
			k.dumpTo(b)
		}
		b.WriteString("]")
	default:
		fmt.Fprintf(b, "other(%s)", v.Note)
	}
}

// ---------------------------------------------------------------------------
// independent readability pre-test for symbol spellings
//
// Derived from the lexer's rules (parser/lexer/lexer.go) and the symbol
// grammar in docs/lang.md, on the spelling alone:
//   * a word rune is a Unicode letter, an ASCII digit or one of ._+-*/=<>!&~%?$
//   * a token starting with an ASCII digit is a number, never a symbol
//   * a leading '-' is a sign: alone it is the symbol "-"; glued to a digit it
//     starts a number; "--" alone is a symbol, but "--x" splits into "-" and
//     "-x"; glued to any other word-start rune (or ':') it is part of the name
//   * at most one ':'; "pkg:name" needs both halves to be identifiers by the
//     same rule; ":name" is a keyword whose name may be any non-empty word

const c12MiscWordSyms = "._+-*/=<>!&~%?$"

func c12IsDigit(c rune) bool { return '0' <= c && c <= '9' }

func c12IsWordRune(c rune) bool {
	return unicode.IsLetter(c) || c12IsDigit(c) || strings.ContainsRune(c12MiscWordSyms, c)
}

// c12NameReadable: s contains no ':'; does s alone read as the symbol s?
func c12NameReadable(s string) bool {
	if s == "" || !utf8.ValidString(s) {
		return false
	}
	rs := []rune(s)
	for _, c := range rs {
		if !c12IsWordRune(c) {
			return false
		}
	}
	if c12IsDigit(rs[0]) {
		return false
	}
	if rs[0] == '-' && len(rs) > 1 {
		if rs[1] == '-' {
			return len(rs) == 2
		}
		if c12IsDigit(rs[1]) {
			return false
		}
	}
	return true
}

// c12SymbolReadable: does the spelling s, alone, read as exactly the symbol s?
func c12SymbolReadable(s string) bool {
	if s == "" || !utf8.ValidString(s) {
		return false
	}
	rs := []rune(s)
	for _, c := range rs {
		if c != ':' && !c12IsWordRune(c) {
			return false
		}
	}
	if c12IsDigit(rs[0]) {
		return false
	}
	if rs[0] == '-' && len(rs) > 1 {
		if rs[1] == '-' {
			return len(rs) == 2
		}
		if c12IsDigit(rs[1]) {
			return false
		}
	}
	pieces := strings.Split(s, ":")
	switch len(pieces) {
	case 1:
		return true
	case 2:
		if pieces[1] == "" {
			return false
		}
		if pieces[0] == "" {
			return true // keyword
		}
		return c12NameReadable(pieces[0]) && c12NameReadable(pieces[1])
	default:
		return false
	}
}

// ---------------------------------------------------------------------------
// generators

var c12IntBoundaries = func() []int64 {
	xs := []int64{0, 1, -1, 2, -2, 9, 10, -10, 99, 100, 127, 128, 255, 256, 999999, 1000000, -999999, -1000000,
		math.MaxInt64, math.MinInt64, math.MaxInt64 - 1, math.MinInt64 + 1,
		math.MaxInt32, math.MinInt32, math.MaxInt32 + 1, math.MinInt32 - 1, math.MaxUint32, math.MaxUint32 + 1,
		1 << 53, 1<<53 + 1, 1<<53 - 1, -(1 << 53), -(1<<53 + 1), -(1<<53 - 1), 1 << 62, -(1 << 62), 1<<62 - 1}
	p := int64(1)
	for i := 0; i < 18; i++ {
		p *= 10
		xs = append(xs, p, p-1, p+1, -p, -p+1, -p-1)
	}
	return xs
}()

func c12GenInt(r *fw.RNG) *c12Val {
	switch r.Intn(5) {
	case 0:
		x := fw.Pick(r, c12IntBoundaries)
		cl := "int:boundary"
		if x == math.MinInt64 || x == math.MaxInt64 {
			cl = "int:int64-extreme"
		}
		return &c12Val{K: c12KInt, I: x, Class: cl}
	case 1:
		return &c12Val{K: c12KInt, I: int64(r.Uint64()), Class: "int:random64"}
	case 2:
		// random magnitude: uniform in bit length
		bits := r.Range(1, 63)
		x := int64(r.Uint64() >> (64 - uint(bits)))
		if r.Bool() {
			x = -x
		}
		return &c12Val{K: c12KInt, I: x, Class: "int:bits" + strconv.Itoa(bits/8)}
	default:
		x := int64(r.Range(-1000, 1000))
		cl := "int:small"
		if x < 0 {
			cl = "int:small-neg"
		}
		return &c12Val{K: c12KInt, I: x, Class: cl}
	}
}

var c12FloatBoundaries = []float64{
	0, math.Copysign(0, -1), 1, -1, 0.5, 1.5, 0.1, 0.2, 0.3, 1.0 / 3.0, 2.0 / 3.0,
	1e21, 1e20, 9.999999999999999e20, 1.0000000000000001e21, 1e22, 1e23, 123456789012345680000, 1e-7, 1e-6, 1e-5, 1e-4, 1.5e-7, 9.999e-5, 0.0001, 0.00012345,
	99999, 100000, 999999, 1000000, 999999.5, 1000000.5, 1e6 - 0.0001, 123456, 1234567, 12345.678,
	1 << 53, 1<<53 + 2, 1<<53 - 1, 1 << 63, 1 << 64, -(1 << 63), 9223372036854775807, 9223372036854774784, 4294967296,
	math.MaxFloat64, math.SmallestNonzeroFloat64, 2.2250738585072014e-308, 2.225073858507201e-308, 4.9406564584124654e-324, 1e-323,
	math.MaxFloat32, math.SmallestNonzeroFloat32, math.Pi, math.E, 1.7976931348623157e308, 8.98846567431158e307,
	5e-324, 1e308, 1e-308, 1e300, 1e-300, 1.2345678901234567, 0.30000000000000004, 100.00000000000001, 5e20, 5e21, 1e15, 1e16, 1e17, 123456789012345678,
}

func c12FloatClass(f float64) string {
	a := math.Abs(f)
	switch {
	case f == 0 && math.Signbit(f):
		return "float:negzero"
	case f == 0:
		return "float:zero"
	case a < 2.2250738585072014e-308:
		return "float:subnormal"
	}
	cl := "float:"
	if f < 0 {
		cl += "neg-"
	}
	exp := int(math.Floor(math.Log10(a)))
	switch {
	case a == math.Trunc(a) && a < 1e6:
		cl += "intlike-plain" // prints like an integer
	case a == math.Trunc(a) && a < 1e21:
		cl += "intlike-exp"
	case a == math.Trunc(a):
		cl += "intlike-huge"
	case exp < -4:
		cl += "frac-exp"
	case exp < 6:
		cl += "frac-plain"
	default:
		cl += "frac-bigexp"
	}
	return cl
}

func c12GenFloat(r *fw.RNG) *c12Val {
	var f float64
	src := ""
	switch r.Intn(9) {
	case 0:
		f = fw.Pick(r, c12FloatBoundaries)
		if r.Bool() {
			f = -f
		}
		src = "b"
	case 1:
		// neighbours of boundaries
		f = fw.Pick(r, c12FloatBoundaries)
		if r.Bool() {
			f = math.Nextafter(f, math.Inf(1))
		} else {
			f = math.Nextafter(f, math.Inf(-1))
		}
		if math.IsInf(f, 0) {
			f = math.MaxFloat64
		}
		src = "n"
	case 2:
		// power of ten, full range, and neighbours
		e := r.Range(-324, 308)
		f, _ = strconv.ParseFloat("1e"+strconv.Itoa(e), 64)
		switch r.Intn(3) {
		case 0:
			f = math.Nextafter(f, 0)
		case 1:
			f = math.Nextafter(f, math.Inf(1))
		}
		if r.Bool() {
			f = -f
		}
		src = "p10"
	case 3:
		// subnormal
		f = math.Float64frombits(r.Uint64() & (1<<52 - 1))
		if r.Bool() {
			f = -f
		}
		src = "sub"
	case 4:
		// 1..17 significant decimal digits times a power of ten
		nd := r.Range(1, 17)
		var sb strings.Builder
		sb.WriteByte(byte('1' + r.Intn(9)))
		for i := 1; i < nd; i++ {
			sb.WriteByte(byte('0' + r.Intn(10)))
		}
		e := r.Range(-30, 30)
		if r.Chance(1, 4) {
			e = r.Range(-340, 300)
		}
		f, _ = strconv.ParseFloat(sb.String()+"e"+strconv.Itoa(e), 64)
		if math.IsInf(f, 0) || math.IsNaN(f) {
			f = 1.5
		}
		if r.Bool() {
			f = -f
		}
		src = "dec"
	case 5:
		// integer valued
		bits := r.Range(1, 70)
		f = math.Ldexp(float64(r.Uint64()>>11), bits-53)
		f = math.Trunc(f)
		if r.Bool() {
			f = -f
		}
		src = "int"
	case 6:
		// small with few fraction digits
		f = float64(r.Range(-2000000, 2000000)) / float64([]int{2, 4, 8, 10, 100, 1000, 3, 7}[r.Intn(8)])
		src = "small"
	default:
		f = r.FloatBits()
		src = "bits"
	}
	if math.IsInf(f, 0) || math.IsNaN(f) {
		f = 0.25
	}
	_ = src
	return &c12Val{K: c12KFloat, F: f, Class: c12FloatClass(f)}
}

type c12StrPiece struct {
	name string
	gen  func(r *fw.RNG) string
}

var c12StrPieces = []c12StrPiece{
	{"ascii", func(r *fw.RNG) string {
		n := r.Range(1, 12)
		b := make([]byte, n)
		for i := range b {
			b[i] = byte(r.Range(0x20, 0x7e))
			if b[i] == '"' || b[i] == '\\' {
				b[i] = 'a'
			}
		}
		return string(b)
	}},
	{"dquote", func(r *fw.RNG) string { return strings.Repeat(`"`, r.Range(1, 3)) }},
	{"backslash", func(r *fw.RNG) string { return strings.Repeat(`\`, r.Range(1, 4)) }},
	{"ctl-simple", func(r *fw.RNG) string { return string("\a\b\f\n\r\t\v"[r.Intn(7)]) }},
	{"ctl-hex", func(r *fw.RNG) string {
		c := []byte{0, 1, 2, 3, 4, 5, 6, 0x0e, 0x0f, 0x10, 0x1a, 0x1b, 0x1c, 0x1d, 0x1e, 0x1f, 0x7f}
		return string(c[r.Intn(len(c))])
	}},
	{"bad-utf8", func(r *fw.RNG) string {
		xs := []string{"\xff", "\xfe", "\x80", "\xbf", "\xc0\x80", "\xc3", "\xe4\xb8", "\xf0\x9f\x98", "\xed\xa0\x80", "\xed\xbf\xbf",
			"\xf4\x90\x80\x80", "\xf8\x88\x80\x80\x80", "\xc1\xbf", "\xe0\x80\x80", "\xf0\x80\x80\x80", "a\xffb", "\xc3\x28", "\xe2\x82"}
		return fw.Pick(r, xs)
	}},
	{"u2028", func(r *fw.RNG) string { return fw.Pick(r, []string{"\u2028", "\u2029"}) }},
	{"bmp-print", func(r *fw.RNG) string {
		return fw.Pick(r, []string{"é", "中", "ß", "Ж", "λ", "€", "ü", "→", "ℵ", "文字"})
	}},
	{"bmp-nonprint", func(r *fw.RNG) string {
		return fw.Pick(r, []string{"\u00a0", "\u200b", "\ufeff", "\ufffe", "\u0085", "\ue000", "\u00ad", "\u3000", "\u2003", "\u0300"})
	}},
	{"fffd", func(r *fw.RNG) string { return "\ufffd" }},
	{"astral-print", func(r *fw.RNG) string { return fw.Pick(r, []string{"😀", "𝒳", "𠀀", "🂡", "𐍈"}) }},
	{"astral-nonprint", func(r *fw.RNG) string {
		return fw.Pick(r, []string{"\U000e0001", "\U0010ffff", "\U000f0000", "\U0001fffe", "\U000e0100"})
	}},
	{"syntax", func(r *fw.RNG) string {
		return fw.Pick(r, []string{";", "(", ")", "[", "]", "'", "#", "#!", "#'", ";;", "( ;"})
	}},
	{"esc-lookalike", func(r *fw.RNG) string {
		return fw.Pick(r, []string{`\n`, `\x41`, `\u00e9`, `\"`, `\\`, `\0`, `\U0001F600`, `\q`, `\x`, `\u12`, `\'`, `\101`})
	}},
	{"triple-quote", func(r *fw.RNG) string { return `"""` }},
	{"space", func(r *fw.RNG) string { return fw.Pick(r, []string{" ", "  ", "\t", " \t "}) }},
	{"high-latin1-bytes", func(r *fw.RNG) string { return string([]byte{byte(r.Range(0x80, 0xff))}) }},
}

func c12GenString(r *fw.RNG) *c12Val {
	if r.Chance(1, 25) {
		return &c12Val{K: c12KStr, S: "", Class: "string:empty"}
	}
	n := r.Range(1, 4)
	if r.Chance(1, 6) {
		n = r.Range(4, 9)
	}
	var sb strings.Builder
	used := map[string]bool{}
	for i := 0; i < n; i++ {
		p := c12StrPieces[r.Intn(len(c12StrPieces))]
		used[p.name] = true
		sb.WriteString(p.gen(r))
	}
	if r.Chance(1, 10) {
		sb.WriteString(`\`)
		used["trail-bs"] = true
	}
	s := sb.String()
	if r.Chance(1, 150) {
		// long: head + filler + tail, 1K..60K bytes.  The filler avoids the
		// double quote only because the lexer re-copies the token text at every
		// quote it meets (quadratic); quotes still occur in head and tail.
		target := r.Range(1000, 60000)
		if r.Chance(1, 4) {
			target = r.Range(30000, 45000) // printed form may cross 128 KiB when hex-escaped
		}
		var fill string
		for fill == "" || strings.Contains(fill, `"`) {
			p := c12StrPieces[r.Intn(len(c12StrPieces))]
			fill = p.gen(r)
			if !strings.Contains(fill, `"`) {
				used[p.name] = true
			}
		}
		tail := s
		if len(tail) > 64 {
			tail = tail[len(tail)-64:]
		}
		s = s + strings.Repeat(fill, target/len(fill)+1) + tail
		used["long"] = true
	}
	names := make([]string, 0, len(used))
	for k := range used {
		names = append(names, k)
	}
	sort.Strings(names)
	return &c12Val{K: c12KStr, S: s, Class: "string:" + strings.Join(names, "+")}
}

var c12Letters = []string{"a", "b", "c", "x", "y", "z", "foo", "bar", "e", "E", "f", "n", "t", "nil", "A", "Z", "é", "λ", "Ж", "中", "ß", "İ", "𝒳", "ǅ", "ª"}
var c12LookAlikes = []string{"+1", "-a", "--", ".5", "+.5", "-.5", "+1e5", "e5", "-e5", "+", "-", "*", "/", "1+", "-1", "1e5", "1.5", "-1.5e3", "+0", "-0", "0x10", "1a", "-1a",
	"+inf", "-inf", "nan", "NaN", "1/2", "-1/2", "+1.", ".", "..", "...", "-.", "-+", "+-", "+-1", "-+1", "---", "--a", "-->", "->", "<-", "<=", ">=", "=", "!=", "%", "%1", "&rest", "&optional", "&key",
	"e", "E10", "1e", ".e5", "_", "__", "$", "?", "~", "!", "a-", "a--", "a-1", "a+1", "a.b", "a.", ".a", "x1", "x_1", "true", "false", "quote", "lambda", "lisp:function", "lisp:expr"}

func c12GenWord(r *fw.RNG) string {
	n := r.Range(1, 6)
	var sb strings.Builder
	for i := 0; i < n; i++ {
		switch r.Intn(6) {
		case 0:
			sb.WriteByte(c12MiscWordSyms[r.Intn(len(c12MiscWordSyms))])
		case 1:
			sb.WriteByte(byte('0' + r.Intn(10)))
		case 2:
			sb.WriteByte("-+.e"[r.Intn(4)])
		default:
			sb.WriteString(fw.Pick(r, c12Letters))
		}
	}
	return sb.String()
}

// c12GenSpelling draws a candidate spelling from the lexer's word alphabet
// (letters, digits, misc symbols, ':'); it may or may not be readable.
func c12GenSpelling(r *fw.RNG) (string, string) {
	switch r.Intn(10) {
	case 0, 1:
		return fw.Pick(r, c12LookAlikes), "lookalike"
	case 2:
		// sign / dot prefixed things
		p := fw.Pick(r, []string{"-", "+", ".", "--", "-.", "+.", "-+", "e", "-e"})
		return p + c12GenWord(r), "signed"
	case 3:
		return ":" + c12GenWord(r), "keyword"
	case 4:
		return c12GenWord(r) + ":" + c12GenWord(r), "qualified"
	case 5:
		// colon soup
		s := c12GenWord(r)
		for i := r.Intn(3); i >= 0; i-- {
			if r.Bool() {
				s += ":"
			}
			if r.Bool() {
				s += c12GenWord(r)
			}
		}
		return s, "colons"
	case 6:
		return fw.Pick(r, []string{"true", "false"}), "bool"
	case 7:
		return fw.Pick(r, c12Letters) + c12GenWord(r), "letter-first"
	default:
		return c12GenWord(r), "word"
	}
}

func c12SymClass(s, fam string) string {
	cl := "symbol:" + fam
	rs := []rune(s)
	switch {
	case rs[0] == '-':
		cl += ":dash"
	case rs[0] == '+' || rs[0] == '.':
		cl += ":signdot"
	case rs[0] == ':':
		cl += ":kw"
	case rs[0] > 0x7f:
		cl += ":uni"
	}
	if strings.Contains(s[1:], ":") {
		cl += ":pkg"
	}
	if len(rs) > 1 && (rs[0] == '-' || rs[0] == '+' || rs[0] == '.') && (c12IsDigit(rs[1]) || rs[1] == '.') {
		cl += ":numlike"
	}
	return cl
}

// c12GenSymbol returns a readable symbol; unreadable candidates are counted
// and handed to out (they become source texts for the reader-mode check).
func c12GenSymbol(r *fw.RNG, rejected *[]string) *c12Val {
	for tries := 0; tries < 50; tries++ {
		s, fam := c12GenSpelling(r)
		if s == "" {
			continue
		}
		if !c12SymbolReadable(s) {
			if rejected != nil {
				*rejected = append(*rejected, s)
			}
			continue
		}
		return &c12Val{K: c12KSym, S: s, Class: c12SymClass(s, fam)}
	}
	return &c12Val{K: c12KSym, S: "x", Class: "symbol:fallback"}
}

func c12GenQuoteDepth(r *fw.RNG) int {
	switch r.Intn(10) {
	case 0, 1, 2, 3:
		return 0
	case 4, 5, 6:
		return 1
	case 7:
		return 2
	case 8:
		return 3
	default:
		return 4
	}
}

func c12GenAtom(r *fw.RNG, rejected *[]string) *c12Val {
	switch r.Intn(8) {
	case 0, 1:
		return c12GenInt(r)
	case 2, 3:
		return c12GenFloat(r)
	case 4, 5:
		return c12GenString(r)
	default:
		v := c12GenSymbol(r, rejected)
		v.Q = c12GenQuoteDepth(r)
		return v
	}
}

func c12GenValue(r *fw.RNG, depth int, rejected *[]string) *c12Val {
	if depth <= 0 || r.Chance(3, 5) {
		return c12GenAtom(r, rejected)
	}
	n := r.Range(0, 5)
	if r.Chance(1, 8) {
		n = 0
	}
	if r.Chance(1, 12) {
		n = r.Range(6, 14)
	}
	v := &c12Val{K: c12KList, Q: c12GenQuoteDepth(r)}
	for i := 0; i < n; i++ {
		v.Kids = append(v.Kids, c12GenValue(r, depth-1, rejected))
	}
	return v
}

// c12ListClass summarises a list for coverage.
func c12ListClass(v *c12Val) string {
	kinds := map[string]bool{}
	maxq := 0
	var walk func(x *c12Val)
	walk = func(x *c12Val) {
		if x.Q > maxq {
			maxq = x.Q
		}
		if x.K != c12KList {
			kinds[x.K.String()] = true
		}
		for _, k := range x.Kids {
			walk(k)
		}
	}
	walk(v)
	ks := make([]string, 0, len(kinds))
	for k := range kinds {
		ks = append(ks, k)
	}
	sort.Strings(ks)
	w := len(v.Kids)
	if w > 6 {
		w = 6
	}
	return fmt.Sprintf("list:q%d:d%d:w%d:maxq%d:%s", v.Q, v.depth(), w, maxq, strings.Join(ks, "+"))
}

// ---------------------------------------------------------------------------
// building real values through the public constructors

func c12Build(v *c12Val, r *fw.RNG) *lisp.LVal {
	var base *lisp.LVal
	q := v.Q
	switch v.K {
	case c12KInt:
		if r.Bool() {
			base = lisp.Int(int(v.I))
		} else {
			base = lisp.Value(int(v.I))
		}
	case c12KFloat:
		if r.Bool() {
			base = lisp.Float(v.F)
		} else {
			base = lisp.Value(v.F)
		}
	case c12KStr:
		if r.Bool() {
			base = lisp.String(v.S)
		} else {
			base = lisp.Value(v.S)
		}
	case c12KSym:
		switch {
		case v.S == "true" && r.Bool():
			base = lisp.Bool(true)
		case v.S == "false" && r.Bool():
			base = lisp.Bool(false)
		default:
			base = lisp.Symbol(v.S)
		}
	case c12KList:
		cells := make([]*lisp.LVal, 0, len(v.Kids))
		built := map[*c12Val]*lisp.LVal{}
		for _, k := range v.Kids {
			// the same model node twice among the children: sometimes the very same
			// object twice (shared substructure is not a cycle)
			if b, ok := built[k]; ok && r.Bool() {
				cells = append(cells, b)
				continue
			}
			b := c12Build(k, r)
			built[k] = b
			cells = append(cells, b)
		}
		switch {
		case q >= 1 && r.Bool():
			if r.Bool() {
				base = lisp.QExpr(cells)
			} else {
				base = lisp.Value(cells)
			}
			q--
		case q == 0 && len(cells) == 0 && r.Bool():
			base = lisp.Nil()
		default:
			base = lisp.SExpr(cells)
		}
	default:
		panic("c12Build: kind")
	}
	for i := 0; i < q; i++ {
		base = lisp.Quote(base)
	}
	return base
}

// c12FromLVal converts a real value into the model through exported fields
// and accessors only.
func c12FromLVal(v *lisp.LVal) *c12Val {
	if v == nil {
		return &c12Val{K: c12KOther, Note: "nil *LVal"}
	}
	q := 0
	for v.Type == lisp.LQuote {
		if len(v.Cells) != 1 || v.Cells[0] == nil {
			return &c12Val{K: c12KOther, Q: q, Note: fmt.Sprintf("quote node with %d cells", len(v.Cells))}
		}
		q++
		v = v.Cells[0]
	}
	if v.IsQuoted() {
		q++
	}
	switch v.Type {
	case lisp.LInt:
		return &c12Val{K: c12KInt, I: int64(v.Int), Q: q}
	case lisp.LFloat:
		return &c12Val{K: c12KFloat, F: v.Float, Q: q}
	case lisp.LString:
		return &c12Val{K: c12KStr, S: v.Str, Q: q}
	case lisp.LSymbol:
		return &c12Val{K: c12KSym, S: v.Str, Q: q}
	case lisp.LSExpr:
		out := &c12Val{K: c12KList, Q: q}
		for _, c := range v.Cells {
			out.Kids = append(out.Kids, c12FromLVal(c))
		}
		return out
	default:
		return &c12Val{K: c12KOther, Q: q, Note: "type " + v.Type.String()}
	}
}

func c12NumEqual(a, b *c12Val) bool {
	switch {
	case a.K == c12KInt && b.K == c12KInt:
		return a.I == b.I
	case a.K == c12KFloat && b.K == c12KFloat:
		return a.F == b.F // -0 == +0 numerically; NaN is not in the domain
	case a.K == c12KFloat:
		return c12NumEqual(b, a)
	default: // a int, b float
		f := b.F
		if f != math.Trunc(f) || f < -9223372036854775808.0 || f >= 9223372036854775808.0 {
			return false
		}
		return int64(f) == a.I
	}
}

// c12ModelEqual is the harness's own comparison: same structure, names, string
// bytes and quote depth; numbers compared numerically.  It returns a path to
// the first difference.
func c12ModelEqual(want, got *c12Val, path string) (bool, string) {
	isNum := func(v *c12Val) bool { return v.K == c12KInt || v.K == c12KFloat }
	if want.Q != got.Q {
		return false, fmt.Sprintf("%s: quote depth %d vs %d", path, want.Q, got.Q)
	}
	if isNum(want) && isNum(got) {
		if !c12NumEqual(want, got) {
			return false, fmt.Sprintf("%s: number %s vs %s", path, want.dump(), got.dump())
		}
		return true, ""
	}
	if want.K != got.K {
		return false, fmt.Sprintf("%s: kind %s vs %s (%s vs %s)", path, want.K, got.K, want.dump(), got.dump())
	}
	switch want.K {
	case c12KStr, c12KSym:
		if want.S != got.S {
			return false, fmt.Sprintf("%s: %s vs %s", path, want.dump(), got.dump())
		}
	case c12KList:
		if len(want.Kids) != len(got.Kids) {
			return false, fmt.Sprintf("%s: list length %d vs %d", path, len(want.Kids), len(got.Kids))
		}
		for i := range want.Kids {
			if ok, d := c12ModelEqual(want.Kids[i], got.Kids[i], fmt.Sprintf("%s[%d]", path, i)); !ok {
				return false, d
			}
		}
	case c12KOther:
		return false, path + ": value outside the data model: " + got.Note
	}
	return true, ""
}

// ---------------------------------------------------------------------------
// the round-trip check

type c12RTResult struct {
	failure string // "" = ok; else rejected | count | differs | reprint | panic
	detail  string
	printed string
}

func c12Clip(s string) string {
	if len(s) > 600 {
		return fmt.Sprintf("%s…[%d bytes]…%s", s[:300], len(s), s[len(s)-200:])
	}
	return s
}

// c12RoundTrip prints v, reads it back with the strict reader and compares.
func c12RoundTrip(v *c12Val, r *fw.RNG) (res c12RTResult) {
	defer func() {
		if p := recover(); p != nil {
			res.failure = "panic"
			res.detail = fmt.Sprintf("panic while printing/reading %s: %v", c12Clip(v.dump()), p)
		}
	}()
	lv := c12Build(v, r)
	printed := lv.String()
	res.printed = printed
	variant := 0
	if len(printed) < 100<<10 && r.Chance(1, 12) {
		variant = 1 + r.Intn(2)
	}
	rd := c12ReadStrict(printed, variant, r)
	if rd.panicked != "" {
		return c12RTResult{"panic", "strict reader panicked on printed text " + strconv.Quote(c12Clip(printed)) + ": " + rd.panicked, printed}
	}
	if rd.err != nil {
		return c12RTResult{"rejected", fmt.Sprintf("value  : %s\nprinted: %s\nreader : %v", c12Clip(v.dump()), c12Clip(printed), rd.err), printed}
	}
	if len(rd.exprs) != 1 {
		var parts []string
		for _, e := range rd.exprs {
			parts = append(parts, c12Clip(c12FromLVal(e).dump()))
		}
		return c12RTResult{"count", fmt.Sprintf("value  : %s\nprinted: %s\nread back as %d expressions: %s", c12Clip(v.dump()), c12Clip(printed), len(rd.exprs), strings.Join(parts, " | ")), printed}
	}
	got := c12FromLVal(rd.exprs[0])
	if ok, d := c12ModelEqual(v, got, "v"); !ok {
		return c12RTResult{"differs", fmt.Sprintf("value  : %s\nprinted: %s\nreread : %s\ndiff   : %s", c12Clip(v.dump()), c12Clip(printed), c12Clip(got.dump()), d), printed}
	}
	if !v.hasNegZero() {
		re := rd.exprs[0].String()
		if re != printed {
			return c12RTResult{"reprint", fmt.Sprintf("value   : %s\nprinted : %s\nreprinted after read: %s", c12Clip(v.dump()), c12Clip(printed), c12Clip(re)), printed}
		}
	}
	return c12RTResult{printed: printed}
}

// c12ShrinkValue finds a smallest sub-value (or de-quoted variant) that still
// fails the same way, to give the finding a precise class.
func c12ShrinkValue(v *c12Val, failure string, r *fw.RNG) *c12Val {
	cur := v
	for steps := 0; steps < 200; steps++ {
		progressed := false
		var cands []*c12Val
		if cur.K == c12KList {
			for _, k := range cur.Kids {
				cands = append(cands, k)
			}
			// drop one kid
			if len(cur.Kids) >= 1 {
				for i := range cur.Kids {
					c := *cur
					c.Kids = append(append([]*c12Val{}, cur.Kids[:i]...), cur.Kids[i+1:]...)
					cands = append(cands, &c)
				}
			}
		}
		if cur.Q > 0 {
			c := *cur
			c.Q = cur.Q - 1
			cands = append(cands, &c)
		}
		for _, c := range cands {
			if res := c12RoundTrip(c, r); res.failure == failure {
				cur = c
				progressed = true
				break
			}
		}
		if !progressed {
			break
		}
	}
	return cur
}

// c12StrContentClass classifies a (minimised) string by what it contains.
func c12StrContentClass(s string) string {
	var fs []string
	add := func(c bool, n string) {
		if c {
			fs = append(fs, n)
		}
	}
	ctl, nonascii := false, false
	for i := 0; i < len(s); i++ {
		if s[i] < 0x20 || s[i] == 0x7f {
			ctl = true
		}
		if s[i] >= 0x80 {
			nonascii = true
		}
	}
	add(s == "", "empty")
	add(strings.Contains(s, `"`), "dquote")
	add(strings.HasSuffix(s, `\`), "trailing-backslash")
	add(strings.Contains(strings.TrimRight(s, `\`), `\`), "inner-backslash")
	add(ctl, "control")
	add(!utf8.ValidString(s), "invalid-utf8")
	add(nonascii && utf8.ValidString(s), "non-ascii")
	add(len(s) > 1000, "long")
	if len(fs) == 0 {
		fs = []string{"plain"}
	}
	return "string:" + strings.Join(fs, "+")
}

// c12ShrinkString minimises the bytes of a failing string value.
func c12ShrinkString(v *c12Val, failure string, r *fw.RNG) *c12Val {
	if v.K != c12KStr {
		return v
	}
	min := c12Minimize(v.S, 3000, func(s string) bool {
		c := *v
		c.S = s
		return c12RoundTrip(&c, r).failure == failure
	})
	c := *v
	c.S = min
	c.Class = c12StrContentClass(min)
	return &c
}

func c12ValueClass(v *c12Val) string {
	cl := v.Class
	if v.K == c12KList {
		cl = fmt.Sprintf("list:len%d", len(v.Kids))
		if len(v.Kids) > 2 {
			cl = "list:len3+"
		}
		for _, k := range v.Kids {
			cl += "/" + c12ValueClass(k)
			break
		}
	}
	if cl == "" {
		cl = v.K.String()
	}
	if v.Q > 0 {
		q := v.Q
		if q > 2 {
			q = 2 // q2 = "two or more"
		}
		cl += fmt.Sprintf(":q%d", q)
	}
	return cl
}
