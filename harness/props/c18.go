package props

import (
	"fmt"
	"strings"

	"github.com/luthersystems/elps/lisp"

	"verifharness/fw"
	"verifharness/gen"
	"verifharness/refint"
	"verifharness/rt"
	"verifharness/sx"
)

// C18 — errors identify the failing form and the calls that were active.
//
// Every failing program is run by the reference interpreter, which records the
// syntax node whose evaluation raised the error and the chain of active calls
// with their call-site nodes; the renderer recorded every node's byte span,
// line and column while writing the source.  The real run is made twice:
// with elimination off (dormant debugger) the reported location and stack must
// EQUAL the model's; with elimination on the location must be the same and the
// stack must be the elimination-off stack with only frames removed that a
// tail-elision hook saw being collapsed.

func init() {
	fw.Register(&fw.Prop{
		ID:    "C18",
		Level: "exploration",
		Rule: "failing programs: generated core programs with a buried ill-typed / wrong-arity / unbound / error form (every position class the generator reaches: argument, operator position, binding initialiser, body, handler expression and body, callbacks of map/foldl/select, nested call depth), and macro templates (failing form written in the template vs built by the macro without position), rendered with random layout (newlines, indentation, comments) so spans move; " +
			"the family 'handler work before rethrow' puts handlers between the failing form of any of those programs and the host (top-level forms and function bodies wrapped in handler-bind) whose handlers do work before (rethrow) - a nested handler-bind whose body succeeds / whose own binding handles its error / whose error matches no binding and is swallowed by ignore-errors, a helper that uses handler-bind, tail loops, a nested rethrow that is caught or ignored - as the last form, under progn/let/if, through several layers, or from a handler nested up to three deep inside running handlers that failed anew; the host's error keeps location, trace, condition and (for `error`) data; " +
			"the family 'where in an expansion the position-less node sits' (c18_expansion.go) enumerates slot (let / let* initialiser, flet / labels / macrolet body, handler expression and body, dotimes count and result, cond test and clause body, a let nested in an initialiser; plain argument, lambda body and the expansion's root as controls) x spelling of the lists between the expansion's root and the slot (parens, bracket entries, bracket list, both, made by list / cons / append / concat) x builder (defmacro / macrolet template with the node spliced in by unquote, template whose entry is computed by (list ..), expansion made entirely by list calls, host Go macro registered through AddMacros building with lisp.SExpr / lisp.QExpr / lisp.Symbol; optionally behind an outer macro) and samples failure kind (unbound generated symbol; for host macros also type, arity, `error`), one to four call sites of the macro in different contexts (earlier uses succeed or are swallowed, the last fails); two sub-classes let a position-less value reach the expansion by a route of its own (the root is a tail / slice of a quoted literal; a generated symbol made once and spliced into every expansion); " +
			"the family 'one error, several consumers' (c18_consumers.go) wraps the forms of the same failing programs in handlers that hand the very error they are handling to further consumers before it goes on - (ignore-errors (rethrow)) directly, in a callee, after work, repeatedly; a nested handler-bind whose handler is called with it; a nested handler rethrowing it into ignore-errors; (verif:capture), a host function keeping it - with other errors raised under more or fewer frames and swallowed, handled or kept in between (none, one, up to ten), and then rethrow it to the host, through further layers, to an outer handler that keeps it and recovers, or out into an ignore-errors form; the host's error AND every error a handler kept, read again after the load returned, have the model's location and trace; " +
			"distinct_nontrivial counts distinct (error class, innermost three frame kinds, position-in-source class) signatures",
		Assumptions: []string{
			"a function call is active from application (after its arguments were evaluated); special operators are active while their sub-forms run; a macro only during expansion",
			"site classes judged: unbound symbol -> the symbol; error / argument rejection by a function or operator -> the call expression; template-written forms keep their position; forms a macro builds without position take the macro call site. Other error classes (head not a function, malformed special forms, errors under thread-first/last whose calls are built without position) must lie inside the source and inside the failing top-level form, nothing more",
			"docs/lang.md 'Rethrowing Errors': (rethrow) re-raises the error the innermost running handler was called with, with its original trace and condition data, whatever handler-bind / ignore-errors forms began and ended while that handler ran; a changed condition is blamed on the handlers' work only when a control (same handlers, work left out) delivers the model's condition",
			"(rethrow) hands on the error object the handler was called with; an error that a handler or a host function received keeps location and trace whatever another consumer (an ignore-errors form swallowing it, a nested handler called with it, an outer handler) does when it is done with it, also when it is read after the load returned (property: 'a handler or the embedding host receives location and trace unchanged, also after rethrow')",
			"a position-less node of an expansion takes the call site of the macro call whose expansion is being evaluated, whatever list of the expansion it sits in (paren, bracket, lisp.QExpr, a list made by list / cons at expansion time) and however it got there: the list header that cdr / rest / slice return is a new, position-less node even when its elements are a literal's, and a position-less value spliced into several expansions takes the call site of each (the model stamps a copy)",
			"a callee invoked by a builtin function on the program's behalf (callbacks of map, foldl, select, funcall, apply, stable-sort, ...) is called from that builtin's call expression, with and without elimination; for handlers and for all?/any? (which evaluate a call expression they build themselves, without position) only the callee's order and name are compared",
		},
		Cases: func(tier string) int {
			return c18BaseCases(tier) + c18HWCases(tier) + c18ExpansionCases(tier) + c18CNCases(tier)
		},
		Run:         c18Run,
		Init:        c18Init,
		Driver:      c18Driver,
		MinDistinct: func(tier string) int { return pick(tier, 800, 1400) },
	})
}

type c18Elided struct{ name, src string }

var c18ElideLog map[c18Elided]bool

func c18Init(w *fw.W) {
	lisp.VerifSetHooks(&lisp.VerifHooks{
		TailElide: func(r *lisp.Runtime, frames []lisp.CallFrame, callee lisp.CallFrame) {
			if c18ElideLog == nil {
				return
			}
			// every frame of the terminal chain above the reused one, and the
			// callee's own frame, never appear in a trace taken later
			for _, f := range frames[1:] {
				c18ElideLog[c18Elided{f.Name, c18Loc(f)}] = true
			}
			c18ElideLog[c18Elided{callee.Name, c18Loc(callee)}] = true
			for _, f := range frames[1:] {
				c18ElideLog[c18Elided{f.Name, "*"}] = true
			}
		},
	})
}

func c18Loc(f lisp.CallFrame) string {
	if f.Source == nil {
		return "-"
	}
	return fmt.Sprintf("%d:%d", f.Source.Line, f.Source.Col)
}

type c18Frame struct {
	name string
	loc  string
}

func c18RealChain(v *lisp.LVal) []c18Frame {
	st := v.CallStack()
	if st == nil {
		return nil
	}
	var out []c18Frame
	for i := len(st.Frames) - 1; i >= 0; i-- {
		f := st.Frames[i]
		out = append(out, c18Frame{name: f.Name, loc: c18Loc(f)})
	}
	return out
}

func c18ChainString(c []c18Frame) string {
	var s []string
	for _, f := range c {
		n := f.name
		if n == "" {
			n = "<anon>"
		}
		s = append(s, n+"@"+f.loc)
	}
	return strings.Join(s, " <- ")
}

var c18BehalfCallers = map[string]bool{"map": true, "foldl": true, "foldr": true, "select": true, "reject": true, "funcall": true, "apply": true, "unpack": true,
	"all?": true, "any?": true, "handler-bind": true, "stable-sort": true, "insert-sorted": true, "search-sorted": true, "zip": true}

// builtins that call back by evaluating a call expression they build themselves (it has
// no position, so the callee's frame has none either) and handler invocations: the
// callee's call site is not judged there
var c18UnpositionedCallbacks = map[string]bool{"all?": true, "any?": true, "handler-bind": true}

// c18Cases: the base families fill the first c18BaseCases indices, the family
// "handler work before rethrow" (c18_handlerwork.go) the rest.
func c18BaseCases(tier string) int { return pick(tier, 16000, 500000) }
func c18HWCases(tier string) int   { return pick(tier, 2400, 80000) }

// the family "where in an expansion the position-less node sits" (c18_expansion.go)
// is appended after those two, so the earlier indices generate what they generated before
func c18Program(w *fw.W, idx int) ([]*sx.N, string, map[string]bool, *c18HW, *c18EX) {
	if k := idx - c18BaseCases(w.Tier) - c18HWCases(w.Tier); k >= 0 {
		forms, label, feats, ex := c18ExpansionProgram(w, idx, k)
		return forms, label, feats, nil, ex
	}
	if idx >= c18BaseCases(w.Tier) {
		forms, label, feats, hw := c18HandlerWorkProgram(w, idx, false)
		return forms, label, feats, hw, nil
	}
	forms, label, feats := c18BaseProgram(w, idx)
	return forms, label, feats, nil, nil
}

// c18Driver: the appended family must have produced judged programs in every slot,
// spelling and builder class; otherwise the run says nothing about them.
func c18Driver(d *fw.D) {
	c18ConsumersDriver(d)
	if got, want := d.Counters["expansion_programs_compared"], int64(c18ExpansionCases(d.Tier)/2); got < want {
		d.Inconclusive(fmt.Sprintf("family expansion-position: %d programs were compared with the model, at least %d expected", got, want))
	}
	for _, sp := range []string{"root-is-tail-of-quoted-literal", "value-shared-with-earlier-expansion"} {
		if d.Counters["expansion_special_programs:"+sp] == 0 {
			d.Inconclusive("family expansion-position: no program of the sub-class " + sp)
		}
	}
	if got := len(d.Sets["expansion_slots_compared"]); got != len(c18XSlots) {
		d.Inconclusive(fmt.Sprintf("family expansion-position: %d of %d slots produced a judged program", got, len(c18XSlots)))
	}
	for _, b := range c18XBuilders {
		if !d.Sets["expansion_builders_compared"][b] {
			d.Inconclusive("family expansion-position: no judged program of builder " + b)
		}
	}
	if got, want := len(d.Sets["expansion_classes_compared"]), pick(d.Tier, 150, 250); got < want {
		d.Inconclusive(fmt.Sprintf("family expansion-position: %d distinct slot/spelling/builder classes were judged, at least %d expected", got, want))
	}
}

func c18BaseProgram(w *fw.W, idx int) ([]*sx.N, string, map[string]bool) {
	r := w.RNG(idx, "prog")
	if idx%5 == 4 {
		return c18MacroProgram(r), "macro-template", map[string]bool{"macro-template": true}
	}
	if idx%10 == 3 {
		return c18TailLoopProgram(r), "tail-loop-failure", map[string]bool{"tail-loop-failure": true}
	}
	if idx%10 == 7 {
		return c18NestedLoadProgram(r), "nested-load-failure", map[string]bool{"nested-load-failure": true}
	}
	p := gen.DefaultProfile()
	p.Hostile = []int{25, 50, 90, 15}[idx%4]
	p.MaxDepth = []int{5, 4, 3, 6}[idx%4]
	g := gen.New(r, p)
	return g.Program(), "generated", g.Feat
}

// c18NestedLoadProgram: the failing form is written in a source loaded by load-string
// (very often as that source's FIRST form, at offset 0) and the load is called from
// inside a function, a binding form, a handler, an argument position.
func c18NestedLoadProgram(r *fw.RNG) []*sx.N {
	fail := fw.Pick(r, []*sx.N{sx.Call("car", sx.I(5)), sx.Call("error", sx.QY("boom"), sx.S("first form")), sx.Y("no-such-symbol"), sx.Call("cons", sx.I(1)), sx.Call("nth", sx.Q(sx.L(sx.I(1))), sx.S("x"))})
	var inner []*sx.N
	if r.Chance(1, 3) {
		inner = append(inner, sx.Call("set", sx.QY("before"), sx.I(1)))
	}
	inner = append(inner, fail, sx.I(2))
	load := sx.Call("load-string", &sx.N{K: sx.Str, Prog: inner})
	var forms []*sx.N
	forms = append(forms, sx.Call("verif:probe", sx.QY("pre"), sx.I(1)))
	switch r.Intn(7) {
	case 0:
		forms = append(forms, load)
	case 1:
		forms = append(forms, sx.Call("let", sx.L(sx.L(sx.Y("k"), sx.I(1))), load))
	case 2:
		forms = append(forms, sx.Call("defun", sx.Y("ld"), sx.L(), load), sx.Call("list", sx.I(1), sx.Call("ld")))
	case 3:
		forms = append(forms, sx.Call("handler-bind", sx.L(sx.L(sx.Y("condition"), sx.Call("lambda", sx.L(sx.Y("c"), sx.Y("&rest"), sx.Y("a")), sx.Call("rethrow")))), load))
	case 4:
		forms = append(forms, sx.Call("list", sx.I(1), load, sx.I(3)))
	case 5:
		forms = append(forms, sx.Call("map", sx.QY("list"), sx.Call("lambda", sx.L(sx.Y("x")), load), sx.Q(sx.L(sx.I(1)))))
	default:
		forms = append(forms, sx.Call("defun", sx.Y("ld2"), sx.L(sx.Y("x")), sx.Call("if", sx.Y("x"), load, sx.I(0))), sx.Call("let*", sx.L(sx.L(sx.Y("a"), sx.Call("ld2", sx.Y("true")))), sx.Y("a")))
	}
	return forms
}

// c18MacroProgram: a failing form either written inside a macro template (keeps
// its own position) or built by the macro without any position (takes the call site).
func c18MacroProgram(r *fw.RNG) []*sx.N {
	fail := fw.Pick(r, []*sx.N{sx.Call("car", sx.I(5)), sx.Call("error", sx.QY("boom"), sx.I(1)), sx.Y("no-such-symbol"), sx.Call("cons", sx.I(1))})
	var forms []*sx.N
	forms = append(forms, sx.Call("defun", sx.Y("wrap"), sx.L(sx.Y("x")), sx.Call("list", sx.Y("x"))))
	shape := r.Intn(6)
	switch shape {
	case 0: // written in the template
		forms = append(forms, sx.Call("defmacro", sx.Y("tm"), sx.L(sx.Y("a")), sx.Call("quasiquote", sx.Call("list", sx.Call("unquote", sx.Y("a")), fail))))
	case 1: // argument form spliced in: keeps the position it has at the call site
		forms = append(forms, sx.Call("defmacro", sx.Y("tm"), sx.L(sx.Y("a")), sx.Call("quasiquote", sx.Call("wrap", sx.Call("unquote", sx.Y("a"))))))
		forms = append(forms, sx.Call("verif:probe", sx.QY("pre"), sx.I(1)))
		return append(forms, sx.Call("wrap", sx.Call("tm", fail)))
	case 2: // built by the macro without position: (list 'car 5) has no source, it takes the call site
		// (cons (car '(lisp:car)) (list 5)) builds the list (lisp:car 5) at expansion time
		forms = append(forms, sx.Call("defmacro", sx.Y("tm"), sx.L(sx.Y("a")), sx.Call("cons", sx.Call("car", sx.Q(sx.L(sx.Y(fw.Pick(r, []string{"lisp:car", "lisp:length", "lisp:cons"}))))), sx.Call("list", sx.I(5)))))
	case 4, 5: // the failing template form directly contains a splice of the macro's arguments
		type sp struct {
			head string
			pre  []*sx.N
			args []*sx.N
		}
		c := fw.Pick(r, []sp{
			{"car", nil, []*sx.N{sx.I(5)}},
			{"cons", nil, []*sx.N{sx.I(1)}},
			{"+", []*sx.N{sx.I(1)}, []*sx.N{sx.I(2), sx.S("two")}},
			{"error", []*sx.N{sx.QY("boom")}, []*sx.N{sx.I(1), sx.I(2)}},
			{"length", nil, []*sx.N{sx.I(1), sx.I(2)}},
			{"nth", []*sx.N{sx.Q(sx.L(sx.I(1)))}, []*sx.N{sx.S("x")}},
		})
		tmpl := sx.Call(c.head, append(append([]*sx.N{}, c.pre...), sx.Call("unquote-splicing", sx.Y("xs")))...)
		if shape == 5 {
			tmpl = sx.Call("wrap", tmpl)
		}
		forms = append(forms, sx.Call("defmacro", sx.Y("tm"), sx.L(sx.Y("&rest"), sx.Y("xs")), sx.Call("quasiquote", tmpl)))
		depth := r.Range(0, 3)
		call := sx.Call("tm", c.args...)
		for i := 0; i < depth; i++ {
			call = sx.Call("wrap", call)
		}
		forms = append(forms, sx.Call("verif:probe", sx.QY("pre"), sx.I(1)))
		return append(forms, sx.Call("let", sx.L(sx.L(sx.Y("k"), sx.I(1))), call))
	default: // nested macros: template of an inner macro
		forms = append(forms, sx.Call("defmacro", sx.Y("inner"), sx.L(sx.Y("a")), sx.Call("quasiquote", sx.Call("wrap", fail))))
		forms = append(forms, sx.Call("defmacro", sx.Y("tm"), sx.L(sx.Y("a")), sx.Call("quasiquote", sx.Call("inner", sx.Call("unquote", sx.Y("a"))))))
	}
	depth := r.Range(0, 4)
	call := sx.Call("tm", sx.I(int64(r.Intn(9))))
	for i := 0; i < depth; i++ {
		call = sx.Call("wrap", call)
	}
	forms = append(forms, sx.Call("verif:probe", sx.QY("pre"), sx.I(1)))
	return append(forms, sx.Call("let", sx.L(sx.L(sx.Y("k"), sx.I(1))), call))
}

func c18Run(w *fw.W, idx int) {
	// the family "one error, several consumers" (c18_consumers.go) is appended last
	if k := idx - c18BaseCases(w.Tier) - c18HWCases(w.Tier) - c18ExpansionCases(w.Tier); k >= 0 {
		c18ConsumersRun(w, idx, k)
		return
	}
	forms, label, feats, hw, ex := c18Program(w, idx)
	src := sx.Render(forms, c01Layout(w.RNG(idx, "layout")))
	// finding keys of the family "handler work before rethrow" name the class of
	// work and of terminal its handlers were built with
	rethrown := false
	key := func(k string) string {
		if hw != nil && rethrown {
			return k + hw.suffix()
		}
		if ex != nil {
			return ex.key(k)
		}
		return k
	}
	if ex != nil && ex.special != "" {
		w.Count("expansion_special_programs:"+ex.special, 1)
	}

	in := refint.New()
	ex.setupModel(in)
	_, merr := func() (mv *refint.V, me *refint.Err) {
		defer func() {
			if rec := recover(); rec != nil {
				me = &refint.Err{Cond: fmt.Sprint("<model panic: ", rec, ">"), Unsure: true}
			}
		}()
		return in.LoadForms(forms)
	}()
	if merr == nil || merr.Fuel || merr.Unsure {
		w.Count("not_failing_or_declined", 1)
		return
	}
	// Programs on which the let* shared-scope deviation (C01's known finding) changes
	// what fails are C01's business: here they would only repeat that finding.
	inq := refint.New()
	inq.Quirks = refint.Quirks{LetStarSharedScope: true}
	ex.setupModel(inq)
	_, qerr := func() (mv *refint.V, me *refint.Err) {
		defer func() {
			if rec := recover(); rec != nil {
				me = &refint.Err{Cond: "<model panic>", Unsure: true}
			}
		}()
		return inq.LoadForms(forms)
	}()
	if qerr == nil || qerr.Fuel || qerr.Unsure || qerr.Site != merr.Site || len(qerr.Stack) != len(merr.Stack) || qerr.Cond != merr.Cond {
		w.Count("skipped_let*_shared_scope_changes_the_failure", 1)
		return
	}
	rethrown = merr.Rethrown > 0
	offOpts := rt.Opts{MaxSteps: 400_000, Debugger: true, MaxPhys: 4000}
	onOpts := rt.Opts{MaxSteps: 400_000, MaxPhys: 4000}
	off := rt.New(offOpts)
	ex.setupReal(off.Env)
	voff := off.Env.LoadString("c18", src)
	c18ElideLog = map[c18Elided]bool{}
	on := rt.New(onOpts)
	ex.setupReal(on.Env)
	von := on.Env.LoadString("c18", src)
	elided := c18ElideLog
	c18ElideLog = nil
	w.Eval(2)
	if hw != nil && rethrown {
		// the model says the error the host receives was re-raised by (rethrow) in a
		// handler that had done some work first: it keeps its condition
		for _, m := range []struct {
			mode string
			v    *lisp.LVal
			o    rt.Opts
		}{{"elimination off", voff, offOpts}, {"elimination on", von, onOpts}} {
			if m.v.Type == lisp.LError && m.v.Str == merr.Cond {
				continue
			}
			if changed, ctl := c18HWConditionChanged(w, idx, merr, m.o); changed {
				w.Violation(key("rethrown-condition-changed:"+merr.Class),
					fmt.Sprintf("the host receives %s (%s) although the handlers rethrow the error %s raised by %s: without the work the handlers do before (rethrow) it receives that error", trunc(m.v.String(), 100), m.mode, merr.Cond, trunc(c01Site(merr), 60)),
					fmt.Sprintf("source:\n%s\nreal (%s): %s\n  stack %s\nmodel: %v at %s\n  chain %s\n%s", src, m.mode, m.v, c18ChainString(c18RealChain(m.v)), merr, c01Site(merr), c18ModelChain(merr), ctl))
				return
			}
			break
		}
	}
	if voff.Type != lisp.LError || von.Type != lisp.LError || voff.Str != merr.Cond {
		// outcome disagreements are C01's business
		w.Count("outcome_disagrees_with_model", 1)
		return
	}
	detail := func() string {
		return fmt.Sprintf("source:\n%s\nreal (elimination off): %s\n  stack %s\nreal (elimination on): %s\n  stack %s\nmodel: %v at %s\n  chain %s",
			src, voff, c18ChainString(c18RealChain(voff)), von, c18ChainString(c18RealChain(von)), merr, c01Site(merr), c18ModelChain(merr))
	}
	w.Logf("%s", detail())

	// ---- 0. a rethrown error signalled by `error` keeps its data ---------------------------
	if rethrown && merr.Class == "user" {
		for _, v := range []*lisp.LVal{voff, von} {
			if v.Str != merr.Cond {
				continue
			}
			if d := c18DataDiff(v, merr); d != "" {
				w.Violation(key("rethrown-data-changed"), "after rethrow "+d, detail())
				return
			}
		}
		w.Count("rethrown_data_compared", 1)
	}
	if rethrown {
		w.Count("rethrown_errors_compared", 1)
	}

	real, ron, model, ok := c18Judge(w, key, detail, src, voff, von, merr, elided)
	if !ok {
		return
	}
	kinds := ""
	for i := 0; i < 3 && i < len(real); i++ {
		k := model[len(model)-1-i].Kind
		kinds += fmt.Sprint(int(k))
	}
	posClass := "first-form"
	if merr.Site != nil {
		switch {
		case merr.Site.Line > 6:
			posClass = "deep"
		case merr.Site.Line > 1:
			posClass = "later-line"
		}
	}
	w.CoverKey(fmt.Sprintf("%s|%s|%s|%s|depth=%d", label, merr.Class, kinds, posClass, len(real)/3))
	if hw != nil {
		w.CoverKey(fmt.Sprintf("handler-work|%s|%s|%s|rethrown=%d", hw.kind, hw.term, merr.Class, min(merr.Rethrown, 4)))
	}
	if ex != nil {
		w.CoverKey(fmt.Sprintf("expansion|%s|%s|uses=%d", ex.class(), merr.Class, ex.uses))
		w.Count("expansion_programs_compared", 1)
		w.Count("expansion_programs_compared:"+ex.fail, 1)
		if ex.uses > 1 {
			w.Count("expansion_programs_with_earlier_call_sites", 1)
		}
		w.SetAdd("expansion_slots_compared", ex.slot)
		w.SetAdd("expansion_spellings_compared", ex.spell)
		w.SetAdd("expansion_builders_compared", ex.builder)
		w.SetAdd("expansion_classes_compared", ex.class())
	}
	for f := range feats {
		if strings.HasPrefix(f, "hostile:") {
			w.CoverKey("hostile|" + f + "|" + merr.Class)
		}
	}
	w.Max("max_chain_length", int64(len(real)))
	w.Count("frames_compared", int64(len(real)))
	if len(ron) < len(real) {
		w.Count("programs_with_elided_frames", 1)
	}
	if w.WantSample() && len(src) < 700 && len(real) > 2 {
		w.Sample(map[string]any{"source": src, "error": voff.String(), "stack_innermost_first": c18ChainString(real)})
	}
}

// c18Judge compares one error of the real runs (elimination off: voff, on: von) with
// the model's error merr: location (section 1), the chain of active calls of the
// elimination-off run frame by frame (section 2) and what elimination may remove
// (section 3).  It reports the first disagreement under key(...) and returns ok=false.
func c18Judge(w *fw.W, key func(string) string, detail func() string, src string, voff, von *lisp.LVal, merr *refint.Err, elided map[c18Elided]bool) (real, ron []c18Frame, model []refint.Frame, ok bool) {
	// ---- 1. location ----------------------------------------------------------------
	loc, has := voff.Source()
	underThread := false
	for _, f := range merr.Stack {
		if f.Name == "thread-first" || f.Name == "thread-last" {
			underThread = true
		}
	}
	judged := (merr.Class == "unbound" || merr.Class == "user" || merr.Class == "type" || merr.Class == "arity" || merr.Class == "range" || merr.Class == "host-fail") && !underThread && merr.Site != nil
	if !has {
		if judged {
			w.Violation(key("error-without-location:"+merr.Class), "an error raised while loading parsed source carries no location", detail())
			return nil, nil, nil, false
		}
	} else {
		if loc.Pos < 0 || loc.Pos > len(src) || (loc.EndPos > len(src)) {
			w.Violation(key("error-location-outside-source"), fmt.Sprintf("location %d..%d is outside the %d-byte source", loc.Pos, loc.EndPos, len(src)), detail())
			return nil, nil, nil, false
		}
		if judged {
			s := merr.Site
			if loc.Pos != s.Pos || loc.Line != s.Line || loc.Col != s.Col {
				w.Violation(key("error-location-wrong:"+merr.Class),
					fmt.Sprintf("error located at %d:%d (offset %d) but the failing form %s is at %d:%d (offset %d)", loc.Line, loc.Col, loc.Pos, trunc(s.String(), 60), s.Line, s.Col, s.Pos), detail())
				return nil, nil, nil, false
			}
			if s.K == sx.List && loc.EndPos != 0 && loc.EndPos != s.End {
				w.Violation(key("error-location-end-wrong:"+merr.Class), fmt.Sprintf("error span ends at offset %d, the failing form ends at %d", loc.EndPos, s.End), detail())
				return nil, nil, nil, false
			}
		}
	}
	// with elimination on the judged classes must be located at the same form
	if l2, h2 := von.Source(); judged && has && (!h2 || l2.Pos != loc.Pos || l2.Line != loc.Line || l2.Col != loc.Col) {
		w.Violation(key("error-location-wrong-with-elimination:"+merr.Class),
			fmt.Sprintf("with tail-call elimination the error is located at %d:%d, without at %d:%d (the failing form)", l2.Line, l2.Col, loc.Line, loc.Col), detail())
		return nil, nil, nil, false
	}

	// ---- 2. active-call chain, elimination off: equal to the model's -------------------
	real = c18RealChain(voff)
	model = merr.Stack
	if len(real) != len(model) {
		w.Violation(key("stack-trace-length:"+merr.Class), fmt.Sprintf("stack trace has %d frames, %d calls were active", len(real), len(model)), detail())
		return nil, nil, nil, false
	}
	for i := range real {
		mf := model[len(model)-1-i]
		rf := real[i]
		wantName := mf.Name
		if rf.name != wantName && !(wantName == "" && rf.name == "") && !(mf.Fn != nil && mf.Fn.Bound[rf.name]) {
			w.Violation(key("stack-trace-frame-name:"+merr.Class), fmt.Sprintf("frame %d (innermost first) is %q, the active call there is %q", i, rf.name, wantName), detail())
			return nil, nil, nil, false
		}
		behalf := mf.Site == nil
		if !behalf && !underThread {
			want := fmt.Sprintf("%d:%d", mf.Site.Line, mf.Site.Col)
			if rf.loc != want {
				w.Violation(key("stack-trace-call-site:"+merr.Class), fmt.Sprintf("frame %d (%s) has call site %s, the call is written at %s", i, rf.name, rf.loc, want), detail())
				return nil, nil, nil, false
			}
		}
		// a callee invoked by a builtin function on the program's behalf (a callback of
		// map, foldl, funcall, ...) is called from that builtin's call expression
		if ci := len(model) - 2 - i; behalf && !underThread && ci >= 0 {
			if cf := model[ci]; cf.Kind == refint.FnFunction && cf.Site != nil && c18BehalfCallers[cf.Name] && !c18UnpositionedCallbacks[cf.Name] {
				want := fmt.Sprintf("%d:%d", cf.Site.Line, cf.Site.Col)
				if rf.loc != want {
					w.Violation(key("stack-trace-callback-site:"+merr.Class), fmt.Sprintf("frame %d (%s, called back by %s) has call site %s, the %s expression is written at %s", i, rf.name, cf.Name, rf.loc, cf.Name, want), detail())
					return nil, nil, nil, false
				}
				w.Count("callback_sites_compared", 1)
			}
		}
	}
	// ---- 3. elimination on: only elided frames may be missing --------------------------
	ron = c18RealChain(von)
	j := 0
	for i, f := range real {
		// a callee invoked by a builtin on the program's behalf inherits the call
		// site of whatever frame the builtin is running in, which differs once
		// that frame was reused by a tail call: such frames match by name
		behalf := model[len(model)-1-i].Site == nil
		if j < len(ron) && ron[j].name == f.name && (ron[j].loc == f.loc || behalf) {
			if ron[j].loc != f.loc && !underThread {
				w.Violation(key("stack-trace-callback-site-with-elimination:"+merr.Class),
					fmt.Sprintf("with elimination on the called-back frame %s has call site %s, without %s", f.name, ron[j].loc, f.loc), detail())
				return nil, nil, nil, false
			}
			j++
			continue
		}
		if behalf && elided[c18Elided{f.name, "*"}] {
			continue
		}
		if !elided[c18Elided{f.name, f.loc}] {
			w.Violation(key("stack-trace-frame-dropped:"+merr.Class),
				fmt.Sprintf("with elimination on the frame %s@%s is missing although no tail elision collapsed it", f.name, f.loc), detail())
			return nil, nil, nil, false
		}
	}
	if j != len(ron) {
		w.Violation(key("stack-trace-extra-frames-with-elimination"), "the elimination-on trace is not a subsequence of the elimination-off trace", detail())
		return nil, nil, nil, false
	}
	return real, ron, model, true
}

func c18ModelChain(e *refint.Err) string {
	var s []string
	for i := len(e.Stack) - 1; i >= 0; i-- {
		f := e.Stack[i]
		n := f.Name
		if n == "" {
			n = "<anon>"
		}
		loc := "-"
		if f.Site != nil {
			loc = fmt.Sprintf("%d:%d", f.Site.Line, f.Site.Col)
		}
		s = append(s, n+"@"+loc)
	}
	return strings.Join(s, " <- ")
}

// c18TailLoopProgram: a tail-recursive loop whose LAST turn makes a failing tail
// call (wrong arity, ill-typed argument to the callee's first operation, unbound
// argument), optionally under tail-position wrappers.
func c18TailLoopProgram(r *fw.RNG) []*sx.N {
	n := r.Range(0, 5)
	if r.Chance(1, 3) {
		// a callback that loops by tail calls on an early element and fails on a later
		// one: every callback frame is called from the builtin's call expression
		cb := sx.Call("defun", sx.Y("cb"), sx.L(sx.Y("n")),
			sx.Call("if", sx.Call("=", sx.Y("n"), sx.I(0)), fw.Pick(r, []*sx.N{sx.Call("error", sx.QY("boom"), sx.S("x")), sx.Call("car", sx.Y("n")), sx.Call("cb")}),
				sx.Call("if", sx.Call("<", sx.Y("n"), sx.I(-3)), sx.I(0), sx.Call("cb", sx.Call("-", sx.Y("n"), sx.I(1))))))
		elems := sx.Q(sx.L(sx.I(int64(-1-r.Intn(3))), sx.I(int64(r.Intn(4)))))
		var use *sx.N
		switch r.Intn(5) {
		case 0:
			use = sx.Call("map", sx.QY("list"), sx.Y("cb"), elems)
		case 1:
			use = sx.Call("foldl", sx.Call("lambda", sx.L(sx.Y("a"), sx.Y("x")), sx.Call("cb", sx.Y("x"))), sx.I(0), elems)
		case 2:
			use = sx.Call("select", sx.QY("list"), sx.Y("cb"), elems)
		case 3:
			use = sx.Call("list", sx.Call("funcall", sx.Y("cb"), sx.I(-1)), sx.Call("funcall", sx.Y("cb"), sx.I(int64(r.Intn(3)))))
		default:
			use = sx.Call("map", sx.QY("vector"), sx.Call("lambda", sx.L(sx.Y("x")), sx.Call("cb", sx.Y("x"))), elems)
		}
		return []*sx.N{cb, sx.Call("defun", sx.Y("run"), sx.L(), use, sx.I(1)), sx.Call("verif:probe", sx.QY("pre"), sx.I(1)), sx.Call("run")}
	}
	var bad *sx.N
	switch r.Intn(4) {
	case 0:
		bad = sx.Call("lp") // too few
	case 1:
		bad = sx.Call("lp", sx.I(1), sx.I(2), sx.I(3)) // too many
	case 2:
		bad = sx.Call("lp", sx.Y("no-such-var"), sx.I(0))
	default:
		bad = sx.Call("lp", sx.S("not-a-number"), sx.I(0)) // (<= "…" 0) fails inside the next turn
	}
	step := sx.Call("lp", sx.Call("-", sx.Y("n"), sx.I(1)), sx.Call("+", sx.Y("acc"), sx.I(1)))
	wrap := func(x *sx.N) *sx.N {
		switch r.Intn(4) {
		case 0:
			return sx.Call("progn", sx.I(0), x)
		case 1:
			return sx.Call("let", sx.L(sx.L(sx.Y("t"), sx.I(1))), x)
		case 2:
			return sx.Call("cond", sx.L(sx.Y("false"), sx.I(0)), sx.L(sx.Y("else"), x))
		}
		return x
	}
	body := sx.Call("if", sx.Call("<=", sx.Y("n"), sx.I(0)), wrap(bad), wrap(step))
	forms := []*sx.N{sx.Call("defun", sx.Y("lp"), sx.L(sx.Y("n"), sx.Y("acc")), body)}
	forms = append(forms, sx.Call("verif:probe", sx.QY("pre"), sx.I(1)))
	call := sx.Call("lp", sx.I(int64(n)), sx.I(0))
	if r.Bool() {
		call = sx.Call("list", sx.I(1), call)
	}
	return append(forms, call)
}
