package props

import (
	"fmt"
	"sort"
	"strconv"
	"strings"

	"github.com/luthersystems/elps/lisp"

	"verifharness/fw"
	"verifharness/refint"
	"verifharness/rt"
	"verifharness/sx"
	"verifharness/tree"
)

// C07, gensym over LONG histories.
//
// "Symbols from gensym are distinct from one another" is quantified over the whole
// life of a runtime, not over its first few thousand symbols.  A runtime cannot be
// driven through 10^8 .. 2^64 draws inside a case, but the counter is the only state
// GenSym keeps, so the hook lisp.VerifAdvanceGenSym (build tag verif) puts a runtime
// into the state "n more symbols were generated" directly.  One case = one runtime:
//
//   take symbols  ->  fast-forward  ->  take symbols  ->  fast-forward  -> ...
//
//   * symbols are taken through every route a program or an embedder has: (gensym),
//     a defun calling it, user macros (as value and as the binder of their expansion),
//     the expansions of the gensym-using builtin macros (get-default, trace,
//     curry-function), Runtime.GenSym and LEnv.GenSym from the host;
//   * a fast-forward amount is PRNG-chosen AROUND a magnitude P out of 10^1..10^19,
//     2^31, 2^32, 2^53, 2^63 and the ceiling 2^64-2^32: "P - back" (back <= the number
//     of symbols drawn since the last fast-forward, so the new symbols sit exactly P
//     positions after recent ones: any name that depends on the counter modulo P
//     repeats), "just below P as an absolute counter value" (the next draws straddle
//     P: digit-width and word-size boundaries), or "P + a little".  The sum of all
//     amounts stays below 2^64-2^32: at 2^64 the uint64 counter genuinely wraps, which
//     the property cannot exclude;
//   * fast-forwards also happen in the MIDDLE of an evaluation: (verif:probe 'ff ())
//     in generated macro-hygiene programs triggers one from the probe's host side, so
//     that an expansion made before it and an expansion made after it coexist in one
//     evaluation (a recursive macro binding one temp per level, a function defined
//     through a macro early and called late, a macro handing its temp to another macro,
//     or-like macros, gensym-named globals).  Those programs must evaluate like the
//     reference model, which knows nothing of counters;
//   * oracle: all symbols taken in the runtime are pairwise distinct as Go strings and
//     under lisp equal?, and none of them is a token of any text loaded into it.

type c07Mag struct {
	name string
	v    uint64
	abs  bool // only usable as an absolute target (the ceiling)
}

// c07Ceiling bounds advanced + drawn: the true counter stays 2^32 draws below the wrap.
const c07Ceiling = ^uint64(0) - (1 << 32) + 1 // 2^64 - 2^32

var c07Magnitudes = func() []c07Mag {
	var ms []c07Mag
	p := uint64(1)
	for k := 1; k <= 19; k++ {
		p *= 10
		ms = append(ms, c07Mag{name: fmt.Sprintf("1e%d", k), v: p})
	}
	ms = append(ms, c07Mag{"2^31", 1 << 31, false}, c07Mag{"2^32", 1 << 32, false}, c07Mag{"2^53", 1 << 53, false},
		c07Mag{"2^63", 1 << 63, false}, c07Mag{"2^64-2^32", c07Ceiling, true})
	return ms
}()

type c07Sym struct {
	name  string
	route string
	phase int // number of fast-forwards before it was taken
	v     *lisp.LVal
}

type c07Long struct {
	w        *fw.W
	r        *fw.RNG
	rr       *rt.R
	advanced uint64 // exact sum of the fast-forwards
	drawn    uint64 // estimate of the symbols drawn (only steers "around")
	since    int    // estimate of the symbols drawn since the last fast-forward
	phase    int
	syms     []c07Sym
	texts    []string
	log      []string
	failed   bool
	reported map[string]bool
}

func (c *c07Long) violation(key, summary, detail string) {
	if c.reported[key] {
		return
	}
	c.reported[key] = true
	c.w.Violation(key, summary, detail+"\nhistory of this runtime:\n  "+strings.Join(c.log, "\n  "))
}

// advance fast-forwards the counter by an amount around a PRNG-chosen magnitude.
func (c *c07Long) advance(since int) {
	cur := c.advanced + c.drawn
	var amt uint64
	var m c07Mag
	kind := ""
	for try := 0; try < 8 && kind == ""; try++ {
		m = fw.Pick(c.r, c07Magnitudes)
		back := uint64(c.r.Intn(since + 3))
		mode := c.r.Intn(10)
		var a uint64
		k := ""
		switch {
		case m.abs || (mode >= 6 && mode < 9):
			if m.v <= cur+back+1 {
				continue
			}
			a, k = m.v-cur-back, "lands-below"
		case mode == 9:
			a, k = m.v+uint64(c.r.Intn(4)), "plus"
		default:
			if back >= m.v {
				back = m.v - 1
			}
			a, k = m.v-back, "minus-recent"
		}
		if cur > c07Ceiling || a > c07Ceiling-cur {
			continue
		}
		amt, kind = a, k
	}
	if kind == "" {
		m, amt, kind = c07Mag{name: "small"}, uint64(c.r.Intn(3)), "no-room"
	}
	lisp.VerifAdvanceGenSym(c.rr.Env.Runtime, uint(amt))
	c.advanced += amt
	c.since = 0
	c.phase++
	c.log = append(c.log, fmt.Sprintf("fast-forward #%d by %d (%s, %s; %d symbols drawn since the previous one; total advanced %d)", c.phase, amt, m.name, kind, since, c.advanced))
	c.w.Count("long_fast_forwards", 1)
	c.w.SetAdd("long_fast_forward_kinds", m.name+"/"+kind)
	c.w.CoverKey("gensym-long|ff|" + m.name + "|" + kind)
}

func (c *c07Long) load(name, src string) *lisp.LVal {
	c.texts = append(c.texts, src)
	c.w.Eval(1)
	v := c.rr.Env.LoadString(name, src)
	if v == nil || v.Type == lisp.LError {
		c.failed = true
		c.violation("gensym-long-history-program-failed", fmt.Sprintf("%s failed: %v", name, v), src)
	}
	return v
}

func (c *c07Long) record(route string, draws int, vs ...*lisp.LVal) {
	c.drawn += uint64(draws)
	c.since += draws
	for _, v := range vs {
		if v == nil || (v.Type != lisp.LSymbol && v.Type != lisp.LQSymbol) {
			c.w.Count("long_take_shape_unrecognised", 1)
			c.w.SetAdd("long_take_shape_unrecognised_routes", route)
			return
		}
	}
	for _, v := range vs {
		c.syms = append(c.syms, c07Sym{name: v.Str, route: route, phase: c.phase, v: v})
		c.log = append(c.log, fmt.Sprintf("took %s via %s", v.Str, route))
	}
	late := "early"
	if c.phase > 0 {
		late = "late"
	}
	c.w.CoverKey("gensym-long|route|" + route + "|" + late)
}

// c07LetBinders returns the variables bound by a (let ((v init)...) ...) form, or nil
// when the value does not have that shape (then nothing is judged).
func c07LetBinders(v *lisp.LVal, want int) []*lisp.LVal {
	if v == nil || v.Type != lisp.LSExpr || len(v.Cells) < 2 || v.Cells[0].Type != lisp.LSymbol || !strings.HasSuffix(v.Cells[0].Str, "let") {
		return []*lisp.LVal{nil}
	}
	bs := v.Cells[1]
	if bs.Type != lisp.LSExpr || len(bs.Cells) != want {
		return []*lisp.LVal{nil}
	}
	var out []*lisp.LVal
	for _, b := range bs.Cells {
		if b.Type != lisp.LSExpr || len(b.Cells) != 2 {
			return []*lisp.LVal{nil}
		}
		out = append(out, b.Cells[0])
	}
	return out
}

var c07Routes = []string{"gensym", "defun", "macro-value", "macro-binder", "or-macro-binder", "host-runtime", "host-env",
	"get-default-binders", "trace-binder", "curry-function-formal", "map-lambda", "burn-builtin-macros"}

func (c *c07Long) take(route string) {
	if c.failed {
		return
	}
	switch route {
	case "gensym":
		c.record(route, 1, c.load("take", "(gensym)"))
	case "defun":
		c.record(route, 1, c.load("take", "(take-direct)"))
	case "macro-value":
		c.record(route, 1, c.load("take", "(take-quoted)"))
	case "macro-binder":
		c.record(route, 1, c07LetBinders(c.load("take", "(macroexpand '(bind-tmp 1 2))"), 1)...)
	case "or-macro-binder":
		c.record(route, 1, c07LetBinders(c.load("take", "(macroexpand '(my-or 1 2))"), 1)...)
	case "host-runtime":
		c.record(route, 1, lisp.Symbol(c.rr.Env.Runtime.GenSym()))
	case "host-env":
		c.record(route, 1, c.rr.Env.GenSym())
	case "get-default-binders":
		c.record(route, 2, c07LetBinders(c.load("take", `(macroexpand '(get-default m "k" 5))`), 2)...)
	case "trace-binder":
		c.record(route, 1, c07LetBinders(c.load("take", `(macroexpand '(trace (+ 1 2) "t"))`), 1)...)
	case "curry-function-formal":
		v := c.load("take", "(macroexpand '(curry-function + 1))")
		var f *lisp.LVal
		if v != nil && v.Type == lisp.LSExpr && len(v.Cells) == 3 && v.Cells[1].Type == lisp.LSExpr && len(v.Cells[1].Cells) == 2 {
			f = v.Cells[1].Cells[1]
		}
		c.record(route, 1, f)
	case "map-lambda":
		n := c.r.Range(2, 4)
		v := c.load("take", fmt.Sprintf("(map 'list (lambda (x) (gensym)) '(%s))", strings.TrimSpace(strings.Repeat("0 ", n))))
		if v != nil && v.Type == lisp.LSExpr && len(v.Cells) == n {
			c.record(route, n, v.Cells...)
		} else {
			c.record(route, n, nil)
		}
	case "burn-builtin-macros":
		// symbols drawn but not seen: the evaluated builtin macros
		c.load("burn", `(list (get-default (sorted-map "a" 1) "a" 5) ((curry-function + 1) 2))`)
		c.drawn += 3
		c.since += 3
	}
}

// hygiene builds, runs (in the long-lived runtime) and judges one macro-hygiene
// program whose evaluation is interrupted by fast-forwards.
func (c *c07Long) hygiene(k int) {
	if c.failed {
		return
	}
	r := c.r
	g := &c07Gen{r: r, feat: map[string]bool{}}
	nm := func(s string) string { return fmt.Sprintf("%s-%d", s, k) }
	ff := func() *sx.N { return sx.Call("verif:probe", sx.QY("ff"), sx.Nil()) }
	val := func() *sx.N {
		switch r.Intn(5) {
		case 0:
			return g.probe("arg", sx.I(int64(r.Intn(20))))
		case 1:
			return sx.Y("lex")
		case 2:
			return sx.Call("+", sx.I(1), sx.I(int64(r.Intn(9))))
		}
		return sx.I(int64(r.Range(1, 40)))
	}
	gs := func(v string) *sx.N { return sx.L(sx.L(sx.Y(v), sx.Call("gensym"))) }
	var defs, top, calls []*sx.N
	var shapes []string
	all := []string{"recursive-accumulate", "defined-early-called-late", "temp-handed-to-macro", "or-like", "gensym-named-global"}
	fw.Shuffle(r, all)
	for _, shape := range all[:r.Range(1, 3)] {
		shapes = append(shapes, shape)
		switch shape {
		case "recursive-accumulate":
			// (acc (a b c)) -> (let ([G1 a]) FF (acc (b c) G1)) -> ... -> (list G1 G2 G3)
			acc := nm("acc")
			defs = append(defs, sx.Call("defmacro", sx.Y(acc), sx.L(sx.Y("vals"), sx.Y("&rest"), sx.Y("seen")),
				sx.Call("if", sx.Call("nil?", sx.Y("vals")),
					sx.Call("quasiquote", sx.Call("list", uqs(sx.Y("seen")))),
					sx.Call("let", gs("g"),
						sx.Call("quasiquote", sx.Call("let", sx.L(sx.L(uq(sx.Y("g")), uq(sx.Call("car", sx.Y("vals"))))),
							ff(), sx.Call(acc, uq(sx.Call("cdr", sx.Y("vals"))), uqs(sx.Y("seen")), uq(sx.Y("g")))))))))
			var vs []*sx.N
			for i := r.Range(2, 5); i > 0; i-- {
				vs = append(vs, val())
			}
			calls = append(calls, sx.Call(acc, sx.L(vs...)))
		case "defined-early-called-late":
			// the function's formal is a symbol of the definition time; its body holds a
			// macro call that is expanded when the function runs
			late, def, fn := nm("with-late"), nm("def-pairer"), nm("pairer")
			defs = append(defs,
				sx.Call("defmacro", sx.Y(late), sx.L(sx.Y("x"), sx.Y("n")), sx.Call("let", gs("h"),
					sx.Call("quasiquote", sx.Call("let", sx.L(sx.L(uq(sx.Y("h")), uq(sx.Y("n")))), sx.Call("list", uq(sx.Y("h")), uq(sx.Y("x"))))))),
				sx.Call("defmacro", sx.Y(def), sx.L(sx.Y("name"), sx.Y("n")), sx.Call("let", gs("g"),
					sx.Call("quasiquote", sx.Call("defun", uq(sx.Y("name")), sx.L(uq(sx.Y("g"))), sx.Call(late, uq(sx.Y("g")), uq(sx.Y("n"))))))))
			top = append(top, sx.Call(def, sx.Y(fn), sx.I(int64(r.Range(50, 90)))), ff())
			calls = append(calls, sx.Call(fn, val()))
			if r.Chance(1, 2) {
				calls = append(calls, ff(), sx.Call(fn, val()))
			}
		case "temp-handed-to-macro":
			// outer binds a temp, fast-forwards, and hands the temp to inner, which binds its own
			outer, inner := nm("outer"), nm("inner")
			defs = append(defs,
				sx.Call("defmacro", sx.Y(inner), sx.L(sx.Y("x"), sx.Y("y")), sx.Call("let", gs("h"),
					sx.Call("quasiquote", sx.Call("let", sx.L(sx.L(uq(sx.Y("h")), uq(sx.Y("x")))), sx.Call("list", uq(sx.Y("h")), uq(sx.Y("y"))))))),
				sx.Call("defmacro", sx.Y(outer), sx.L(sx.Y("a"), sx.Y("b")), sx.Call("let", gs("g"),
					sx.Call("quasiquote", sx.Call("let", sx.L(sx.L(uq(sx.Y("g")), uq(sx.Y("a")))), ff(), sx.Call(inner, uq(sx.Y("b")), uq(sx.Y("g"))))))))
			x := val()
			for d := r.Range(1, 3); d > 0; d-- {
				x = sx.Call(outer, val(), x)
			}
			calls = append(calls, x)
		case "or-like":
			or := nm("or2")
			defs = append(defs, sx.Call("defmacro", sx.Y(or), sx.L(sx.Y("a"), sx.Y("b")), sx.Call("let", gs("g"),
				sx.Call("quasiquote", sx.Call("let", sx.L(sx.L(uq(sx.Y("g")), uq(sx.Y("a")))), sx.Call("if", uq(sx.Y("g")), uq(sx.Y("g")), uq(sx.Y("b"))))))))
			x := val()
			for d := r.Range(1, 4); d > 0; d-- {
				first := fw.Pick(r, []*sx.N{sx.Y("false"), sx.Y("false"), sx.Nil(), val()})
				x = sx.Call(or, sx.Call("progn", ff(), first), x)
			}
			calls = append(calls, x)
		case "gensym-named-global":
			// each expansion stores into a global named by a fresh symbol and returns a reader of it
			fg, f1, f2 := nm("fresh-global"), nm("reader-a"), nm("reader-b")
			defs = append(defs, sx.Call("defmacro", sx.Y(fg), sx.L(sx.Y("v")), sx.Call("let", gs("g"),
				sx.Call("quasiquote", sx.Call("progn", sx.Call("set", sx.Q(uq(sx.Y("g"))), uq(sx.Y("v"))), sx.Call("lambda", sx.L(), uq(sx.Y("g"))))))))
			top = append(top, sx.Call("set", sx.QY(f1), sx.Call(fg, sx.I(int64(r.Range(100, 140))))), ff(),
				sx.Call("set", sx.QY(f2), sx.Call(fg, sx.I(int64(r.Range(200, 240))))))
			calls = append(calls, sx.Call("list", sx.Call("funcall", sx.Y(f1)), sx.Call("funcall", sx.Y(f2))))
		}
	}
	var body []*sx.N
	for i, cl := range calls {
		if cl.Head() == "verif:probe" {
			body = append(body, cl)
			continue
		}
		body = append(body, sx.Call("verif:probe", sx.QY(fmt.Sprintf("r%d", i)), cl))
	}
	forms := append(append(defs, top...), sx.Call("let", append([]*sx.N{sx.L(sx.L(sx.Y("lex"), sx.I(7)))}, body...)...))
	src := sx.Render(forms, nil)
	c.texts = append(c.texts, src)
	c.log = append(c.log, fmt.Sprintf("hygiene program %d (%s)", k, strings.Join(shapes, ", ")))
	c.rr.OnProbe = func(tag string) {
		if tag == "ff" {
			c.advance(1)
			c.since = 0
		}
	}
	phase0 := c.phase
	t1 := c.rr.Run(fmt.Sprintf("hygiene%d", k), src)
	c.rr.OnProbe = nil
	c.drawn += 8
	c.since += 2
	c.w.Eval(1)
	c.w.Count("long_hygiene_programs", 1)
	c.w.Count("long_hygiene_fast_forwards_inside_evaluation", int64(c.phase-phase0))
	c.w.Logf("hygiene source:\n%s\n=> %s trace %s", src, t1.Outcome(), t1.TraceString())

	in := refint.New()
	_, merr := func() (mv *refint.V, me *refint.Err) {
		defer func() {
			if rec := recover(); rec != nil {
				me = &refint.Err{Cond: fmt.Sprint("<model panic: ", rec, ">"), Unsure: true}
			}
		}()
		return in.LoadForms(forms)
	}()
	if merr != nil && (merr.Fuel || merr.Unsure) {
		c.w.Count("model_declined", 1)
		return
	}
	bad := ""
	if len(t1.Trace) != len(in.Trace) {
		bad = fmt.Sprintf("effect trace length %d vs model %d", len(t1.Trace), len(in.Trace))
	}
	for i := 0; bad == "" && i < len(t1.Trace); i++ {
		a, b := t1.Trace[i], in.Trace[i]
		ok := a.Tag == b.Tag && len(a.Trees) == len(b.Vals)
		for j := 0; ok && j < len(a.Trees); j++ {
			ok = tree.Equal(a.Trees[j], b.Vals[j], tree.Opts{IgnoreQuote: true})
		}
		if !ok {
			bad = fmt.Sprintf("effect %d: real %s vs model %s", i, a.String(), b.Tag)
		}
	}
	if bad == "" && t1.IsErr != (merr != nil) {
		bad = fmt.Sprintf("real %s vs model err=%v", t1.Outcome(), merr)
	}
	if bad == "" && t1.IsErr && t1.Cond != merr.Cond {
		bad = fmt.Sprintf("condition %s vs model %s", t1.Cond, merr.Cond)
	}
	if bad != "" {
		c.violation("macro-hygiene-long-history-model-disagreement", bad+" (macros binding gensym temps, expanded before and after fast-forwards of the gensym counter)",
			fmt.Sprintf("source:\n%s\nreal: %s\n trace %s\nmodel: err=%v\n trace %s", src, t1.Outcome(), t1.TraceString(), merr, in.TraceString()))
		return
	}
	out := "value"
	if t1.IsErr {
		out = "err:" + t1.Cond
	}
	for _, s := range shapes {
		c.w.CoverKey(fmt.Sprintf("gensym-long|hygiene|%s|%s|ffs=%d", s, out, c.phase-phase0))
	}
	if c.w.WantSample() && len(src) < 1200 && c.phase-phase0 >= 2 && r.Chance(1, 40) {
		c.w.Sample(map[string]any{"long_history_hygiene_source": src, "outcome": t1.Outcome(), "trace": t1.TraceString(), "history": c.log})
	}
}

// c07Tokens is a superset of the symbols the reader can produce from src.
func c07Tokens(src string, into map[string]bool) {
	for _, t := range strings.FieldsFunc(src, func(r rune) bool {
		return r == ' ' || r == '\n' || r == '\t' || r == '(' || r == ')' || r == '[' || r == ']' || r == '\'' || r == '"' || r == ',' || r == '`' || r == '@' || r == ';'
	}) {
		into[t] = true
		if i := strings.LastIndexByte(t, ':'); i >= 0 {
			into[t[i+1:]] = true
		}
	}
}

func c07GensymLong(w *fw.W, idx int) {
	if strconv.IntSize < 64 {
		w.Count("long_history_skipped_32bit", 1)
		return
	}
	r := w.RNG(idx, "gensym-long")
	c := &c07Long{w: w, r: r, reported: map[string]bool{}}
	c.rr = rt.New(rt.Opts{MaxSteps: 5_000_000})
	w.Count("long_cases", 1)

	// The program text contains gen-prefixed numbered symbols that are NOT of the
	// documented shape gen%08d (other widths), for counters this history will reach:
	// the names a differently padded or truncated counter would produce.  (Names of the
	// true shape collide by construction - the known finding of the short histories.)
	near := []string{"plain-gen", "gen-1", "gen0", "gen"}
	for i := 0; i < 4; i++ {
		k := r.Range(1, 60)
		switch r.Intn(3) {
		case 0:
			near = append(near, fmt.Sprintf("gen%d", k))
		case 1:
			near = append(near, fmt.Sprintf("gen%0*d", r.Range(9, 20), k))
		default:
			near = append(near, fmt.Sprintf("gen%0*d", r.Range(1, 7), k))
		}
	}
	var sb strings.Builder
	for i, s := range near {
		fmt.Fprintf(&sb, "(set '%s %d) ", s, i)
	}
	sb.WriteString(`
(defun take-direct () (gensym))
(defmacro take-quoted () (quasiquote (quote (unquote (gensym)))))
(defmacro bind-tmp (a b) (let ([g (gensym)]) (quasiquote (let ([(unquote g) (unquote a)]) (list (unquote g) (unquote b))))))
(defmacro my-or (a b) (let ([g (gensym)]) (quasiquote (let ([(unquote g) (unquote a)]) (if (unquote g) (unquote g) (unquote b))))))
`)
	c.load("prelude", sb.String())

	nseg := r.Range(2, 4)
	hyg := 0
	for seg := 0; seg < nseg && !c.failed; seg++ {
		if seg > 0 {
			c.advance(c.since)
		}
		for i := r.Range(2, 6); i > 0; i-- {
			c.take(fw.Pick(r, c07Routes))
		}
		if r.Chance(1, 2) {
			hyg++
			c.hygiene(hyg)
			for i := r.Range(0, 3); i > 0; i-- {
				c.take(fw.Pick(r, c07Routes))
			}
		}
	}
	if c.failed {
		return
	}

	// --- oracle -------------------------------------------------------------------------
	describe := func(s c07Sym) string {
		return fmt.Sprintf("%s (via %s, after %d fast-forwards)", s.name, s.route, s.phase)
	}
	goEqual := map[[2]int]bool{}
	byName := map[string]int{}
	for j, s := range c.syms {
		if i, dup := byName[s.name]; dup {
			goEqual[[2]int{i, j}] = true
			a := c.syms[i]
			key := "gensym-repeats-across-long-history"
			if a.phase == s.phase {
				key = "gensym-not-distinct"
				if s.phase > 0 {
					key = "gensym-not-distinct:late-in-long-history"
				}
			}
			c.violation(key, fmt.Sprintf("one runtime produced the symbol %s twice: %s and %s (all fast-forwards of this runtime together: %d)", s.name, describe(a), describe(s), c.advanced), "texts loaded:\n"+strings.Join(c.texts, "\n---\n"))
			continue
		}
		byName[s.name] = j
	}
	// the same question put to lisp equal?
	cells := make([]*lisp.LVal, len(c.syms))
	for i, s := range c.syms {
		cells[i] = lisp.Symbol(s.name)
		if s.v != nil && s.v.Type == lisp.LSymbol {
			cells[i] = s.v
		}
	}
	c.rr.Env.PutGlobal(lisp.Symbol("c07-all"), lisp.QExpr(cells))
	pv := c.load("pairs", `(let ([n (length c07-all)] [bad ()])
  (dotimes (i n) (dotimes (j i) (if (equal? (nth c07-all i) (nth c07-all j)) (set! bad (cons (list j i) bad)) ())))
  bad)`)
	if c.failed {
		return
	}
	if pv.Type == lisp.LSExpr {
		for _, p := range pv.Cells {
			if p.Type != lisp.LSExpr || len(p.Cells) != 2 || p.Cells[0].Type != lisp.LInt || p.Cells[1].Type != lisp.LInt {
				continue
			}
			i, j := p.Cells[0].Int, p.Cells[1].Int
			if i < 0 || j >= len(c.syms) || i >= j || goEqual[[2]int{i, j}] || c.syms[i].name == c.syms[j].name {
				continue
			}
			c.violation("gensym-equal?-but-names-differ", fmt.Sprintf("equal? holds %s and %s to be the same symbol", describe(c.syms[i]), describe(c.syms[j])), "")
		}
	}
	// distinct from everything the reader could produce from the texts
	toks := map[string]bool{}
	for _, t := range c.texts {
		c07Tokens(t, toks)
	}
	for _, s := range c.syms {
		if toks[s.name] {
			c.violation("gensym-collides-with-program-symbol:long-history", fmt.Sprintf("gensym returned %s, a symbol the text loaded into this runtime contains", describe(s)), "texts loaded:\n"+strings.Join(c.texts, "\n---\n"))
			break
		}
	}
	w.Count("long_symbols_checked", int64(len(c.syms)))
	w.Max("long_max_symbols_in_one_runtime", int64(len(c.syms)))
	w.Max("long_max_fast_forwards_in_one_runtime", int64(c.phase))
	w.Max("long_max_counter_decimal_digits", int64(len(strconv.FormatUint(c.advanced+c.drawn, 10))))
	w.CoverKey(fmt.Sprintf("gensym-long|phases=%d|syms=%d", c.phase, len(c.syms)/5))
	w.Logf("history:\n  %s", strings.Join(c.log, "\n  "))
	if w.WantSample() && c.phase >= 3 && r.Chance(1, 60) {
		names := make([]string, 0, len(c.syms))
		for _, s := range c.syms {
			names = append(names, s.name)
		}
		sort.Strings(names)
		w.Sample(map[string]any{"long_history": c.log, "symbols": names})
	}
}
