package props

// C17 — oracle: twin transcripts (original vs minified, each in a fresh
// runtime), readability of the minified text, determinism of two Minify calls,
// and inversion of the reported renames by the symbol map.

import (
	"bytes"
	"fmt"
	"reflect"
	"sort"
	"strconv"
	"strings"

	"github.com/luthersystems/elps/formatter"
	"github.com/luthersystems/elps/lisp"
	"github.com/luthersystems/elps/minifier"
	"github.com/luthersystems/elps/parser"

	"verifharness/rt"
)

// c17Cfg is one minifier configuration.
type c17Cfg struct {
	RenameExports  bool
	PreserveParams bool
	Excl           []string
	// Order: in which order the session's files are handed to Minify ("" = load
	// order, "reversed", "sorted" by path, "rotated").  Not a minifier option: the
	// command takes the files as arguments and knows nothing about load order.
	Order string
}

func (c c17Cfg) name() string {
	var parts []string
	if c.RenameExports {
		parts = append(parts, "rename-exports")
	}
	if !c.PreserveParams {
		parts = append(parts, "rename-params")
	}
	if len(c.Excl) > 0 {
		parts = append(parts, "exclusions")
	}
	if c.Order != "" {
		parts = append(parts, "inputs-"+c.Order)
	}
	if len(parts) == 0 {
		return "defaults"
	}
	return strings.Join(parts, "+")
}

// mini builds the minifier configuration exactly as cmd/minify.go does.
func (c c17Cfg) mini() *minifier.Config {
	ex := make(map[string]bool, len(c.Excl))
	for _, n := range c.Excl {
		ex[n] = true
	}
	cfg := &minifier.Config{
		Exclusions:     ex,
		RenameExports:  c.RenameExports,
		PreserveParams: c.PreserveParams,
		Formatter:      formatter.DefaultConfig(),
	}
	cfg.Formatter.Compact = true
	cfg.Formatter.StripComments = true
	return cfg
}

// ---- evaluation ---------------------------------------------------------------

// c17Render renders a value for comparison.  Function values are compared
// only as "is a function": their printed form legitimately contains renamed
// parameter and local names.
func c17Render(v *lisp.LVal, sb *strings.Builder, depth int) {
	if v == nil {
		sb.WriteString("<nil>")
		return
	}
	if depth > 40 {
		sb.WriteString("<deep>")
		return
	}
	switch v.Type {
	case lisp.LFun:
		sb.WriteString("#<function>")
	case lisp.LInt:
		sb.WriteString(strconv.Itoa(v.Int))
	case lisp.LFloat:
		sb.WriteString(strconv.FormatFloat(v.Float, 'g', -1, 64))
	case lisp.LString:
		sb.WriteString(strconv.Quote(v.Str))
	case lisp.LSymbol, lisp.LQSymbol:
		sb.WriteString("sym:")
		sb.WriteString(v.Str)
	case lisp.LSExpr:
		if v.IsQuoted() {
			sb.WriteByte('\'')
		}
		sb.WriteByte('(')
		for i, c := range v.Cells {
			if i > 0 {
				sb.WriteByte(' ')
			}
			c17Render(c, sb, depth+1)
		}
		sb.WriteByte(')')
	case lisp.LError:
		sb.WriteString("error:")
		sb.WriteString(v.Str)
	default:
		// arrays, maps, bytes, natives, tagged values: not produced by the
		// generated programs; fall back to the interpreter's rendering
		sb.WriteString(v.Type.String())
		sb.WriteByte(':')
		sb.WriteString(v.String())
	}
}

type c17FileObs struct {
	Val    string
	IsErr  bool
	Cond   string
	Msg    string
	Stderr string
}

type c17Obs struct {
	Files []c17FileObs // one per file actually loaded (stops after the first error)
}

// c17Eval loads the files in order into one FRESH runtime.
func c17Eval(paths []string, srcs []string) c17Obs {
	r := rt.New(rt.Opts{NoStdlib: true, NoProbes: true, MaxSteps: 3_000_000})
	var o c17Obs
	for i := range srcs {
		tr, v := r.RunV(paths[i], srcs[i])
		fo := c17FileObs{IsErr: tr.IsErr, Cond: tr.Cond, Msg: tr.Msg, Stderr: tr.Stderr}
		if !tr.IsErr {
			var sb strings.Builder
			c17Render(v, &sb, 0)
			fo.Val = sb.String()
		}
		o.Files = append(o.Files, fo)
		if tr.IsErr {
			break
		}
	}
	return o
}

func (o c17Obs) String() string {
	var sb strings.Builder
	for i, f := range o.Files {
		if f.IsErr {
			fmt.Fprintf(&sb, "  file %d: ERROR condition=%q message=%q\n", i+1, f.Cond, f.Msg)
		} else {
			fmt.Fprintf(&sb, "  file %d: value=%s\n", i+1, f.Val)
		}
		fmt.Fprintf(&sb, "          stderr=%q\n", f.Stderr)
	}
	return sb.String()
}

// c17PrintsFunction reports whether debug output contains the printed form of
// a function value (which legitimately shows renamed names).
func c17PrintsFunction(s string) bool {
	return strings.Contains(s, "(lambda") || strings.Contains(s, "#<")
}

func c17MsgClass(m string) string {
	// keep the part of a message that does not name program symbols
	m = strings.TrimSpace(m)
	parts := strings.Split(m, ": ")
	for _, p := range parts {
		switch {
		case strings.HasPrefix(p, "unbound symbol"):
			return "unbound-symbol"
		case strings.HasPrefix(p, "argument is not"), strings.HasPrefix(p, "first argument is not"), strings.HasPrefix(p, "second argument is not"):
			return "wrong-type"
		case strings.HasPrefix(p, "invalid number of arguments"):
			return "arity"
		case strings.Contains(p, "not a function"), strings.Contains(p, "is not callable"):
			return "not-a-function"
		}
	}
	return "other"
}

// c17Compare returns "" when the minified run agrees with the original, else
// a category (coarse, used for keys) and a sub-description.
func c17Compare(orig, min c17Obs) (cat, sub string) {
	n := len(orig.Files)
	if len(min.Files) < n {
		n = len(min.Files)
	}
	for i := 0; i < n; i++ {
		a, b := orig.Files[i], min.Files[i]
		// output written before the outcome of this file
		if a.Stderr != b.Stderr && !c17PrintsFunction(a.Stderr) {
			// an error difference in the same file is the more informative category
			if a.IsErr == b.IsErr && (!a.IsErr || a.Cond == b.Cond) {
				return "result-differs", "stderr"
			}
		}
		switch {
		case !a.IsErr && b.IsErr:
			return "minified-fails", c17MsgClass(b.Msg)
		case a.IsErr && !b.IsErr:
			return "minified-succeeds-original-fails", c17MsgClass(a.Msg)
		case a.IsErr && b.IsErr && a.Cond != b.Cond:
			return "error-condition-differs", ""
		case !a.IsErr && a.Val != b.Val:
			return "result-differs", "value"
		}
	}
	if len(orig.Files) != len(min.Files) {
		return "files-loaded-differ", ""
	}
	return "", ""
}

// ---- one configuration ---------------------------------------------------------

type c17Finding struct {
	Group  string // "det", "read", "sem", "map"
	Cat    string
	Sub    string
	Detail string
}

type c17MinResult struct {
	Outs []string
	Map  minifier.SymbolMap
	Err  error
}

func c17Minify(paths []string, srcs []string, cfg c17Cfg) c17MinResult {
	// the files are handed over in cfg.Order; Outs is in load order again
	perm := c17InputOrder(cfg.Order, paths)
	inputs := make([]minifier.InputFile, len(srcs))
	for k, i := range perm {
		inputs[k] = minifier.InputFile{Path: paths[i], Source: []byte(srcs[i])}
	}
	res, err := minifier.Minify(inputs, cfg.mini())
	if err != nil {
		return c17MinResult{Err: err}
	}
	if len(res.Files) != len(srcs) {
		return c17MinResult{Err: fmt.Errorf("Minify returned %d files for %d inputs", len(res.Files), len(srcs))}
	}
	out := c17MinResult{Map: res.SymbolMap, Outs: make([]string, len(srcs))}
	for k, f := range res.Files {
		out.Outs[perm[k]] = string(f.Output)
	}
	return out
}

func c17Readable(path, src string) error {
	_, err := parser.NewReader().Read(path, strings.NewReader(src))
	return err
}

// c17Judge runs every oracle for one configuration.  origObs may be nil (then
// it is computed).  evals counts executions of real code.
func c17Judge(paths, srcs []string, cfg c17Cfg, origObs *c17Obs, evals *int, detRuns int) (findings []c17Finding, m1 c17MinResult, minObs c17Obs) {
	m1 = c17Minify(paths, srcs, cfg)
	*evals++
	if m1.Err != nil {
		// the generator only writes syntactically valid programs; confirm with the reader
		for i := range srcs {
			if err := c17Readable(paths[i], srcs[i]); err != nil {
				return nil, m1, minObs // not a valid input: nothing to judge
			}
		}
		findings = append(findings, c17Finding{Group: "read", Cat: "minify-rejects-valid-input", Detail: m1.Err.Error()})
		return findings, m1, minObs
	}
	// determinism: a second (and third) run over the same bytes
	for k := 0; k < detRuns; k++ {
		m2 := c17Minify(paths, srcs, cfg)
		*evals++
		if m2.Err != nil {
			findings = append(findings, c17Finding{Group: "det", Cat: "nondeterministic-error", Detail: m2.Err.Error()})
			break
		}
		if !reflect.DeepEqual(m1.Outs, m2.Outs) {
			findings = append(findings, c17Finding{Group: "det", Cat: "nondeterministic-output",
				Detail: "run 1:\n" + strings.Join(m1.Outs, "----\n") + "\nrun 2:\n" + strings.Join(m2.Outs, "----\n")})
			break
		}
		if !reflect.DeepEqual(m1.Map.Entries, m2.Map.Entries) ||
			!reflect.DeepEqual(m1.Map.MinifiedToOriginal, m2.Map.MinifiedToOriginal) ||
			!reflect.DeepEqual(m1.Map.OriginalToMinified, m2.Map.OriginalToMinified) {
			findings = append(findings, c17Finding{Group: "det", Cat: "nondeterministic-symbol-map",
				Detail: fmt.Sprintf("run 1: %+v\nrun 2: %+v", m1.Map.Entries, m2.Map.Entries)})
			break
		}
	}
	// readability
	for i := range m1.Outs {
		if err := c17Readable(paths[i], m1.Outs[i]); err != nil {
			findings = append(findings, c17Finding{Group: "read", Cat: "minified-unreadable", Detail: err.Error() + "\n" + m1.Outs[i]})
			return findings, m1, minObs
		}
	}
	// twin transcripts
	var o c17Obs
	if origObs != nil {
		o = *origObs
	} else {
		o = c17Eval(paths, srcs)
		*evals++
	}
	minObs = c17Eval(paths, m1.Outs)
	*evals++
	if cat, sub := c17Compare(o, minObs); cat != "" {
		findings = append(findings, c17Finding{Group: "sem", Cat: cat, Sub: sub,
			Detail: "original:\n" + o.String() + "minified:\n" + minObs.String()})
	}
	// symbol map
	if f := c17CheckMap(paths, srcs, m1); f != nil {
		findings = append(findings, *f)
	}
	return findings, m1, minObs
}

// ---- symbol map inversion --------------------------------------------------------

// c17CheckMap checks that the symbol map inverts every rename it reports:
//   - structural consistency of Entries / MinifiedToOriginal / OriginalToMinified;
//   - every entry points at a token of the original that spells Original, and
//     the token at the same index of the output spells Minified;
//   - every token that CHANGED between original and output maps back through
//     MinifiedToOriginal to the original spelling;
//   - a token that did NOT change but is spelled like a reported minified name
//     is only COUNTED (the statement speaks of the renames the map reports).
func c17CheckMap(paths, srcs []string, m c17MinResult) *c17Finding {
	sm := m.Map
	seen := map[string]string{}
	for _, e := range sm.Entries {
		// one minified name may be reported for several defining forms of ONE
		// original name (a global defined twice); two different originals
		// sharing a minified name could not be inverted
		if o, dup := seen[e.Minified]; dup && o != e.Original {
			return &c17Finding{Group: "map", Cat: "symbol-map-duplicate-minified-name", Detail: fmt.Sprintf("%q assigned to %q and %q: %+v", e.Minified, o, e.Original, sm.Entries)}
		}
		seen[e.Minified] = e.Original
		if sm.MinifiedToOriginal[e.Minified] != e.Original {
			return &c17Finding{Group: "map", Cat: "symbol-map-inconsistent", Detail: fmt.Sprintf("entry %+v but MinifiedToOriginal[%q]=%q", e, e.Minified, sm.MinifiedToOriginal[e.Minified])}
		}
		found := false
		for _, x := range sm.OriginalToMinified[e.Original] {
			if x == e.Minified {
				found = true
			}
		}
		if !found {
			return &c17Finding{Group: "map", Cat: "symbol-map-inconsistent", Detail: fmt.Sprintf("entry %+v missing from OriginalToMinified[%q]=%v", e, e.Original, sm.OriginalToMinified[e.Original])}
		}
	}
	if len(sm.MinifiedToOriginal) != len(seen) {
		return &c17Finding{Group: "map", Cat: "symbol-map-inconsistent", Detail: fmt.Sprintf("%d distinct minified names in the entries, %d MinifiedToOriginal keys", len(seen), len(sm.MinifiedToOriginal))}
	}
	type pos struct {
		file      string
		line, col int
	}
	entryAt := map[pos]minifier.SymbolMapEntry{}
	for _, e := range sm.Entries {
		entryAt[pos{e.File, e.Line, e.Col}] = e
	}
	matched := 0
	ambiguous := 0
	for fi := range srcs {
		ot, ok1 := c17Tokenize(srcs[fi])
		nt, ok2 := c17Tokenize(m.Outs[fi])
		if !ok1 || !ok2 || len(ot) != len(nt) {
			return &c17Finding{Group: "map", Cat: "unaligned", Detail: "token streams do not align (not judged)"}
		}
		for i := range ot {
			a, b := ot[i], nt[i]
			if a.Kind != b.Kind {
				return &c17Finding{Group: "map", Cat: "unaligned", Detail: "token kinds do not align (not judged)"}
			}
			if a.Kind != 's' {
				continue
			}
			ap, an := c17SplitQual(a.Text)
			bp, bn := c17SplitQual(b.Text)
			if e, ok := entryAt[pos{paths[fi], a.Line, a.Col}]; ok {
				matched++
				if an != e.Original || bn != e.Minified {
					return &c17Finding{Group: "map", Cat: "symbol-map-entry-wrong",
						Detail: fmt.Sprintf("entry %+v: original token %q, output token %q", e, a.Text, b.Text)}
				}
			}
			if a.Text != b.Text {
				back, ok := sm.MinifiedToOriginal[bn]
				if ap != bp || !ok || back != an {
					return &c17Finding{Group: "map", Cat: "symbol-map-does-not-invert", Sub: bn,
						Detail: fmt.Sprintf("%s:%d:%d original token %q became %q; MinifiedToOriginal[%q]=%q (present=%v)", paths[fi], a.Line, a.Col, a.Text, b.Text, bn, back, ok)}
				}
			} else if back, ok := sm.MinifiedToOriginal[bn]; ok && back != an {
				// an unrenamed token spelled like an assigned name: decoding it
				// through the map would invent a rename.  The statement only
				// demands that REPORTED renames are inverted, so this is
				// counted, not judged.
				ambiguous++
			}
		}
	}
	if matched != len(entryAt) {
		return &c17Finding{Group: "map", Cat: "symbol-map-entry-position", Detail: fmt.Sprintf("%d of %d entries point at a symbol token of the original", matched, len(entryAt))}
	}
	if ambiguous > 0 {
		return &c17Finding{Group: "map", Cat: "ambiguous-not-judged", Detail: fmt.Sprintf("%d unrenamed token(s) are spelled like an assigned name", ambiguous)}
	}
	return nil
}

// c17AssignedNames returns the minified names in deterministic order.
func c17AssignedNames(sm minifier.SymbolMap) []string {
	var out []string
	for k := range sm.MinifiedToOriginal {
		out = append(out, k)
	}
	sort.Strings(out)
	return out
}

var _ = bytes.Equal
