package props

import (
	"fmt"
	"os"
	"sort"
	"strings"
	"sync"
	"time"

	"github.com/luthersystems/elps/lisp"

	"verifharness/fw"
	"verifharness/rt"
	"verifharness/tree"
)

// C09, family "calls of everything the registry holds".
//
// The mutator table of c09.go is a hand-written list of core-language builtins.  A
// runtime an embedder builds registers a dozen packages more (elpspath, json, string,
// regexp, base64, math, time, schema, golang, help, testing ...), several of them with
// documented in-place operations, and the next pull request adds another.  This
// family takes its operations from the REGISTRY of a runtime built the way rt.New
// builds every runtime of the check: every function, operator and macro of every
// package, and every parameter of each (required, &optional, the first two &rest
// slots, every &key) as the position that receives a value obtained from program
// text.  The value has one of a few SHAPES (a literal list of ints / strings / lists,
// a vector or sorted-map holding literals, an array or bytes derived from a literal,
// a string literal), each in several spellings (quoted, bracket, cdr / rest / slice
// view, car of a literal, eval of a nested quote ...).
//
// What the other arguments have to be is not written down anywhere the harness could
// read, so it is DISCOVERED, per (function, position, shape), in a scratch runtime on
// a value of the same shape built from fresh storage (list / vector / sorted-map
// calls): argument tuples are drawn from a small general pool and from the spellings
// the package's own docstrings use ('* and '(range 1 3) for elpspath, 'list for the
// sequence functions, "1h" for time ...), for variadic functions grown by one
// argument around the tuples that did something.  A scratch call is REFUSED (a
// condition), ACCEPTED, or WRITES IN PLACE (the fresh value differs afterwards from an
// untouched twin; the write is DEEP when it lands where, in the program's version of
// the value, the literal's own cells are).  Deep writers first, then other in-place
// writers, then accepted calls of distinct results, and one refused call go into the
// case: one Program with a fragment per chosen call -
//
//	(defun c09v-N () <the value, from a literal>)      ; evaluated anew every time
//	before := rendering of (c09v-N)
//	result := (F ... (c09v-N) ...)                     ; conditions are a legal outcome
//	middle := rendering of (c09v-N)
//	(c09-poke result)                                  ; the RESULT is a value derived from
//	                                                   ; the literal: sort / append! / assoc!
//	                                                   ; it and everything inside it in place
//	after  := rendering of (c09v-N)
//
// and the Program goes through c09Check like every other: parsed once, loaded k
// times against a re-parsing twin, in fresh runtimes, concurrently under the race
// detector; snapshot and fingerprint unchanged; before = middle = after in the
// fresh-parse result.  Nothing here knows what any function is supposed to return: an
// error is as good as a value, only the Program and the literal are judged.  A
// violation of a batch is attributed by running every fragment as a Program of its
// own; the finding key is lib|package:function@parameter|shape.

// --- catalogue: what the registry holds -----------------------------------------------

type c09LibFn struct {
	pkg, name, kind string
	req, opt, keys  []string
	rest            string
	doc             string
}

func (f *c09LibFn) qname() string { return f.pkg + ":" + f.name }

type c09LibPos struct {
	fn   *c09LibFn
	slot string // the parameter as spelled in the key
	what byte   // 'r' required, 'o' optional, 'v' variadic, 'k' key
	i    int
}

func (p c09LibPos) String() string { return p.fn.qname() + "@" + p.slot }

type c09LibCatalogue struct {
	fns     []*c09LibFn
	pos     []c09LibPos
	skipped map[string]int      // why a registry entry has no position
	pkgDoc  map[string]string   // package docstrings
	sibDocs map[string][]string // docstrings of the package's functions
}

var (
	c09LibCatOnce sync.Once
	c09LibCat     *c09LibCatalogue
)

func c09LibCatalogueGet() *c09LibCatalogue {
	c09LibCatOnce.Do(func() {
		c := &c09LibCatalogue{skipped: map[string]int{}, pkgDoc: map[string]string{}, sibDocs: map[string][]string{}}
		r := rt.New(rt.Opts{})
		reg := r.Env.Runtime.Registry
		seen := map[string]bool{}
		for _, pn := range reg.PackageNames() {
			if pn == "verif" {
				continue // the harness' own probe builtins (verif:panic panics by design)
			}
			pkg := reg.Package(pn)
			c.pkgDoc[pn] = pkg.Doc
			for _, sn := range pkg.SymbolNames() {
				v, ok := pkg.Symbol(sn)
				if !ok || v.Type != lisp.LFun {
					if pn != lisp.DefaultUserPackage {
						c.skipped["not-a-function-value"]++
					}
					continue
				}
				if seen[v.FID()] {
					continue // imported into another package under the same identity
				}
				seen[v.FID()] = true
				f := &c09LibFn{pkg: pn, name: sn, kind: v.FunType.String(), doc: v.Docstring()}
				if f.doc == "" {
					f.doc = pkg.SymbolDoc(sn)
				}
				mode := byte('r')
				wellFormed := len(v.Cells) > 0
				if wellFormed {
					for _, a := range v.Cells[0].Cells {
						if a.Type != lisp.LSymbol {
							wellFormed = false
							break
						}
						switch a.Str {
						case lisp.OptArgSymbol:
							mode = 'o'
						case lisp.VarArgSymbol:
							mode = 'v'
						case lisp.KeyArgSymbol:
							mode = 'k'
						default:
							switch mode {
							case 'r':
								f.req = append(f.req, a.Str)
							case 'o':
								f.opt = append(f.opt, a.Str)
							case 'v':
								f.rest = a.Str
							case 'k':
								f.keys = append(f.keys, a.Str)
							}
						}
					}
				}
				if !wellFormed {
					c.skipped["formals-not-readable"]++
					continue
				}
				c.sibDocs[pn] = append(c.sibDocs[pn], f.doc)
				n0 := len(c.pos)
				for i, a := range f.req {
					c.pos = append(c.pos, c09LibPos{f, a, 'r', i})
				}
				for i, a := range f.opt {
					c.pos = append(c.pos, c09LibPos{f, "&optional:" + a, 'o', i})
				}
				if f.rest != "" {
					c.pos = append(c.pos, c09LibPos{f, "&rest:" + f.rest + "[0]", 'v', 0}, c09LibPos{f, "&rest:" + f.rest + "[1]", 'v', 1})
				}
				for i, a := range f.keys {
					c.pos = append(c.pos, c09LibPos{f, ":" + a, 'k', i})
				}
				if len(c.pos) == n0 {
					c.skipped["no-parameter"]++
					continue
				}
				c.fns = append(c.fns, f)
			}
		}
		c09LibCat = c
	})
	return c09LibCat
}

const c09LibPerCase = 3 // (function, position) pairs per case

func c09LibPasses(tier string) int { return pick(tier, 1, 8) }

func c09LibCasesPerPass() int {
	n := len(c09LibCatalogueGet().pos)
	return (n + c09LibPerCase - 1) / c09LibPerCase
}

// c09LibCases: one pass visits every (function, position) pair once.
func c09LibCases(tier string) int { return c09LibCasesPerPass() * c09LibPasses(tier) }

// --- shapes of the value and their spellings -----------------------------------------------

type c09LibShape struct {
	name     string
	fresh    string // the same value built from fresh storage (scratch discovery only)
	litDepth int    // a write at this depth (or below) of the value lands in what the program holds as literal cells
	kinds    []struct{ name, expr string }
	// like >= 0: a SECONDARY shape - what a function accepts for it is mostly what it
	// accepts for shape `like` (same container type, other elements): discovery tries
	// the calls that did something there, the one-argument layouts, and grows those
	like int
}

var c09LibShapes = []c09LibShape{
	{"ints-list", "(lisp:list 3 1 2)", 1, []struct{ name, expr string }{
		{"quoted", "'(3 1 2)"}, {"cdr-view", "(lisp:cdr '(0 3 1 2))"}, {"bracket", "[3 1 2]"}, {"slice-view", "(lisp:slice 'list '(0 3 1 2 9) 1 4)"},
		{"rest-view", "(lisp:rest '(0 3 1 2))"}, {"car-of-literal", "(lisp:car '((3 1 2) x))"}, {"eval-nested-quote", "(lisp:eval ''(3 1 2))"}}, -1},
	{"strings-list", `(lisp:list "b" "a" "c")`, 1, []struct{ name, expr string }{
		{"quoted", `'("b" "a" "c")`}, {"cdr-view", `(lisp:cdr '("z" "b" "a" "c"))`}, {"bracket", `["b" "a" "c"]`}}, 0},
	{"nested-list", "(lisp:list (lisp:list 3 1) (lisp:list 2 0))", 1, []struct{ name, expr string }{
		{"quoted", "'((3 1) (2 0))"}, {"cdr-view", "(lisp:cdr '(x (3 1) (2 0)))"}, {"list-of-literals", "(lisp:list '(3 1) (lisp:cdr '(9 2 0)))"}}, 0},
	{"vector-of-literals", "(lisp:vector (lisp:list 3 1 2) (lisp:list 2 1))", 2, []struct{ name, expr string }{
		{"quoted", "(lisp:vector '(3 1 2) '(2 1))"}, {"views", "(lisp:vector (lisp:cdr '(0 3 1 2)) [2 1])"}}, -1},
	{"map-of-literals", `(lisp:sorted-map "k" (lisp:list 3 1 2) "j" (lisp:list 2 1))`, 2, []struct{ name, expr string }{
		{"quoted", `(lisp:sorted-map "k" '(3 1 2) "j" '(2 1))`}, {"views", `(lisp:sorted-map "k" (lisp:rest '(0 3 1 2)) "j" [2 1])`}}, -1},
	{"array-from-literal", "(lisp:vector 3 1 2)", 1, []struct{ name, expr string }{
		{"slice-vector", "(lisp:slice 'vector '(3 1 2) 0 3)"}, {"append-vector", "(lisp:append 'vector '(3 1 2))"}, {"apply-vector", "(lisp:apply lisp:vector '(3 1 2))"},
		{"slice-vector-of-view", "(lisp:slice 'vector (lisp:cdr '(0 3 1 2)) 0 3)"}}, 3},
	{"bytes-from-literal", `(lisp:to-bytes "3 1 2")`, 0, []struct{ name, expr string }{
		{"to-bytes", `(lisp:to-bytes "3 1 2")`}}, -1},
	{"string-literal", `"3 1 2"`, 1 << 20, []struct{ name, expr string }{
		{"string", `"3 1 2"`}}, -1},
}

// --- argument pools ---------------------------------------------------------------------------

// c09LibGeneral: what any argument may be, one or two of every value class.
var c09LibGeneral = []string{"0", `"k"`, "1", "'list", "true", "(lisp:lambda (&rest xs) true)", "-1", "'k", ":k", "()", "lisp:<", "'vector",
	`""`, "1.5", "(lisp:vector 1 2)", `(lisp:sorted-map "k" 1)`, "(lisp:list 2 1)", `(lisp:to-bytes "ab")`, "2", "lisp:identity"}

// c09LibDocTokens harvests argument spellings from a docstring: string literals,
// quoted symbols and quoted lists, keywords, numbers, true / false.
func c09LibDocTokens(doc string) []string {
	var out []string
	isSym := func(c byte) bool {
		return c > ' ' && c < 127 && !strings.ContainsRune("()[]\"';`,", rune(c))
	}
	boundary := func(i int) bool { return i < 0 || i >= len(doc) || !isSym(doc[i]) }
	for i := 0; i < len(doc); i++ {
		c := doc[i]
		switch {
		case c == '"':
			j := i + 1
			for j < len(doc) && doc[j] != '"' && doc[j] != '\n' {
				if doc[j] == '\\' {
					j++
				}
				j++
			}
			if j < len(doc) && doc[j] == '"' && j-i < 40 {
				out = append(out, doc[i:j+1])
			}
			i = j
		case c == '\'' && i+1 < len(doc) && doc[i+1] == '(':
			depth, j := 0, i+1
			for ; j < len(doc); j++ {
				if doc[j] == '(' {
					depth++
				} else if doc[j] == ')' {
					depth--
					if depth == 0 {
						break
					}
				} else if doc[j] == '\n' || doc[j] == '"' {
					break
				}
			}
			if j < len(doc) && doc[j] == ')' && depth == 0 && j-i < 40 {
				out = append(out, doc[i:j+1])
				i = j
			}
		case c == '\'' && i+1 < len(doc) && isSym(doc[i+1]) && boundary(i-1):
			j := i + 1
			for j < len(doc) && isSym(doc[j]) {
				j++
			}
			out = append(out, strings.TrimRight(doc[i:j], ".:"))
			i = j - 1
		case (c == ':' || c == '-' || (c >= '0' && c <= '9')) && boundary(i-1):
			j := i + 1
			for j < len(doc) && isSym(doc[j]) {
				j++
			}
			tok := strings.TrimRight(doc[i:j], ".:")
			i = j - 1
			if c == ':' {
				if len(tok) > 1 && tok[1] >= 'a' && tok[1] <= 'z' {
					out = append(out, tok)
				}
				continue
			}
			num := len(tok) > 0 && tok != "-"
			dots := 0
			for k, ch := range tok {
				if ch == '.' {
					dots++
				} else if !(ch >= '0' && ch <= '9') && !(k == 0 && ch == '-') {
					num = false
				}
			}
			if num && dots <= 1 && len(tok) < 8 {
				out = append(out, tok)
			}
		}
	}
	return out
}

const c09LibDocPoolMax = 16

// c09LibPool: the function's own docstring first, then its package's, then its
// siblings'; spellings the scratch runtime cannot evaluate are dropped; then the
// general pool.  Values that would make a call unbounded are not excluded by name:
// every scratch call and every load runs under a step limit.
func c09LibPool(sc *rt.R, f *c09LibFn) (pool []string, ndoc int) {
	cat := c09LibCatalogueGet()
	seen := map[string]bool{}
	for _, g := range c09LibGeneral {
		seen[g] = true
	}
	add := func(doc string) {
		for _, t := range c09LibDocTokens(doc) {
			if seen[t] || len(pool) >= c09LibDocPoolMax {
				continue
			}
			seen[t] = true
			if v := sc.Env.LoadString("c09-doc-token", t); v.Type == lisp.LError {
				continue
			}
			pool = append(pool, t)
		}
	}
	add(f.doc)
	add(cat.pkgDoc[f.pkg])
	for _, d := range cat.sibDocs[f.pkg] {
		add(d)
	}
	ndoc = len(pool)
	return append(pool, c09LibGeneral...), ndoc
}

// --- scratch discovery -------------------------------------------------------------------------

// The scaffolding spells every builtin it uses with its package: a generated call may
// rebind a name in the user package ((set 'list V) is a call like any other), and the
// program's account of itself must survive that.
const c09LibDefs = `(lisp:in-package 'user)
(lisp:defun c09-try (f)
  (lisp:let ([r (lisp:handler-bind ((condition (lisp:lambda (c &rest a) (lisp:list 'c09-refused c)))) (lisp:funcall f))])
    (lisp:in-package 'user) ; the call may have been (in-package ...): the account is kept in one package
    r))
(lisp:defun c09-lt (a b) (lisp:string< (lisp:format-string "{}" a) (lisp:format-string "{}" b)))
(lisp:defun c09-poke (r d)
  (lisp:handler-bind ((condition (lisp:lambda (c &rest a) 'c09-poke-refused)))
    (lisp:cond
      ((lisp:> d 4) r)
      ((lisp:nil? r) r)
      ((lisp:list? r) (lisp:progn (lisp:map 'list (lisp:lambda (e) (c09-poke e (lisp:+ d 1))) r) (lisp:stable-sort c09-lt r)))
      ((lisp:vector? r) (lisp:progn (lisp:map 'list (lisp:lambda (e) (c09-poke e (lisp:+ d 1))) r) (lisp:append! r 99) (lisp:stable-sort c09-lt r)))
      ((lisp:sorted-map? r) (lisp:progn (lisp:map 'list (lisp:lambda (k) (c09-poke (lisp:get r k) (lisp:+ d 1))) (lisp:keys r)) (lisp:assoc! r "c09-poked" 1)))
      ((lisp:bytes? r) (lisp:append-bytes! r (lisp:to-bytes "!")))
      (true r))))
(lisp:defun c09-same (b m a) (lisp:if (lisp:string= b m) (lisp:string= m a) false))
`

// a call: the argument list with one slot for the value ("\x00")
type c09LibCall struct {
	args []string
	vrd  int // number of arguments in the variadic zone (0 = none / not variadic)
	vat  int // index in args where the variadic zone starts
}

const c09LibV = "\x00"

func (c c09LibCall) text(fn *c09LibFn, v string) string {
	var sb strings.Builder
	sb.WriteString("(" + fn.qname())
	for _, a := range c.args {
		sb.WriteByte(' ')
		if a == c09LibV {
			sb.WriteString(v)
		} else {
			sb.WriteString(a)
		}
	}
	sb.WriteString(")")
	return sb.String()
}

func (c c09LibCall) key() string { return strings.Join(c.args, "\x01") }

// c09LibTemplates: the argument layouts that put the value at position p; "\x01" marks
// a slot to be filled from the pool.
func c09LibTemplates(p c09LibPos) []c09LibCall {
	const F = "\x01"
	f := p.fn
	rep := func(n int) []string {
		s := make([]string, n)
		for i := range s {
			s[i] = F
		}
		return s
	}
	cat := func(parts ...[]string) []string {
		var s []string
		for _, x := range parts {
			s = append(s, x...)
		}
		return s
	}
	var out []c09LibCall
	switch p.what {
	case 'r':
		base := rep(len(f.req))
		base[p.i] = c09LibV
		out = append(out, c09LibCall{args: base})
		if len(f.opt) > 0 {
			out = append(out, c09LibCall{args: cat(base, rep(1))})
		}
		if f.rest != "" {
			at := len(base) + len(f.opt)
			if len(f.opt) > 0 {
				out = append(out, c09LibCall{args: cat(base, rep(len(f.opt))), vat: at})
			} else {
				out[0].vat = at
			}
			out = append(out, c09LibCall{args: cat(base, rep(len(f.opt)+1)), vrd: 1, vat: at}, c09LibCall{args: cat(base, rep(len(f.opt)+2)), vrd: 2, vat: at})
		}
		for _, k := range f.keys {
			out = append(out, c09LibCall{args: cat(base, []string{":" + k, F})})
		}
	case 'o':
		out = append(out, c09LibCall{args: cat(rep(len(f.req)+p.i), []string{c09LibV})})
	case 'v':
		at := len(f.req) + len(f.opt)
		if p.i == 0 {
			out = append(out, c09LibCall{args: cat(rep(at), []string{c09LibV}), vrd: 1, vat: at},
				c09LibCall{args: cat(rep(at), []string{c09LibV, F}), vrd: 2, vat: at})
		} else {
			out = append(out, c09LibCall{args: cat(rep(at), []string{F, c09LibV}), vrd: 2, vat: at})
		}
	case 'k':
		out = append(out, c09LibCall{args: cat(rep(len(f.req)), []string{":" + f.keys[p.i], c09LibV})})
	}
	return out
}

type c09LibHit struct {
	call   c09LibCall
	class  string // refused | accepted | inplace | deep
	sig    string // which paths of the fresh value changed
	res    string // rendering of the result
	nfree  int
	volat  bool
	shape  int
	kind   int
	ordinl int
}

// c09LibDiff appends the paths at which a and b differ.
func c09LibDiff(a, b *tree.T, path string, depth int, out *[]string) {
	if len(*out) > 24 {
		return
	}
	if a == nil || b == nil || a.K != b.K || len(a.Kids) != len(b.Kids) {
		*out = append(*out, path+"!")
		return
	}
	if len(a.Kids) == 0 {
		if !tree.Equal(a, b, tree.Opts{}) {
			*out = append(*out, path+"!")
		}
		return
	}
	for i := range a.Kids {
		c09LibDiff(a.Kids[i], b.Kids[i], fmt.Sprintf("%s/%d", path, i), depth+1, out)
	}
}

type c09LibScratch struct {
	r      *rt.R
	probes int64
	progs  map[string]*lisp.Program // argument expression -> parsed once
	atoms  map[string]*lisp.LVal    // values that cannot be changed in place are evaluated once
	last   *lisp.LVal               // the result of the latest probe
}

func c09LibNewScratch() *c09LibScratch {
	r := rt.New(rt.Opts{MaxSteps: 100_000})
	if v := r.Env.LoadString("c09-lib-defs", c09LibDefs); v.Type == lisp.LError {
		panic("c09 library defs: " + v.String())
	}
	return &c09LibScratch{r: r, progs: map[string]*lisp.Program{}, atoms: map[string]*lisp.LVal{}}
}

// value evaluates an argument expression in the scratch runtime; containers are built
// anew for every call (an in-place operation may have changed the last one).
func (s *c09LibScratch) value(expr string) *lisp.LVal {
	if v, ok := s.atoms[expr]; ok {
		return v
	}
	p, ok := s.progs[expr]
	if !ok {
		if pp, err := s.r.Env.ParseProgram("c09-arg", "c09-arg.lisp", strings.NewReader(expr)); err == nil {
			p = &pp
		}
		s.progs[expr] = p
	}
	if p == nil {
		return lisp.Nil()
	}
	v := s.r.Env.LoadProgram(*p)
	switch v.Type {
	case lisp.LInt, lisp.LFloat, lisp.LString, lisp.LSymbol, lisp.LQSymbol, lisp.LFun:
		s.atoms[expr] = v
	}
	return v
}

// probe makes the call on a fresh value of the shape and classifies it.  A function
// is called from the host with evaluated arguments (FunCall: what evaluating the call
// form does after evaluating the arguments); an operator or macro gets its argument
// FORMS, so that call is evaluated from text.
func (s *c09LibScratch) probe(fn *c09LibFn, sh *c09LibShape, c c09LibCall) (class, sig, res string) {
	s.probes++
	var x, y, r *lisp.LVal
	func() {
		defer func() {
			if rec := recover(); rec != nil {
				r = nil // a host panic escaping the interpreter is C03/C06's business; the call is not used
			}
		}()
		if fn.kind == "function" {
			fun := s.value(fn.qname())
			if fun.Type != lisp.LFun {
				return
			}
			x, y = s.value(sh.fresh), s.value(sh.fresh)
			args := make([]*lisp.LVal, len(c.args))
			for i, a := range c.args {
				if a == c09LibV {
					args[i] = x
				} else {
					args[i] = s.value(a)
				}
			}
			r = s.r.Env.FunCall(fun, lisp.SExpr(args))
			s.r.Env.InPackage(lisp.Symbol(lisp.DefaultUserPackage))
			return
		}
		src := "(lisp:in-package 'user)\n(lisp:let ([x " + sh.fresh + "] [y " + sh.fresh + "]) (lisp:let ([r (c09-try (lisp:lambda () " + c.text(fn, "x") + "))]) (lisp:list x y r)))"
		v := s.r.Env.LoadString("c09-lib-probe", src)
		if v.Type == lisp.LSExpr && len(v.Cells) == 3 {
			x, y, r = v.Cells[0], v.Cells[1], v.Cells[2]
		}
	}()
	s.last = r
	if r == nil {
		return "refused", "", "toplevel-error"
	}
	res = trunc(r.String(), 120)
	var d []string
	c09LibDiff(tree.FromLVal(x), tree.FromLVal(y), "", 0, &d)
	if len(d) > 0 {
		class = "inplace"
		for _, p := range d {
			if strings.Count(p, "/") >= sh.litDepth {
				class = "deep"
			}
		}
		return class, strings.Join(d, ","), res
	}
	if r.Type == lisp.LError || (r.Type == lisp.LSExpr && len(r.Cells) == 2 && r.Cells[0].Type == lisp.LSymbol && r.Cells[0].Str == "c09-refused") {
		return "refused", "", res
	}
	return "accepted", "", res
}

const (
	c09LibTupleBudget  = 200 // scratch calls per (template, shape) of a function
	c09LibFormBudget   = 10  // ... of an operator or macro (its arguments are forms: each call is parsed and evaluated from text)
	c09LibExpandSeeds  = 6
	c09LibExpandBudget = 150
)

// c09LibFill enumerates the assignments of the free slots of a template: all of
// them when the space is small, otherwise the docstring spellings crossed with a
// prefix of the general pool, otherwise a PRNG sample.
func c09LibFill(t c09LibCall, pool []string, ndoc int, budget int, rng *fw.RNG, emit func(c09LibCall)) {
	var free []int
	for i, a := range t.args {
		if a == "\x01" {
			free = append(free, i)
		}
	}
	mk := func(vals []string) c09LibCall {
		c := c09LibCall{args: append([]string(nil), t.args...), vrd: t.vrd, vat: t.vat}
		for k, i := range free {
			c.args[i] = vals[k]
		}
		return c
	}
	if len(free) == 0 {
		emit(mk(nil))
		return
	}
	size := func(n int) int {
		s := 1
		for range free {
			s *= n
			if s > 1<<20 {
				return 1 << 20
			}
		}
		return s
	}
	p := pool
	if size(len(p)) > budget {
		// the first docstring spellings (the function's own come first) and the first general values
		nd := ndoc
		if nd > 7 {
			nd = 7
		}
		p = append(append([]string(nil), pool[:nd]...), pool[ndoc:ndoc+14-nd]...)
	}
	if size(len(p)) <= budget {
		idx := make([]int, len(free))
		vals := make([]string, len(free))
		for {
			for k := range free {
				vals[k] = p[idx[k]]
			}
			emit(mk(vals))
			k := len(idx) - 1
			for ; k >= 0; k-- {
				idx[k]++
				if idx[k] < len(p) {
					break
				}
				idx[k] = 0
			}
			if k < 0 {
				return
			}
		}
	}
	vals := make([]string, len(free))
	n0 := 0
	for _, v := range pool { // the diagonals first
		if n0++; n0 > budget/2 {
			break
		}
		for k := range vals {
			vals[k] = v
		}
		emit(mk(vals))
	}
	for n := n0; n < budget; n++ {
		for k := range vals {
			vals[k] = pool[rng.Intn(len(pool))]
		}
		emit(mk(vals))
	}
}

// c09LibDiscover explores position p for one shape and returns the calls worth a
// fragment, best first: deep writers (distinct changed-path sets), other in-place
// writers, accepted calls (distinct results), and the first refused call.
func c09LibDiscover(w *fw.W, sc *c09LibScratch, idx int, p c09LibPos, si int, pool []string, ndoc int, like []c09LibHit) (deep, inplace, accepted, refused []c09LibHit) {
	sh := &c09LibShapes[si]
	rng := w.RNG(idx, "lib/"+p.String()+"/"+sh.name)
	tried := map[string]bool{}
	sigSeen := map[string]bool{}
	var hits []c09LibHit
	try := func(c c09LibCall) {
		if tried[c.key()] {
			return
		}
		tried[c.key()] = true
		class, sig, res := sc.probe(p.fn, sh, c)
		key := class + "|" + sig
		if class == "accepted" || class == "refused" {
			key = class + "|" + res
		}
		if class == "refused" && len(refused) > 0 {
			return
		}
		if sigSeen[key] {
			return
		}
		sigSeen[key] = true
		h := c09LibHit{call: c, class: class, sig: sig, res: res, shape: si, nfree: len(c.args)}
		switch class {
		case "deep":
			deep = append(deep, h)
		case "inplace":
			inplace = append(inplace, h)
		case "accepted":
			accepted = append(accepted, h)
		default:
			refused = append(refused, h)
		}
		hits = append(hits, h)
	}
	budget, expand := c09LibTupleBudget, c09LibExpandBudget
	if p.fn.kind != "function" {
		budget, expand = c09LibFormBudget, 0
	}
	for _, h := range like {
		try(h.call)
	}
	for _, t := range c09LibTemplates(p) {
		nfree := 0
		for _, a := range t.args {
			if a == "\x01" {
				nfree++
			}
		}
		if sh.like >= 0 && nfree > 1 {
			continue
		}
		c09LibFill(t, pool, ndoc, budget, rng, try)
	}
	// variadic functions: grow the calls that did something by one argument, anywhere
	// in the variadic zone (the steps of a path, the operands of a concatenation ...)
	if p.fn.rest != "" && expand > 0 {
		var seeds []c09LibHit
		for _, l := range [][]c09LibHit{deep, inplace, accepted} {
			for i := 0; i < len(l) && i < c09LibExpandSeeds; i++ {
				seeds = append(seeds, l[i])
			}
		}
		budget := expand
		for _, h := range seeds {
			if h.call.vrd >= 3 {
				continue
			}
			for at := h.call.vat; at <= len(h.call.args) && budget > 0; at++ {
				for _, v := range pool {
					args := append(append(append([]string(nil), h.call.args[:at]...), v), h.call.args[at:]...)
					try(c09LibCall{args: args, vrd: h.call.vrd + 1, vat: h.call.vat})
					budget--
				}
			}
		}
	}
	return
}

// --- the case ------------------------------------------------------------------------------

type c09LibFrag struct {
	pos  c09LibPos
	hit  c09LibHit
	kind string
	expr string
}

func (f c09LibFrag) label() string {
	return "lib|" + f.pos.String() + "|" + c09LibShapes[f.hit.shape].name
}

func c09LibProgram(frags []c09LibFrag) string {
	var sb strings.Builder
	sb.WriteString(c09LibDefs)
	for n, f := range frags {
		call := f.hit.call.text(f.pos.fn, fmt.Sprintf("(c09v-%d)", n))
		fmt.Fprintf(&sb, "(lisp:in-package 'user)\n(lisp:defun c09v-%d () %s)\n(lisp:set 'c09b-%d (lisp:format-string \"{}\" (c09v-%d)))\n(lisp:set 'c09r-%d (c09-try (lisp:lambda () %s)))\n(lisp:in-package 'user)\n(lisp:set 'c09m-%d (lisp:format-string \"{}\" (c09v-%d)))\n",
			n, f.expr, n, n, n, call, n, n)
		if f.hit.volat {
			fmt.Fprintf(&sb, "(lisp:set 'c09s-%d 'not-compared)\n", n)
		} else {
			fmt.Fprintf(&sb, "(lisp:set 'c09s-%d (c09-try (lisp:lambda () (lisp:format-string \"{}\" c09r-%d))))\n", n, n)
		}
		// the result travels through a macro expansion (the expander stamps call-site
		// locations on whatever unsealed nodes it finds in an expansion)
		fmt.Fprintf(&sb, "(lisp:defmacro c09x-%d () (lisp:quasiquote (quote (unquote c09r-%d))))\n", n, n)
		if f.hit.volat {
			fmt.Fprintf(&sb, "(lisp:set 'c09y-%d (c09-try (lisp:lambda () (lisp:progn (c09x-%d) 'not-compared))))\n", n, n)
		} else {
			fmt.Fprintf(&sb, "(lisp:set 'c09y-%d (c09-try (lisp:lambda () (lisp:format-string \"{}\" (c09x-%d)))))\n", n, n)
		}
		fmt.Fprintf(&sb, "(c09-poke c09r-%d 0)\n(lisp:set 'c09a-%d (lisp:format-string \"{}\" (c09v-%d)))\n", n, n, n)
	}
	sb.WriteString("(lisp:in-package 'user)\n(lisp:list 'c09-stable (lisp:list")
	for n := range frags {
		fmt.Fprintf(&sb, " (c09-same c09b-%d c09m-%d c09a-%d)", n, n, n)
	}
	sb.WriteString(") 'values (lisp:list")
	for n := range frags {
		fmt.Fprintf(&sb, " (lisp:list c09b-%d c09m-%d c09a-%d)", n, n, n)
	}
	sb.WriteString(") 'results (lisp:list")
	for n := range frags {
		fmt.Fprintf(&sb, " c09s-%d c09y-%d", n, n)
	}
	sb.WriteString("))\n")
	return sb.String()
}

// c09LibStable reads the program's own account: "'('c09-stable '(true true ...) 'values ...".
func c09LibStable(frags []c09LibFrag, derailed *bool) func(val string) string {
	return func(val string) string {
		const pre = "'('c09-stable '("
		if !strings.HasPrefix(val, pre) {
			*derailed = true
			return ""
		}
		rest := val[len(pre):]
		end := strings.Index(rest, ")")
		if end < 0 {
			*derailed = true
			return ""
		}
		flags := strings.Fields(rest[:end])
		if len(flags) != len(frags) {
			*derailed = true
			return ""
		}
		for n, f := range flags {
			if f != "true" {
				return fmt.Sprintf("in a FRESH PARSE of the program the value obtained from a literal read differently before / after the call / after the call's result was changed in place: fragment %d, %s with the value spelled %s: %s",
					n, frags[n].hit.call.text(frags[n].pos.fn, "V"), frags[n].expr, trunc(val, 600))
			}
		}
		return ""
	}
}

type c09LibViol struct{ key, summary, detail string }

// --- values that more than one runtime holds ------------------------------------------------
//
// "Separate runtimes share no mutable state."  Two scratch runtimes make the same call;
// an *LVal reachable from BOTH results is one object that every runtime of the process
// holds (a singleton, a sealed template, an identity marker a package hands out).  Such
// a node may exist - but nothing may ever write it.  Each is snapshotted when first
// seen (before the case's Program is loaded anywhere) and compared again after every
// library case; the finding key names the package whose function handed it out, the
// node's type and what changed, not the call that happened to expose it first.

type c09SharedNode struct {
	snap c09Node
	from string // package whose function returned a value reaching the node
	seen string // the call
}

var c09Shared = map[*lisp.LVal]*c09SharedNode{}

func c09Reach(v *lisp.LVal, out map[*lisp.LVal]bool, depth int) {
	if v == nil || out[v] || depth > 8 || len(out) > 400 {
		return
	}
	out[v] = true
	for _, c := range v.Cells {
		c09Reach(c, out, depth+1)
	}
}

func c09SnapOne(v *lisp.LVal) c09Node {
	n := c09Node{ptr: v, typ: v.Type, str: v.Str, i: v.Int, f: v.Float, ft: v.FunType, quoted: v.IsQuoted(), sealed: v.IsSealed(), n: len(v.Cells), c: cap(v.Cells)}
	n.src, n.hasSrc = v.Source()
	n.kids = append(n.kids, v.Cells[:cap(v.Cells)]...)
	return n
}

// c09SharedRegister records the nodes common to the results of one call made in two runtimes.
func c09SharedRegister(w *fw.W, a, b *lisp.LVal, pkg, call string) {
	if a == nil || b == nil {
		return
	}
	ra, rb := map[*lisp.LVal]bool{}, map[*lisp.LVal]bool{}
	c09Reach(a, ra, 0)
	c09Reach(b, rb, 0)
	for v := range ra {
		if rb[v] && c09Shared[v] == nil {
			c09Shared[v] = &c09SharedNode{snap: c09SnapOne(v), from: pkg, seen: call}
			w.Count("lib_process_wide_nodes_watched", 1)
			w.SetAdd("lib_process_wide_node_kinds", pkg+"|"+v.Type.String())
		}
	}
}

// c09SharedCheck compares every watched node with its snapshot.
func c09SharedCheck(w *fw.W, during string) {
	ptrs := make([]*lisp.LVal, 0, len(c09Shared))
	for v := range c09Shared {
		ptrs = append(ptrs, v)
	}
	sort.Slice(ptrs, func(i, j int) bool { return c09Shared[ptrs[i]].seen < c09Shared[ptrs[j]].seen })
	for _, v := range ptrs {
		sn := c09Shared[v]
		now := c09SnapOne(v)
		d := c09Compare([]c09Node{sn.snap}, []c09Node{now})
		if d == "" {
			continue
		}
		what := "changed"
		switch {
		case strings.Contains(d, "source location"):
			what = "source-location"
		case strings.Contains(d, "scalar"):
			what = "fields"
		case strings.Contains(d, "cells") || strings.Contains(d, "child") || strings.Contains(d, "SPARE"):
			what = "cells"
		case strings.Contains(d, "seal") || strings.Contains(d, "quoting"):
			what = "flags"
		}
		w.Violation("process-wide-value-written:"+sn.from+"|"+v.Type.String()+"|"+what,
			fmt.Sprintf("a value that every runtime of the process holds (the SAME *LVal is reachable from the result of %s made in two independent runtimes) was written while a Program was evaluated: %s", sn.seen, d),
			"written during: "+during)
		sn.snap = now // once per process
	}
}

func c09LibRun(w *fw.W, idx, j int) {
	cat := c09LibCatalogueGet()
	per := c09LibCasesPerPass()
	pass, c := j/per, j%per
	lo := c * c09LibPerCase
	hi := lo + c09LibPerCase
	if hi > len(cat.pos) {
		hi = len(cat.pos)
	}
	var frags []c09LibFrag
	var names []string
	tCase := time.Now()
	sc2 := c09LibNewScratch()
	for pi := lo; pi < hi; pi++ {
		p := cat.pos[pi]
		names = append(names, p.String())
		t0 := time.Now()
		sc := c09LibNewScratch()
		pool, ndoc := c09LibPool(sc.r, p.fn)
		w.Max("lib_docstring_spellings_in_a_pool", int64(ndoc))
		var mine []c09LibFrag
		var refusedAll []c09LibHit
		found := make([][]c09LibHit, len(c09LibShapes))
		for si := range c09LibShapes {
			var like []c09LibHit
			if l := c09LibShapes[si].like; l >= 0 {
				like = found[l]
				if len(like) > 40 {
					like = like[:40]
				}
			}
			deep, inplace, accepted, refused := c09LibDiscover(w, sc, idx, p, si, pool, ndoc, like)
			found[si] = append(append(append(append([]c09LibHit(nil), deep...), inplace...), accepted...), refused...)
			// per shape every deep writer (at most 3), one other in-place writer, one
			// accepted call; later passes move on through the lists; a refused call only
			// where there is hardly anything else
			take := func(l []c09LibHit, n int) {
				if len(l) == 0 {
					return
				}
				for k := 0; k < n && k < len(l); k++ {
					h := l[(k+pass*n)%len(l)]
					sh := &c09LibShapes[si]
					h.kind = (pi + len(mine) + pass + int(w.Seed)) % len(sh.kinds)
					mine = append(mine, c09LibFrag{pos: p, hit: h, kind: sh.kinds[h.kind].name, expr: sh.kinds[h.kind].expr})
				}
			}
			take(deep, 3)
			take(inplace, 1)
			take(accepted, 1)
			refusedAll = append(refusedAll, refused...)
			if len(deep) > 0 {
				w.SetAdd("lib_writes_fresh_values_in_place_where_a_literal_would_be", p.String()+"|"+c09LibShapes[si].name)
			}
			w.Count("lib_scratch_calls_deep_writers", int64(len(deep)))
			w.Count("lib_scratch_calls_other_writers", int64(len(inplace)))
			w.Count("lib_scratch_calls_accepted_distinct", int64(len(accepted)))
		}
		if len(refusedAll) > 0 && len(mine) < 2 {
			h := refusedAll[(pi+pass)%len(refusedAll)]
			sh := &c09LibShapes[h.shape]
			h.kind = (pi + pass + int(w.Seed)) % len(sh.kinds)
			mine = append(mine, c09LibFrag{pos: p, hit: h, kind: sh.kinds[h.kind].name, expr: sh.kinds[h.kind].expr})
		}
		const maxPerPos = 24
		if len(mine) > maxPerPos {
			w.Count("lib_fragments_dropped_over_cap", int64(len(mine)-maxPerPos))
			mine = mine[:maxPerPos]
		}
		// a result that differs between two fresh runtimes (a clock, an address) is not compared
		for k := range mine {
			sh := &c09LibShapes[mine[k].hit.shape]
			_, _, res1 := sc.probe(p.fn, sh, mine[k].hit.call)
			r1 := sc.last
			if _, _, res := sc2.probe(p.fn, sh, mine[k].hit.call); res != mine[k].hit.res || res1 != res {
				mine[k].hit.volat = true
				w.Count("lib_results_not_compared_volatile", 1)
			}
			c09SharedRegister(w, r1, sc2.last, p.fn.pkg, mine[k].hit.call.text(p.fn, sh.fresh))
		}
		w.Count("lib_scratch_calls", sc.probes)
		w.Logf("discovery %s: %d scratch calls, %d fragments, %v", p, sc.probes, len(mine), time.Since(t0))
		w.Count("lib_positions_visited", 1)
		w.SetAdd("lib_packages", p.fn.pkg)
		w.SetAdd("lib_function_kinds", p.fn.kind)
		if len(mine) == 0 {
			w.Count("lib_positions_without_a_call", 1)
		}
		frags = append(frags, mine...)
	}
	if len(frags) == 0 {
		return
	}
	for _, f := range frags {
		w.CoverKey(f.label() + "|" + f.hit.class)
		w.Count("lib_fragments_"+f.hit.class, 1)
		w.SetAdd("lib_value_spellings", c09LibShapes[f.hit.shape].name+"/"+f.kind)
	}
	w.Count("lib_fragments", int64(len(frags)))
	w.Max("lib_fragments_in_a_program", int64(len(frags)))

	tDisc := time.Since(tCase)
	defer func() {
		// development aid, never a verdict: where the wall time of the family goes
		if fn := os.Getenv("VERIF_C09_LIB_TIMING"); fn != "" {
			if f, err := os.OpenFile(fn, os.O_APPEND|os.O_CREATE|os.O_WRONLY, 0o644); err == nil {
				fmt.Fprintf(f, "case %d %s: discovery %.1fs total %.1fs fragments %d\n", idx, strings.Join(names, "+"), tDisc.Seconds(), time.Since(tCase).Seconds(), len(frags))
				f.Close()
			}
		}
	}()
	label := "lib|" + strings.Join(names, "+") + "|batch"
	var got []c09LibViol
	derailed := false
	ok := c09Check(w, idx, c09LibProgram(frags), label, nil, c09LibStable(frags, &derailed),
		func(k, s, d string) { got = append(got, c09LibViol{k, s, d}) })
	c09SharedCheck(w, label)
	if derailed {
		w.Count("lib_programs_derailed", 1)
		w.SetAdd("lib_programs_derailed", strings.Join(names, "+"))
	}
	if ok {
		return
	}
	// attribute: every fragment as a Program of its own
	attributed := false
	for _, f := range frags {
		var g2 []c09LibViol
		d2 := false
		one := []c09LibFrag{f}
		c09Check(w, idx, c09LibProgram(one), f.label(), nil, c09LibStable(one, &d2), func(k, s, d string) { g2 = append(g2, c09LibViol{k, s, d}) })
		for _, v := range g2 {
			attributed = true
			w.Violation(v.key, fmt.Sprintf("%s [call %s, value spelled %s (%s), scratch class %s]", v.summary, f.hit.call.text(f.pos.fn, "V"), f.expr, f.kind, f.hit.class), v.detail)
		}
	}
	if !attributed {
		for _, v := range got {
			w.Violation(v.key, v.summary+" [no single call of the batch reproduces it alone]", v.detail)
		}
	}
}

// c09LibDump prints the catalogue (development aid: vcheck C09 --aux libdump).
func c09LibDump() {
	cat := c09LibCatalogueGet()
	fmt.Printf("functions=%d positions=%d cases/pass=%d skipped=%v\n", len(cat.fns), len(cat.pos), c09LibCasesPerPass(), cat.skipped)
	sc := c09LibNewScratch()
	byPkg := map[string]int{}
	for _, f := range cat.fns {
		byPkg[f.pkg]++
	}
	var pk []string
	for k, n := range byPkg {
		pk = append(pk, fmt.Sprintf("%s=%d", k, n))
	}
	sort.Strings(pk)
	fmt.Println(strings.Join(pk, " "))
	for i, p := range cat.pos {
		fmt.Printf("position %d (quick case %d): %s\n", i, c09BaseCases("quick")+i/c09LibPerCase, p)
	}
	for _, f := range cat.fns {
		pool, nd := c09LibPool(sc.r, f)
		fmt.Printf("%s %s req=%v opt=%v rest=%q keys=%v docpool=%v\n", f.qname(), f.kind, f.req, f.opt, f.rest, f.keys, pool[:nd])
	}
}
