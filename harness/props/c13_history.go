package props

// C13 — histories: state carried across loads and dumps.
//
// The statement quantifies over documents and values, not over what a program
// did before: a JSON text decodes to the structure it denotes whatever happened
// to values decoded (or dumped) earlier.  The ordinary cases never change a
// value after it was loaded or dumped, so anything the implementation shares
// between two results (a cached container, an interned empty array, a buffer
// handed out twice) stays invisible.  A history does what programs do:
//
//   document history (c13DocHistory), for a JSON text D with a container:
//     v1 = load D, v2 = load D                    (one runtime, mode m)
//     every chosen container of v1, at every depth, empty or not, is changed
//       IN PLACE through the documented mutators: append!, stable-sort,
//       assoc! (new name / existing name), dissoc! (existing / absent name)
//     v1 must now be D's tree with exactly those changes (containers of one
//       load are distinct objects)
//     v2, loaded before, must still be D's tree
//     v3 = load D afterwards in the same runtime, v4 = load D in a second
//       runtime of the process, v5 = libjson.LoadWith(D): all must be D's tree
//     (equal? v2 v3); dump v1 reads back to the changed v1 and leaves it alone
//
//   value history (c13ValueHistory), for a generated value v (the model is
//   known): dumping leaves v equal? to a fresh twin; bytes returned by an
//   earlier dump are grown in place (append-bytes!) and the next dump is the
//   same text again; v is changed in place and dumped again: the new dump is
//   the changed model and byte-identical to the dump of a freshly built twin.
//
// Soundness: the oracle for a later / earlier load is the independent decoder's
// tree of D, untouched by anything.  What the mutators do is not C13's
// subject: when the mutated value disagrees with the harness's model of the
// mutation, the same script is run on a value the harness built itself with
// the Go constructors (no JSON involved); only if that control follows the
// model is the disagreement attributed to the loaded value.

import (
	"fmt"
	"sort"
	"strings"

	"github.com/luthersystems/elps/lisp"
	"github.com/luthersystems/elps/lisp/lisplib/libjson"

	"verifharness/c13x"
	"verifharness/fw"
	"verifharness/rt"
)

// ---------------------------------------------------------------------------
// markers: what a mutation puts into a container.  None is a number, so the
// decoded form does not depend on the load mode.

type c13HMarker struct {
	name string
	src  string // lisp source; (vector) and (sorted-map) are fresh per evaluation
	node func() *c13x.Node
	val  func() *c13Val
}

const c13HMarkStr = "c13-history-mark"

var c13HMarkers = []c13HMarker{
	{"string", `"` + c13HMarkStr + `"`, func() *c13x.Node { return &c13x.Node{Kind: c13x.KStr, Str: c13HMarkStr} }, func() *c13Val { return &c13Val{kind: c13VStr, s: c13HMarkStr} }},
	{"nil", "()", func() *c13x.Node { return &c13x.Node{Kind: c13x.KNull} }, func() *c13Val { return &c13Val{kind: c13VNull} }},
	{"true", "true", func() *c13x.Node { return &c13x.Node{Kind: c13x.KBool, Bool: true} }, func() *c13Val { return &c13Val{kind: c13VBool, b: true} }},
	{"empty-vector", "(vector)", func() *c13x.Node { return &c13x.Node{Kind: c13x.KArr} }, func() *c13Val { return &c13Val{kind: c13VVec} }},
	{"empty-map", "(sorted-map)", func() *c13x.Node { return &c13x.Node{Kind: c13x.KObj} }, func() *c13Val { return &c13Val{kind: c13VMap} }},
	// value side only (a number's decoded form depends on the mode)
	{"int", "7", nil, func() *c13Val { return &c13Val{kind: c13VInt, i: 7} }},
	{"float", "2.5", nil, func() *c13Val { return &c13Val{kind: c13VFloat, f: 2.5} }},
}

const c13HDocMarkers = 5 // the first five are mode independent

// ---------------------------------------------------------------------------
// a mutation plan over the structure of a document

type c13HStep struct {
	idx   int
	key   string
	byKey bool
}

type c13HOp struct {
	path  []c13HStep
	op    string // append! stable-sort assoc!-new assoc!-overwrite dissoc! dissoc!-absent
	class string // the container's class by construction: empty-array array empty-object object
	mark  int
	key   string
	pred  string // stable-sort: string< string> < >
	sortK string // stable-sort: "string", "float", "int"
}

func (o c13HOp) label() string { return o.op + ":" + o.class }

func (o c13HOp) String() string {
	var sb strings.Builder
	sb.WriteString("$")
	for _, s := range o.path {
		if s.byKey {
			sb.WriteString("." + c13Q(s.key))
		} else {
			fmt.Fprintf(&sb, "[%d]", s.idx)
		}
	}
	switch o.op {
	case "append!":
		return fmt.Sprintf("(append! %s %s)", sb.String(), c13HMarkers[o.mark].src)
	case "stable-sort":
		return fmt.Sprintf("(stable-sort %s %s)", o.pred, sb.String())
	case "assoc!-new", "assoc!-overwrite":
		return fmt.Sprintf("(assoc! %s %s %s)", sb.String(), c13Q(o.key), c13HMarkers[o.mark].src)
	}
	return fmt.Sprintf("(dissoc! %s %s)", sb.String(), c13Q(o.key))
}

func c13HNodeClass(n *c13x.Node) string {
	if n == nil {
		return "structure"
	}
	switch n.Kind {
	case c13x.KArr:
		if len(n.Elems) == 0 {
			return "empty-array"
		}
		return "array"
	case c13x.KObj:
		if len(n.Members) == 0 {
			return "empty-object"
		}
		return "object"
	}
	return n.Kind.String()
}

type c13HCont struct {
	n    *c13x.Node
	path []c13HStep
}

// c13HContainers lists the containers of a tree in pre-order (bounded).
func c13HContainers(root *c13x.Node) []c13HCont {
	var out []c13HCont
	var walk func(n *c13x.Node, path []c13HStep)
	walk = func(n *c13x.Node, path []c13HStep) {
		if len(out) >= 400 || (n.Kind != c13x.KArr && n.Kind != c13x.KObj) {
			return
		}
		out = append(out, c13HCont{n, append([]c13HStep(nil), path...)})
		if n.Kind == c13x.KArr {
			for i, e := range n.Elems {
				if e.Kind == c13x.KArr || e.Kind == c13x.KObj {
					walk(e, append(path, c13HStep{idx: i}))
				}
			}
			return
		}
		for _, mb := range n.Members {
			if mb.Val.Kind == c13x.KArr || mb.Val.Kind == c13x.KObj {
				walk(mb.Val, append(path, c13HStep{key: mb.Key.Str, byKey: true}))
			}
		}
	}
	walk(root, nil)
	return out
}

// c13HSortKind says whether (and as what) the elements of an array can be
// sorted by a documented total predicate under mode m: all strings (string<),
// all floats or all ints (<).
func c13HSortKind(n *c13x.Node, m c13Mode) string {
	if n.Kind != c13x.KArr || len(n.Elems) < 2 {
		return ""
	}
	kind := ""
	for _, e := range n.Elems {
		k := ""
		switch {
		case e.Kind == c13x.KStr:
			k = "string"
		case e.Kind == c13x.KNum && m.sn:
			k = "string"
		case e.Kind == c13x.KNum:
			w := c13NumWantOf(e.Lit)
			switch {
			case w.overflow:
				return ""
			case !m.ei || w.eiKind == c13EIFloat:
				k = "float"
			case w.eiKind == c13EIInt:
				k = "int"
			default:
				return ""
			}
		default:
			return ""
		}
		if kind != "" && k != kind {
			return ""
		}
		kind = k
	}
	return kind
}

func c13HLess(kind string, desc bool) func(a, b *c13x.Node) bool {
	str := func(n *c13x.Node) string {
		if n.Kind == c13x.KNum {
			return n.Lit
		}
		return n.Str
	}
	return func(a, b *c13x.Node) bool {
		if desc {
			a, b = b, a
		}
		switch kind {
		case "string":
			return str(a) < str(b)
		case "int":
			return c13NumWantOf(a.Lit).i < c13NumWantOf(b.Lit).i
		}
		return c13NumWantOf(a.Lit).f < c13NumWantOf(b.Lit).f
	}
}

const c13HMaxTargets = 8

// c13HPlan chooses containers at every depth (the empty ones first) and an
// in-place change for each.
func c13HPlan(r *fw.RNG, root *c13x.Node, m c13Mode) []c13HOp {
	conts := c13HContainers(root)
	if len(conts) == 0 {
		return nil
	}
	fw.Shuffle(r, conts)
	if len(conts) > c13HMaxTargets {
		// the empty containers have nothing that tells two of them apart:
		// keep (up to half the budget of) them, fill up with the others
		sort.SliceStable(conts, func(i, j int) bool {
			ei := len(conts[i].n.Elems)+len(conts[i].n.Members) == 0
			ej := len(conts[j].n.Elems)+len(conts[j].n.Members) == 0
			return ei && !ej
		})
		nEmpty := 0
		for _, ct := range conts {
			if len(ct.n.Elems)+len(ct.n.Members) == 0 {
				nEmpty++
			}
		}
		if nEmpty > c13HMaxTargets/2 {
			rest := conts[nEmpty:]
			conts = append(conts[:c13HMaxTargets/2:c13HMaxTargets/2], rest...)
		}
		if len(conts) > c13HMaxTargets {
			conts = conts[:c13HMaxTargets]
		}
	}
	var ops []c13HOp
	for _, ct := range conts {
		base := c13HOp{path: ct.path, class: c13HNodeClass(ct.n), mark: r.Intn(c13HDocMarkers)}
		if ct.n.Kind == c13x.KArr {
			if k := c13HSortKind(ct.n, m); k != "" && r.Chance(1, 3) {
				o := base
				o.op, o.sortK = "stable-sort", k
				o.pred = "<"
				if k == "string" {
					o.pred = "string<"
				}
				if r.Bool() {
					o.pred = strings.Replace(o.pred, "<", ">", 1)
				}
				ops = append(ops, o)
				if r.Bool() {
					continue
				}
			}
			o := base
			o.op = "append!"
			ops = append(ops, o)
			continue
		}
		names := map[string]bool{}
		for _, mb := range ct.n.Members {
			names[mb.Key.Str] = true
		}
		fresh := "c13-history-key"
		for names[fresh] {
			fresh += "'"
		}
		o := base
		k := r.Intn(8)
		switch {
		case len(ct.n.Members) == 0 || k < 3:
			o.op, o.key = "assoc!-new", fresh
		case k < 5:
			o.op, o.key = "assoc!-overwrite", ct.n.Members[r.Intn(len(ct.n.Members))].Key.Str
		case k < 7:
			o.op, o.key = "dissoc!", ct.n.Members[r.Intn(len(ct.n.Members))].Key.Str
		default:
			o.op, o.key = "dissoc!-absent", fresh
		}
		ops = append(ops, o)
	}
	return ops
}

// c13HClone copies the containers of a tree (leaves are shared; they are never
// patched) and remembers the class each copied container had.
func c13HClone(n *c13x.Node, classOf map[*c13x.Node]string) *c13x.Node {
	if n.Kind != c13x.KArr && n.Kind != c13x.KObj {
		return n
	}
	cp := *n
	classOf[&cp] = c13HNodeClass(n)
	if n.Kind == c13x.KArr {
		cp.Elems = make([]*c13x.Node, len(n.Elems))
		for i, e := range n.Elems {
			cp.Elems[i] = c13HClone(e, classOf)
		}
		return &cp
	}
	cp.Members = make([]c13x.Member, len(n.Members))
	for i, mb := range n.Members {
		cp.Members[i] = c13x.Member{Key: mb.Key, Val: c13HClone(mb.Val, classOf)}
	}
	return &cp
}

func c13HResolveNode(root *c13x.Node, path []c13HStep) *c13x.Node {
	n := root
	for _, s := range path {
		if s.byKey {
			var next *c13x.Node
			for _, mb := range n.Members {
				if mb.Key.Str == s.key {
					next = mb.Val
				}
			}
			if next == nil {
				return nil
			}
			n = next
		} else {
			if s.idx >= len(n.Elems) {
				return nil
			}
			n = n.Elems[s.idx]
		}
	}
	return n
}

func c13HResolveVal(root *lisp.LVal, path []c13HStep) *lisp.LVal {
	v := root
	for _, s := range path {
		if v == nil {
			return nil
		}
		if s.byKey {
			if v.Type != lisp.LSortMap {
				return nil
			}
			x, ok := v.Map().Get(lisp.String(s.key))
			if !ok || x == nil || x.Type == lisp.LError {
				return nil
			}
			v = x
		} else {
			if v.Type != lisp.LArray || len(v.Cells) != 2 || s.idx >= len(v.Cells[1].Cells) {
				return nil
			}
			v = v.Cells[1].Cells[s.idx]
		}
	}
	return v
}

// c13HPatchNode applies the model of one mutation to a (cloned) container.
func c13HPatchNode(n *c13x.Node, o c13HOp) {
	switch o.op {
	case "append!":
		n.Elems = append(n.Elems, c13HMarkers[o.mark].node())
	case "stable-sort":
		sort.SliceStable(n.Elems, func(i, j int) bool {
			return c13HLess(o.sortK, strings.HasSuffix(o.pred, ">"))(n.Elems[i], n.Elems[j])
		})
	case "assoc!-new":
		n.Members = append(n.Members, c13x.Member{Key: &c13x.Node{Kind: c13x.KStr, Str: o.key}, Val: c13HMarkers[o.mark].node()})
	case "assoc!-overwrite":
		for i := range n.Members {
			if n.Members[i].Key.Str == o.key {
				n.Members[i].Val = c13HMarkers[o.mark].node()
			}
		}
	case "dissoc!":
		var keep []c13x.Member
		for _, mb := range n.Members {
			if mb.Key.Str != o.key {
				keep = append(keep, mb)
			}
		}
		n.Members = keep
	}
}

// histMutate performs one mutation on the container target through the
// documented builtin.
func (c *c13RT) histMutate(target *lisp.LVal, o c13HOp) rt.Transcript {
	c.set("c13-hc", target)
	src := ""
	switch o.op {
	case "append!":
		src = "(append! c13-hc " + c13HMarkers[o.mark].src + ")"
	case "stable-sort":
		src = "(stable-sort " + o.pred + " c13-hc)"
	case "assoc!-new", "assoc!-overwrite":
		c.set("c13-hk", lisp.String(o.key))
		src = "(assoc! c13-hc c13-hk " + c13HMarkers[o.mark].src + ")"
	default:
		c.set("c13-hk", lisp.String(o.key))
		src = "(dissoc! c13-hc c13-hk)"
	}
	t, _ := c.eval(src)
	return t
}

// histRun resolves every target first (paths are positions in the unchanged
// structure) and then applies the plan.  ok is false when a target cannot be
// found or a mutator refuses: not a matter of C13.
func (c *c13RT) histRun(root *lisp.LVal, ops []c13HOp) (ok bool, why string) {
	targets := make([]*lisp.LVal, len(ops))
	for i, o := range ops {
		targets[i] = c13HResolveVal(root, o.path)
		if targets[i] == nil {
			return false, "cannot reach the container of " + o.String()
		}
	}
	for i, o := range ops {
		if t := c.histMutate(targets[i], o); t.IsErr {
			return false, o.String() + " failed: " + t.Value
		}
	}
	return true, ""
}

// c13HBuildVal builds, with the Go constructors, the value mode m decodes the
// tree to (the control of a history: no JSON code involved).
func c13HBuildVal(n *c13x.Node, m c13Mode) *lisp.LVal {
	switch n.Kind {
	case c13x.KNull:
		return lisp.Nil()
	case c13x.KBool:
		return lisp.Bool(n.Bool)
	case c13x.KStr:
		return lisp.String(n.Str)
	case c13x.KNum:
		if m.sn {
			return lisp.String(n.Lit)
		}
		w := c13NumWantOf(n.Lit)
		if m.ei && w.eiKind == c13EIInt {
			return lisp.Int(int(w.i))
		}
		return lisp.Float(w.f)
	case c13x.KArr:
		cells := make([]*lisp.LVal, len(n.Elems))
		for i, e := range n.Elems {
			cells[i] = c13HBuildVal(e, m)
		}
		if len(cells) == 0 {
			return lisp.Array(lisp.QExpr([]*lisp.LVal{lisp.Int(0)}), nil)
		}
		return lisp.Array(nil, cells)
	}
	mp := lisp.SortedMap()
	for _, mb := range n.Members {
		mp.Map().Set(lisp.String(mb.Key.Str), c13HBuildVal(mb.Val, m))
	}
	return mp
}

func (c *c13RT) other() *c13RT {
	if c.second == nil {
		c.second = c13NewRT()
	}
	return c.second
}

// c13HistoryWanted selects (from the text alone) the documents that get a
// history.
func c13HistoryWanted(doc []byte) bool { return (fw.HashString(string(doc))>>9)%4 == 0 }

// c13DocHistory: see the head of the file.
func c13DocHistory(w *fw.W, c *c13RT, dc c13DocCase, doc *c13x.Doc, di *c13DocInfo) {
	if !doc.Valid || !doc.UTF8 || doc.HasDup || !(di.hasArr || di.hasObj) {
		return
	}
	h := fw.HashString(string(dc.doc))
	r := fw.NewRNG(w.Seed, "C13/history", int(h>>11&0x3fffffff))
	m := c13Modes[r.Intn(len(c13Modes))]
	// modes in which this text is not (firmly) expected to load are not used
	switch {
	case m.sn:
	case !m.ei:
		if di.anyOverflow {
			m = c13Mode{sn: true}
		}
	default:
		if di.eiOverflow || di.eiRangeFirm || di.eiRangeInDup || di.eiUnsure {
			m = c13Mode{sn: true, ei: true}
		}
	}
	ops := c13HPlan(r, doc.Root, m)
	if len(ops) == 0 {
		return
	}
	// which runtime holds the mutated value, which one only loads afterwards
	prim, sec, primName := c, c.other(), "first"
	if r.Chance(1, 4) {
		prim, sec, primName = sec, prim, "second"
	}
	defer c.bindDoc(dc.doc)
	prim.resetDefaults()
	sec.resetDefaults()
	prim.bindDoc(dc.doc)
	form := func() (string, string) {
		variant := "kw-min"
		if r.Chance(1, 4) {
			variant = fw.Pick(r, c13LoadVariants)
		}
		return fw.Pick(r, []string{"load-string", "load-bytes"}), variant
	}
	var script []string
	note := func(f string, a ...any) { script = append(script, fmt.Sprintf(f, a...)) }
	detail := func(extra string) string {
		return fmt.Sprintf("document (%s %s): %s\nmode: %s; the mutated value lives in the %s runtime of the worker\nhistory:\n  %s\n%s",
			dc.origin, dc.name, c13Hex(dc.doc), m, primName, strings.Join(script, "\n  "), extra)
	}
	load := func(rtm *c13RT, tag string) *lisp.LVal {
		fn, variant := form()
		t, v := rtm.load(fn, m, variant)
		w.Eval(1)
		note("%s = (json:%s D) [%s]  => %s", tag, fn, variant, c13OutcomeStr(c13Outcome{t, v}))
		if t.IsErr {
			return nil
		}
		return v
	}
	v1 := load(prim, "v1")
	v2 := load(prim, "v2")
	if v1 == nil || v2 == nil || c13CmpNode(doc.Root, v1, m, "$") != nil || c13CmpNode(doc.Root, v2, m, "$") != nil {
		// the plain load of this text is already off: the document oracle
		// reports that under its own key
		w.Count("c13_history_skipped_plain_load_off", 1)
		return
	}
	w.Count("c13_histories", 1)
	if r.Bool() {
		// a value that was dumped before it is changed
		prim.set("c13-h1", v1)
		prim.eval("(json:dump-string c13-h1)")
		w.Eval(1)
		note("(json:dump-string v1)")
	}
	classOf := map[*c13x.Node]string{}
	patched := c13HClone(doc.Root, classOf)
	// model first: targets are positions in the unchanged structure
	pt := make([]*c13x.Node, len(ops))
	for i, o := range ops {
		pt[i] = c13HResolveNode(patched, o.path)
	}
	for i, o := range ops {
		if pt[i] == nil {
			w.Violation("harness-self-check:history-plan", "a planned container is not in the tree (harness bug)", detail(o.String()))
			return
		}
		c13HPatchNode(pt[i], o)
		note("%s", o.String())
		w.SetAdd("c13_history_ops", o.label())
	}
	if ok, why := prim.histRun(v1, ops); !ok {
		w.Count("c13_history_mutator_refused", 1)
		w.Logf("history: %s", why)
		return
	}
	w.Eval(len(ops))
	w.Count("c13_history_mutations", int64(len(ops)))
	labels := map[string]bool{}
	for _, o := range ops {
		labels[o.label()] = true
	}
	w.CoverKey("history|" + m.String() + "|" + primName + "|" + strings.Join(c13Cap(c13SortedKeys(labels), 3), ","))

	// ---- the mutated value is the tree with exactly these changes
	mutatedOK := true
	if x := c13CmpNode(patched, v1, m, "$"); x != nil {
		mutatedOK = false
		ctl := c13HBuildVal(doc.Root, m)
		ok, _ := prim.histRun(ctl, ops)
		if ok && c13CmpNode(patched, ctl, m, "$") == nil {
			cls, known := classOf[x.node]
			if !known {
				cls = c13HNodeClass(x.node)
			}
			w.Violation("history-containers-of-one-load-shared:"+cls,
				"after containers of a loaded value were changed in place, the value is not the document's structure with those changes (the same changes on a value built with the Go constructors give exactly that): "+x.String(),
				detail("v1 now: "+c13Show(v1)+"\n"+x.String()))
		} else {
			w.Count("c13_history_model_unsure", 1)
		}
	}
	// ---- a value loaded earlier is not touched
	if x := c13CmpNode(doc.Root, v2, m, "$"); x != nil {
		w.Violation("history-earlier-load-changed:"+c13HNodeClass(x.node),
			"changing one loaded value in place changed another value loaded from the same text earlier: "+x.String(),
			detail("v2 now: "+c13Show(v2)+"\n"+x.String()))
	}
	// ---- later loads decode the text, not the history
	later := func(v *lisp.LVal, route, shown string) bool {
		if v == nil {
			w.Violation("history-later-load-rejected:"+route, "a text that loaded before is rejected after an earlier result was changed in place", detail(""))
			return false
		}
		if x := c13CmpNode(doc.Root, v, m, "$"); x != nil {
			w.Violation("history-later-load-differs:"+route+":"+c13HNodeClass(x.node),
				"after an earlier result was changed in place, load and the independent decoder disagree on the decoded structure: "+x.String(),
				detail(shown+" = "+c13Show(v)+"\n"+x.String()))
			return false
		}
		return true
	}
	v3 := load(prim, "v3")
	ok3 := later(v3, "same-runtime", "v3")
	sec.bindDoc(dc.doc)
	v4 := load(sec, "v4 (other runtime)")
	later(v4, "other-runtime", "v4")
	if r.Chance(1, 2) {
		v5 := libjson.LoadWith(append([]byte(nil), dc.doc...), libjson.LoadOpts{StringNumbers: m.sn, ExactIntegers: m.ei})
		w.Eval(1)
		note("v5 = libjson.LoadWith(D)")
		if v5 != nil && v5.Type == lisp.LError {
			v5 = nil
		}
		later(v5, "go-load", "v5")
	}
	// ---- two loads of one text are equal?
	if ok3 {
		prim.set("c13-h2", v2)
		prim.set("c13-h3", v3)
		t, e := prim.eval("(equal? c13-h2 c13-h3)")
		w.Eval(1)
		if t.IsErr || e.Type != lisp.LSymbol || e.Str != "true" {
			w.Violation("history-reloads-not-equal?:"+m.String(), "two loads of the same text (before and after an unrelated in-place change) are not equal?",
				detail("(equal? v2 v3) => "+t.Value))
		}
	}
	// ---- dump of the changed value is the changed value, and leaves it alone
	if mutatedOK {
		prim.set("c13-h1", v1)
		t, d := prim.eval("(json:dump-string c13-h1)")
		w.Eval(1)
		if t.IsErr || d.Type != lisp.LString {
			w.Violation("history-dump-after-mutation-failed", "json:dump failed on a loaded value that was changed in place", detail("=> "+t.Value))
			return
		}
		dd := c13x.Parse([]byte(d.Str))
		if !dd.Valid || !dd.UTF8 {
			w.Violation("history-dump-after-mutation-invalid-json", "the dump of a loaded value that was changed in place is not valid JSON", detail("dump: "+c13Q(d.Str)+" "+dd.Err))
			return
		}
		if why, kind := c13CmpRedump(dd.Root, v1, "$"); why != "" {
			w.Violation("history-dump-after-mutation-"+kind, "the dump of a loaded value that was changed in place does not read back to it: "+why,
				detail("v1 now: "+c13Show(v1)+"\ndump: "+c13Q(d.Str)+"\n"+why))
			return
		}
		if x := c13CmpNode(patched, v1, m, "$"); x != nil {
			w.Violation("history-dump-changed-value", "json:dump changed the value it dumped: "+x.String(), detail("v1 now: "+c13Show(v1)))
		}
	}
}

// ---------------------------------------------------------------------------
// a value that is merely kept

// c13Kept is a value an ordinary load returned, with the tree it matched.
type c13Kept struct {
	root *c13x.Node
	v    *lisp.LVal
	m    c13Mode
	doc  []byte
	name string
	form string
}

// c13CheckKept: nothing the case did since (loads and dumps of other texts,
// in-place changes of other values) may have changed the kept value.
func c13CheckKept(w *fw.W, c *c13RT, after string) {
	k := c.kept
	if k == nil {
		return
	}
	w.Count("c13_kept_load_checks", 1)
	if x := c13CmpNode(k.root, k.v, k.m, "$"); x != nil {
		c.kept = nil
		w.Violation("history-kept-load-changed:"+c13HNodeClass(x.node),
			"a value json:load returned, which the program only kept, changed while other documents were loaded, dumped or changed in place: "+x.String(),
			fmt.Sprintf("document (%s): %s\nmode: %s via %s\nkept value now: %s\n%s\nlast document handled before the change was seen: %s",
				k.name, c13Hex(k.doc), k.m, k.form, c13Show(k.v), x.String(), c13Q(after)))
	}
}

// ---------------------------------------------------------------------------
// value history

type c13VHOp struct {
	target *c13Val // container of the (cloned) model
	path   []c13HStep
	keyAt  []*c13Key // for byKey steps: the key as the map holds it
	op     string
	class  string
	mark   int
	key    c13Key
}

func (o c13VHOp) label() string { return o.op + ":" + o.class }

func c13VClone(v *c13Val) *c13Val {
	cp := *v
	if v.leaf() {
		return &cp
	}
	cp.elems = make([]*c13Val, len(v.elems))
	for i, e := range v.elems {
		cp.elems[i] = c13VClone(e)
	}
	cp.keys = append([]c13Key(nil), v.keys...)
	return &cp
}

func c13VClass(v *c13Val) string {
	switch v.kind {
	case c13VVec:
		if len(v.elems) == 0 {
			return "empty-vector"
		}
		return "vector"
	case c13VMap:
		if len(v.elems) == 0 {
			return "empty-map"
		}
		return "map"
	}
	return "other"
}

type c13VCont struct {
	v    *c13Val
	path []c13HStep
	keys []*c13Key
}

// c13VContainers lists the mutable containers (vectors, sorted maps) of a
// model value with the way to reach them (through lists too).
func c13VContainers(root *c13Val) []c13VCont {
	var out []c13VCont
	var walk func(v *c13Val, path []c13HStep, keys []*c13Key)
	walk = func(v *c13Val, path []c13HStep, keys []*c13Key) {
		if v.leaf() || len(out) >= 400 {
			return
		}
		if v.kind != c13VList {
			out = append(out, c13VCont{v, append([]c13HStep(nil), path...), append([]*c13Key(nil), keys...)})
		}
		for i, e := range v.elems {
			if e.leaf() {
				continue
			}
			if v.kind == c13VMap {
				walk(e, append(path, c13HStep{key: v.keys[i].name, byKey: true}), append(keys, &v.keys[i]))
			} else {
				walk(e, append(path, c13HStep{idx: i}), append(keys, nil))
			}
		}
	}
	walk(root, nil, nil)
	return out
}

func c13VResolve(root *lisp.LVal, ct c13VCont) *lisp.LVal {
	v := root
	for i, s := range ct.path {
		if v == nil {
			return nil
		}
		if s.byKey {
			if v.Type != lisp.LSortMap {
				return nil
			}
			as, _ := ct.keys[i].lvals()
			x, ok := v.Map().Get(as)
			if !ok || x == nil || x.Type == lisp.LError {
				return nil
			}
			v = x
			continue
		}
		switch {
		case v.Type == lisp.LArray && len(v.Cells) == 2 && s.idx < len(v.Cells[1].Cells):
			v = v.Cells[1].Cells[s.idx]
		case v.Type == lisp.LSExpr && s.idx < len(v.Cells):
			v = v.Cells[s.idx]
		default:
			return nil
		}
	}
	return v
}

// c13ValueHistory runs after the ordinary value checks; the value is bound to
// c13-v, d1 is its dump.  preEqual says whether (equal? c13-v fresh-twin) held
// before anything was dumped.
func c13ValueHistory(w *fw.W, c *c13RT, r *fw.RNG, v *c13Val, st *c13Stats, shape, d1 string, preEqual bool, detail func(string) string) {
	w.Count("c13_value_histories", 1)
	ask := func(expr string) bool {
		t, e := c.eval(expr)
		w.Eval(1)
		return !t.IsErr && e.Type == lisp.LSymbol && e.Str == "true"
	}
	// ---- dumping left the value alone
	if preEqual {
		c.set("c13-v4", c13BuildGo(v, nil, false))
		if !ask("(equal? c13-v c13-v4)") {
			w.Violation("dump-changed-value:"+shape, "a value that was equal? to a freshly built twin before it was dumped is not afterwards",
				detail("(equal? v twin) was true before the dumps"))
			return
		}
	}
	// ---- bytes handed out by an earlier dump are grown in place
	expr := "(progn (append-bytes! (json:dump-bytes c13-v) \"]1\") (json:dump-bytes c13-v))"
	name := "after-append-bytes!-on-earlier-dump-bytes"
	if r.Chance(1, 3) {
		expr = "(progn (append-bytes! (json:message-bytes (json:dump-message c13-v)) \"]1\") (json:message-bytes (json:dump-message c13-v)))"
		name = "after-append-bytes!-on-earlier-message-bytes"
	}
	t, b := c.eval(expr)
	w.Eval(1)
	if t.IsErr {
		w.Count("c13_history_probe_failed", 1)
	}
	if !t.IsErr && b.Type == lisp.LBytes && string(b.Bytes()) != d1 {
		w.Violation("dump-nondeterministic:"+name, "a dump differs from the earlier dump of the same value after the bytes of the earlier one were grown in place",
			detail(fmt.Sprintf("%s\nfirst dump: %s\nnow:        %s", expr, c13Q(d1), c13Q(string(b.Bytes())))))
		return
	}
	// ---- bytes handed out by a dump are not touched by later dumps of other values
	expr = "(let ((b (json:dump-bytes c13-v))) (json:dump-bytes (vector c13-v \"" + c13HMarkStr + "\")) (json:dump-string (sorted-map \"k\" c13-v)) (to-string b))"
	t, s := c.eval(expr)
	w.Eval(1)
	if t.IsErr {
		w.Count("c13_history_probe_failed", 1) // e.g. one more level crosses the nesting guard
	}
	if !t.IsErr && s.Type == lisp.LString && s.Str != d1 {
		w.Violation("dump-bytes-changed-by-later-dump", "the bytes json:dump-bytes returned changed when other values were dumped afterwards",
			detail(fmt.Sprintf("%s\nfirst dump: %s\nbytes now:  %s", expr, c13Q(d1), c13Q(s.Str))))
		return
	}
	// ---- change the value in place, dump again
	if st.hasBad {
		return
	}
	_, cur := c.eval("c13-v")
	if cur == nil || cur.Type == lisp.LError {
		return
	}
	pm := c13VClone(v)
	conts := c13VContainers(pm)
	if len(conts) == 0 {
		return
	}
	fw.Shuffle(r, conts)
	if len(conts) > c13HMaxTargets {
		sort.SliceStable(conts, func(i, j int) bool { return len(conts[i].v.elems) == 0 && len(conts[j].v.elems) != 0 })
		conts = conts[:c13HMaxTargets]
	}
	targets := make([]*lisp.LVal, len(conts))
	for i, ct := range conts {
		if targets[i] = c13VResolve(cur, ct); targets[i] == nil {
			w.Count("c13_history_mutator_refused", 1)
			return
		}
	}
	var script []string
	var ops []c13VHOp
	for i, ct := range conts {
		o := c13VHOp{target: ct.v, class: c13VClass(ct.v), mark: r.Intn(len(c13HMarkers))}
		mk := c13HMarkers[o.mark]
		c.set("c13-hc", targets[i])
		src := ""
		if ct.v.kind == c13VVec {
			o.op = "append!"
			src = "(append! c13-hc " + mk.src + ")"
			ct.v.elems = append(ct.v.elems, mk.val())
		} else {
			names := map[string]bool{}
			for _, k := range ct.v.keys {
				names[k.name] = true
			}
			fresh := "c13-history-key"
			for names[fresh] {
				fresh += "'"
			}
			// names written once only: which spelling survives a re-write is
			// the map's business
			var plain []int
			for j, k := range ct.v.keys {
				if k.respell == 0 {
					plain = append(plain, j)
				}
			}
			k := r.Intn(8)
			switch {
			case len(plain) == 0 || k < 3:
				o.op = "assoc!-new"
				o.key = c13Key{kind: c13KStr, name: fresh, class: "identifier"}
				if r.Bool() {
					o.key.kind, o.key.lex = c13KSym, true
				}
				as, _ := o.key.lvals()
				c.set("c13-hk", as)
				src = "(assoc! c13-hc c13-hk " + mk.src + ")"
				ct.v.keys = append(ct.v.keys, o.key)
				ct.v.elems = append(ct.v.elems, mk.val())
			case k < 6:
				j := plain[r.Intn(len(plain))]
				o.op, o.key = "assoc!-overwrite", ct.v.keys[j]
				as, _ := o.key.lvals()
				c.set("c13-hk", as)
				src = "(assoc! c13-hc c13-hk " + mk.src + ")"
				ct.v.elems[j] = mk.val()
			default:
				j := plain[r.Intn(len(plain))]
				o.op, o.key = "dissoc!", ct.v.keys[j]
				as, _ := o.key.lvals()
				c.set("c13-hk", as)
				src = "(dissoc! c13-hc c13-hk)"
				ct.v.keys = append(ct.v.keys[:j:j], ct.v.keys[j+1:]...)
				ct.v.elems = append(ct.v.elems[:j:j], ct.v.elems[j+1:]...)
			}
		}
		t, _ := c.eval(src)
		w.Eval(1)
		script = append(script, fmt.Sprintf("%s on a %s (key %s)", src, o.class, c13Q(o.key.name)))
		if t.IsErr {
			w.Count("c13_history_mutator_refused", 1)
			w.Logf("value history: %s failed: %s", src, t.Value)
			return
		}
		ops = append(ops, o)
		w.SetAdd("c13_value_history_ops", o.label())
	}
	w.Count("c13_history_mutations", int64(len(ops)))
	hdetail := func(extra string) string {
		return detail("then changed in place:\n  " + strings.Join(script, "\n  ") + "\nmodel now: " + c13ModelStr(pm) + "\n" + extra)
	}
	t2, d2v := c.eval("(json:dump-string c13-v)")
	w.Eval(1)
	// the control: a twin of the changed model built from scratch
	c.set("c13-v5", c13BuildGo(pm, nil, false))
	follows := ask("(equal? c13-v c13-v5)")
	if !follows {
		// the mutators did something else than the model says: not C13's subject
		w.Count("c13_history_model_unsure", 1)
		return
	}
	opOf := func(leaf *c13Val) string {
		for _, o := range ops {
			if o.target == leaf {
				return o.label()
			}
		}
		return "elsewhere"
	}
	if t2.IsErr || d2v.Type != lisp.LString {
		w.Violation("dump-after-mutation-failed:"+ops[0].label(), "json:dump failed on a value after it was changed in place", hdetail("=> "+t2.Value))
		return
	}
	d2 := d2v.Str
	doc := c13x.Parse([]byte(d2))
	if !doc.Valid || !doc.UTF8 {
		w.Violation("dump-after-mutation-invalid-json:"+ops[0].label(), "the dump of a value that was changed in place is not valid JSON", hdetail("dump: "+c13Q(d2)+" "+doc.Err))
		return
	}
	if x := c13CmpDump(pm, doc.Root, false, "$"); x != nil {
		w.Violation("dump-after-mutation-differs:"+opOf(x.leaf), "the dump of a value that was changed in place does not read back to the changed value: "+x.why,
			hdetail("first dump: "+c13Q(d1)+"\ndump now:   "+c13Q(d2)+"\n"+x.why))
		return
	}
	t3, d3 := c.eval("(json:dump-string c13-v5)")
	w.Eval(1)
	if !t3.IsErr && d3.Type == lisp.LString && d3.Str != d2 {
		w.Violation("dump-nondeterministic:changed-in-place-vs-fresh-twin", "a value changed in place and an equal? value built from scratch dump differently",
			hdetail("changed in place: "+c13Q(d2)+"\nfresh twin:       "+c13Q(d3.Str)))
	}
}
