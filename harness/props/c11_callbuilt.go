package props

import (
	"fmt"
	"sort"
	"strings"

	"verifharness/fw"
)

// C11, family "call-built": containers built from the ELEMENTS of an existing
// container through a call -- (apply vector xs), (apply list 1 xs), (unpack
// list xs), (thread-last xs (apply vector)), (apply sorted-map kvs), (apply
// concat 'list xss), (apply append 'vector v xs), (apply cons (list x xs)),
// (map 'vector identity xs), folds that rebuild, user functions handing back
// their &rest list, (compose f list) -- for xs of every provenance the heap
// holds (fresh, literal, view, view of view, results of cons / select / append
// that carry spare capacity, vectors where the form accepts them, bytes).
//
// Oracle.  `list`, `vector`, `sorted-map`, `concat`, `append`, `cons`, `map`
// are documented to return a NEW value ("Returns a new list containing all the
// given arguments", docs/lang.md table "Non-mutating (returns a new value)"),
// and apply / unpack call the function "with the elements of lis as individual
// arguments" (docstring of unpack; docs/lang.md: "the list is unpacked as if
// the list contents had been passed to + as its arguments").  So in the heap
// model the result is a value on storage of its own, holding the very elements
// (element identity is kept, as for every other constructor), and never
// aliases xs or anything xs shares storage with.  It joins the heap like any
// other value: it and xs are later operands of the mutators and every live
// value is re-inspected after every step.
//
// The same sentences decide the one case the documentation does not spell out,
// the &rest list of a user function reached through apply with no leading
// arguments: (apply (lambda (&rest r) r) xs) is "as if" the elements had been
// written out as arguments, and a call with written-out arguments cannot hand
// back storage of a list that does not occur in it.  c11JudgeRestListOfApply
// turns that reading off (the result is then only "maybe the same storage" as
// xs, and later in-place effects between the two are skipped, not judged).
const c11JudgeRestListOfApply = true

// c11Vias lists the forms of the family; the driver-side floor demands that
// every one of them was generated.
var c11Vias = []string{
	"apply-constructor", "apply-constructor-leading", "unpack-constructor", "thread-last-apply", "apply-inline-view",
	"funcall-constructor", "apply-concat", "apply-append", "apply-cons", "map-identity", "fold-rebuild",
	"rest-list-apply", "rest-list-call", "compose-apply", "apply-sorted-map", "apply-bytes",
}

// c11CallBuiltOps are appended to c11Ops.
var c11CallBuiltOps = []string{"kv-list", "call-built", "call-built", "call-built", "call-built-twice",
	"append!-call-built-inline", "stable-sort-call-built-inline", "append!-applied"}

const c11RestPrelude = "(defun c11-rest (&rest r) r) (defun c11-tail (a &rest r) r)"

type c11Built struct {
	form string
	val  *c11Val
	via  string
	src  *c11Val
}

// c11ClassOf names the form that built a call-built value (or the value a view
// was taken from); "" for every other value.
func c11ClassOf(v *c11Val) string {
	if v.via == "" {
		return ""
	}
	return "call-built(" + v.via + ")"
}

// c11IsKVList: a list of alternating distinct key names (strings / symbols) and values.
func c11IsKVList(v *c11Val) bool {
	if v.kind != "list" || v.n == 0 || v.n%2 != 0 {
		return false
	}
	seen := map[string]bool{}
	for i, e := range v.elems() {
		if i%2 == 1 {
			continue
		}
		if (e.kind != "str" && e.kind != "sym") || seen[e.s] {
			return false
		}
		seen[e.s] = true
	}
	return true
}

func c11AllSeqs(v *c11Val) bool {
	if v.kind != "list" || v.n == 0 {
		return false
	}
	for _, e := range v.elems() {
		if !c11IsSeq(e) {
			return false
		}
	}
	return true
}

// c11FunName spells a builtin as a function designator.
func c11FunName(r *fw.RNG, name string) string {
	switch r.Intn(4) {
	case 0:
		return "'" + name
	case 1:
		return "#'" + name
	}
	return name
}

// c11Derive draws one form of the family.  kind "" leaves the result kind
// open (maps and bytes included), "vector" / "list" force it; intsOnly demands
// a result of integers (so that it can be sorted with <).
func c11Derive(r *fw.RNG, h *c11Heap, kind string, intsOnly bool) *c11Built {
	via := fw.Pick(r, c11Vias)
	seqKind := kind
	if seqKind == "" {
		seqKind = fw.Pick(r, []string{"list", "vector"})
	}
	K := c11FunName(r, seqKind)
	listOK := func(v *c11Val) bool { return c11IsList(v) && (!intsOnly || c11IsIntSeq(v)) }
	seqOK := func(v *c11Val) bool { return c11IsSeq(v) && (!intsOnly || c11IsIntSeq(v)) }
	built := func(form string, cells []*c11Val, src *c11Val) *c11Built {
		val := c11Seq(seqKind, cells, "call-built")
		val.via = via
		return &c11Built{form: form, val: val, via: via, src: src}
	}
	// leading arguments: integers, or live containers stored as elements
	leading := func(k int) ([]*c11Val, string) {
		var cs []*c11Val
		var sb strings.Builder
		for i := 0; i < k; i++ {
			if !intsOnly && r.Chance(1, 3) {
				if n, v := h.pick(r, func(v *c11Val) bool { return v.kind != "int" && v.small() }); v != nil {
					cs = append(cs, v)
					sb.WriteString(" " + n)
					continue
				}
			}
			x := int64(r.Range(0, 40))
			cs = append(cs, c11Int(x))
			fmt.Fprintf(&sb, " %d", x)
		}
		return cs, sb.String()
	}
	switch via {
	case "apply-constructor", "unpack-constructor", "thread-last-apply":
		n, v := h.pick(r, listOK)
		if v == nil {
			return nil
		}
		form := fmt.Sprintf("(apply %s %s)", K, n)
		switch via {
		case "unpack-constructor":
			form = fmt.Sprintf("(unpack %s %s)", K, n)
		case "thread-last-apply":
			form = fmt.Sprintf("(thread-last %s (apply %s))", n, K)
		}
		return built(form, c11CopyCells(v.elems()), v)
	case "apply-constructor-leading":
		n, v := h.pick(r, listOK)
		if v == nil {
			return nil
		}
		cs, txt := leading(r.Range(1, 2))
		return built(fmt.Sprintf("(apply %s%s %s)", K, txt, n), append(cs, v.elems()...), v)
	case "apply-inline-view":
		// the applied list is itself a view taken in the same expression
		n, v := h.pick(r, seqOK)
		if v == nil {
			return nil
		}
		if r.Bool() {
			acc := "rest"
			if v.kind == "list" && r.Bool() {
				acc = "cdr"
			}
			var cs []*c11Val
			if v.n >= 2 {
				cs = c11CopyCells(v.elems()[1:])
			}
			return built(fmt.Sprintf("(apply %s (%s %s))", K, acc, n), cs, v)
		}
		i := r.Range(0, v.n)
		j := r.Range(i, v.n)
		if r.Chance(1, 3) {
			i, j = 0, v.n
		}
		return built(fmt.Sprintf("(apply %s (slice 'list %s %d %d))", K, n, i, j), c11CopyCells(v.elems()[i:j]), v)
	case "funcall-constructor":
		n, v := h.pick(r, func(v *c11Val) bool { return seqOK(v) && v.n <= 5 })
		if v == nil {
			return nil
		}
		var sb strings.Builder
		for i := 0; i < v.n; i++ {
			fmt.Fprintf(&sb, " (nth %s %d)", n, i)
		}
		return built(fmt.Sprintf("(funcall %s%s)", K, sb.String()), c11CopyCells(v.elems()), v)
	case "apply-concat":
		if r.Bool() && !intsOnly {
			if n, v := h.pick(r, c11AllSeqs); v != nil {
				var cs []*c11Val
				for _, e := range v.elems() {
					cs = append(cs, e.elems()...)
				}
				return built(fmt.Sprintf("(apply concat '%s %s)", seqKind, n), cs, v)
			}
		}
		n1, v1 := h.pick(r, seqOK)
		n2, v2 := h.pick(r, seqOK)
		if v1 == nil || v2 == nil {
			return nil
		}
		form := fmt.Sprintf("(apply concat '%s (list %s %s))", seqKind, n1, n2)
		if r.Chance(1, 3) {
			form = fmt.Sprintf("(apply concat '%s %s (list %s))", seqKind, n1, n2)
		}
		return built(form, append(c11CopyCells(v1.elems()), v2.elems()...), v1)
	case "apply-append":
		n1, v1 := h.pick(r, seqOK)
		n2, v2 := h.pick(r, listOK)
		if v1 == nil || v2 == nil {
			return nil
		}
		return built(fmt.Sprintf("(apply append '%s %s %s)", seqKind, n1, n2), append(c11CopyCells(v1.elems()), v2.elems()...), v2)
	case "apply-cons":
		if seqKind != "list" {
			if kind != "" {
				return nil
			}
			seqKind = "list"
		}
		n, v := h.pick(r, listOK)
		if v == nil {
			return nil
		}
		cs, txt := leading(1)
		form := fmt.Sprintf("(apply cons (list%s %s))", txt, n)
		if r.Bool() {
			form = fmt.Sprintf("(apply cons%s (list %s))", txt, n)
		}
		return built(form, append(cs, v.elems()...), v)
	case "map-identity":
		n, v := h.pick(r, seqOK)
		if v == nil {
			return nil
		}
		f := fw.Pick(r, []string{"identity", "#'identity", "(lambda (x) x)"})
		return built(fmt.Sprintf("(map '%s %s %s)", seqKind, f, n), c11CopyCells(v.elems()), v)
	case "fold-rebuild":
		n, v := h.pick(r, seqOK)
		if v == nil {
			return nil
		}
		cs := c11CopyCells(v.elems())
		if seqKind == "vector" {
			return built(fmt.Sprintf("(foldl (lambda (acc x) (append! acc x)) (vector) %s)", n), cs, v)
		}
		switch r.Intn(3) {
		case 0:
			return built(fmt.Sprintf("(foldr cons () %s)", n), cs, v)
		case 1:
			for i, j := 0, len(cs)-1; i < j; i, j = i+1, j-1 {
				cs[i], cs[j] = cs[j], cs[i]
			}
			return built(fmt.Sprintf("(foldl (flip cons) () %s)", n), cs, v)
		}
		return built(fmt.Sprintf("(foldl (lambda (acc x) (append 'list acc x)) () %s)", n), cs, v)
	case "rest-list-apply":
		// a user function reached through apply / unpack with no leading arguments
		n, v := h.pick(r, listOK)
		if v == nil {
			return nil
		}
		call := fw.Pick(r, []string{"(apply %s %s)", "(unpack %s %s)"})
		if seqKind == "vector" {
			return built(fmt.Sprintf(call, "(lambda (&rest r) (apply vector r))", n), c11CopyCells(v.elems()), v)
		}
		var b *c11Built
		if v.n >= 1 && r.Chance(1, 3) {
			f := fw.Pick(r, []string{"(lambda (a &rest r) r)", "c11-tail"})
			b = built(fmt.Sprintf(call, f, n), c11CopyCells(v.elems()[1:]), v)
		} else {
			f := fw.Pick(r, []string{"(lambda (&rest r) r)", "c11-rest", "'c11-rest"})
			b = built(fmt.Sprintf(call, f, n), c11CopyCells(v.elems()), v)
		}
		if !c11JudgeRestListOfApply {
			b.val.b.linked = append(b.val.b.linked, v.b)
			v.b.linked = append(v.b.linked, b.val.b)
		}
		return b
	case "rest-list-call":
		// the same functions called with written-out arguments, through funcall, or
		// through apply with leading arguments
		n, v := h.pick(r, func(v *c11Val) bool { return seqOK(v) && v.n <= 5 })
		if v == nil {
			return nil
		}
		f := fw.Pick(r, []string{"(lambda (&rest r) r)", "c11-rest"})
		if seqKind == "vector" {
			f = "(lambda (&rest r) (apply vector r))"
		}
		if v.kind == "list" && r.Chance(1, 3) {
			cs, txt := leading(r.Range(1, 2))
			return built(fmt.Sprintf("(apply %s%s %s)", f, txt, n), append(cs, v.elems()...), v)
		}
		var sb strings.Builder
		for i := 0; i < v.n; i++ {
			fmt.Fprintf(&sb, " (nth %s %d)", n, i)
		}
		if r.Bool() {
			return built(fmt.Sprintf("(funcall %s%s)", f, sb.String()), c11CopyCells(v.elems()), v)
		}
		return built(fmt.Sprintf("(%s%s)", f, sb.String()), c11CopyCells(v.elems()), v)
	case "compose-apply":
		n, v := h.pick(r, listOK)
		if v == nil {
			return nil
		}
		return built(fmt.Sprintf("(apply (compose identity %s) %s)", seqKind, n), c11CopyCells(v.elems()), v)
	case "apply-sorted-map":
		if kind != "" || intsOnly {
			return nil
		}
		n, v := h.pick(r, c11IsKVList)
		if v == nil {
			return nil
		}
		m := &c11Val{kind: "map", m: map[string]*c11Val{}, msym: map[string]bool{}, spell: map[string]string{}, prov: "call-built", via: via}
		e := v.elems()
		for i := 0; i+1 < len(e); i += 2 {
			m.m[e[i].s] = e[i+1]
			sp := "s"
			if e[i].kind == "sym" {
				sp = "y"
			}
			c11Spell(m, e[i].s, sp)
		}
		form := fmt.Sprintf("(apply %s %s)", c11FunName(r, "sorted-map"), n)
		if _, dup := m.m["lead"]; !dup && r.Chance(1, 3) {
			x := int64(r.Range(0, 40))
			m.m["lead"] = c11Int(x)
			c11Spell(m, "lead", "s")
			form = fmt.Sprintf("(apply sorted-map \"lead\" %d %s)", x, n)
		}
		return &c11Built{form: form, val: m, via: via, src: v}
	case "apply-bytes":
		if kind != "" || intsOnly {
			return nil
		}
		n1, v1 := h.pick(r, c11IsBytes)
		n2, v2 := h.pick(r, c11IsBytes)
		if v1 == nil || v2 == nil {
			return nil
		}
		if r.Bool() {
			s := fw.Pick(r, []string{"", "q", "rs"})
			return &c11Built{form: fmt.Sprintf("(apply append-bytes %s (list %q))", n1, s), via: via, src: v1,
				val: &c11Val{kind: "bytes", by: append(append([]byte(nil), v1.by...), s...), prov: "call-built", via: via}}
		}
		return &c11Built{form: fmt.Sprintf("(apply concat 'bytes (list %s %s))", n1, n2), via: via, src: v1,
			val: &c11Val{kind: "bytes", by: append(append([]byte(nil), v1.by...), v2.by...), prov: "call-built", via: via}}
	}
	return nil
}

func (h *c11Heap) noteBuilt(b *c11Built) {
	h.events = append(h.events, b.via)
	if b.src != nil && b.src.b != nil {
		b.src.b.lent = true
	}
}

// c11BuiltSig is the coverage signature of one generated form: the form, the
// kind of the source and its provenance reduced to (depth of view nesting up to
// 2, what the storage underneath came from), and the kind of the result.
func c11BuiltSig(op string, b *c11Built) string {
	prov := b.src.prov
	depth := strings.Count(prov, "view-of-")
	if i := strings.LastIndex(prov, "view-of-"); i >= 0 {
		prov = prov[i+len("view-of-"):]
	}
	if depth > 2 {
		depth = 2
	}
	return fmt.Sprintf("%s|%s|%s|%d|%s|%s", op, b.via, b.src.kind, depth, prov, b.val.kind)
}

// c11CallBuiltStep generates the steps of the family (see c11CallBuiltOps).
func c11CallBuiltStep(r *fw.RNG, h *c11Heap, op string) (src, opname, sig string) {
	setq := func(v *c11Val, form string) string { return fmt.Sprintf("(set '%s %s)", h.bind(v), form) }
	switch op {
	case "kv-list":
		// a list of alternating key names and values, the argument list of sorted-map
		names := []string{"a", "b", "c", "k1", "zz", "new"}
		fw.Shuffle(r, names)
		var cs []*c11Val
		var sb strings.Builder
		for _, k := range names[:r.Range(1, 4)] {
			if r.Bool() {
				cs = append(cs, &c11Val{kind: "str", s: k})
				fmt.Fprintf(&sb, " %q", k)
			} else {
				cs = append(cs, &c11Val{kind: "sym", s: k})
				fmt.Fprintf(&sb, " '%s", k)
			}
			if r.Chance(1, 3) {
				if n, v := h.pick(r, func(v *c11Val) bool { return v.kind != "int" && v.small() }); v != nil {
					cs = append(cs, v)
					sb.WriteString(" " + n)
					continue
				}
			}
			x := int64(r.Range(0, 40))
			cs = append(cs, c11Int(x))
			fmt.Fprintf(&sb, " %d", x)
		}
		return setq(c11Seq("list", cs, "fresh-kv"), "(list"+sb.String()+")"), op, op
	case "call-built":
		b := c11Derive(r, h, "", false)
		if b == nil {
			return "", "", ""
		}
		h.noteBuilt(b)
		return setq(b.val, b.form), op + ":" + b.via, c11BuiltSig(op, b)
	case "call-built-twice":
		// two values built from one source (the second may use another form)
		b1 := c11Derive(r, h, "", false)
		if b1 == nil || b1.src == nil {
			return "", "", ""
		}
		s1 := setq(b1.val, b1.form)
		h.noteBuilt(b1)
		var b2 *c11Built
		if b1.val.kind == "list" || b1.val.kind == "vector" {
			// same form over the same source, when the source is still the recent pick
			for try := 0; try < 4 && b2 == nil; try++ {
				if c := c11Derive(r, h, "", false); c != nil && c.src == b1.src {
					b2 = c
				}
			}
		}
		if b2 == nil {
			return s1, "call-built:" + b1.via, c11BuiltSig("call-built", b1)
		}
		h.noteBuilt(b2)
		return s1 + " " + setq(b2.val, b2.form), op + ":" + b1.via, c11BuiltSig(op, b1)
	case "append!-call-built-inline":
		// growing a freshly built vector never writes into what it was built from
		b := c11Derive(r, h, "vector", false)
		if b == nil {
			return "", "", ""
		}
		h.noteBuilt(b)
		x := int64(r.Range(0, 40))
		b.val.b.cells = append(b.val.b.cells, c11Int(x))
		b.val.n++
		b.val.prov = "append!-of-" + b.val.prov
		h.target, h.targetBorn = c11ClassOf(b.val), h.next+1
		return setq(b.val, fmt.Sprintf("(append! %s %d)", b.form, x)), op, c11BuiltSig(op, b)
	case "stable-sort-call-built-inline":
		// sorting a freshly built sequence in place never reorders what it was built from
		b := c11Derive(r, h, "", true)
		if b == nil || !c11IsIntSeq(b.val) {
			return "", "", ""
		}
		h.noteBuilt(b)
		c11SortInPlace(b.val)
		b.val.prov = "sorted-" + b.val.prov
		h.target, h.targetBorn = c11ClassOf(b.val), h.next+1
		return setq(b.val, fmt.Sprintf("(stable-sort < %s)", b.form)), op, c11BuiltSig(op, b)
	case "append!-applied":
		// the mutator itself reached through apply: v grows by the elements of xs,
		// xs is only read
		nv, v := h.pick(r, c11IsVec)
		if v == nil {
			return "", "", ""
		}
		nx, x := h.pick(r, func(x *c11Val) bool {
			if !c11IsList(x) || !x.small() {
				return false
			}
			for _, e := range x.elems() {
				if e.kind != "int" && e.reaches(v, 0) {
					return false // would store v inside itself
				}
			}
			return true
		})
		if x == nil || !v.small() {
			return "", "", ""
		}
		h.target, h.targetBorn = "mutator-through-apply", h.next+1
		h.events = append(h.events, "apply-append!")
		x.b.lent = true
		c11AppendInPlace(v, c11CopyCells(x.elems()))
		return fmt.Sprintf("(apply append! %s %s)", nv, nx), op, op + "|" + v.prov + "|" + x.prov
	}
	return "", "", ""
}

// c11Driver is the family floor: a run in which a form of the family was never
// generated, or in which no call-built value / no source of one was mutated
// afterwards, says nothing about the family and must not count as "held".
func c11Driver(d *fw.D) {
	seen := d.Sets["call_built_forms_seen"]
	var missing []string
	for _, via := range append([]string{"apply-append!"}, c11Vias...) {
		if !seen[via] {
			missing = append(missing, via)
		}
	}
	sort.Strings(missing)
	if len(missing) > 0 {
		d.Inconclusive("call-built family: forms never generated: " + strings.Join(missing, " "))
	}
	for _, c := range []string{"call_built_values", "call_built_values_mutated_later", "call_built_sources_mutated_later"} {
		if d.Counters[c] == 0 {
			d.Inconclusive("call-built family: counter " + c + " is 0")
		}
	}
	c11CallFormFloor(d)
}
