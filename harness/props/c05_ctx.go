package props

import (
	"context"
	"fmt"
	"time"

	"verifharness/fw"
)

// C05, second dimension of the histories: WHICH context an evaluation ran under
// and WHEN that context ended, against which later evaluation uses what it
// defined.
//
// "The evaluation context is restored" and "any later evaluation behaves as if
// the earlier one had stopped cleanly" quantify over everything an evaluation
// leaves behind, in particular over the functions, closures and macros it
// stored in globals: they are created while the per-call context of a *Context
// entry point is in effect.  A host releases that context when the call
// returns (`defer cancel()`), a client disconnect cancels it in the middle, a
// parent context ends later.  None of this may reach an evaluation that runs
// without a context or under its own live one.  So the histories
//   - define functions / closures / macros whose bodies go through special
//     operators and re-entrant builtins (not only leaf arithmetic),
//   - run under real contexts (WithCancel, WithDeadline, children of a parent)
//     that end mid-evaluation, right after the return, or later in the history,
//   - and call the definitions from later steps through every entry point and
//     from the probe program; the context-free twin predicts the results.

// c05Life is one real context of a history and how it ends.
type c05Life struct {
	ctx     context.Context
	kind    string // how the host built it
	end     func() // ends it (cancels it or its parent)
	cleanup func() // releases every resource (end of history)
	ended   bool
}

type c05ctxKey struct{}

// c05NewLife builds a live real context of a random kind.
func c05NewLife(r *fw.RNG) *c05Life {
	bg := context.Background()
	switch r.Intn(4) {
	case 0:
		ctx, cancel := context.WithCancel(bg)
		return &c05Life{ctx: ctx, kind: "with-cancel", end: cancel, cleanup: cancel}
	case 1:
		// a deadline far away: the context ends because the host releases it
		ctx, cancel := context.WithDeadline(bg, time.Now().Add(24*time.Hour))
		return &c05Life{ctx: ctx, kind: "with-deadline", end: cancel, cleanup: cancel}
	case 2:
		// the request context is a child; the PARENT ends
		parent, pcancel := context.WithCancel(bg)
		ctx, cancel := context.WithCancel(parent)
		return &c05Life{ctx: ctx, kind: "child-of-cancel", end: pcancel, cleanup: func() { cancel(); pcancel() }}
	default:
		parent, pcancel := context.WithTimeout(bg, 24*time.Hour)
		ctx := context.WithValue(parent, c05ctxKey{}, 1)
		return &c05Life{ctx: ctx, kind: "value-child-of-timeout", end: pcancel, cleanup: pcancel}
	}
}

func (l *c05Life) finish() {
	if !l.ended {
		l.ended = true
		l.end()
	}
}

// c05OwnState says whether the context an evaluation was given has ended
// ("absent" when it was given none).  It does not disturb a scripted context's
// call count.
func c05OwnState(ctx context.Context) string {
	switch c := ctx.(type) {
	case nil:
		return "absent"
	case *scriptedCtx:
		if c.closed {
			return "ended"
		}
		return "live"
	}
	if ctx.Err() != nil {
		return "ended"
	}
	return "live"
}

// c05Body returns body forms for a function of one parameter x that is always
// called with a small integer and returns an integer (so no use of a definition
// fails by itself).  Every template but the first goes through
// special operators or builtins that re-enter the evaluator; n appears
// literally in each, so the printed definition identifies it.  self is the
// index of the function being defined (0 for closures and macros' helpers): a
// body may call a function with a HIGHER index only, so definitions never loop.
func c05Body(r *fw.RNG, self, n int) string {
	switch r.Intn(13) {
	case 0:
		return fmt.Sprintf("(+ x %d)", n)
	case 1:
		return fmt.Sprintf("(if (< x %d) %d x)", n, n)
	case 2:
		return fmt.Sprintf("(let ([a %d]) (dotimes (i 3) (set! a (+ a x))) a)", n)
	case 3:
		return fmt.Sprintf("(cond ((= x %d) 0) (else (progn (+ x 1))))", n)
	case 4:
		return fmt.Sprintf("(let* ([a x] [b (+ a %d)]) (+ a b))", n)
	case 5:
		return fmt.Sprintf("(handler-bind ((condition (lambda (c &rest r) (+ x %d)))) (car x))", n)
	case 6:
		return fmt.Sprintf("(apply + (map 'list (lambda (y) (if (< y %d) %d y)) (list x 2)))", n, n)
	case 7:
		return fmt.Sprintf("(foldl (lambda (a y) (+ a y)) %d (list x 2))", n)
	case 8:
		return fmt.Sprintf("(labels ((up (k) (if (<= k 0) %d (up (- k 1))))) (up (if (< x 4) x 4)))", n)
	case 9:
		return fmt.Sprintf("(progn (set! x (+ x %d)) x)", n)
	case 10:
		return fmt.Sprintf("(list x %d) (if (< x %d) 0 1)", n, n)
	case 11:
		return fmt.Sprintf("(or (and (< x %d) (funcall (lambda (y) (if y %d 0)) x)) x)", n, n)
	default:
		if self >= 1 && self < 3 {
			return fmt.Sprintf("(f%d (+ x %d))", self+1+r.Intn(3-self), n)
		}
		return fmt.Sprintf("(let ([a (+ x %d)]) (if (> a 0) a 0))", n)
	}
}

// c05Definition returns a statement that stores a function, a closure or a
// macro in a global.
func c05Definition(r *fw.RNG) string {
	n := r.Intn(50)
	switch r.Intn(4) {
	case 0, 1:
		k := r.Intn(3) + 1
		return fmt.Sprintf("(defun f%d (x) %s)", k, c05Body(r, k, n))
	case 2:
		// a closure over a binding of the defining evaluation
		return fmt.Sprintf("(set 'h%d (let ([k %d]) (lambda (x) (if (= x 0) k (progn %s)))))", r.Intn(2)+1, n, c05Body(r, 0, n))
	default:
		k := r.Intn(2) + 1
		switch r.Intn(4) {
		case 0:
			return fmt.Sprintf("(defmacro m%d (x) (quasiquote (if (unquote x) %d 0)))", k, n)
		case 1:
			return fmt.Sprintf("(defmacro m%d (x) (let ([k %d]) (quasiquote (+ (unquote x) (unquote k)))))", k, n)
		case 2:
			return fmt.Sprintf("(defmacro m%d (x) (if (int? x) (+ x %d) (quasiquote (f%d (unquote x)))))", k, n, r.Intn(3)+1)
		default:
			return fmt.Sprintf("(defmacro m%d (x) (cond ((symbol? x) (quasiquote (quote (unquote x)))) (else (quasiquote (list %d (unquote x))))))", k, n)
		}
	}
}

// c05Use returns a statement that calls definitions of earlier evaluations and
// stores what they return.
func c05Use(r *fw.RNG) string {
	a := r.Intn(10)
	fn := fw.Pick(r, []string{"f1", "f2", "f3", "h1", "h2"})
	mac := fw.Pick(r, []string{"m1", "m2"})
	var call string
	switch r.Intn(9) {
	case 0, 1:
		call = fmt.Sprintf("(%s %d)", fn, a)
	case 2:
		call = fmt.Sprintf("(%s %d)", mac, a)
	case 3:
		call = fmt.Sprintf("(%s (%s %d))", mac, fn, a)
	case 4:
		call = fmt.Sprintf("(map 'list %s (list %d 2))", fn, a)
	case 5:
		call = fmt.Sprintf("(funcall %s %d)", fn, a)
	case 6:
		call = fmt.Sprintf("(apply %s (list %d))", fn, a)
	case 7:
		call = fmt.Sprintf("(handler-bind ((condition (lambda (c &rest r) (%s %d)))) (error 'boom))", fn, a)
	default:
		call = fmt.Sprintf("(run-thunk (lambda () (%s (%s %d))))", mac, fn, a)
	}
	if r.Chance(1, 4) {
		return fmt.Sprintf("(append! gv %s)", call)
	}
	return fmt.Sprintf("(set 'g%d %s)", r.Intn(6)+1, call)
}
