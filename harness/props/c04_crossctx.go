package props

import (
	"context"
	"fmt"
	"strings"
	"testing/fstest"
	"time"

	"github.com/luthersystems/elps/lisp"

	"verifharness/fw"
	"verifharness/rt"
)

// C04, definition context x call context.
//
// An embedder loads its source once (under no context, a long-lived context, a
// context with a distant deadline, the context of a request that has ended since)
// and then runs the functions defined there per request, under a request context
// of its own.  The request context is the one that is cancelled; whichever context
// was current when the function (or the closure it returns, or the macro) was
// created must not matter: "a cancelled context stops evaluation at the next step".
//
// A case fixes one program (a function body shape x the way the function is held
// and reached) and, for every kind of definition context, runs it in a fresh
// runtime in up to three phases - definitions, an optional earlier request that
// creates the closure to be called, the request under test - each phase through a
// host entry point of its own.  The request under test runs once under a context
// that is never cancelled (reference: N steps and a step-stamped trace) and then
// under a context that is cancelled at step k for several k.  The oracle is the
// one of the single-context cancellation matrix: what ran is the reference cut at
// step k-1, the evaluation ends in context-cancelled with the step counter
// reading k.  Nothing is timed.

// --- contexts ---------------------------------------------------------------------

// c04DefKinds: the context under which the phases before the request under test run.
var c04DefKinds = []string{"none", "background", "live-cancelable", "cancelled-after-phase", "far-deadline", "root-WithContext"}

// c04CallKinds: the context of the request under test and how it is cancelled at step k.
//   - scripted: the k-th poll of the context fails (the check's classic context)
//   - cancel-at-step: a context.WithCancel whose cancel() is called by the step
//     hook the moment the counter reaches k
//   - parent-cancel-at-step: its parent is cancelled instead
//   - deadline+cancel-at-step: context.WithDeadline (one hour) cancelled explicitly
var c04CallKinds = []string{"scripted", "cancel-at-step", "parent-cancel-at-step", "deadline+cancel-at-step"}

// c04DefCtx makes a definition context of the given kind.  after is called when
// the phase that used it has returned, end when the whole run is over.
func c04DefCtx(kind string) (ctx context.Context, after, end func()) {
	nop := func() {}
	switch kind {
	case "background":
		return context.Background(), nop, nop
	case "live-cancelable":
		c, cancel := context.WithCancel(context.Background())
		return c, nop, cancel
	case "cancelled-after-phase":
		c, cancel := context.WithCancel(context.Background())
		return c, cancel, nop
	case "far-deadline":
		c, cancel := context.WithDeadline(context.Background(), time.Now().Add(time.Hour))
		return c, nop, cancel
	}
	return nil, nop, nop // none, root-WithContext: the plain entry points
}

// c04CallCtx makes the context of the request under test; arm(m) makes the step
// hook cancel it at step k (k == 0: never).
func c04CallCtx(kind string, k int64) (ctx context.Context, arm func(m *c04Mon), end func()) {
	switch kind {
	case "scripted":
		return newScriptedCtx(int(k)), func(*c04Mon) {}, func() {}
	case "parent-cancel-at-step":
		parent, pcancel := context.WithCancel(context.Background())
		c, cancel := context.WithCancel(parent)
		return c, func(m *c04Mon) { m.cancelAt, m.cancel = k, pcancel }, func() { cancel(); pcancel() }
	case "deadline+cancel-at-step":
		c, cancel := context.WithDeadline(context.Background(), time.Now().Add(time.Hour))
		return c, func(m *c04Mon) { m.cancelAt, m.cancel = k, cancel }, cancel
	}
	c, cancel := context.WithCancel(context.Background())
	return c, func(m *c04Mon) { m.cancelAt, m.cancel = k, cancel }, cancel
}

// --- programs ---------------------------------------------------------------------

// c04Body is the body of the function under test: forms over the parameter n.
// SELF stands for the function's own name (shapes that need it are only used by
// holders that give the function a name).
type c04Body struct {
	name     string
	forms    string
	self     bool // refers to SELF
	swallows bool
	defs     string // auxiliary definitions the body relies on
}

var c04Bodies = []c04Body{
	{name: "dotimes", forms: "(dotimes (i n) (verif:probe 'turn i)) (verif:probe 'finished n)"},
	{name: "dotimes-last", forms: "(verif:probe 'start n) (dotimes (i (+ n 2)) (verif:probe 'turn i) (verif:probe 'turn-b (* i i)))"},
	{name: "dotimes-empty", forms: "(verif:probe 'before n) (dotimes (i (* 4 (+ n 1)))) (verif:probe 'after n)"},
	{name: "let-non-final", forms: "(let ((a (verif:probe 'a n))) (verif:probe 'b (+ a 1)) (verif:probe 'c (* a 2)) (verif:probe 'd a))"},
	{name: "progn-non-final", forms: "(progn (verif:probe 'p1 n) (verif:probe 'p2 (+ n 1)) (verif:probe 'p3 (+ n 2)) n)"},
	{name: "let*-flet", forms: "(let* ((a n) (b (verif:probe 'b (+ a 1)))) (flet ((h (x) (verif:probe 'h (* x b)) (verif:probe 'h2 x))) (h a) (h b) (verif:probe 'end b)))"},
	{name: "map-callback", forms: "(verif:probe 'm (map 'list (lambda (x) (verif:probe 'cb x) (* x x)) (make-sequence 0 (+ n 2))))"},
	{name: "foldl-callback", forms: "(verif:probe 'f (foldl (lambda (a x) (verif:probe 'fa a) (+ a x)) 0 (make-sequence 0 (+ n 2))))"},
	{name: "inner-lambda", forms: "(let ((f (lambda (x) (dotimes (j x) (verif:probe 'j j)) x))) (verif:probe 'r (funcall f (+ n 1))) (verif:probe 's (funcall f 2)) 'ok)"},
	{name: "tail-loop", self: true, forms: "(verif:probe 'lp n) (if (<= n 0) 'done (SELF (- n 1)))"},
	{name: "recursion", self: true, forms: "(verif:probe 'down n) (if (<= n 0) 0 (+ n (verif:probe 'up (SELF (- n 1)))))"},
	{name: "recursion-in-let", self: true, forms: "(let ((m (- n 1))) (verif:probe 'down n) (if (< m 0) 0 (let ((r (SELF m))) (verif:probe 'up r) (+ r 1))))"},
	{name: "nested-load", forms: "(verif:probe 'ld n) (load-string \"(dotimes (i 4) (verif:probe 'in i))\") (verif:probe 'ld-after n)"},
	{name: "nested-load-bytes", forms: "(let ((s \"(verif:probe 'in 1) (verif:probe 'in 2) (verif:probe 'in 3)\")) (load-bytes (to-bytes s)) (verif:probe 'ld-after n))"},
	{name: "cond-and-or", forms: "(cond ((and (verif:probe 'c1 true) (verif:probe 'c2 false)) 'no) ((or (verif:probe 'c3 false) (verif:probe 'c4 n)) (verif:probe 'yes n)) (else 'none))"},
	{name: "handler-bind-other", forms: "(handler-bind ((my-err (lambda (c &rest a) 0))) (dotimes (i (+ n 1)) (verif:probe 'in i)) (verif:probe 'hb-end n))"},
	{name: "ignore-errors", swallows: true, forms: "(verif:probe 'ie (ignore-errors (dotimes (i (+ n 1)) (verif:probe 'in i)) 'ok)) (verif:probe 'post n)"},
	{name: "user-macro", defs: "(defmacro rep (cnt &rest body) (quasiquote (dotimes (ri (unquote cnt)) (unquote-splicing body))))\n", forms: "(rep 3 (verif:probe 'm n)) (verif:probe 'rep-end n)"},
	{name: "helper-call", defs: "(defun helper (x) (dotimes (i x) (verif:probe 'help i)) x)\n", forms: "(verif:probe 'h1 (helper (+ n 1))) (let ((y (helper 2))) (verif:probe 'h2 y))"},
	{name: "straight-line", forms: "(verif:probe 's1 n) (verif:probe 's2 (+ n 1)) (verif:probe 's3 (* n 2))"},
}

// c04Holders: how the function is created and reached.
//   - defs: the definitions (phase 1), BODY / NAME substituted
//   - prep: an earlier request (phase 2) that creates the closure to be called; when
//     hostValue is set its value is handed to the host, which stores it in the
//     global `work` (a function returned by an earlier evaluation)
//   - call: the single form of the request under test; ARG substituted
//   - fun: the global whose value FunCallContext can call directly ("" = not callable that way)
type c04Holder struct {
	name      string
	defs      string
	prep      string
	hostValue bool
	call      string
	fun       string
	named     bool // the function can call itself as NAME
	literal   bool // macro: the argument must be a literal
}

var c04Holders = []c04Holder{
	{name: "defun", named: true, defs: "(defun work (n) BODY)", call: "(work ARG)", fun: "work"},
	{name: "global-lambda", defs: "(set 'work (lambda (n) BODY))", call: "(funcall work ARG)", fun: "work"},
	{name: "labels", named: true, defs: "(defun entry (a) (labels ((work (n) BODY)) (verif:probe 'entry a) (work a)))", call: "(entry ARG)", fun: "entry"},
	{name: "closure-of-earlier-evaluation", defs: "(defun mk (k) (lambda (n) (verif:probe 'k k) BODY))", prep: "(set 'work (mk 3))", call: "(funcall work ARG)", fun: "work"},
	{name: "closure-returned-to-host", defs: "(defun mk (k) (lambda (n) (verif:probe 'k k) BODY))", prep: "(mk 5)", hostValue: true, call: "(funcall work ARG)", fun: "work"},
	{name: "closure-in-map", defs: "(set 'tbl (sorted-map))", prep: "(let ((k 2)) (assoc! tbl \"f\" (lambda (n) (verif:probe 'k k) BODY)))", call: "(funcall (get tbl \"f\") ARG)"},
	{name: "callback-of-map", named: true, defs: "(defun work (n) BODY)", call: "(map 'list work (list ARG 1))"},
	{name: "callback-of-foldl", defs: "(set 'work (lambda (n) BODY))", call: "(foldl (lambda (acc x) (funcall work x) (+ acc 1)) 0 (list 1 ARG))"},
	{name: "apply", named: true, defs: "(defun work (n) BODY)", call: "(apply work (list ARG))"},
	{name: "called-by-wrapper", named: true, defs: "(defun work (n) BODY)\n(defun outer (n) (verif:probe 'outer n) (let ((r (work n))) (verif:probe 'outer-after n)))", call: "(outer ARG)", fun: "outer"},
	{name: "macro-body", literal: true, defs: "(defmacro work (n) BODY (quasiquote (verif:probe 'expanded (unquote n))))", call: "(work ARG)"},
}

// c04DefEntries / c04CallEntries: host entry points of a phase.  With a nil
// context the plain (deprecated) variant of each is used.
var c04DefEntries = []string{"LoadString", "Load", "LoadProgram", "Eval", "LoadFile", "lisp-load-string", "lisp-load-bytes", "lisp-load-file"}
var c04CallEntries = []string{"LoadStringContext", "LoadContext", "LoadProgramContext", "EvalContext", "FunCallContext", "LoadFileContext", "lisp-load-string", "lisp-load-file"}

type c04Cross struct {
	body   c04Body
	holder c04Holder
	arg    int
	defs   string // phase 1 source
	prep   string // phase 2 source ("" = none)
	call   string // phase 3: one form
}

func c04CrossProgram(r *fw.RNG, pick int) c04Cross {
	var b c04Body
	var h c04Holder
	for try := 0; ; try++ {
		b = c04Bodies[(pick+try)%len(c04Bodies)]
		h = fw.Pick(r, c04Holders)
		if !b.self || h.named {
			break
		}
	}
	p := c04Cross{body: b, holder: h, arg: r.Range(1, 4)}
	forms := strings.ReplaceAll(b.forms, "SELF", "work")
	p.defs = b.defs + strings.ReplaceAll(h.defs, "BODY", forms) + "\n"
	p.prep = strings.ReplaceAll(h.prep, "BODY", forms)
	call := strings.ReplaceAll(h.call, "ARG", fmt.Sprint(p.arg))
	switch r.Intn(3) {
	case 0:
		p.call = "(verif:probe 'result " + call + ")"
	case 1:
		p.call = "(progn (verif:probe 'request 0) (verif:probe 'result " + call + ") (verif:probe 'request-end 1))"
	default:
		p.call = "(let ((res " + call + ")) (verif:probe 'result res) res)"
	}
	return p
}

// c04Phase runs one phase through the given entry point.  ctx == nil selects the
// plain variants.  file names the library entry holding src.
func c04Phase(m *rt.R, entry string, ctx context.Context, src, file string, fun *lisp.LVal, args []*lisp.LVal) *lisp.LVal {
	env := m.Env
	name := strings.TrimSuffix(file, ".lisp")
	loadString := func(s string) *lisp.LVal {
		if ctx != nil {
			return env.LoadStringContext(ctx, name, s)
		}
		return env.LoadString(name, s)
	}
	switch entry {
	case "LoadString", "LoadStringContext":
		return loadString(src)
	case "Load", "LoadContext":
		if ctx != nil {
			return env.LoadContext(ctx, name, strings.NewReader(src))
		}
		return env.Load(name, strings.NewReader(src))
	case "LoadProgram", "LoadProgramContext":
		p, err := env.ParseProgram(name, file, strings.NewReader(src))
		if err != nil {
			return env.Error(err)
		}
		if ctx != nil {
			return env.LoadProgramContext(ctx, p)
		}
		return env.LoadProgram(p)
	case "Eval", "EvalContext":
		exprs, err := env.Runtime.Reader.Read(name, strings.NewReader(src))
		if err != nil {
			return env.Error(err)
		}
		v := lisp.Nil()
		for _, x := range exprs {
			if ctx != nil {
				v = env.EvalContext(ctx, x)
			} else {
				v = env.Eval(x)
			}
			if v.Type == lisp.LError {
				return v
			}
		}
		return v
	case "FunCall", "FunCallContext":
		if ctx != nil {
			return env.FunCallContext(ctx, fun, lisp.SExpr(args))
		}
		return env.FunCall(fun, lisp.SExpr(args))
	case "LoadFile", "LoadFileContext":
		if ctx != nil {
			return env.LoadFileContext(ctx, file)
		}
		return env.LoadFile(file)
	case "lisp-load-string":
		return loadString(fmt.Sprintf("(load-string %q)", src))
	case "lisp-load-bytes":
		return loadString(fmt.Sprintf("(load-bytes (to-bytes %q))", src))
	case "lisp-load-file":
		return loadString(fmt.Sprintf("(load-file %q)", file))
	}
	return env.Errorf("unknown entry %s", entry)
}

type c04CrossCfg struct {
	defKind, defEntry   string
	prepKind, prepEntry string
	callKind, callEntry string
}

func (c c04CrossCfg) String() string {
	s := fmt.Sprintf("definitions through %s under context %q", c.defEntry, c.defKind)
	if c.prepEntry != "" {
		s += fmt.Sprintf(", closure created by an earlier request through %s under context %q", c.prepEntry, c.prepKind)
	}
	return s + fmt.Sprintf(", request through %s under a %q context", c.callEntry, c.callKind)
}

// c04CrossExec runs the phases in a fresh runtime; the request is cancelled at
// step k (0: never).  setup != "" reports a failure of an earlier phase.
func c04CrossExec(p c04Cross, c c04CrossCfg, k int64) (res c04Run1, setup string) {
	o := rt.Opts{Library: &lisp.FSLibrary{FS: fstest.MapFS{
		"defs.lisp": {Data: []byte(p.defs)},
		"prep.lisp": {Data: []byte(p.prep)},
		"call.lisp": {Data: []byte(p.call + "\n")},
	}}}
	var ends []func()
	defer func() {
		for _, f := range ends {
			f()
		}
	}()
	if c.defKind == "root-WithContext" || c.prepKind == "root-WithContext" {
		root, cancel := context.WithCancel(context.Background())
		ends = append(ends, cancel)
		o.Ctx = root
	}
	m := rt.New(o)
	dctx, after, end := c04DefCtx(c.defKind)
	ends = append(ends, end)
	v := c04Phase(m, c.defEntry, dctx, p.defs, "defs.lisp", nil, nil)
	after()
	if v.Type == lisp.LError {
		return res, "definitions failed: " + v.String()
	}
	if p.prep != "" {
		pctx, after, end := c04DefCtx(c.prepKind)
		ends = append(ends, end)
		v := c04Phase(m, c.prepEntry, pctx, p.prep, "prep.lisp", nil, nil)
		after()
		if v.Type == lisp.LError {
			return res, "earlier request failed: " + v.String()
		}
		if p.holder.hostValue {
			if v.Type != lisp.LFun {
				return res, "earlier request did not return a function: " + v.String()
			}
			if e := m.Env.PutGlobal(lisp.Symbol("work"), v); e.Type == lisp.LError {
				return res, "PutGlobal failed: " + e.String()
			}
		}
	}
	var fun *lisp.LVal
	var args []*lisp.LVal
	if c.callEntry == "FunCallContext" {
		// the host calls the function value itself when the holder exposes one,
		// else a thunk around the request form made under no context at all
		fun = m.Env.LoadString("thunk", "(lambda () "+p.call+")")
		if p.holder.fun != "" {
			fun = m.Env.Get(lisp.Symbol(p.holder.fun))
			args = []*lisp.LVal{lisp.Int(p.arg)}
		}
		if fun.Type != lisp.LFun {
			return res, "no function value for FunCallContext: " + fun.String()
		}
	}
	cctx, arm, cend := c04CallCtx(c.callKind, k)
	ends = append(ends, cend)
	mon := &c04Mon{}
	arm(mon)
	tf, ef := m.Marks()
	c04Cur = mon
	v = c04Phase(m, c.callEntry, cctx, p.call, "call.lisp", fun, args)
	c04Cur = nil
	return c04Run1{t: m.TranscriptOf(v, tf, ef), mon: *mon}, ""
}

// c04CrossKs: cancellation indices for a request of N steps: the first steps, the
// last ones and a spread in between (all of them when the request is short).
func c04CrossKs(r *fw.RNG, N int64, max int) []int64 {
	if N <= int64(max) {
		out := make([]int64, 0, N)
		for k := int64(1); k <= N; k++ {
			out = append(out, k)
		}
		return out
	}
	seen := map[int64]bool{}
	var out []int64
	add := func(k int64) {
		if k >= 1 && k <= N && !seen[k] {
			seen[k] = true
			out = append(out, k)
		}
	}
	add(1)
	add(N)
	for i := 1; len(out) < max && i < 4*max; i++ {
		// stratified: one index in each of max-2 equal slices, then random ones
		if i <= max-2 {
			lo := N * int64(i-1) / int64(max-2)
			hi := N * int64(i) / int64(max-2)
			if hi <= lo {
				hi = lo + 1
			}
			add(lo + 1 + int64(r.Intn(int(hi-lo))))
		} else {
			add(1 + int64(r.Intn(int(N))))
		}
	}
	return out
}

// c04CrossCtx: one program, every kind of definition context, several cancellation indices.
func c04CrossCtx(w *fw.W, idx int) {
	r := w.RNG(idx, "cross")
	p := c04CrossProgram(r, idx/7)
	class := p.holder.name + ":" + p.body.name
	src := func() string {
		s := ";; definitions\n" + p.defs
		if p.prep != "" {
			s += ";; earlier request\n" + p.prep + "\n"
		}
		return s + ";; request under test\n" + p.call + "\n"
	}
	w.Logf("cross-context program %s\n%s", class, src())
	var base *c04Run1 // reference of the control (everything before the request under no context)
	// one entry point for the request in all runs of the case: the host calling the
	// function value directly does not run the forms around the call
	callEntry := fw.Pick(r, c04CallEntries)
	if p.holder.literal && callEntry == "FunCallContext" {
		callEntry = "EvalContext"
	}
	for _, kind := range c04DefKinds {
		c := c04CrossCfg{defKind: kind, defEntry: fw.Pick(r, c04DefEntries), callKind: fw.Pick(r, c04CallKinds), callEntry: callEntry}
		if p.prep != "" {
			// the context kind under examination is the one the closure is created
			// under; the definitions before it run under any kind (a root context
			// belongs to the runtime, hence to all phases)
			c.prepKind, c.prepEntry = kind, fw.Pick(r, c04DefEntries)
			if kind != "none" && kind != "root-WithContext" {
				c.defKind = fw.Pick(r, c04DefKinds[:5])
			}
			if p.holder.hostValue {
				c.prepEntry = fw.Pick(r, []string{"LoadString", "Load", "LoadProgram", "Eval", "LoadFile"})
			}
		}
		ref, setup := c04CrossExec(p, c, 0)
		w.Eval(1)
		if setup != "" {
			if kind == "none" {
				w.Logf("cross-context program %s not usable: %s", class, setup)
				w.Count("cross_program_skipped", 1)
				return
			}
			w.Violation("definition-phase-fails-under-context:"+kind, fmt.Sprintf("%s; the same phases succeed under no context (%s)", setup, c), src())
			return
		}
		N := ref.t.Steps
		detailRef := func() string {
			return fmt.Sprintf("%s\n%s\nrequest not cancelled: %s %s (%d steps)\n  trace %s", src(), c, ref.t.Outcome(), ref.t.Msg, N, c04Stamped(ref.t.Trace))
		}
		if ref.mon.badStep != "" {
			w.Violation("step-counter-not-monotone", ref.mon.badStep+" ("+c.String()+")", detailRef())
			return
		}
		if ref.t.IsErr && ref.t.Cond == "context-cancelled" {
			// the request's context is alive; the only cancelled context around is the
			// one of a phase that ended before the request began
			w.Violation("request-cancelled-by-definition-context:"+kind, fmt.Sprintf("program %s: a request whose own context is never cancelled ended in context-cancelled (%s)", class, c), detailRef())
			return
		}
		if kind == "none" {
			if ref.t.IsErr || N == 0 || N > 4000 {
				w.Logf("cross-context program %s not usable: %s %s N=%d", class, ref.t.Outcome(), ref.t.Msg, N)
				w.Count("cross_program_skipped", 1)
				return
			}
			cp := ref
			base = &cp
		} else if base != nil && (ref.t.Outcome() != base.t.Outcome() || ref.t.TraceString() != base.t.TraceString()) {
			// same program, same request, nothing cancelled during the request: what
			// the request does is what it does when all was defined under no context
			// (entry points differ, so step stamps are not compared)
			w.Violation("request-differs-by-definition-context:"+kind, fmt.Sprintf("program %s: an uncancelled request gives %s, but %s when everything before it ran under no context (%s)", class, ref.t.Outcome(), base.t.Outcome(), c),
				detailRef()+"\nunder no context: trace "+base.t.TraceString())
			return
		}
		for _, k := range c04CrossKs(r, N, 7) {
			can, setup := c04CrossExec(p, c, k)
			w.Eval(1)
			where := fmt.Sprintf("program %s (request of %d steps) cancelled at step %d; %s", class, N, k, c)
			detail := func() string {
				return fmt.Sprintf("%s\ncancelled at step %d: %s %s after %d steps\n  trace %s", detailRef(), k, can.t.Outcome(), can.t.Msg, can.t.Steps, c04Stamped(can.t.Trace))
			}
			if setup != "" {
				w.Violation("definition-phase-not-repeatable:"+kind, setup+" ("+where+")", detail())
				return
			}
			want := c04TraceUpTo(ref.t.Trace, k-1)
			got := c04Stamped(can.t.Trace)
			if p.body.swallows {
				got = c04TraceUpTo(can.t.Trace, k-1)
			}
			key := kind + ":" + p.body.name
			if got != want {
				w.Violation("cross-context-cancel-trace-not-a-prefix:"+key, where+": evaluation did not stop at the next step", detail())
				return
			}
			if can.t.IsErr {
				if can.t.Cond != "context-cancelled" {
					w.Violation("cross-context-cancel-wrong-condition:"+key, where+": ended with "+can.t.Cond, detail())
					return
				}
			} else if !p.body.swallows {
				w.Violation("cross-context-cancel-no-error:"+key, where+": returned a value", detail())
				return
			}
			if !p.body.swallows && can.t.Steps != k {
				// nothing intercepts the error, so the failed check is the last step taken
				w.Violation("cross-context-cancel-overrun:"+key, fmt.Sprintf("%s: evaluation went on to step %d", where, can.t.Steps), detail())
				return
			}
			w.Count("cross_context_cancel_runs", 1)
			w.CoverKey(fmt.Sprintf("cross|%s|%s|%s|%s|k=%d/8", kind, p.body.name, c.callKind, c.callEntry, k*8/(N+1)))
		}
		w.CoverKey(fmt.Sprintf("cross-prog|%s|%s|%s|%s", kind, class, c.defEntry, c.prepEntry))
	}
	if w.WantSample() {
		w.Sample(map[string]any{"program": "cross-context " + class, "source": src(), "definition_context_kinds": len(c04DefKinds)})
	}
}
