package props

// C16 workload: documents are token lists with explicit gap texts, so that
// comments, blank lines and odd whitespace can be put into EVERY gap, and so
// that the same mutation operators work on generated programs and on the
// repository's own .lisp files.

import (
	"fmt"
	"strings"

	"verifharness/fw"

	"github.com/luthersystems/elps/formatter"
	"github.com/luthersystems/elps/parser/token"
)

type c16DTok struct {
	Text  string
	Type  token.Type
	Glue  bool // nothing at all may follow before the next token (#' #x #o, sign)
	Depth int  // bracket depth (for plausible indentation)
}

// c16Doc: Gaps[i] precedes Toks[i]; Gaps[len(Toks)] trails the last token.
type c16Doc struct {
	Toks []c16DTok
	Gaps []string
}

func (d *c16Doc) Render() []byte {
	var b strings.Builder
	for i, t := range d.Toks {
		b.WriteString(d.Gaps[i])
		b.WriteString(t.Text)
	}
	b.WriteString(d.Gaps[len(d.Toks)])
	return []byte(b.String())
}

func (d *c16Doc) Clone() *c16Doc {
	return &c16Doc{Toks: append([]c16DTok{}, d.Toks...), Gaps: append([]string{}, d.Gaps...)}
}

// ---------------------------------------------------------------------------
// literal pools: every spelling class the lexer knows

var c16Ints = []string{"0", "1", "42", "007", "00", "-1", "-0", "-007", "9223372036854775807", "-9223372036854775808",
	"#xFF", "#xff", "#XfF", "#x0", "#x00ff", "#o17", "#O7", "#o007", "#x7fffffffffffffff", "123456789"}
var c16Floats = []string{"2.0", "2e0", "2E0", "2.50", "0.5", "00.5", "1e10", "1e+5", "1E-5", "1.5e-2", "-2.0", "-1e5", "-0.0", "1.0e0",
	"3.14159", "100.0", "1e5", "0e0", "2.000", "6.02E23", "1.0E+2"}
var c16Strings = []string{`""`, `"a"`, `"hello world"`, `"a\nb"`, `"a\\"`, `"\\"`, `"\""`, `"\t\x41é"`, `"a;b"`, `"(a"`, `")"`,
	`"é☃"`, `"☃"`, `"  lead and trail  "`, `"'q"`, `"#^x"`, `"a\\\\"`, `"\a\b\f\r\v"`, `"\101"`, `"\U0001F600"`, `"tab	inside"`}
var c16RawStrings = []string{`""""""`, `"""raw"""`, `"""a "quoted" b"""`, "\"\"\"line1\nline2\"\"\"", "\"\"\"\n  indented\n    more\n\"\"\"",
	`"""; not a comment"""`, `"""(unbalanced"""`, `"""\n stays \t raw"""`, "\"\"\"trailing spaces   \nnext\"\"\"", `""" ' #^ #' """`,
	"\"\"\"a\n\n\nb\"\"\"", "\"\"\"x\n;; c\n\"\"\""}
var c16Symbols = []string{"a", "b", "x", "foo", "foo-bar", "x1", "lisp:set", ":key", ":k2", "&rest", "&optional", "&key", "+", "-", "--", "-a",
	"*", "<=", "%", "%1", "a.b", "é", "naïve", "+1", "1+", "->", "t", "nil", "true", "false", "_", "$x", "a?", "set!", "-x:y", "pkg:name", "/", "=", ".5x", "lambda"}
var c16Heads = []string{"defun", "defmacro", "let", "let*", "if", "lambda", "cond", "progn", "thread-first", "thread-last", "and", "or", "set",
	"f", "g", "foo:bar", "def-x", "quasiquote", "unquote", "unquote-splicing", "test", "do", "handler-bind", "list", "vector", "sorted-map",
	"quote", "function", "expr", "dotimes", "when", "unless", "flet", "labels", "assert-equal", "s:deftype", "ignore-errors", "test-let", "deftype", "my:def-thing", "lisp:progn"}
var c16Rejectables = []string{"99999999999999999999", "1e999", `"\q"`, "a:b:c", "a:", "#'1", "#^ x", "#x", "#oz", "#z", `"open`, ")", "]", "(", "[",
	"#o8", "#xG", "1.", "#!late", "#'", "#^", "pkg:1", "#'-1", `"""open`, "-9223372036854775809", "#x8000000000000000"}
var c16HashBangs = []string{"#!/usr/bin/env elps", "#!", "#! ", "#!x ; y", "#!é", "#!/bin/sh -e  ", "#!(a)"}
var c16CommentBodies = []string{"", " c", "c", " note", " trailing spaces   ", "\t tab", " (unbalanced", " \"quote", " #!/bin/sh", " é unicode ☃",
	" ;; nested ;", " ^^^ carets", " <- marker", " TODO: x", " 'q #^u #'f", " [", " )", "   lead",
	// a lone carriage return does not end a comment (only a line feed does)
	" cr\rin the middle", " cr\r)", " cr at end\r", " \r", " a\rb\rc"}

type c16Style struct {
	pComment, pNewline, pBlank, pGlue, pWeird int
	indentMode                                int // 0 random, 1 column zero, 2 depth*2, 3 depth*4
}

type c16gen struct {
	r      *fw.RNG
	st     c16Style
	toks   []c16DTok
	depth  int
	nc     int // comment serial
	budget int
}

func (g *c16gen) emit(text string, tt token.Type, glue bool) {
	g.toks = append(g.toks, c16DTok{Text: text, Type: tt, Glue: glue, Depth: g.depth})
}

func (g *c16gen) atom() {
	r := g.r
	switch x := r.Intn(100); {
	case x < 38:
		g.emit(fw.Pick(r, c16Symbols), token.SYMBOL, false)
	case x < 44:
		g.emit(fw.Pick(r, c16Heads), token.SYMBOL, false)
	case x < 60:
		g.emit(fw.Pick(r, c16Ints), token.INT, false)
	case x < 76:
		g.emit(fw.Pick(r, c16Floats), token.FLOAT, false)
	case x < 90:
		g.emit(fw.Pick(r, c16Strings), token.STRING, false)
	default:
		g.emit(fw.Pick(r, c16RawStrings), token.STRING_RAW, false)
	}
}

func (g *c16gen) list(open string, headSym bool) {
	r := g.r
	tt, ct, cl := token.PAREN_L, token.PAREN_R, ")"
	if open == "[" {
		tt, ct, cl = token.BRACE_L, token.BRACE_R, "]"
	}
	g.emit(open, tt, false)
	g.depth++
	n := 0
	switch x := r.Intn(100); {
	case x < 12:
		n = 0
	case x < 70:
		n = r.Range(1, 3)
	default:
		n = r.Range(3, 6)
	}
	for i := 0; i < n; i++ {
		if i == 0 && headSym {
			g.emit(fw.Pick(r, c16Heads), token.SYMBOL, false)
			continue
		}
		g.expr()
	}
	g.depth--
	g.emit(cl, ct, false)
}

func (g *c16gen) expr() {
	r := g.r
	g.budget--
	if g.depth >= 5 || g.budget <= 0 {
		g.atom()
		return
	}
	switch x := r.Intn(100); {
	case x < 34:
		g.atom()
	case x < 58:
		g.list("(", r.Chance(3, 4))
	case x < 68:
		g.list("[", r.Chance(1, 3))
	case x < 78: // quote prefix (possibly stacked)
		for k := r.Range(1, 2); k > 0; k-- {
			g.emit("'", token.QUOTE, false)
		}
		g.expr()
	case x < 84: // #^
		g.emit("#^", token.UNBOUND, false)
		switch r.Intn(4) {
		case 0:
			g.atom()
		case 1: // flat list: accepted
			g.emit("(", token.PAREN_L, false)
			g.depth++
			for k := r.Range(0, 4); k > 0; k-- {
				g.atom()
			}
			g.depth--
			g.emit(")", token.PAREN_R, false)
		case 2: // list holding quoted / bracket lists: accepted
			g.emit("(", token.PAREN_L, false)
			g.depth++
			g.emit(fw.Pick(r, c16Heads), token.SYMBOL, false)
			g.emit("'", token.QUOTE, false)
			g.list("(", false)
			g.list("[", false)
			g.depth--
			g.emit(")", token.PAREN_R, false)
		default:
			g.expr() // may be rejected (nested expression)
		}
	case x < 89: // #'
		g.emit("#'", token.FUN_REF, true)
		g.emit(fw.Pick(r, []string{"f", "car", "pkg:fn", "+", "-", "--", "string:join", "é", "-a", "a.b", "%"}), token.SYMBOL, false)
	case x < 96: // longhand of the prefix forms, in every variety the printer must tell apart
		open, cl := "(", ")"
		ot, ctt := token.PAREN_L, token.PAREN_R
		if r.Chance(1, 6) {
			open, cl, ot, ctt = "[", "]", token.BRACE_L, token.BRACE_R
		}
		g.emit(open, ot, false)
		g.depth++
		if r.Chance(1, 5) { // a QUOTED head is a different program from the prefix form
			g.emit("'", token.QUOTE, false)
		}
		g.emit(fw.Pick(r, []string{"lisp:function", "lisp:expr", "lisp:function", "lisp:expr", "function", "expr", "quote", "lisp:quote"}), token.SYMBOL, false)
		switch r.Intn(6) {
		case 0, 1:
			g.emit(fw.Pick(r, []string{"f", "pkg:fn", "+", "%", "-", "x"}), token.SYMBOL, false)
		case 2:
			g.expr()
		case 3: // (lisp:expr (+ 1 (f x)))  – cannot be re-sugared
			g.list("(", true)
		case 4: // wrong arity
			g.atom()
			g.atom()
		default:
			g.emit("'", token.QUOTE, false)
			g.atom()
		}
		g.depth--
		g.emit(cl, ctt, false)
	case x < 97 && r.Chance(1, 3): // spellings the reader rejects (the whole text must then be rejected without output)
		g.emit(fw.Pick(r, c16Rejectables), token.SYMBOL, false)
	default: // negative-sign oddities and glued pairs
		g.emit(fw.Pick(r, []string{"-", "--", "-1", "-1.5", "-x", "-#xFF", "- 1", "-'a", "-\"s\"", "1a", "a'b", "1.5.2", "a\"s\"", "(a)(b)", "'()", "'[]", "[]", "()"}), token.SYMBOL, false)
	}
}

func (g *c16gen) commentText() string {
	r := g.r
	semis := strings.Repeat(";", fw.Pick(r, []int{1, 1, 2, 2, 2, 3, 4}))
	if r.Chance(7, 10) {
		g.nc++
		return fmt.Sprintf("%s c%d%s", semis, g.nc, fw.Pick(r, []string{"", "", "", "  ", " x", "\t"}))
	}
	return semis + fw.Pick(r, c16CommentBodies)
}

func c16EndsWord(s string) bool {
	if s == "" {
		return false
	}
	c := s[len(s)-1]
	return !(c == '(' || c == '[' || c == '\'' || c == ')' || c == ']' || c == '"' || c == '^')
}

func c16StartsWord(s string) bool {
	if s == "" {
		return false
	}
	c := s[0]
	return !(c == ')' || c == ']' || c == '(' || c == '[' || c == '"' || c == '\'' || c == ';')
}

func (g *c16gen) indent(depth int) string {
	switch g.st.indentMode {
	case 1:
		return ""
	case 2:
		return strings.Repeat(" ", depth*2)
	case 3:
		return strings.Repeat(" ", depth*4)
	}
	return strings.Repeat(" ", g.r.Intn(9))
}

func (g *c16gen) ws() string {
	r := g.r
	if r.Chance(g.st.pWeird, 100) {
		return fw.Pick(r, []string{"\t", "\t\t", " \t", "\r\n", "\r", "\f", "\v", " ", " ", " ", " \r\n ", "\n\r\n"})
	}
	return fw.Pick(r, []string{" ", " ", " ", " ", "  ", "   ", "    "})
}

// gap renders the text between prev and next (either may be nil).
func (g *c16gen) gap(prev, next *c16DTok) string {
	r := g.r
	if prev != nil && prev.Glue {
		return ""
	}
	depth := 0
	if next != nil {
		depth = next.Depth
	} else if prev != nil {
		depth = prev.Depth
	}
	noSpace := prev != nil && prev.Type == token.UNBOUND // no whitespace directly after #^
	afterHB := prev != nil && prev.Type == token.HASH_BANG
	var b strings.Builder
	ncomm := 0
	if r.Chance(g.st.pComment, 100) {
		ncomm = fw.Pick(r, []int{1, 1, 1, 2, 2, 3})
	}
	if ncomm == 0 {
		switch {
		case afterHB:
			if next == nil && r.Chance(1, 3) {
				return ""
			}
			return "\n" + strings.Repeat("\n", fw.Pick(r, []int{0, 0, 1, 2})) + g.indent(depth)
		case noSpace:
			return ""
		case prev == nil: // start of file
			return fw.Pick(r, []string{"", "", "", "\n", " ", "\n\n", "  \n\t"})
		case next == nil: // end of file
			return fw.Pick(r, []string{"", "\n", "\n", "\n", "\n\n", "\n\n\n", " ", "  \n", "\n  "})
		}
		canGlue := !c16EndsWord(prev.Text) || !c16StartsWord(next.Text)
		if canGlue && r.Chance(g.st.pGlue, 100) {
			return ""
		}
		if r.Chance(g.st.pNewline, 100) {
			nl := "\n"
			if r.Chance(g.st.pBlank, 100) {
				nl = fw.Pick(r, []string{"\n\n", "\n\n", "\n\n\n", "\n\n\n\n", "\n \n", "\n\t\n"})
			}
			if r.Chance(g.st.pWeird, 100) {
				nl = strings.ReplaceAll(nl, "\n", "\r\n")
			}
			return nl + g.indent(depth)
		}
		return g.ws()
	}
	for i := 0; i < ncomm; i++ {
		switch {
		case i == 0 && (noSpace || (prev == nil && r.Chance(1, 2))):
			// directly glued to the previous token / at byte 0
		case i == 0 && afterHB:
			b.WriteString("\n" + strings.Repeat("\n", fw.Pick(r, []int{0, 0, 1, 2})) + g.indent(depth))
		case i == 0 && prev != nil && r.Chance(1, 2): // same-line comment
			b.WriteString(fw.Pick(r, []string{" ", " ", "  ", "", "\t", "      "}))
		case i == 0:
			b.WriteString(fw.Pick(r, []string{"\n", "\n", "\n\n", "\n\n\n"}))
			b.WriteString(fw.Pick(r, []string{"", g.indent(depth), g.indent(depth)}))
		default:
			b.WriteString(fw.Pick(r, []string{"", "", "", "\n", "\n\n"}))
			b.WriteString(fw.Pick(r, []string{"", g.indent(depth), g.indent(depth)}))
		}
		b.WriteString(g.commentText())
		if next == nil && i == ncomm-1 && r.Chance(1, 3) {
			return b.String() // comment ends the file without a newline
		}
		if r.Chance(g.st.pWeird, 200) {
			b.WriteString("\r")
		}
		b.WriteString("\n")
	}
	b.WriteString(fw.Pick(r, []string{"", "", "", "\n", "\n\n"}))
	if next != nil {
		b.WriteString(fw.Pick(r, []string{"", g.indent(depth), g.indent(depth)}))
	}
	return b.String()
}

func c16PickStyle(r *fw.RNG) c16Style {
	st := c16Style{indentMode: r.Intn(4)}
	switch r.Intn(6) {
	case 0: // one-liner, no comments
		st.pComment, st.pNewline, st.pBlank, st.pGlue = 0, 5, 0, 30
	case 1: // sparse comments, pretty
		st.pComment, st.pNewline, st.pBlank, st.pGlue = 6, 35, 15, 10
	case 2: // many comments
		st.pComment, st.pNewline, st.pBlank, st.pGlue = 30, 40, 30, 20
	case 3: // comments in EVERY gap
		st.pComment, st.pNewline, st.pBlank, st.pGlue = 100, 50, 30, 0
	case 4: // blank-line heavy
		st.pComment, st.pNewline, st.pBlank, st.pGlue = 10, 70, 70, 5
	default: // glue heavy
		st.pComment, st.pNewline, st.pBlank, st.pGlue = 12, 20, 20, 90
	}
	if r.Chance(1, 6) {
		st.pWeird = 25
	} else if r.Chance(1, 4) {
		st.pWeird = 3
	}
	return st
}

// c16Generate builds one random document.
func c16Generate(r *fw.RNG) *c16Doc {
	g := &c16gen{r: r, st: c16PickStyle(r), budget: r.Range(4, 60)}
	if r.Chance(1, 7) {
		g.emit(fw.Pick(r, c16HashBangs), token.HASH_BANG, false)
	}
	ntop := 0
	switch x := r.Intn(100); {
	case x < 6:
		ntop = 0 // comment-only / empty file
	case x < 50:
		ntop = 1
	default:
		ntop = r.Range(2, 6)
	}
	for i := 0; i < ntop; i++ {
		if r.Chance(3, 4) {
			// bias the top level towards lists: that is where layout decisions happen
			g.depth = 0
			switch r.Intn(5) {
			case 0:
				g.expr()
			case 1:
				g.list("[", r.Bool())
			default:
				g.list("(", r.Chance(4, 5))
			}
		} else {
			g.expr()
		}
	}
	d := &c16Doc{Toks: g.toks}
	for i := 0; i <= len(g.toks); i++ {
		var prev, next *c16DTok
		if i > 0 {
			prev = &g.toks[i-1]
		}
		if i < len(g.toks) {
			next = &g.toks[i]
		}
		d.Gaps = append(d.Gaps, g.gap(prev, next))
	}
	if len(g.toks) == 0 && d.Gaps[0] == "" && r.Chance(2, 3) {
		// comment-only file
		g.st.pComment = 100
		d.Gaps[0] = g.gap(nil, nil)
	}
	return d
}

// ---------------------------------------------------------------------------
// turning existing text (repo files) into a document

// c16DocFromText lexes text with the public lexer; comments become part of the gaps.
func c16DocFromText(src []byte) (*c16Doc, bool) {
	lr := c16Lex(src)
	if lr.Err != "" {
		return nil, false
	}
	d := &c16Doc{}
	end := 0
	depth := 0
	gapStart := 0
	for _, t := range lr.Toks {
		if t.Type == token.COMMENT {
			if len(d.Toks) > 0 && d.Toks[len(d.Toks)-1].Type == token.HASH_BANG && end == gapStart {
				// rest of the hash-bang line belongs to the hash-bang token
				d.Toks[len(d.Toks)-1].Text += t.Text
				gapStart = t.End
			}
			end = t.End
			continue
		}
		if t.Type == token.PAREN_R || t.Type == token.BRACE_R {
			depth--
		}
		d.Gaps = append(d.Gaps, string(src[gapStart:t.Pos]))
		glue := t.Type == token.FUN_REF || t.Type == token.INT_HEX_MACRO || t.Type == token.INT_OCTAL_MACRO || t.Type == token.NEGATIVE
		d.Toks = append(d.Toks, c16DTok{Text: t.Text, Type: t.Type, Glue: glue, Depth: depth})
		if t.Type == token.PAREN_L || t.Type == token.BRACE_L {
			depth++
		}
		gapStart = t.End
		end = t.End
	}
	d.Gaps = append(d.Gaps, string(src[gapStart:]))
	return d, true
}

// ---------------------------------------------------------------------------
// token-level mutations

var c16MutNames = []string{"insert-comment", "same-line-comment", "reset-gap", "blank-lines", "swap-brackets", "respell-literal",
	"insert-prefix", "newline-before-close", "delete-token", "desugar-funref", "insert-raw-string", "glue", "comment-before-close", "comment-after-open", "insert-hashbang", "duplicate-expr-token"}

func c16FreeGap(d *c16Doc, i int) bool { // may text be inserted into gap i?
	return i == 0 || !d.Toks[i-1].Glue
}

func c16HasComment(gap string) bool { return strings.Contains(gap, ";") }

// c16Mutate applies one named mutation in place; reports whether it did anything.
func c16Mutate(r *fw.RNG, d *c16Doc, g *c16gen, name string) bool {
	n := len(d.Toks)
	pickGap := func(pred func(i int) bool) int {
		for try := 0; try < 12; try++ {
			i := r.Intn(n + 1)
			if c16FreeGap(d, i) && (pred == nil || pred(i)) {
				return i
			}
		}
		return -1
	}
	noWSAfter := func(i int) bool { return i > 0 && d.Toks[i-1].Type == token.UNBOUND }
	ownLine := func(i int, text string) {
		gap := d.Gaps[i]
		ind := strings.Repeat(" ", r.Intn(7))
		if r.Chance(1, 3) {
			ind = ""
		}
		if c16HasComment(gap) || i == 0 {
			// keep what is there, add ours on a fresh line at the end
			if gap != "" && !strings.HasSuffix(strings.TrimRight(gap, " \t"), "\n") {
				gap += "\n"
			}
			d.Gaps[i] = gap + ind + text + "\n" + ind
			return
		}
		if noWSAfter(i) {
			d.Gaps[i] = text + "\n" + gap
			return
		}
		d.Gaps[i] = fw.Pick(r, []string{"\n", "\n", "\n\n"}) + ind + text + "\n" + fw.Pick(r, []string{"", "", "\n"}) + ind
	}
	switch name {
	case "insert-comment":
		i := pickGap(nil)
		if i < 0 {
			return false
		}
		ownLine(i, g.commentText())
	case "same-line-comment":
		i := pickGap(func(i int) bool { return i > 0 && !c16HasComment(d.Gaps[i]) })
		if i < 0 {
			return false
		}
		sp := fw.Pick(r, []string{" ", "  ", "", "\t", "     "})
		if noWSAfter(i) {
			sp = ""
		}
		rest := d.Gaps[i]
		if i == n {
			rest = fw.Pick(r, []string{"", "\n", rest})
			d.Gaps[i] = sp + g.commentText() + rest
		} else {
			d.Gaps[i] = sp + g.commentText() + "\n" + strings.TrimLeft(rest, " \t")
		}
	case "reset-gap":
		i := pickGap(func(i int) bool {
			return i > 0 && i < n && !c16HasComment(d.Gaps[i]) && !noWSAfter(i) && d.Toks[i-1].Type != token.HASH_BANG
		})
		if i < 0 {
			return false
		}
		d.Gaps[i] = fw.Pick(r, []string{" ", "  ", "\n", "\n    ", "\t", "\n\n", "          "})
	case "blank-lines":
		i := pickGap(func(i int) bool { return i > 0 && !noWSAfter(i) })
		if i < 0 {
			return false
		}
		gap := d.Gaps[i]
		k := strings.Index(gap, "\n")
		extra := fw.Pick(r, []string{"\n", "\n\n", "\n\n\n", "\n  \n"})
		if k < 0 {
			if c16HasComment(gap) {
				return false
			}
			d.Gaps[i] = extra + "\n" + gap
		} else {
			// add blank lines at a random newline of the gap
			idxs := []int{}
			for p := 0; p < len(gap); p++ {
				if gap[p] == '\n' {
					idxs = append(idxs, p)
				}
			}
			p := fw.Pick(r, idxs)
			d.Gaps[i] = gap[:p+1] + extra + gap[p+1:]
		}
	case "swap-brackets":
		var opens []int
		for i, t := range d.Toks {
			if t.Type == token.PAREN_L || t.Type == token.BRACE_L {
				opens = append(opens, i)
			}
		}
		if len(opens) == 0 {
			return false
		}
		o := fw.Pick(r, opens)
		depth := 0
		for j := o; j < n; j++ {
			switch d.Toks[j].Type {
			case token.PAREN_L, token.BRACE_L:
				depth++
			case token.PAREN_R, token.BRACE_R:
				depth--
				if depth == 0 {
					if d.Toks[o].Type == token.PAREN_L {
						d.Toks[o].Text, d.Toks[o].Type = "[", token.BRACE_L
						d.Toks[j].Text, d.Toks[j].Type = "]", token.BRACE_R
					} else {
						d.Toks[o].Text, d.Toks[o].Type = "(", token.PAREN_L
						d.Toks[j].Text, d.Toks[j].Type = ")", token.PAREN_R
					}
					return true
				}
			}
		}
		return false
	case "respell-literal":
		var lits []int
		for i, t := range d.Toks {
			switch t.Type {
			case token.INT, token.FLOAT, token.STRING, token.STRING_RAW:
				if i == 0 || !d.Toks[i-1].Glue {
					lits = append(lits, i)
				}
			}
		}
		if len(lits) == 0 {
			return false
		}
		i := fw.Pick(r, lits)
		switch d.Toks[i].Type {
		case token.INT:
			d.Toks[i].Text = fw.Pick(r, c16Ints)
		case token.FLOAT:
			d.Toks[i].Text = fw.Pick(r, c16Floats)
		default:
			if r.Bool() {
				d.Toks[i].Text, d.Toks[i].Type = fw.Pick(r, c16Strings), token.STRING
			} else {
				d.Toks[i].Text, d.Toks[i].Type = fw.Pick(r, c16RawStrings), token.STRING_RAW
			}
		}
	case "insert-prefix":
		var starts []int
		for i, t := range d.Toks {
			if (i == 0 || !d.Toks[i-1].Glue) && t.Type != token.PAREN_R && t.Type != token.BRACE_R && t.Type != token.HASH_BANG {
				starts = append(starts, i)
			}
		}
		if len(starts) == 0 {
			return false
		}
		i := fw.Pick(r, starts)
		pt := c16DTok{Text: "'", Type: token.QUOTE, Depth: d.Toks[i].Depth}
		gapAfter := fw.Pick(r, []string{"", "", "", " ", "\n", "; c\n", " ; c\n  ", "\n; c\n"})
		switch x := r.Intn(10); {
		case x < 6:
		case x < 8:
			pt = c16DTok{Text: "#^", Type: token.UNBOUND, Depth: d.Toks[i].Depth}
			gapAfter = fw.Pick(r, []string{"", "", "", "; c\n", ";; c\n   "})
		default:
			if d.Toks[i].Type != token.SYMBOL {
				return false
			}
			pt = c16DTok{Text: "#'", Type: token.FUN_REF, Glue: true, Depth: d.Toks[i].Depth}
			gapAfter = ""
		}
		d.Toks = append(d.Toks[:i], append([]c16DTok{pt}, d.Toks[i:]...)...)
		d.Gaps = append(d.Gaps[:i+1], append([]string{gapAfter}, d.Gaps[i+1:]...)...)
	case "newline-before-close", "comment-before-close":
		var closes []int
		for i, t := range d.Toks {
			if t.Type == token.PAREN_R || t.Type == token.BRACE_R {
				closes = append(closes, i)
			}
		}
		if len(closes) == 0 {
			return false
		}
		i := fw.Pick(r, closes)
		if name == "comment-before-close" {
			if r.Bool() && !c16HasComment(d.Gaps[i]) && !noWSAfter(i) {
				d.Gaps[i] = " " + g.commentText() + "\n" + strings.Repeat(" ", r.Intn(6))
			} else {
				ownLine(i, g.commentText())
			}
			return true
		}
		if noWSAfter(i) {
			return false
		}
		if !strings.HasSuffix(strings.TrimRight(d.Gaps[i], " "), "\n") {
			d.Gaps[i] += fw.Pick(r, []string{"\n", "\n  ", "\n\n"})
		}
	case "comment-after-open":
		var opens []int
		for i, t := range d.Toks {
			if (t.Type == token.PAREN_L || t.Type == token.BRACE_L) && i+1 <= n {
				opens = append(opens, i+1)
			}
		}
		if len(opens) == 0 {
			return false
		}
		i := fw.Pick(r, opens)
		if c16HasComment(d.Gaps[i]) {
			return false
		}
		if r.Bool() {
			d.Gaps[i] = fw.Pick(r, []string{" ", "", "  "}) + g.commentText() + "\n" + strings.Repeat(" ", r.Intn(6))
		} else {
			ownLine(i, g.commentText())
		}
	case "delete-token":
		if n == 0 {
			return false
		}
		i := r.Intn(n)
		d.Gaps[i+1] = d.Gaps[i] + d.Gaps[i+1]
		d.Toks = append(d.Toks[:i], d.Toks[i+1:]...)
		d.Gaps = append(d.Gaps[:i], d.Gaps[i+1:]...)
	case "desugar-funref":
		for try := 0; try < 8; try++ {
			i := r.Intn(n + 1)
			if i+1 < n && (d.Toks[i].Type == token.FUN_REF || d.Toks[i].Type == token.UNBOUND) {
				head := "lisp:function"
				if d.Toks[i].Type == token.UNBOUND {
					head = "lisp:expr"
				}
				// find end of operand
				j := i + 1
				depth := 0
				for ; j < n; j++ {
					tt := d.Toks[j].Type
					if tt == token.QUOTE || tt == token.UNBOUND || tt == token.FUN_REF || d.Toks[j].Glue {
						continue
					}
					if tt == token.PAREN_L || tt == token.BRACE_L {
						depth++
					} else if tt == token.PAREN_R || tt == token.BRACE_R {
						depth--
					}
					if depth <= 0 {
						break
					}
				}
				if j >= n || depth != 0 {
					return false
				}
				dp := d.Toks[i].Depth
				nt := append([]c16DTok{}, d.Toks[:i]...)
				nt = append(nt, c16DTok{Text: "(", Type: token.PAREN_L, Depth: dp}, c16DTok{Text: head, Type: token.SYMBOL, Depth: dp + 1})
				nt = append(nt, d.Toks[i+1:j+1]...)
				nt = append(nt, c16DTok{Text: ")", Type: token.PAREN_R, Depth: dp})
				nt = append(nt, d.Toks[j+1:]...)
				ng := append([]string{}, d.Gaps[:i+1]...)
				sep := fw.Pick(r, []string{" ", " ", "\n", " ; c\n", "\n  ; c\n  "})
				ng = append(ng, "", sep)
				ng = append(ng, d.Gaps[i+2:j+1]...)
				ng = append(ng, fw.Pick(r, []string{"", "", "\n", " ; c\n", "\n; c\n"}))
				ng = append(ng, d.Gaps[j+1:]...)
				d.Toks, d.Gaps = nt, ng
				return true
			}
		}
		return false
	case "insert-raw-string":
		i := pickGap(func(i int) bool { return i > 0 && i < n && !noWSAfter(i) && d.Toks[i-1].Type != token.HASH_BANG })
		if i < 0 {
			return false
		}
		nt := c16DTok{Text: fw.Pick(r, c16RawStrings), Type: token.STRING_RAW, Depth: d.Toks[i].Depth}
		d.Toks = append(d.Toks[:i], append([]c16DTok{nt}, d.Toks[i:]...)...)
		d.Gaps = append(d.Gaps[:i+1], append([]string{fw.Pick(r, []string{" ", "\n", " ; c\n", "  "})}, d.Gaps[i+1:]...)...)
	case "glue":
		i := pickGap(func(i int) bool {
			return i > 0 && i < n && !c16HasComment(d.Gaps[i]) && d.Toks[i-1].Type != token.HASH_BANG &&
				(!c16EndsWord(d.Toks[i-1].Text) || !c16StartsWord(d.Toks[i].Text))
		})
		if i < 0 {
			return false
		}
		d.Gaps[i] = ""
	case "insert-hashbang":
		if n > 0 && d.Toks[0].Type == token.HASH_BANG {
			return false
		}
		hb := c16DTok{Text: fw.Pick(r, c16HashBangs), Type: token.HASH_BANG}
		first := d.Gaps[0]
		if n > 0 || first != "" {
			first = "\n" + first
		}
		d.Toks = append([]c16DTok{hb}, d.Toks...)
		d.Gaps = append([]string{fw.Pick(r, []string{"", "", "", "\n", "  "}), first}, d.Gaps[1:]...)
	case "duplicate-expr-token":
		var atoms []int
		for i, t := range d.Toks {
			if (t.Type == token.SYMBOL || t.Type == token.INT || t.Type == token.FLOAT || t.Type == token.STRING) && (i == 0 || !d.Toks[i-1].Glue) {
				atoms = append(atoms, i)
			}
		}
		if len(atoms) == 0 {
			return false
		}
		i := fw.Pick(r, atoms)
		d.Toks = append(d.Toks[:i], append([]c16DTok{d.Toks[i]}, d.Toks[i:]...)...)
		d.Gaps = append(d.Gaps[:i+1], append([]string{fw.Pick(r, []string{" ", "\n", " ; c\n"})}, d.Gaps[i+1:]...)...)
	default:
		return false
	}
	return true
}

// ---------------------------------------------------------------------------
// formatter configurations

func c16RandomConfig(r *fw.RNG, mode string) *formatter.Config {
	cfg := &formatter.Config{IndentSize: 2, MaxBlankLines: 1}
	switch x := r.Intn(10); {
	case x < 4:
		cfg.IndentSize = 2
	case x < 9:
		cfg.IndentSize = fw.Pick(r, []int{1, 3, 4, 4, 8, 5})
	default:
		cfg.IndentSize = 0
	}
	cfg.MaxBlankLines = fw.Pick(r, []int{0, 1, 1, 1, 2, 3, 10})
	switch r.Intn(4) {
	case 0:
		cfg.Rules = nil
	case 1:
		cfg.Rules = formatter.DefaultRules()
	default:
		cfg.Rules = formatter.DefaultRules()
		if r.Bool() {
			cfg.Rules = map[string]*formatter.IndentRule{}
		}
		for k := r.Range(1, 10); k > 0; k-- {
			name := fw.Pick(r, c16Heads)
			if i := strings.LastIndex(name, ":"); i >= 0 && r.Chance(3, 4) {
				name = name[i+1:] // the printer looks rules up by the unqualified name
			}
			cfg.Rules[name] = &formatter.IndentRule{Style: formatter.IndentStyle(r.Intn(3)), HeaderArgs: r.Intn(5)}
		}
	}
	switch mode {
	case c16ModeStrip:
		cfg.StripComments = true
	case c16ModeCompactStrip:
		cfg.Compact, cfg.StripComments = true, true
	case c16ModeCompactKeep:
		cfg.Compact = true
	}
	return cfg
}
