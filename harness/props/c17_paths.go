package props

// C17 — how the files of a session are NAMED and in which order they are handed
// to the minifier.
//
// The minifier only sees InputFile.Path strings; a session's meaning does not
// depend on them (the twin runs load the sources with LoadString, no file is
// opened).  So every naming of the same sources must minify to programs that
// behave alike, and the path strings are a free dimension of the workload:
// directories, the same base name in several directories, nested directories,
// absolute and relative spellings (also mixed), "./" and "../" prefixes, names
// with spaces, dots, non-ASCII letters and the separator characters the tools
// use internally (| : \ #), missing or doubled extensions.  The input ORDER is
// the second free dimension: files are command-line arguments (a shell glob
// sorts them), the load order is a property of the program.

import (
	"fmt"
	"path/filepath"
	"sort"
	"strings"
)

// c17FlatPaths is the plain naming: f1.lisp, f2.lisp, ... in one directory.
func c17FlatPaths(n int) []string {
	out := make([]string, n)
	for i := range out {
		out[i] = fmt.Sprintf("f%d.lisp", i+1)
	}
	return out
}

var c17PlainDirs = []string{"router", "batch", "core", "shared", "lib"}
var c17OddDirs = []string{"my lib", "v1.2", "größe", "pkg.lisp", "a|b", "c:d", "w\\in", "#tmp", "Router"}
var c17PlainBases = []string{"util.lisp", "main.lisp", "helpers.lisp"}
var c17OddBases = []string{"util", "util.test.lisp", "my util.lisp", "ütil.lisp", ".hidden.lisp", "util.LISP", "a|2|8.lisp", "u:til.lisp", "util.lisp.bak"}

// c17LayoutPaths draws the path of every file of a session.  twinOf[i] = t says
// that file i starts with a copy of the head of file t (two files written after
// one template): such a pair usually gets the same base name in two
// directories, which is how templated packages are laid out on disk.
func c17LayoutPaths(r *c17Rng, n int, twinOf map[int]int) []string {
	flat := r.chance(1, 3)
	if flat && len(twinOf) > 0 && r.chance(3, 4) {
		flat = false
	}
	if flat {
		return c17FlatPaths(n)
	}
	odd := r.chance(1, 4)
	dirStyle := r.intn(5) // 0 none, 1/2 one level, 3 nested, 4 one shared directory
	equalBases := r.chance(1, 2)
	prefixStyle := r.intn(8) // 0..3 none, 4 "./", 5 "../", 6 absolute, 7 mixed
	if len(twinOf) > 0 && r.chance(3, 4) {
		equalBases = true
		if dirStyle == 0 || dirStyle == 4 {
			dirStyle = 1 + r.intn(3)
		}
	}
	if equalBases && (dirStyle == 0 || dirStyle == 4) {
		dirStyle = 1 + r.intn(3)
	}
	dirPool := append([]string(nil), c17PlainDirs...)
	basePool := append([]string(nil), c17PlainBases...)
	if odd {
		if r.chance(2, 3) {
			dirPool = append([]string(nil), c17OddDirs...)
		}
		if r.chance(2, 3) {
			basePool = append([]string(nil), c17OddBases...)
		}
	}
	shuffle := func(xs []string) {
		for i := len(xs) - 1; i > 0; i-- {
			j := r.intn(i + 1)
			xs[i], xs[j] = xs[j], xs[i]
		}
	}
	shuffle(dirPool)
	shuffle(basePool)
	dirs := make([]string, n)
	bases := make([]string, n)
	for i := 0; i < n; i++ {
		switch dirStyle {
		case 0:
			dirs[i] = ""
		case 1, 2:
			dirs[i] = dirPool[i%len(dirPool)]
			if i > 0 && r.chance(1, 4) {
				dirs[i] = dirs[r.intn(i)] // two files of one directory
			}
		case 3:
			// nested: one directory is a prefix of another
			switch i % 4 {
			case 0:
				dirs[i] = "src/" + dirPool[0]
			case 1:
				dirs[i] = "src/" + dirPool[0] + "/" + dirPool[1]
			case 2:
				dirs[i] = "src"
			default:
				dirs[i] = "src/" + dirPool[1] + "/" + dirPool[0]
			}
		case 4:
			dirs[i] = "src"
		}
		if equalBases {
			bases[i] = basePool[0]
			if r.chance(1, 4) {
				bases[i] = basePool[1]
			}
		} else if odd || r.chance(1, 2) {
			bases[i] = basePool[i%len(basePool)]
			if i >= len(basePool) {
				bases[i] = fmt.Sprintf("f%d.lisp", i+1)
			}
		} else {
			bases[i] = fmt.Sprintf("f%d.lisp", i+1)
		}
	}
	// a file written after the template of another one: same base name, other directory
	var fs []int
	for f := range twinOf {
		fs = append(fs, f)
	}
	sort.Ints(fs)
	for _, f := range fs {
		t := twinOf[f]
		if f < n && t < n && equalBases {
			bases[f] = bases[t]
			if dirs[f] == dirs[t] {
				dirs[f] = dirs[t] + "-" + fmt.Sprint(f+1)
				if dirs[t] == "" {
					dirs[f] = dirPool[f%len(dirPool)]
				}
			}
		}
	}
	out := make([]string, n)
	seen := map[string]bool{}
	for i := 0; i < n; i++ {
		p := bases[i]
		if dirs[i] != "" {
			p = dirs[i] + "/" + bases[i]
		}
		pre := ""
		switch prefixStyle {
		case 4:
			pre = "./"
		case 5:
			pre = "../"
		case 6:
			pre = "/srv/elps app/"
		case 7:
			if i%2 == 1 {
				pre = "/srv/elps app/"
			}
		}
		p = pre + p
		// two inputs are two files: their cleaned spellings must differ
		for k := 2; seen[filepath.Clean(p)]; k++ {
			p = pre + fmt.Sprintf("alt%d/", k) + strings.TrimPrefix(p, pre)
		}
		seen[filepath.Clean(p)] = true
		out[i] = p
	}
	return out
}

// c17StripDotPrefix removes leading "./" and "../" segments.
func c17StripDotPrefix(p string) string {
	for {
		switch {
		case strings.HasPrefix(p, "./"):
			p = p[2:]
		case strings.HasPrefix(p, "../"):
			p = p[3:]
		default:
			return p
		}
	}
}

func c17PlainPathByte(c byte) bool {
	return c >= 'a' && c <= 'z' || c >= '0' && c <= '9' || c == '.' || c == '/' || c == '-' || c == '_'
}

// c17PathFeatures names, in a fixed order, what distinguishes a list of paths
// from the plain naming f1.lisp, f2.lisp, ...  It is computed from the strings
// alone and used both for the coverage tags and for finding keys.
func c17PathFeatures(paths []string) []string {
	var out []string
	has := func(pred func(p string) bool) bool {
		for _, p := range paths {
			if pred(p) {
				return true
			}
		}
		return false
	}
	if has(func(p string) bool { return strings.HasPrefix(p, "/") }) {
		if has(func(p string) bool { return !strings.HasPrefix(p, "/") }) {
			out = append(out, "absolute-and-relative")
		} else {
			out = append(out, "absolute")
		}
	}
	if has(func(p string) bool {
		return strings.Contains(strings.TrimLeft(c17StripDotPrefix(p), "/"), "/")
	}) {
		out = append(out, "directories")
	}
	if has(func(p string) bool {
		return strings.HasPrefix(p, "./") || strings.HasPrefix(p, "../") || p != filepath.Clean(p)
	}) {
		out = append(out, "dot-segments")
	}
	bases := map[string]int{}
	for _, p := range paths {
		bases[p[strings.LastIndex(p, "/")+1:]]++
	}
	for _, n := range bases {
		if n > 1 {
			out = append(out, "equal-base-names")
			break
		}
	}
	if has(func(p string) bool {
		for i := 0; i < len(p); i++ {
			if !c17PlainPathByte(p[i]) {
				return true
			}
		}
		return false
	}) {
		out = append(out, "odd-characters")
	}
	if has(func(p string) bool {
		k := strings.LastIndex(p, "/")
		d, b := c17StripDotPrefix(p[:k+1]), p[k+1:]
		return !strings.HasSuffix(b, ".lisp") || strings.Count(b, ".") != 1 || strings.Contains(d, ".")
	}) {
		out = append(out, "unusual-dots")
	}
	return out
}

// c17PathNormalisations returns, most thorough first, namings that remove
// features from paths while keeping the files distinct.  The shrinker takes a
// candidate only when the failure is still there, so the features left in a
// shrunk session's paths are the ones the failure needs.
func c17PathNormalisations(paths []string) [][]string {
	var out [][]string
	add := func(c []string) {
		seen := map[string]bool{}
		same := true
		for i, p := range c {
			if p == "" || seen[filepath.Clean(p)] {
				return
			}
			seen[filepath.Clean(p)] = true
			if p != paths[i] {
				same = false
			}
		}
		if !same {
			out = append(out, c)
		}
	}
	mapEach := func(f func(i int, p string) string) []string {
		c := make([]string, len(paths))
		for i, p := range paths {
			c[i] = f(i, p)
		}
		return c
	}
	split := func(p string) (dir, base string) {
		k := strings.LastIndex(p, "/")
		return p[:k+1], p[k+1:]
	}
	// everything at once
	add(c17FlatPaths(len(paths)))
	// Which definition "comes last" for the minifier is a matter of how the
	// paths SORT, so a respelling can lose a failure just by reordering them.
	// Plain names that sort like the present paths:
	rank := make([]int, len(paths))
	for k, i := range c17InputOrder("sorted", paths) {
		rank[i] = k
	}
	add(mapEach(func(i int, p string) string { return fmt.Sprintf("f%d.lisp", rank[i]+1) }))
	// The structure only: which files share a directory, which share a base name.
	// Directories and base names are numbered in load order, then in sort order.
	for _, byRank := range []bool{false, true} {
		number := func(part func(p string) string) map[string]int {
			var keys []string
			seen := map[string]bool{}
			for _, p := range paths {
				if k := part(p); !seen[k] {
					seen[k] = true
					keys = append(keys, k)
				}
			}
			if byRank {
				sort.Strings(keys)
			}
			out := map[string]int{}
			for i, k := range keys {
				out[k] = i + 1
			}
			return out
		}
		dirOf := func(p string) string { d, _ := split(p); return d }
		baseOf := func(p string) string { _, b := split(p); return b }
		dn, bn := number(dirOf), number(baseOf)
		add(mapEach(func(i int, p string) string {
			d, b := split(p)
			out := fmt.Sprintf("b%d.lisp", bn[b])
			if d != "" {
				out = fmt.Sprintf("d%d/", dn[d]) + out
			}
			return out
		}))
	}
	// relative spelling without dot segments
	add(mapEach(func(i int, p string) string {
		p = filepath.Clean(p)
		for strings.HasPrefix(p, "../") {
			p = p[3:]
		}
		return strings.TrimLeft(p, "/")
	}))
	// plain characters only
	add(mapEach(func(i int, p string) string {
		b := []byte(p)
		for k := range b {
			if !c17PlainPathByte(b[k]) {
				b[k] = 'o'
			}
		}
		return string(b)
	}))
	// distinct base names, directories kept
	add(mapEach(func(i int, p string) string {
		d, _ := split(p)
		return d + fmt.Sprintf("f%d.lisp", i+1)
	}))
	// no directories, base names kept
	add(mapEach(func(i int, p string) string {
		_, b := split(p)
		return b
	}))
	// directory names without dots, base names with exactly the .lisp extension
	add(mapEach(func(i int, p string) string {
		d, b := split(p)
		pre := ""
		for _, x := range []string{"./", "../"} {
			if strings.HasPrefix(d, x) {
				pre, d = x, d[len(x):]
			}
		}
		d = strings.ReplaceAll(d, ".", "-")
		b = strings.ReplaceAll(strings.TrimSuffix(b, ".lisp"), ".", "-")
		if b == "" {
			b = "f"
		}
		return pre + d + b + ".lisp"
	}))
	// one directory level
	add(mapEach(func(i int, p string) string {
		d, b := split(p)
		d = strings.Trim(d, "/")
		if d == "" {
			return p
		}
		return strings.ReplaceAll(d, "/", "-") + "/" + b
	}))
	return out
}

// c17InputOrder returns the permutation (positions in load order) in which the
// files are handed to the minifier.
func c17InputOrder(order string, paths []string) []int {
	n := len(paths)
	idx := make([]int, n)
	for i := range idx {
		idx[i] = i
	}
	switch order {
	case "reversed":
		for i, j := 0, n-1; i < j; i, j = i+1, j-1 {
			idx[i], idx[j] = idx[j], idx[i]
		}
	case "sorted":
		// what a shell glob or a directory walk produces
		sort.SliceStable(idx, func(a, b int) bool { return paths[idx[a]] < paths[idx[b]] })
	case "rotated":
		for i := range idx {
			idx[i] = (i + 1) % n
		}
	}
	return idx
}

func c17IsIdentity(idx []int) bool {
	for i, x := range idx {
		if i != x {
			return false
		}
	}
	return true
}
