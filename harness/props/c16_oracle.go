package props

// C16 oracle, part 2: judging one (source, config) pair.

import (
	"bytes"
	"fmt"
	"math"
	"sort"
	"strings"

	"github.com/luthersystems/elps/formatter"
	"github.com/luthersystems/elps/lisp"
	"github.com/luthersystems/elps/parser/rdparser"
	"github.com/luthersystems/elps/parser/token"
)

// c16Mode names the part of the configuration space that decides what is judged.
const (
	c16ModeDefault      = "default"       // Compact=false StripComments=false : everything judged
	c16ModeStrip        = "strip"         // Compact=false StripComments=true  : trees, spellings, idempotence
	c16ModeCompactStrip = "compact-strip" // Compact=true  StripComments=true  : trees, spellings, idempotence
	c16ModeCompactKeep  = "compact-keep"  // Compact=true  StripComments=false : as default, reported under its own keys
)

func c16ModeOf(cfg *formatter.Config) string {
	switch {
	case cfg.Compact && cfg.StripComments:
		return c16ModeCompactStrip
	case cfg.Compact:
		return c16ModeCompactKeep
	case cfg.StripComments:
		return c16ModeStrip
	}
	return c16ModeDefault
}

// c16Strict reads src with the strict (non format-preserving) reader.
func c16Strict(src []byte) ([]*lisp.LVal, error) { return c16StrictVia(src, false) }

// c16StrictVia: window=true reads through token.NewScanner's fixed sliding
// window exactly as Format does; false sizes the buffer to the text (cheaper).
func c16StrictVia(src []byte, window bool) ([]*lisp.LVal, error) {
	sc := token.NewScannerString("c16-in", string(src))
	if window {
		sc = token.NewScanner("c16-in", bytes.NewReader(src))
	}
	p := rdparser.New(sc)
	exprs, err := p.ParseProgram()
	if err != nil {
		return nil, err
	}
	for _, e := range exprs {
		if e == nil || e.Type == lisp.LError {
			return nil, fmt.Errorf("strict reader returned an error value in the program")
		}
	}
	return exprs, nil
}

func c16ErrClass(err error) string {
	if err == nil {
		return "nil"
	}
	s := err.Error()
	// "<file>:l:c: condition: message"  – take a coarse, stable class
	for _, c := range []string{"unmatched-syntax", "mismatched-syntax", "scan-error", "parse-error", "invalid-symbol",
		"integer-overflow-error", "invalid-octal-literal", "invalid-hex-literal", "unbound-expression-error"} {
		if strings.Contains(s, c) {
			return c
		}
	}
	if strings.Contains(s, "invalid floating point") {
		return "invalid-float"
	}
	if strings.Contains(s, "invalid string literal") {
		return "invalid-string"
	}
	return "other"
}

// c16CompareStrict compares two strict parses node by node.
func c16CompareStrict(a, b []*lisp.LVal) *c16Diff {
	if len(a) != len(b) {
		return &c16Diff{"expr-count", fmt.Sprintf("%d top-level expressions before, %d after", len(a), len(b))}
	}
	var cmp func(x, y *lisp.LVal, path []int) *c16Diff
	cmp = func(x, y *lisp.LVal, path []int) *c16Diff {
		at := " at path " + c16PathStr(path)
		if x.Type != y.Type {
			return &c16Diff{"kind:" + x.Type.String() + "->" + y.Type.String(), x.String() + " vs " + y.String() + at}
		}
		if x.IsQuoted() != y.IsQuoted() {
			return &c16Diff{"quoting", fmt.Sprintf("quoted %v vs %v: %s vs %s%s", x.IsQuoted(), y.IsQuoted(), x.String(), y.String(), at)}
		}
		switch x.Type {
		case lisp.LSymbol:
			if x.Str != y.Str {
				return &c16Diff{"symbol-name", fmt.Sprintf("%q vs %q%s", x.Str, y.Str, at)}
			}
		case lisp.LString:
			if x.Str != y.Str {
				return &c16Diff{"string-content", fmt.Sprintf("%q vs %q%s", x.Str, y.Str, at)}
			}
		case lisp.LInt:
			if x.Int != y.Int {
				return &c16Diff{"int-value", fmt.Sprintf("%d vs %d%s", x.Int, y.Int, at)}
			}
		case lisp.LFloat:
			if math.Float64bits(x.Float) != math.Float64bits(y.Float) {
				return &c16Diff{"float-value", fmt.Sprintf("%v vs %v%s", x.Float, y.Float, at)}
			}
		}
		if len(x.Cells) != len(y.Cells) {
			return &c16Diff{"child-count", fmt.Sprintf("%d vs %d children: %s vs %s%s", len(x.Cells), len(y.Cells), c16Short(x.String()), c16Short(y.String()), at)}
		}
		for i := range x.Cells {
			if d := cmp(x.Cells[i], y.Cells[i], append(path, i)); d != nil {
				return d
			}
		}
		return nil
	}
	for i := range a {
		if d := cmp(a[i], b[i], []int{i}); d != nil {
			return d
		}
	}
	return nil
}

func c16Short(s string) string {
	if len(s) > 160 {
		return s[:160] + "…"
	}
	return s
}

// c16SpanLeaves lists, for every leaf of a strict parse, the source text its
// own Source() span covers.
func c16SpanLeaves(src []byte, exprs []*lisp.LVal, out *[]string) bool {
	ok := true
	var walk func(v *lisp.LVal)
	walk = func(v *lisp.LVal) {
		if len(v.Cells) > 0 {
			for _, c := range v.Cells {
				walk(c)
			}
			return
		}
		loc, has := v.Source()
		if v.IsQuoted() {
			// a quoted atom's span starts at the ' and covers the gap after it
			*out = append(*out, "\x00quoted")
			return
		}
		if !has || loc.Pos < 0 || loc.EndPos < loc.Pos || loc.EndPos > len(src) {
			ok = false
			*out = append(*out, "")
			return
		}
		if v.Type == lisp.LSExpr { // an empty list: only its two bracket characters are spelling
			if loc.EndPos-loc.Pos < 2 {
				ok = false
				return
			}
			*out = append(*out, string(src[loc.Pos])+string(src[loc.EndPos-1]))
			return
		}
		*out = append(*out, string(src[loc.Pos:loc.EndPos]))
	}
	for _, e := range exprs {
		walk(e)
	}
	return ok
}

// c16CompareComments compares the comment token lists.  It returns a
// difference class, the index (into the INPUT comments, or -1) it concerns, and detail.
func c16CompareComments(in, out []c16Comment) (kind string, idx int, detail string) {
	n := len(in)
	if len(out) < n {
		n = len(out)
	}
	first := -1
	for i := 0; i < n; i++ {
		if in[i].Text != out[i].Text {
			first = i
			break
		}
	}
	if first < 0 && len(in) == len(out) {
		for i := range in {
			if in[i].Anchor != out[i].Anchor {
				return "moved", i, fmt.Sprintf("comment %q is %s in the input but %s in the output", in[i].Text, c16AnchorWords(in[i].Anchor), c16AnchorWords(out[i].Anchor))
			}
		}
		return "", -1, ""
	}
	if first < 0 {
		first = n
	}
	// classify the text-level difference
	inT := make([]string, len(in))
	outT := make([]string, len(out))
	for i := range in {
		inT[i] = in[i].Text
	}
	for i := range out {
		outT[i] = out[i].Text
	}
	if len(out) < len(in) && c16IsSubseq(outT, inT) {
		i := c16FirstMissing(in, out)
		return "lost", i, fmt.Sprintf("comment %q (%s) is missing from the output; %d comments in, %d out", inT[i], c16AnchorWords(in[i].Anchor), len(in), len(out))
	}
	if len(out) > len(in) && c16IsSubseq(inT, outT) {
		return "added", -1, fmt.Sprintf("output has %d comments, input %d", len(out), len(in))
	}
	// multiset view: something missing (possibly reordered as well)?
	cnt := map[string]int{}
	for _, t := range outT {
		cnt[t]++
	}
	extra := false
	missing := -1
	for i, t := range inT {
		if cnt[t] > 0 {
			cnt[t]--
		} else if missing < 0 {
			missing = i
		}
	}
	for _, c := range cnt {
		if c > 0 {
			extra = true
		}
	}
	if missing >= 0 && !extra {
		missing = c16FirstMissing(in, out)
		return "lost", missing, fmt.Sprintf("comment %q (%s) is missing from the output (and the remaining ones changed order); %d comments in, %d out", inT[missing], c16AnchorWords(in[missing].Anchor), len(in), len(out))
	}
	if missing < 0 && !extra {
		return "reordered", first, fmt.Sprintf("comment #%d is %q in the input but %q in the output", first, c16At(inT, first), c16At(outT, first))
	}
	if first < len(in) {
		return "text-changed", first, fmt.Sprintf("comment #%d is %q in the input but %q in the output (%d in, %d out)", first, c16At(inT, first), c16At(outT, first), len(in), len(out))
	}
	return "added", -1, fmt.Sprintf("output has %d comments, input %d", len(out), len(in))
}

// c16FirstMissing picks the input comment that is most plausibly the missing
// one: the first that an LCS alignment on (text, anchor) leaves unmatched and
// whose text occurs more often in the input than in the output.
func c16FirstMissing(in, out []c16Comment) int {
	n, m := len(in), len(out)
	dp := make([][]int32, n+1)
	for i := range dp {
		dp[i] = make([]int32, m+1)
	}
	eq := func(i, j int) bool { return in[i].Text == out[j].Text && in[i].Anchor == out[j].Anchor }
	for i := n - 1; i >= 0; i-- {
		for j := m - 1; j >= 0; j-- {
			if eq(i, j) {
				dp[i][j] = dp[i+1][j+1] + 1
			} else if dp[i+1][j] >= dp[i][j+1] {
				dp[i][j] = dp[i+1][j]
			} else {
				dp[i][j] = dp[i][j+1]
			}
		}
	}
	matched := make([]bool, n)
	for i, j := 0, 0; i < n && j < m; {
		switch {
		case eq(i, j):
			matched[i] = true
			i++
			j++
		case dp[i+1][j] >= dp[i][j+1]:
			i++
		default:
			j++
		}
	}
	deficit := map[string]int{}
	for _, c := range in {
		deficit[c.Text]++
	}
	for _, c := range out {
		deficit[c.Text]--
	}
	for i, c := range in {
		if !matched[i] && deficit[c.Text] > 0 {
			return i
		}
	}
	for i, c := range in {
		if deficit[c.Text] > 0 {
			return i
		}
	}
	return 0
}

func c16CommentAt(cs []c16Comment, i int) c16Comment {
	if i >= 0 && i < len(cs) {
		return cs[i]
	}
	return c16Comment{Ctx: "top/none"}
}

func c16At(xs []string, i int) string {
	if i < len(xs) {
		return xs[i]
	}
	return "<none>"
}

func c16IsSubseq(small, big []string) bool {
	j := 0
	for i := range big {
		if j < len(small) && small[j] == big[i] {
			j++
		}
	}
	return j == len(small)
}

func c16AnchorWords(a string) string {
	switch {
	case a == "eof":
		return "at end of file"
	case strings.HasPrefix(a, "before:"):
		return "before the expression at path " + a[7:]
	case strings.HasPrefix(a, "end:"):
		return "before the closing bracket of the list at path " + a[4:]
	}
	return a
}

// c16DiffClass classifies how two texts differ (for idempotence findings).
func c16DiffClass(a, b string) (class, lineKind string) {
	strip := func(s string) string {
		return strings.Map(func(r rune) rune {
			if r == ' ' || r == '\n' || r == '\t' {
				return -1
			}
			return r
		}, s)
	}
	la, lb := strings.Split(a, "\n"), strings.Split(b, "\n")
	i := 0
	for i < len(la) && i < len(lb) && la[i] == lb[i] {
		i++
	}
	line := ""
	if i < len(la) {
		line = la[i]
	}
	if strings.TrimSpace(line) == "" && i < len(lb) {
		line = lb[i]
	}
	lt := strings.TrimSpace(line)
	switch {
	case lt == "":
		lineKind = "blank"
	case lt[0] == ';':
		lineKind = "comment-line"
	case lt[0] == ')' || lt[0] == ']':
		lineKind = "closing-bracket-line"
	case lt[0] == '(' || lt[0] == '[':
		lineKind = "list-line"
	case lt[0] == '\'' || lt[0] == '#':
		lineKind = "prefix-line"
	default:
		lineKind = "atom-line"
	}
	nonblank := func(ls []string) []string {
		var o []string
		for _, l := range ls {
			if strings.TrimSpace(l) != "" {
				o = append(o, l)
			}
		}
		return o
	}
	na, nb := nonblank(la), nonblank(lb)
	if strings.Join(na, "\n") == strings.Join(nb, "\n") {
		return "blank-lines", lineKind
	}
	if len(na) == len(nb) {
		indentOnly, spacingOnly := true, true
		for k := range na {
			if strings.TrimLeft(na[k], " ") != strings.TrimLeft(nb[k], " ") {
				indentOnly = false
			}
			if strip(na[k]) != strip(nb[k]) {
				spacingOnly = false
			}
		}
		if indentOnly {
			return "indentation", lineKind
		}
		if spacingOnly {
			return "spacing", lineKind
		}
	}
	if strip(a) == strip(b) {
		return "line-breaks", lineKind
	}
	return "content", lineKind
}

// ---------------------------------------------------------------------------

// c16Analysis is what the oracle derives from an accepted source text.
type c16Analysis struct {
	Rejected  bool
	RejectErr string
	Strict    []*lisp.LVal
	Tree      *c16Tree
	Lex       c16LexResult
}

// c16Verdict is the outcome of judging one (source, config) pair.
type c16Verdict struct {
	Outcome      string // "rejected", "unchanged", "changed", "inconclusive"
	Family       string // violation family ("" = none), e.g. "comment-lost"
	Key          string // full finding key
	Summary      string
	Detail       string
	Out          []byte
	Inconcl      string
	SpanDisagree int
	SpanLeaves   int
	SpanExample  string
	Sec          *c16Verdict // non-blocking second finding (compact-keep: nested comments dropped)
}

func c16Format(src []byte, cfg *formatter.Config, viaFile bool) ([]byte, error) {
	if viaFile {
		return formatter.FormatFile(src, "c16.lisp", cfg)
	}
	return formatter.Format(src, cfg)
}

func c16CfgString(cfg *formatter.Config) string {
	var names []string
	for k, r := range cfg.Rules {
		names = append(names, fmt.Sprintf("%s:%d/%d", k, r.Style, r.HeaderArgs))
	}
	sort.Strings(names)
	rules := "nil"
	if cfg.Rules != nil {
		rules = fmt.Sprintf("%d rules", len(names))
		if len(names) <= 12 {
			rules = "{" + strings.Join(names, " ") + "}"
		}
	}
	return fmt.Sprintf("IndentSize=%d MaxBlankLines=%d Compact=%v StripComments=%v Rules=%s", cfg.IndentSize, cfg.MaxBlankLines, cfg.Compact, cfg.StripComments, rules)
}

// c16Judge runs the real formatter on src under cfg and applies the oracle.
// an (may be nil) is the cached analysis of src.
func c16Judge(src []byte, cfg *formatter.Config, viaFile bool, an **c16Analysis) c16Verdict {
	return c16JudgeVia(src, cfg, viaFile, an, false)
}

// c16JudgeVia: with window=false "the reader" is the strict reader over a
// scanner sized to the text (cheap; for texts whose lexemes are far below the
// scanner window it accepts exactly what every reader of the repository
// accepts, and a disagreement with the sliding-window reader makes the case
// inconclusive).  With window=true (c16_window.go: lexemes near and beyond the
// window) "the reader" is the one the runtime, `elps run`, lint, lsp and the
// minifier read through - rdparser.New over token.NewScanner's fixed
// token.DefaultBufSize sliding window - for the input AND for the formatted
// output: what that reader rejects, Format must reject; what it accepts,
// Format must accept and return text that it reads back to the same trees.
func c16JudgeVia(src []byte, cfg *formatter.Config, viaFile bool, an **c16Analysis, window bool) c16Verdict {
	mode := c16ModeOf(cfg)
	v := c16Verdict{}
	fail := func(family, keyTail, summary, detail string) c16Verdict {
		v.Family = family
		v.Key = family + ":" + mode
		if keyTail != "" {
			v.Key += ":" + keyTail
		}
		v.Summary = summary
		v.Detail = detail
		return v
	}
	out, ferr := c16Format(src, cfg, viaFile)
	v.Out = out

	if *an == nil {
		a := &c16Analysis{}
		strict, serr := c16StrictVia(src, window)
		if serr != nil {
			a.Rejected = true
			a.RejectErr = serr.Error()
			a.Tree = &c16Tree{}
		} else {
			a.Strict = strict
			a.Lex = c16Lex(src)
			if a.Lex.Err != "" {
				a.Tree = &c16Tree{Err: "lex:" + a.Lex.Err}
			} else {
				a.Tree = c16Parse(a.Lex.Toks)
			}
		}
		*an = a
	}
	a := *an

	// ---- rejected input: an error and no output
	if !window && a.Rejected != (ferr != nil) {
		// before raising either accept/reject alarm, re-read exactly the way Format reads
		strict, serr := c16StrictVia(src, true)
		if (serr != nil) != a.Rejected {
			v.Outcome = "inconclusive"
			v.Inconcl = fmt.Sprintf("strict reader disagrees with itself between scanner constructors (string-sized: rejected=%v, windowed: err=%v)", a.Rejected, serr)
			_ = strict
			return v
		}
	}
	if a.Rejected {
		v.Outcome = "rejected"
		if ferr == nil {
			return fail("rejected-input-formatted", "", "the strict reader rejects the input but Format returned output without error",
				fmt.Sprintf("reader error: %s\noutput: %q", a.RejectErr, out))
		}
		if len(out) != 0 {
			return fail("rejected-input-produced-output", "", "Format returned an error AND output", fmt.Sprintf("error: %v\noutput: %q", ferr, out))
		}
		return v
	}
	// ---- accepted input
	if ferr != nil {
		return fail("accepted-input-rejected", c16ErrClass(ferr), "the reader accepts the input but Format fails: "+ferr.Error(), "")
	}
	if a.Tree.Err != "" {
		v.Outcome = "inconclusive"
		v.Inconcl = "oracle token model could not read an input the strict reader accepts: " + a.Tree.Err
		return v
	}
	// model cross-check (never a violation)
	if len(a.Tree.Top) != len(a.Strict) {
		v.Outcome = "inconclusive"
		v.Inconcl = fmt.Sprintf("oracle token model found %d top-level expressions, strict reader %d", len(a.Tree.Top), len(a.Strict))
		return v
	}
	for i, n := range a.Tree.Top {
		if !c16ModelAgrees(c16ToModel(n), a.Strict[i]) {
			v.Outcome = "inconclusive"
			v.Inconcl = fmt.Sprintf("oracle token model disagrees with the strict reader on top-level expression %d: %s", i, c16Short(a.Strict[i].String()))
			return v
		}
	}

	if bytes.Equal(out, src) {
		v.Outcome = "unchanged"
	} else {
		v.Outcome = "changed"
	}

	// 1. output must read back
	outStrict, oerr := c16StrictVia(out, window)
	if oerr != nil {
		return fail("output-unreadable", c16ErrClass(oerr), "the strict reader rejects the formatted output: "+oerr.Error(), "")
	}
	// 2. identical trees
	if d := c16CompareStrict(a.Strict, outStrict); d != nil {
		return fail("tree-changed", d.Kind, "formatted text reads back to a different tree: "+d.Detail, "")
	}
	// 3. spellings / brackets via the lexer's token stream
	ol := c16Lex(out)
	if ol.Err != "" {
		v.Outcome = "inconclusive"
		v.Inconcl = "lexer error on output the strict reader accepts: " + ol.Err
		return v
	}
	ot := c16Parse(ol.Toks)
	if ot.Err != "" {
		v.Outcome = "inconclusive"
		v.Inconcl = "oracle token model could not read formatted output the strict reader accepts: " + ot.Err
		return v
	}
	if d := c16CompareTok(a.Tree.Top, ot.Top); d != nil {
		fam := "spelling-changed"
		if strings.HasPrefix(d.Kind, "bracket") {
			fam = "bracket-changed"
		} else if !strings.HasPrefix(d.Kind, "spelling") && !strings.HasPrefix(d.Kind, "literal-kind") {
			fam = "token-shape-changed"
		}
		return fail(fam, d.Kind, "formatted text spells the program differently: "+d.Detail, "")
	}
	// 3b. observation only: the same comparison by each leaf's own Source() span
	var inLeaves, outLeaves []string
	okA := c16SpanLeaves(src, a.Strict, &inLeaves)
	okB := c16SpanLeaves(out, outStrict, &outLeaves)
	if okA && okB && len(inLeaves) == len(outLeaves) {
		v.SpanLeaves = len(inLeaves)
		for i := range inLeaves {
			// the head of a #'/#^ form spans the prefix token, of the longhand its name
			sugarHead := func(s string) bool { return s == "#'" || s == "#^" || s == "lisp:function" || s == "lisp:expr" }
			if inLeaves[i] != outLeaves[i] && !(sugarHead(inLeaves[i]) && sugarHead(outLeaves[i])) {
				v.SpanDisagree++
				if v.SpanExample == "" {
					v.SpanExample = fmt.Sprintf("%q vs %q", inLeaves[i], outLeaves[i])
				}
			}
		}
	}
	// 4. comments
	if mode == c16ModeDefault || mode == c16ModeCompactKeep {
		kind, idx, detail := c16CompareComments(a.Tree.Comments, ot.Comments)
		ctxOf := func(idx int, cs []c16Comment) string {
			if idx >= 0 && idx < len(cs) {
				return cs[idx].Ctx
			}
			return "-"
		}
		// top-level = anchored to a top-level expression or to end of file
		isTop := func(c c16Comment) bool {
			return c.Anchor == "eof" || (strings.HasPrefix(c.Anchor, "before:") && !strings.Contains(c.Anchor, "."))
		}
		if kind != "" && mode == c16ModeCompactKeep && !isTop(c16CommentAt(a.Tree.Comments, idx)) && (kind == "lost") {
			// The compact printer has no code for comments below the top level:
			// record that once, under one key, and keep judging the comments it
			// does handle (top-level ones) and idempotence.
			v.Sec = &c16Verdict{Family: "comment-lost-nested", Key: "comment-lost:" + mode + ":nested", Summary: detail, Out: out}
			var inTop, outTop []c16Comment
			for _, c := range a.Tree.Comments {
				if isTop(c) {
					inTop = append(inTop, c)
				}
			}
			for _, c := range ot.Comments {
				if isTop(c) {
					outTop = append(outTop, c)
				}
			}
			kind, idx, detail = c16CompareComments(inTop, outTop)
			if kind != "" {
				return fail("comment-"+kind, ctxOf(idx, inTop), detail+" (top-level comments only)", "")
			}
		} else if kind != "" {
			return fail("comment-"+kind, ctxOf(idx, a.Tree.Comments), detail, "")
		}
	}
	// 5. idempotence
	again, aerr := c16Format(out, cfg, viaFile)
	if aerr != nil {
		return fail("not-idempotent", "second-format-fails:"+c16ErrClass(aerr), "Format rejects its own output: "+aerr.Error(), "")
	}
	if !bytes.Equal(again, out) {
		class, lk := c16DiffClass(string(out), string(again))
		return fail("not-idempotent", class+":"+c16ShapeTag(a.Tree), "formatting the formatted text changes it ("+class+" at a "+lk+")",
			fmt.Sprintf("--- pass 2 ---\n%s", c16Vis(again)))
	}
	return v
}

// c16ShapeTag names the most specific unusual construct present in a (minimised)
// input, so that idempotence findings with different causes get different keys:
// longhand-prefix-form > multiline-raw-string > comment > prefix-form > plain.
func c16ShapeTag(t *c16Tree) string {
	longhand, rawml, sugar := false, false, false
	var walk func(n *c16Node)
	walk = func(n *c16Node) {
		switch n.Kind {
		case c16KAtom:
			if n.TT == token.STRING_RAW && strings.Contains(n.Spell, "\n") {
				rawml = true
			}
		case c16KQuote:
			sugar = true
		case c16KList:
			if n.Sugar != "" {
				sugar = true
			} else if len(n.Kids) > 0 && n.Kids[0].Kind == c16KAtom && (n.Kids[0].Spell == "lisp:function" || n.Kids[0].Spell == "lisp:expr") {
				longhand = true
			}
		}
		for _, k := range n.Kids {
			walk(k)
		}
	}
	for _, n := range t.Top {
		walk(n)
	}
	switch {
	case longhand:
		return "longhand-prefix-form"
	case rawml:
		return "multiline-raw-string"
	case len(t.Comments) > 0:
		return "comment"
	case sugar:
		return "prefix-form"
	}
	return "plain"
}

// c16Vis renders a text with line structure visible.
func c16Vis(b []byte) string {
	s := string(b)
	s = strings.ReplaceAll(s, "\r", "␍")
	s = strings.ReplaceAll(s, "\t", "␉")
	if len(s) > 3000 {
		s = s[:3000] + "\n…(truncated)"
	}
	lines := strings.Split(s, "\n")
	for i := range lines {
		lines[i] = "  |" + lines[i] + "|"
	}
	return strings.Join(lines, "\n")
}
