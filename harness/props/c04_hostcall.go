package props

import (
	"context"
	"fmt"
	"sort"
	"strings"
	"sync"
	"time"

	"github.com/luthersystems/elps/lisp"

	"verifharness/fw"
	"verifharness/rt"
)

// C04, host-started calls of builtins that call back into the evaluator.
//
// An embedder does not only evaluate source: it obtains function values (of its
// own functions, but also of Go-implemented builtins, special operators and
// builtin macros) and calls them through the entry points that accept a function
// value - FunCall, FunCallContext, SpecialOpCall, MacroCall, EvalSExpr.  Such a
// call is ONE top-level evaluation: whatever the builtin evaluates on the way (its
// callbacks, its body forms) draws on the one budget the call started with and is
// stopped by the one context it runs under.  Unlike a form given to Eval/Load*,
// the callee is reached without passing through LEnv.eval, so the evaluator's own
// notion of "inside an evaluation" (eval nesting) is still zero while it runs.
//
// Callees are not a fixed list.  Once per worker the registry is walked: every
// Go-implemented function, special operator and macro of every package is called
// with argument vectors drawn from a small pool (a probe-carrying callback, a list,
// a vector, an int, a type symbol, source text, a quoted form, a map; for operators
// and macros a pool of forms) and kept when the call succeeds and the probe fired,
// i.e. when the builtin demonstrably re-entered the evaluator.  A call whose value
// is a function (compose, flip, curry-function, lambda, ...) additionally yields a
// derived callee, explored the same way.
//
// A case takes some of these calls and one entry point each, and applies the
// oracles of the budget/cancellation matrix: the unlimited run gives N and a
// step-stamped trace (stamps and N are taken from the lifetime counter, so that
// they stay meaningful should the per-evaluation counter be reset on the way);
// under every sampled budget n the trace is the unlimited one cut at n, the call
// ends in step-limit-exceeded iff n < N; cancelled at step k it ends in
// context-cancelled having done the trace cut at k-1; the per-evaluation counter
// never restarts inside the call; and the same call made a second time in the same
// runtime behaves the same way again (a new top-level entry has a full budget).

const c04HostDefs = `
(defun hc-spin (n) (if (<= n 0) 'done (hc-spin (- n 1))))
(defun hc-f (x) (verif:probe 'hc-f x) (hc-spin 1) x)
(set 'hc-n 2)
(set 'hc-v 2)
(defun cb-true (&rest xs) (verif:probe 'cb-true xs) (hc-spin 2) true)
(defun cb-first (&rest xs) (verif:probe 'cb-first xs) (hc-spin 3) (if (nil? xs) 0 (car xs)))
(defun cb-less (&rest xs) (verif:probe 'cb-less xs) (hc-spin 1) (apply < xs))
(defun cb-sum (&rest xs) (verif:probe 'cb-sum xs) (hc-spin 2) (apply + xs))
(defun cb-list (&rest xs) (verif:probe 'cb-list xs) (hc-spin 1) xs)
(set 'hc-cb cb-true)
`

const c04HostCB = "cb-true" // the callback of the discovery pool

var c04HostCallbacks = []string{"cb-true", "cb-first", "cb-less", "cb-sum", "cb-list"}

// c04HostValPool: argument EXPRESSIONS for functions (evaluated before the call).
var c04HostValPool = []string{c04HostCB, "(lisp:list 3 1 2)", "(lisp:vector 3 1 2)", "2", "'list", `"(verif:probe 'src 1)"`, "'(verif:probe 'quoted 1)", `(lisp:sorted-map "a" 1 "b" 2)`}

// c04HostFormPool: argument FORMS for special operators and macros.
var c04HostFormPool = []string{"(verif:probe 'e 1)", "(hc-f 4)", "((v (verif:probe 'bind 2)))", "(i 3)", "((hc-g (x) (verif:probe 'local x)))",
	"((verif:probe 'test true) (verif:probe 'clause 3))", "((condition (lambda (c &rest a) (verif:probe 'handler c))))", "(x)", "hc-v", "hc-cb"}

type c04HostSpec struct {
	kind   string   // function | operator | macro
	callee string   // source text whose value is the function value: a qualified symbol, or a call returning a function
	name   string   // class name for finding keys
	args   []string // function: expressions evaluated before the call; operator/macro: forms
	probes int
}

func (s c04HostSpec) String() string {
	return fmt.Sprintf("%s %s applied to [%s]", s.kind, s.callee, strings.Join(s.args, " "))
}

func (s c04HostSpec) swallows() bool {
	t := s.callee + " " + strings.Join(s.args, " ")
	return strings.Contains(t, "ignore-errors") || strings.Contains(t, "handler-bind")
}

func c04HostKind(f *lisp.LVal) string {
	switch {
	case f.IsSpecialOp():
		return "operator"
	case f.IsMacro():
		return "macro"
	}
	return "function"
}

var c04HostEntries = map[string][]string{
	"function": {"FunCall", "FunCallContext", "EvalSExpr", "FunCall"},
	"operator": {"SpecialOpCall", "EvalSExpr", "SpecialOpCall"},
	"macro":    {"MacroCall+Eval", "EvalSExpr+Eval"},
}

// --- one machine ------------------------------------------------------------------

type c04HostM struct {
	m   *rt.R
	sc  *scriptedCtx          // root context (nil: none)
	ast map[string]*lisp.LVal // discovery: pool entries parsed once
	val map[string]*lisp.LVal // discovery: pool values of the callee being explored
}

func c04HostNew(root bool) (*c04HostM, string) {
	h := &c04HostM{ast: map[string]*lisp.LVal{}, val: map[string]*lisp.LVal{}}
	o := rt.Opts{}
	if root {
		h.sc = newScriptedCtx(0)
		o.Ctx = h.sc
	}
	h.m = rt.New(o)
	if v := h.m.Env.LoadString("hostcall-defs", c04HostDefs); v.Type == lisp.LError {
		return nil, "definitions failed: " + v.String()
	}
	return h, ""
}

func (h *c04HostM) forms(src []string) ([]*lisp.LVal, string) {
	exprs, err := h.m.Env.Runtime.Reader.Read("hostcall-forms", strings.NewReader(strings.Join(src, "\n")))
	if err != nil {
		return nil, err.Error()
	}
	if len(exprs) != len(src) {
		return nil, fmt.Sprintf("%d forms read from %d", len(exprs), len(src))
	}
	return exprs, ""
}

// argv prepares the argument list of one call (nothing of this is measured).
func (h *c04HostM) argv(sp c04HostSpec) ([]*lisp.LVal, string) {
	if sp.kind != "function" {
		return h.forms(sp.args)
	}
	out := make([]*lisp.LVal, len(sp.args))
	for i, a := range sp.args {
		v := h.m.Env.LoadString("hostcall-arg", a)
		if v.Type == lisp.LError {
			return nil, "argument " + a + " failed: " + v.String()
		}
		out[i] = v
	}
	return out, ""
}

// c04HostSeg is one top-level entry made by the host.
type c04HostSeg struct {
	entry string
	t     rt.Transcript
	n     int64 // steps by the lifetime counter
	base  int64
	ones  int64 // how often the per-evaluation counter read 1
	bad   string
	v     *lisp.LVal
}

func (s c04HostSeg) stamped(max int64) string {
	var parts []string
	for _, p := range s.t.Trace {
		if st := p.Total - s.base; max < 0 || st <= max {
			parts = append(parts, fmt.Sprintf("%s@%d", p.String(), st))
		}
	}
	return strings.Join(parts, "|")
}

// seg runs f as one top-level entry.  cancelAt > 0 cancels the context the entry
// runs under at its cancelAt-th poll (the root context for the plain entry points).
func (h *c04HostM) seg(entry string, cancelAt int64, f func(ctx context.Context) *lisp.LVal) c04HostSeg {
	ctx := context.Context(newScriptedCtx(int(cancelAt)))
	if h.sc != nil {
		ctx = nil
		if cancelAt > 0 {
			h.sc.at = h.sc.calls + int(cancelAt)
		}
	}
	mon := &c04Mon{}
	tf, ef := h.m.Marks()
	base := h.m.Env.Runtime.TotalSteps()
	c04Cur = mon
	v := f(ctx)
	c04Cur = nil
	if h.sc != nil {
		h.sc.at = 0
	}
	return c04HostSeg{entry: entry, t: h.m.TranscriptOf(v, tf, ef), n: h.m.Env.Runtime.TotalSteps() - base, base: base, ones: mon.ones, bad: mon.badStep, v: v}
}

// call makes the host call of sp through entry: one top-level entry, or two for a
// macro (the expansion step and the evaluation of the expansion).
func (h *c04HostM) call(sp c04HostSpec, entry string, fun *lisp.LVal, args []*lisp.LVal, cancelAt int64) []c04HostSeg {
	env := h.m.Env
	cp := make([]*lisp.LVal, len(args))
	copy(cp, args)
	var segs []c04HostSeg
	var first c04HostSeg
	var val *lisp.LVal
	switch strings.TrimSuffix(entry, "+Eval") {
	case "FunCall":
		first = h.seg(entry, cancelAt, func(context.Context) *lisp.LVal { val = env.FunCall(fun, lisp.SExpr(cp)); return val })
	case "FunCallContext":
		first = h.seg(entry, cancelAt, func(ctx context.Context) *lisp.LVal {
			if ctx == nil {
				ctx = h.sc
			}
			val = env.FunCallContext(ctx, fun, lisp.SExpr(cp))
			return val
		})
	case "SpecialOpCall":
		first = h.seg(entry, cancelAt, func(context.Context) *lisp.LVal { val = env.SpecialOpCall(fun, lisp.SExpr(cp)); return val })
	case "MacroCall":
		first = h.seg("MacroCall", cancelAt, func(context.Context) *lisp.LVal { val = env.MacroCall(fun, lisp.SExpr(cp)); return val })
	case "EvalSExpr":
		cells := []*lisp.LVal{fun}
		for _, a := range cp {
			if sp.kind == "function" {
				a = lisp.Quote(a) // the call step evaluates the argument cells of a function call
			}
			cells = append(cells, a)
		}
		first = h.seg("EvalSExpr", cancelAt, func(context.Context) *lisp.LVal { val = env.EvalSExpr(lisp.SExpr(cells)); return val })
	default:
		val = env.Errorf("unknown entry %s", entry)
		first = c04HostSeg{entry: entry, t: h.m.TranscriptOf(val, 0, 0)}
	}
	segs = append(segs, first)
	left := cancelAt // cancellation indices count over the whole call
	for n := 0; val != nil && val.Type == lisp.LMarkMacExpand && n < 8; n++ {
		// the macro call step hands back the expansion for the caller to evaluate: a
		// new top-level entry of its own
		x := val.Cells[0]
		ck := left
		if ck > 0 {
			ck -= segs[len(segs)-1].n
			if ck <= 0 {
				ck = 1
			}
			left = ck
		}
		segs = append(segs, h.seg("Eval(expansion)", ck, func(ctx context.Context) *lisp.LVal {
			if ctx != nil {
				val = env.EvalContext(ctx, x)
			} else {
				val = env.Eval(x)
			}
			return val
		}))
	}
	return segs
}

// --- discovery --------------------------------------------------------------------

type c04HostDisc struct {
	specs    []c04HostSpec
	callees  int
	attempts int
	rebuilt  int // discovery runtimes made
	repaired int // times the check's own definitions were loaded again
	panics   []string
	derived  []string // calls whose value is a function
}

var (
	c04HostOnce sync.Once
	c04HostAll  *c04HostDisc
)

// c04HostShape reads the formal argument list: required, optional, &rest.
func c04HostShape(f *lisp.LVal) (req, opt int, rest bool) {
	if len(f.Cells) == 0 {
		return 0, 0, false
	}
	mode := 0
	for _, s := range f.Cells[0].Cells {
		switch s.Str {
		case lisp.OptArgSymbol:
			mode = 1
		case lisp.VarArgSymbol:
			rest = true
			mode = 2
		case lisp.KeyArgSymbol:
			mode = 3
		default:
			switch mode {
			case 0:
				req++
			case 1:
				opt++
			}
		}
	}
	return
}

func c04HostDiscover() *c04HostDisc {
	d := &c04HostDisc{}
	var h *c04HostM
	fresh := func() {
		d.rebuilt++
		h, _ = c04HostNew(false)
		lisp.WithMaxSteps(20000)(h.m.Env) // nothing the pool provokes may run away
	}
	fresh()
	own := map[string]bool{} // FIDs of the check's own functions
	ownNames := append([]string{"hc-spin", "hc-f"}, c04HostCallbacks...)
	for _, n := range ownNames {
		own[h.m.Env.GetFun(lisp.Symbol(n)).FID()] = true
	}
	ownFIDs := func() string {
		var sb strings.Builder
		for _, n := range ownNames {
			if f := h.m.Env.Get(lisp.Symbol(n)); f.Type == lisp.LFun {
				sb.WriteString(f.FID())
			}
			sb.WriteString(" ")
		}
		return sb.String() + h.m.Env.Get(lisp.Symbol("hc-n")).String()
	}
	want := ""
	intact := func() bool { return ownFIDs() == want }
	note := func() {
		want = ownFIDs()
		for _, n := range ownNames {
			own[h.m.Env.GetFun(lisp.Symbol(n)).FID()] = true
		}
	}
	baseFresh := fresh
	fresh = func() {
		baseFresh()
		note()
	}
	note()
	// repair: the check's own definitions are loaded again (a new runtime when that fails)
	repair := func() {
		d.repaired++
		h.m.Env.InPackage(lisp.String(lisp.DefaultUserPackage))
		if v := h.m.Env.LoadString("hostcall-defs", c04HostDefs); v.Type == lisp.LError {
			fresh()
			return
		}
		note()
	}
	// attempt runs one candidate call on the discovery fast path (no transcript, pool
	// values parsed once per runtime); ok: it succeeded and the probe fired
	attempt := func(sp c04HostSpec, fun *lisp.LVal) (probes int, val *lisp.LVal, ok bool) {
		d.attempts++
		defer func() {
			if r := recover(); r != nil {
				// a Go panic of a builtin called directly with unsuitable arguments is
				// not this property's matter (C05); the candidate is dropped
				if len(d.panics) < 20 {
					d.panics = append(d.panics, fmt.Sprintf("%s: %v", sp, r))
				}
				fresh()
				probes, val, ok = 0, nil, false
			}
		}()
		env := h.m.Env
		args := make([]*lisp.LVal, len(sp.args))
		for i, a := range sp.args {
			ast := h.ast[a]
			if ast == nil {
				x, bad := h.forms([]string{a})
				if bad != "" {
					return 0, nil, false
				}
				ast = x[0]
				h.ast[a] = ast
			}
			if sp.kind == "function" {
				// pool values are made once per callee: what one candidate does to a
				// list or map is seen by the next ones of the same callee only
				v := h.val[a]
				if v == nil {
					if v = env.Eval(ast); v.Type == lisp.LError {
						return 0, nil, false
					}
					h.val[a] = v
				}
				ast = v
			}
			args[i] = ast
		}
		h.m.Trace = h.m.Trace[:0]
		h.m.Stderr.Reset()
		switch sp.kind {
		case "function":
			val = env.FunCall(fun, lisp.SExpr(args))
		case "operator":
			val = env.SpecialOpCall(fun, lisp.SExpr(args))
		default:
			val = env.MacroCall(fun, lisp.SExpr(args))
			for n := 0; val.Type == lisp.LMarkMacExpand && n < 8; n++ {
				val = env.Eval(val.Cells[0])
			}
		}
		probes = len(h.m.Trace)
		if sp.kind != "function" {
			// hc-v and hc-cb are the only globals of the check the form pool names (set!,
			// defconst, defun ... rebind them): put back after every such candidate
			env.PutGlobal(lisp.Symbol("hc-v"), lisp.Int(2))
			env.PutGlobal(lisp.Symbol("hc-cb"), env.GetFun(lisp.Symbol(c04HostCB)))
		}
		if env.Runtime.Package.Name != lisp.DefaultUserPackage {
			env.InPackage(lisp.String(lisp.DefaultUserPackage))
		}
		if len(env.Runtime.Stack.Frames) != 0 {
			fresh()
			return 0, nil, false
		}
		if !intact() {
			// the call redefined one of the check's own globals: they are put back for
			// the candidates that follow (the call itself is judged in runtimes of its own)
			repair()
		}
		if val == nil || val.Type == lisp.LError {
			return 0, nil, false
		}
		return probes, val, probes > 0
	}
	// explore enumerates argument vectors for one callee and keeps the best two
	found := false
	explore := func(kind, callee, name string, fun *lisp.LVal, derive bool) (derived []c04HostSpec) {
		d.callees++
		h.val = map[string]*lisp.LVal{}
		req, opt, rest := c04HostShape(fun)
		pool := c04HostValPool
		if kind != "function" {
			pool = c04HostFormPool
		}
		max := req + opt
		if rest {
			max += 2
		}
		if max > 4 {
			max = 4
		}
		if !derive && max > 2 {
			max = 2 // derived callees: short calls only
		}
		var best []c04HostSpec
		for n := req; n <= max; n++ {
			total := 1
			for i := 0; i < n; i++ {
				total *= len(pool)
			}
			stride := 1
			if total > 1200 {
				stride = total/1200 + 1
				for gcd(stride, len(pool)) != 1 {
					stride++
				}
			}
			for c := 0; c < total; c += stride {
				args := make([]string, n)
				for i, x := 0, c; i < n; i++ {
					args[i] = pool[x%len(pool)]
					x /= len(pool)
				}
				sp := c04HostSpec{kind: kind, callee: callee, name: name, args: args}
				probes, val, ok := attempt(sp, fun)
				if ok {
					sp.probes = probes
					best = append(best, sp)
				}
				if derive && len(derived) < 12 && val != nil && val.Type == lisp.LFun && !own[val.FID()] && val.FID() != fun.FID() {
					// the call gives a function value: a derived callee, named by the
					// source that rebuilds it in every later runtime
					src := "(" + callee + " " + strings.Join(args, " ") + ")"
					if fv := c04HostFunValue(h, src); fv != nil && !own[fv.FID()] {
						derived = append(derived, c04HostSpec{kind: c04HostKind(fv), callee: src, name: "value-of:" + name})
					}
				}
			}
		}
		found = len(best) > 0
		sort.SliceStable(best, func(i, j int) bool { return best[i].probes > best[j].probes })
		// the richest call, and the richest one of another argument count or callback position
		if len(best) > 0 {
			d.specs = append(d.specs, best[0])
			for _, sp := range best[1:] {
				if c04HostSig(sp) != c04HostSig(best[0]) {
					d.specs = append(d.specs, sp)
					break
				}
			}
		}
		return derived
	}
	reg := h.m.Env.Runtime.Registry
	seen := map[string]bool{}
	type cand struct {
		kind, callee, name string
	}
	var cands []cand
	for _, pn := range reg.PackageNames() {
		if pn == "verif" || pn == lisp.DefaultUserPackage {
			continue
		}
		pkg := reg.Package(pn)
		for _, sn := range pkg.SymbolNames() {
			f, ok := pkg.Symbol(sn)
			if !ok || f.Type != lisp.LFun || f.Builtin() == nil || seen[f.FID()] {
				continue
			}
			seen[f.FID()] = true
			cands = append(cands, cand{c04HostKind(f), pn + ":" + sn, pn + ":" + sn})
		}
	}
	var derived []c04HostSpec
	for _, c := range cands {
		fun := c04HostFunValue(h, c.callee)
		if fun == nil {
			continue
		}
		derived = append(derived, explore(c.kind, c.callee, c.name, fun, true)...)
	}
	// derived callees: the first call of each source whose value can be called with effect
	dseen := map[string]bool{}
	for n, ds := range derived {
		if dseen[ds.name] || n >= 200 {
			continue
		}
		fun := c04HostFunValue(h, ds.callee)
		if fun == nil {
			continue
		}
		explore(ds.kind, ds.callee, ds.name, fun, false)
		if found {
			dseen[ds.name] = true
			d.derived = append(d.derived, ds.callee)
		}
	}
	return d
}

func gcd(a, b int) int {
	for b != 0 {
		a, b = b, a%b
	}
	return a
}

// c04HostSig: the shape of an argument vector (which positions hold the callback).
func c04HostSig(sp c04HostSpec) string {
	var sb strings.Builder
	fmt.Fprint(&sb, len(sp.args))
	for i, a := range sp.args {
		if a == c04HostCB {
			fmt.Fprintf(&sb, ",%d", i)
		}
	}
	return sb.String()
}

// c04HostFunValue evaluates src and returns its value when it is a function.
func c04HostFunValue(h *c04HostM, src string) (f *lisp.LVal) {
	defer func() {
		if r := recover(); r != nil {
			f = nil
		}
	}()
	v := h.m.Env.LoadString("hostcall-callee", src)
	if v.Type != lisp.LFun {
		return nil
	}
	return v
}

// --- the case ---------------------------------------------------------------------

// c04HostRun1 makes the call twice in one fresh runtime.  budget > 0: under
// WithMaxSteps(budget), set once everything the calls need has been prepared;
// cancelAt > 0: each call is cancelled at its cancelAt-th step.
func c04HostRun1(sp c04HostSpec, entry string, budget, cancelAt int64) (calls [2][]c04HostSeg, setup string) {
	// the plain entry points run under the root context; it is what counts steps in
	// the unlimited run and what is cancelled
	h, bad := c04HostNew(budget == 0 && entry != "FunCallContext")
	if bad != "" {
		return calls, bad
	}
	fun := c04HostFunValue(h, sp.callee)
	if fun == nil {
		return calls, "callee " + sp.callee + " is not a function value"
	}
	var argv [2][]*lisp.LVal
	for i := range argv {
		if argv[i], bad = h.argv(sp); bad != "" {
			return calls, bad
		}
	}
	if budget > 0 {
		if v := lisp.WithMaxSteps(budget)(h.m.Env); v != nil && v.Type == lisp.LError {
			return calls, "WithMaxSteps failed: " + v.String()
		}
	}
	for i := range calls {
		calls[i] = h.call(sp, entry, fun, argv[i], cancelAt)
	}
	return calls, ""
}

func c04HostBudgets(r *fw.RNG, N int64) []int64 {
	seen := map[int64]bool{}
	var out []int64
	for _, n := range append([]int64{1, 2, N - 1, N, N + 1}, c04CrossKs(r, N, 9)...) {
		if n >= 1 && !seen[n] {
			seen[n] = true
			out = append(out, n)
		}
	}
	return out
}

func c04HostSpecs(w *fw.W) []c04HostSpec {
	c04HostOnce.Do(func() {
		t0 := time.Now()
		c04HostAll = c04HostDiscover()
		w.Logf("host-call discovery: %d callees, %d attempts, %d calls kept, %d runtimes, %d repairs, %v", c04HostAll.callees, c04HostAll.attempts, len(c04HostAll.specs), c04HostAll.rebuilt, c04HostAll.repaired, time.Since(t0))
		for _, sp := range c04HostAll.specs {
			w.Logf("  %s (%d probes)", sp, sp.probes)
		}
		for _, p := range c04HostAll.panics {
			w.Logf("  go panic: %s", p)
		}
		w.Logf("  calls giving a function value: %s", strings.Join(c04HostAll.derived, "  "))
	})
	return c04HostAll.specs
}

func c04HostCalls(w *fw.W, idx int) {
	specs := c04HostSpecs(w)
	d := c04HostAll
	if idx/7 == 0 || w.Verbose {
		w.Max("hostcall_registry_callees_tried", int64(d.callees))
		w.Max("hostcall_discovery_attempts", int64(d.attempts))
		w.Max("hostcall_calls_that_reenter_the_evaluator", int64(len(specs)))
		for _, sp := range specs {
			w.SetAdd("hostcall_callees", sp.kind+" "+sp.name)
		}
		for _, p := range d.panics {
			w.SetAdd("hostcall_discovery_go_panics(dropped, not judged)", p)
		}
	}
	if len(specs) < 20 {
		w.Inconclusive(fmt.Sprintf("host-call discovery found only %d calls that re-enter the evaluator", len(specs)))
		return
	}
	r := w.RNG(idx, "hostcall")
	const perCase = 3
	for j := 0; j < perCase; j++ {
		at := (idx/7)*perCase + j + int(w.Seed%1000)*7
		sp := specs[at%len(specs)]
		ents := c04HostEntries[sp.kind]
		entry := ents[(at/len(specs)+j+int(w.Seed))%len(ents)]
		if sp.kind == "function" {
			// other callbacks in the callback positions, when the call accepts them
			alt := sp
			alt.args = append([]string(nil), sp.args...)
			for i, a := range alt.args {
				if a == c04HostCB {
					alt.args[i] = fw.Pick(r, c04HostCallbacks)
				}
			}
			if ref, bad := c04HostRun1(alt, entry, 0, 0); bad == "" && !ref[0][len(ref[0])-1].t.IsErr && len(ref[0][0].t.Trace) > 0 {
				sp = alt
			}
			w.Eval(1)
		}
		if !c04HostCase(w, r, sp, entry) {
			return
		}
	}
}

// c04HostCase judges one call through one entry point; false: a violation was reported.
func c04HostCase(w *fw.W, r *fw.RNG, sp c04HostSpec, entry string) bool {
	class := entry + ":" + sp.name
	ref, bad := c04HostRun1(sp, entry, 0, 0)
	w.Eval(1)
	if bad != "" {
		w.Logf("host call %s not usable: %s", sp, bad)
		w.Count("hostcall_skipped", 1)
		return true
	}
	show := func(calls [2][]c04HostSeg) string {
		var sb strings.Builder
		for i, c := range calls {
			for _, s := range c {
				fmt.Fprintf(&sb, "  call #%d %s: %s %s after %d steps (per-evaluation counter %d)\n    trace %s\n", i+1, s.entry, s.t.Outcome(), s.t.Msg, s.n, s.t.Steps, s.stamped(-1))
			}
		}
		return sb.String()
	}
	head := fmt.Sprintf("host call through %s: %s\ndefinitions:%s", entry, sp, c04HostDefs)
	w.Logf("%s\nunlimited:\n%s", head, show(ref))
	swallows := sp.swallows()
	restarted := false
	for i, c := range ref {
		for _, s := range c {
			if s.t.IsErr {
				w.Logf("host call %s not usable: reference ends in %s %s", sp, s.t.Cond, s.t.Msg)
				w.Count("hostcall_skipped", 1)
				return true
			}
			if s.bad != "" {
				w.Violation("step-counter-not-monotone", s.bad+" in "+sp.String(), head+"\n"+show(ref))
				return false
			}
			// one top-level entry: the per-evaluation counter starts once
			if s.ones > 1 || (s.n > 0 && s.t.Steps != s.n) {
				w.Violation("hostcall-step-counter-restarts-inside-evaluation:"+class,
					fmt.Sprintf("%s, call #%d (%s): one top-level entry took %d steps by the lifetime counter, but the per-evaluation counter restarted %d times and reads %d at the end", sp, i+1, s.entry, s.n, s.ones, s.t.Steps),
					head+"\nunlimited:\n"+show(ref))
				restarted = true // the budget matrix below is judged all the same (N and stamps come from the lifetime counter)
			}
		}
	}
	if len(ref[0]) != len(ref[1]) {
		w.Count("hostcall_skipped", 1)
		return true
	}
	var N int64
	for _, s := range ref[0] {
		if s.n > N {
			N = s.n
		}
	}
	if N == 0 || N > 5000 {
		w.Count("hostcall_skipped", 1)
		return true
	}
	// judge compares one run against the reference, segment by segment.  limit: the
	// step at which the run has to stop (budget n, or k for a cancellation).
	judge := func(got [2][]c04HostSeg, what string, limit int64, cancel bool) bool {
		where := fmt.Sprintf("%s through %s %s", sp, entry, what)
		detail := func() string {
			return head + "\nunlimited:\n" + show(ref) + what + ":\n" + show(got)
		}
		cond, kind := "step-limit-exceeded", "budget"
		if cancel {
			cond, kind = "context-cancelled", "cancel"
		}
		for i := range got {
			second := ""
			if i == 1 {
				second = ":second-call"
			}
			left := limit // cancellation indices run over the segments of a call
			for j, g := range got[i] {
				if j >= len(ref[i]) {
					break
				}
				f := ref[i][j]
				lim := left
				if !cancel {
					lim = limit // every top-level entry has the full budget
				}
				cut := lim
				if cancel {
					cut = lim - 1 // the failing poll is made while the counter already reads k
				}
				want := f.stamped(cut)
				have := g.stamped(-1)
				if swallows {
					have = g.stamped(cut)
				}
				if g.bad != "" {
					w.Violation("step-counter-not-monotone", g.bad+" in "+where, detail())
					return false
				}
				if have != want {
					w.Violation("hostcall-"+kind+"-trace-not-a-prefix:"+class+second, fmt.Sprintf("%s, call #%d (%s): what ran is not the unlimited run cut at step %d", where, i+1, g.entry, cut), detail())
					return false
				}
				enough := lim >= f.n
				if cancel {
					enough = lim > f.n
				}
				if enough {
					if g.t.Outcome() != f.t.Outcome() {
						key := "hostcall-sufficient-" + kind + "-changes-outcome:" + class + second
						if i == 1 && g.t.IsErr && g.t.Cond == cond && !cancel {
							key = "hostcall-budget-not-refilled:" + class
						}
						w.Violation(key, fmt.Sprintf("%s, call #%d (%s): %s although the unlimited run needs %d steps", where, i+1, g.entry, g.t.Outcome(), f.n), detail())
						return false
					}
					left -= f.n
					continue
				}
				if g.t.IsErr {
					if g.t.Cond != cond {
						w.Violation("hostcall-"+kind+"-wrong-condition:"+class+second, fmt.Sprintf("%s, call #%d (%s): ended with %s", where, i+1, g.entry, g.t.Cond), detail())
						return false
					}
				} else if !swallows {
					w.Violation("hostcall-"+kind+"-no-error:"+class+second, fmt.Sprintf("%s, call #%d (%s): returned %s after %d steps although the unlimited run needs %d steps", where, i+1, g.entry, g.t.Outcome(), g.n, f.n), detail())
					return false
				}
				if !swallows && !cancel && g.n < lim {
					w.Violation("hostcall-budget-not-used:"+class+second, fmt.Sprintf("%s, call #%d (%s): stopped after %d steps", where, i+1, g.entry, g.n), detail())
					return false
				}
				// (a builtin may go on calling after a callback failed - insert-sorted finishes
				// its binary search and reports the last error - so steps ATTEMPTED beyond
				// the limit are not judged: each of them fails, as the trace shows)
				if !swallows && cancel && g.n < lim {
					w.Violation("hostcall-cancel-premature:"+class+second, fmt.Sprintf("%s, call #%d (%s): ended in %s after %d steps", where, i+1, g.entry, cond, g.n), detail())
					return false
				}
				break // the call ended here: nothing of it is left to run
			}
		}
		return true
	}
	for _, n := range c04HostBudgets(r, N) {
		got, bad := c04HostRun1(sp, entry, n, 0)
		w.Eval(1)
		if bad != "" {
			w.Violation("hostcall-setup-not-repeatable:"+class, bad, head)
			return false
		}
		if !judge(got, fmt.Sprintf("under step budget %d", n), n, false) {
			return false
		}
		w.Count("hostcall_budget_runs", 1)
		w.CoverKey(fmt.Sprintf("hostcall|%s|%s|budget=%d/6", sp.name, entry, n*6/(N+2)))
	}
	for _, k := range c04CrossKs(r, N, 6) {
		got, bad := c04HostRun1(sp, entry, 0, k)
		w.Eval(1)
		if bad != "" {
			w.Violation("hostcall-setup-not-repeatable:"+class, bad, head)
			return false
		}
		if !judge(got, fmt.Sprintf("cancelled at step %d", k), k, true) {
			return false
		}
		w.Count("hostcall_cancel_runs", 1)
		w.CoverKey(fmt.Sprintf("hostcall|%s|%s|cancel=%d/4", sp.name, entry, k*4/(N+1)))
	}
	if restarted {
		return false
	}
	w.CoverKey(fmt.Sprintf("hostcall-spec|%s|%s|%s", entry, sp.callee, strings.Join(sp.args, " ")))
	w.Max("hostcall_max_unlimited_steps", N)
	if w.WantSample() && r.Intn(4) == 0 {
		w.Sample(map[string]any{"program": "host call through " + entry, "source": sp.String(), "unlimited_steps": N, "stamped_trace": ref[0][0].stamped(-1)})
	}
	return true
}
