package props

// C17 — minification preserves program meaning.
//
// One case = one generated session (1..4 files, 1..4 packages) of a statically
// scoped program, minified under the command's default options and under up to
// three further configurations (rename exports, rename parameters, exclusions),
// each judged by: determinism of repeated Minify calls, readability of the
// output, twin transcripts original vs minified in fresh runtimes, and
// inversion of the reported renames by the symbol map.

import (
	"fmt"
	"runtime"
	"sort"
	"strings"
	"time"

	"verifharness/fw"
)

func init() {
	fw.Register(&fw.Prop{
		ID: "C17", Level: "exploration",
		Rule: "one case = one generated session of a statically scoped program: 1-4 files minified together and loaded in order, 1-4 packages (in-package/export/use-package/qualified names), every binding form (let let* flet labels lambda defun defmacro macrolet dotimes), shadowing of locals/parameters/globals/builtins, closures and set!, labels mutual recursion, defmacro quasiquote templates naming globals, quoted data and identifiers spelled like renamed names or like minifier output (x1 x2 ...), excluded names, keyword arguments only when parameters are never renamed; each session is judged under the command defaults plus up to three of {rename-exports, rename-params, exclusions}; the files are named plainly (f1.lisp ...) in a third of the sessions and otherwise placed in directories (one level, nested, shared), with equal base names in different directories, absolute / relative / mixed spellings, ./ and ../ prefixes, spaces, dots, non-ASCII letters and | : \\ # in names, missing or doubled extensions; a third of the multi-file cases hand the files to Minify in another order than the load order (reversed, sorted by path, rotated); a later file may start with a copy under another package name, laid out alike, of the segment that opens an earlier file (equal definitions at equal line:column in two files); about a quarter of the sessions contain one or two groups 'template names resolved at the expansion site': a defmacro of the using package or of a library package (exported and imported, or called as lib:macro; written in the file of the call or in an earlier one) whose template names a helper function and a global variable that only the USING package defines (in the same or another file), in call-head, argument, let/let* initialiser inside bracket or parenthesised binding lists, flet/labels binding bodies, lambda bodies, function-value arguments of funcall/apply/map, bracketed cond clauses, thread-first steps, dotimes bodies and the binder-macro shape (m name expr body...); about a fifth of the sessions (two fifths of the multi-file ones) contain one or two groups 'a name defined more than once, referenced from elsewhere': an earlier file defines one package-level name two or three times in one package (defun, (set 'n ()) as a declaration, set of an integer, set of a lambda, defmacro; every sequence with at least one defun), every form computing something else, nothing but definitions between them, and the name is referenced from the file being written and from all later code (call, funcall/apply of #'n, variable read, macro call; same package, pkg:n, export + use-package; at top level and in function bodies), sometimes from a function of a still earlier file that is only called afterwards, and - when the last form is a defun or defmacro - also in the defining file after the last definition; never where defect D8 applies (code running between the definitions; any other mention in the defining file when a set follows a defun). A (session, configuration) pair is DISTINCT by (configuration, files, packages, outcome class of the original run, set of construct tags actually emitted) and counts only when the minifier reported at least one rename (otherwise trivial).",
		Assumptions: []string{
			"the real evaluator (a FRESH runtime per run, files loaded in order with LoadString, core language without the stdlib packages) is the reference for 'meaning'; the check compares the original and the minified run and does not model scoping itself",
			"transcripts compare the value (function values only as 'is a function'), the Runtime.Stderr bytes (skipped when the original printed a function value) and the error condition name; error messages and stack traces are not compared because they legitimately spell renamed symbols",
			"generated macros are hygienic by construction (template binders are never used at call sites; a macro is called only where none of its template's free names is locally rebound and only from a package in which those names denote the same globals - for the expansion-site family: only from the one package that defines them, no other package of the session defines them, and they are never passed to funcall as quoted symbols); no symbol is computed at run time; no defun/defmacro/set occurs inside a function body; no name changes what it resolves to while the session loads",
			"the minifier is configured exactly as cmd/minify.go configures it (compact, comments stripped); PreserveParams=false is used only for sessions that pass no keyword argument",
			"interpretations that decide whether some findings count: (a) a quasiquote form evaluated as DATA is quoted data whose value must be preserved; (b) a defun inside a top-level let/progn is not 'inside a function body'; (c) defining the same global twice (same package) is one statically resolved binding assigned twice; (d) an unrenamed token that merely is spelled like an assigned name is counted, not judged (the statement speaks of the renames the map reports)",
			"the path strings given to Minify and the order of the inputs are not part of the program: the twin runs load the sources with LoadString under the same names and open no file, so every naming and every input order of the same sources must yield programs that behave alike; two inputs always have different cleaned paths; the input order is left equal to the load order when some name is defined in two files of one package (only the input order can then tell which definition is the later one)",
			"finding keys are derived from the program each failure shrinks to; a failure that disappears when the shrunk session's files are renamed f1.lisp, f2.lisp, ... is keyed by the features of the naming that are left (file-naming:<features>) before any program-shaped family is considered; a failure with the same cheap pre-signature as two earlier ones of the same worker that shrank to one key is reported under that key without shrinking",
		},
		Cases: func(tier string) int {
			if tier == "thorough" {
				return 120_000
			}
			return 8_000
		},
		Run:    c17Run,
		Driver: c17Driver,
		Init: func(w *fw.W) {
			// one worker process per core already; the evaluator is single-threaded,
			// so keep the Go runtime (GC workers) from oversubscribing the machine
			runtime.GOMAXPROCS(2)
			w.State = c17NewState()
		},
		MinDistinct: func(tier string) int {
			if tier == "thorough" {
				return 100_000
			}
			return 8_000
		},
	})
}

type c17State struct {
	shrinks int
	probes  int
	memo    map[string]string // pre-signature -> key ("" once two shrinks disagreed)
	memoN   map[string]int    // pre-signature -> number of agreeing shrinks
	// shrunk programs of the case being run (one session is minified under
	// several configurations; a defect that does not depend on the
	// configuration is shrunk and reported once per case)
	caseIdx  int
	caseMins []c17CaseMin
	seenKey  map[string]bool
	// known-defect probes: run once per worker; the defects they find present
	// are kept out of the random workload
	probeRes   []c17ProbeResult
	present    map[string]bool
	probeEvals int
}

func c17NewState() *c17State {
	st := &c17State{memo: map[string]string{}, memoN: map[string]int{}}
	st.probeRes, st.present = c17RunProbes(&st.probeEvals)
	c17PresentNow = st.present
	return st
}

// c17PresentNow: the defects whose probes fail on the tree under test (per worker process).
var c17PresentNow map[string]bool

// c17FamilyDefects maps the family of a shrunk failing program to the defects that
// produce that shape.
var c17FamilyDefects = map[string][]string{
	"defun-inside-toplevel-let":                {"D7"},
	"name-defined-twice-in-one-file":           {"D8"},
	"name-defined-in-two-files-of-one-package": {"D8", "D9"},
	"same-name-in-two-packages":                {"D9", "D8"},
	"export+use-package+builtin-name":          {"D12"},
	"export+use-package-across-files":          {"D10", "D11"},
	"export+use-package-in-one-file":           {"D2"},
	"export+use-package-any-layout":            {"D2"},
	"qualified-name-inside-bracket-list":       {"D3"},
	"macrolet-template":                        {"D6"},
	"defmacro-template":                        {"D5"},
	"quasiquote-data":                          {"D4"},
}

type c17CaseMin struct {
	group string
	min   *c17Case
	key   string
}

// c17ProbeBudget bounds the shrinking work of one worker (probes = oracle
// re-runs).  It is a count, not a clock.
func c17ProbeBudget(tier string) int {
	if tier == "thorough" {
		return 150_000
	}
	return 15_000
}

var c17PreTags = []string{"use-package", "export", "in-package", "macrolet", "macrolet-template-free-name", "defmacro",
	"quasiquote-as-data", "redefined-global", "defun-inside-toplevel-let", "template-name-equals-param",
	"qualified-call", "qualified-var", "same-name-other-pkg", "template-global-fn", "template-global-var",
	"site-macro", "site-macro:imported", "site-macro:qualified", "site-macro:macro-and-helpers-in-different-files"}

// c17PreSignature is a cheap description of a failing case, used only to
// avoid shrinking the same failure hundreds of times.
func c17PreSignature(sess *c17Session, cfg c17Cfg, f c17Finding) string {
	var sb strings.Builder
	sb.WriteString(f.Group + "|" + f.Cat + "|" + f.Sub + "|" + cfg.name() + "|" + strings.Join(sess.Hazard, ",") + "|")
	if len(sess.Files) > 1 {
		sb.WriteString("multi-file,")
	}
	for _, t := range c17PreTags {
		if sess.Used[t] > 0 {
			sb.WriteString(t + ",")
		}
	}
	sb.WriteString("|" + strings.Join(c17PathFeatures(sess.Paths), ","))
	if sess.Used["twin-file"] > 0 {
		sb.WriteString("|twin-file")
	}
	for _, rd := range sess.Redef {
		sb.WriteString("|redef:" + rd.kinds() + "/" + rd.Access)
	}
	return sb.String()
}

// c17ChooseClasses decides which construct families a case may use.
func c17ChooseClasses(r *fw.RNG) map[string]bool {
	on := map[string]bool{}
	for _, c := range c17AllClasses {
		if c17HazardClasses[c] {
			continue
		}
		p := 3 // of 4
		switch c {
		case "multifile", "packages":
			p = 2
		case "final-error":
			p = 1
		case "global-shadows-builtin", "setbang-global", "redefine-global":
			p = 2
		}
		on[c] = r.Chance(p, 4)
	}
	// hazards are rare so that most cases exercise only constructs believed
	// sound and a frequent known defect cannot mask the rest
	hz := make([]string, 0, len(c17HazardClasses))
	for c := range c17HazardClasses {
		hz = append(hz, c)
	}
	sort.Strings(hz)
	if r.Chance(1, 6) {
		on[fw.Pick(r, hz)] = true
		if r.Chance(1, 6) {
			on[fw.Pick(r, hz)] = true
		}
	}
	return on
}

// c17BuildCase regenerates case idx: the session, its rendered sources and the
// configurations it is minified under.
func c17BuildCase(r *fw.RNG, present map[string]bool) (sess *c17Session, srcs []string, cfgs []c17Cfg) {
	seed := r.Uint64()
	on := c17ChooseClasses(r)
	kwOK := r.Bool()
	// a hazard family whose defect is present in the tree stays out of the
	// random workload (the defect is reported by its probes instead)
	dropped := map[string]int{}
	for h, d := range c17HazardDefect {
		if on[h] && present[d] {
			on[h] = false
			dropped[d+":hazard-family-"+h]++
		}
	}
	sess = c17Generate(seed, on, kwOK, present)
	for k, n := range dropped {
		sess.Excluded[k] += n
	}
	lay := &c17Layout{r: c17NewRng(r.Uint64())}
	if r.Chance(1, 5) {
		lay = nil // canonical layout
	}
	srcs = make([]string, len(sess.Files))
	var layAt []c17Rng // state of the layout stream when each file was started
	for i, f := range sess.Files {
		if lay != nil {
			layAt = append(layAt, *lay.r)
			if t, ok := sess.TwinOf[i]; ok && t < i {
				// written after the template of file t: laid out by the same hand
				// (same stream state, so the copied forms break lines alike)
				st := layAt[t]
				srcs[i] = c17RenderFile(f, &c17Layout{r: &st})
				continue
			}
		}
		srcs[i] = c17RenderFile(f, lay)
	}

	// configurations: always the command defaults
	cfgs = []c17Cfg{{PreserveParams: true}}
	if r.Chance(1, 2) {
		cfgs = append(cfgs, c17Cfg{PreserveParams: true, RenameExports: true})
	}
	if !kwOK {
		cfgs = append(cfgs, c17Cfg{PreserveParams: false, RenameExports: r.Chance(1, 3)})
	}
	if r.Chance(2, 5) && len(sess.Names) > 0 {
		n := r.Range(1, 3)
		var ex []string
		for i := 0; i < n; i++ {
			ex = append(ex, fw.Pick(r, sess.Names))
		}
		sort.Strings(ex)
		cfgs = append(cfgs, c17Cfg{PreserveParams: kwOK || r.Bool(), Excl: ex})
	}
	// how the files are named, and in which order the minifier gets them (both
	// drawn last and from a stream of their own: the sessions themselves are
	// the ones generated before these dimensions existed)
	pr := c17NewRng(seed ^ 0x70617468732b6f72)
	sess.Paths = c17LayoutPaths(pr, len(sess.Files), sess.TwinOf)
	for _, ft := range c17PathFeatures(sess.Paths) {
		sess.Used["paths:"+ft]++
	}
	if len(sess.Files) > 1 && pr.chance(1, 3) {
		// Which of two definitions of one name in two files of a package is the
		// later one is a matter of load order, which the minifier can only take
		// from the input order: such sessions keep it.
		if !c17Signature(&c17Case{Files: sess.Files}).flags["name-defined-in-two-files-of-one-package"] {
			order := c17Pick(pr, []string{"reversed", "sorted", "rotated"})
			if !c17IsIdentity(c17InputOrder(order, sess.Paths)) {
				for i := range cfgs {
					cfgs[i].Order = order
				}
				sess.Used["input-order:"+order]++
			}
		}
	}
	return sess, srcs, cfgs
}

// c17XProcCases is how many leading cases are re-minified by the driver
// process to compare outputs ACROSS processes.
const c17XProcCases = 400

func c17OutputHash(m c17MinResult) uint64 {
	var sb strings.Builder
	for _, o := range m.Outs {
		sb.WriteString(o)
		sb.WriteString("\x00")
	}
	for _, e := range m.Map.Entries {
		fmt.Fprintf(&sb, "%s=%s/%s@%s:%d:%d;", e.Minified, e.Original, e.Kind, e.File, e.Line, e.Col)
	}
	return fw.HashString(sb.String())
}

// c17Driver re-minifies the first cases in the driver process and compares
// with what the worker processes produced (determinism across processes: Go
// randomises map layout per process).
func c17Driver(d *fw.D) {
	c17RedefFloor(d)
	have := d.Sets["cross_process_output_hashes"]
	if len(have) == 0 {
		return
	}
	total := d.Prop.Cases(d.Tier)
	ev := 0
	_, present := c17RunProbes(&ev)
	d.Eval(ev)
	for idx := 0; idx < c17XProcCases && idx < total; idx++ {
		sess, srcs, cfgs := c17BuildCase(d.RNG(idx, "main"), present)
		for _, cfg := range cfgs {
			m := c17Minify(sess.Paths, srcs, cfg)
			d.Eval(1)
			if m.Err != nil {
				continue
			}
			// inputs that already differ between two runs in ONE process are reported by the workers
			unstable := false
			for k := 0; k < 3; k++ {
				if m2 := c17Minify(sess.Paths, srcs, cfg); m2.Err != nil || c17OutputHash(m2) != c17OutputHash(m) {
					unstable = true
				}
			}
			if unstable {
				d.Count("cross_process_skipped_unstable_in_process", 1)
				continue
			}
			d.Count("cross_process_comparisons", 1)
			ok := false
			prefix := fmt.Sprintf("%d|%s|", idx, cfg.name())
			found := false
			for h := range have {
				if strings.HasPrefix(h, prefix) {
					found = true
					if h == fmt.Sprintf("%s%016x", prefix, c17OutputHash(m)) {
						ok = true
					}
				}
			}
			if found && !ok {
				sig := "single-file"
				if len(srcs) > 1 {
					sig = "multi-file"
				}
				d.Violation("nondeterministic-across-processes:"+sig,
					fmt.Sprintf("case %d under %s: the driver process and the worker process minified the same bytes differently", idx, cfg.name()),
					"sources:\n"+strings.Join(srcs, "\n-----\n")+"\ndriver output:\n"+strings.Join(m.Outs, "-----\n"))
			}
		}
	}
}

func c17Run(w *fw.W, idx int) {
	st, _ := w.State.(*c17State)
	if st == nil {
		st = c17NewState()
		w.State = st
	}
	if idx == 0 {
		c17ReportProbes(w, st)
	}
	sess, srcs, cfgs := c17BuildCase(w.RNG(idx, "main"), st.present)
	for what, n := range sess.Excluded {
		w.Count("excluded_from_random_workload:"+what, int64(n))
	}

	if !c17InDomain(&c17Case{Files: sess.Files, Paths: sess.Paths}) {
		w.Count("skipped_generated_out_of_domain", 1)
		return
	}
	evals := 0
	t0 := time.Now()
	orig := c17Eval(sess.Paths, srcs)
	evals++
	w.Logf("[timing] original evaluation %v (steps are not compared)", time.Since(t0))
	outcome := "ok"
	last := orig.Files[len(orig.Files)-1]
	if last.IsErr {
		outcome = "err:" + last.Cond + "/" + c17MsgClass(last.Msg)
	}
	w.SetAdd("original_outcomes", outcome)
	w.Count("original_outcome:"+outcome, 1)
	if last.IsErr {
		w.Count("original_ends_in_error", 1)
	} else {
		w.Count("original_runs_to_completion", 1)
	}
	var tags []string
	for t := range sess.Used {
		tags = append(tags, t)
		w.SetAdd("constructs_emitted", t)
	}
	sort.Strings(tags)
	shape := strings.Join(tags, ",")
	w.Max("max_files", int64(len(srcs)))
	w.Max("max_packages", int64(sess.NPkgs))
	if last.IsErr && c17MsgClass(last.Msg) == "unbound-symbol" {
		w.Count("original_unbound_symbol", 1)
	}
	for _, rd := range sess.Redef {
		w.Count("redef_groups_generated", 1)
		w.SetAdd("redef_kinds_generated", rd.kinds())
		w.SetAdd("redef_access_generated", rd.Access)
		if last.IsErr {
			w.Count("redef_groups_in_sessions_whose_original_ends_in_error", 1)
		}
	}

	for _, cfg := range cfgs {
		t1 := time.Now()
		findings, m1, _ := c17Judge(sess.Paths, srcs, cfg, &orig, &evals, 2)
		w.Logf("[timing] judge %s: %v, %d findings", cfg.name(), time.Since(t1), len(findings))
		w.SetAdd("configurations", cfg.name())
		w.Count("configurations_run", 1)
		w.Count("renames_reported", int64(len(m1.Map.Entries)))
		w.Max("max_renames_in_session", int64(len(m1.Map.Entries)))
		if idx < c17XProcCases && m1.Err == nil {
			w.SetAdd("cross_process_output_hashes", fmt.Sprintf("%d|%s|%016x", idx, cfg.name(), c17OutputHash(m1)))
		}
		nontrivial := len(m1.Map.Entries) > 0
		c17RedefObserve(w, sess, cfg, m1)
		for _, f := range findings {
			if f.Cat == "unaligned" {
				w.Count("map_check_unaligned_not_judged", 1)
				continue
			}
			if f.Cat == "ambiguous-not-judged" {
				w.Count("sessions_with_unrenamed_token_spelled_like_assigned_name_not_judged", 1)
				continue
			}
			c17Report(w, st, idx, sess, srcs, cfg, f, &evals, !last.IsErr)
		}
		if c17PrintsFunction(allStderr(orig)) {
			w.Count("stderr_not_compared_function_printed", 1)
		}
		if nontrivial {
			w.CoverKey(fmt.Sprintf("cfg=%s|files=%d|pkgs=%d|out=%s|shape=%s", cfg.name(), len(srcs), sess.NPkgs, outcome, shape))
		} else {
			w.Count("trivial_no_renames", 1)
		}
	}
	w.Eval(evals)
	if w.WantSample() && len(srcs) > 1 && outcome == "ok" {
		m := c17Minify(sess.Paths, srcs, cfgs[len(cfgs)-1])
		w.Sample(map[string]any{"idx": idx, "config": cfgs[len(cfgs)-1].name(), "exclusions": cfgs[len(cfgs)-1].Excl,
			"original": srcs, "minified": m.Outs, "observed": orig.String(), "renames": len(m.Map.Entries)})
	}
	if w.Verbose {
		for i, s := range srcs {
			w.Logf("---- %s ----\n%s", sess.Paths[i], s)
		}
		w.Logf("original run:\n%s", orig.String())
	}
}

// c17ReportProbes reports the failing known-defect probes (once per run: it is
// called by the worker that runs case 0).
func c17ReportProbes(w *fw.W, st *c17State) {
	w.Eval(st.probeEvals)
	for _, r := range st.probeRes {
		w.Count("known_defect_probes_run", 1)
		if r.Finding == nil {
			w.SetAdd("known_defect_probes_passing", r.Probe.key())
			continue
		}
		if c17QuietDefects[r.Probe.Defect] {
			w.Count("quiet_probes_failing_not_reported", 1)
			w.SetAdd("quiet_probes_failing_not_reported", r.Probe.key())
			continue
		}
		w.Count("known_defect_probes_failing", 1)
		one := strings.ReplaceAll(strings.TrimSpace(strings.Join(r.Probe.Files, " | ")), "\n", " ")
		w.Violation(r.Probe.key(), fmt.Sprintf("%s under %s: %s", r.Finding.Cat, r.Probe.Cfg.name(), one), r.Detail)
	}
	for _, d := range c17SortedKeys(st.present) {
		w.SetAdd("defects_present_in_this_tree_excluded_from_random_workload", d)
	}
}

func allStderr(o c17Obs) string {
	var sb strings.Builder
	for _, f := range o.Files {
		sb.WriteString(f.Stderr)
	}
	return sb.String()
}

// c17Report shrinks a failing case, derives the finding key and records it.
func c17Report(w *fw.W, st *c17State, idx int, sess *c17Session, srcs []string, cfg c17Cfg, f c17Finding, evals *int, origOK bool) {
	if st.caseIdx != idx {
		st.caseIdx, st.caseMins = idx, nil
	}
	for _, cm := range st.caseMins {
		if cm.group != f.Group {
			continue
		}
		alt := cm.min.clone()
		alt.Cfg = cfg
		det := 0
		if f.Group == "det" {
			det = 10
		}
		fs, _, _ := c17Judge(alt.Paths, alt.render(), alt.Cfg, nil, evals, det)
		for _, x := range fs {
			if x.Group == f.Group && x.Cat != "unaligned" && x.Cat != "ambiguous-not-judged" {
				// the program this case already shrank to fails under this configuration too
				w.Count("violations_same_case_other_configuration", 1)
				return
			}
		}
	}
	pre := c17PreSignature(sess, cfg, f)
	if st.memoN == nil {
		st.memoN = map[string]int{}
	}
	if k, ok := st.memo[pre]; ok && k != "" && (st.memoN[pre] >= 2 || st.probes >= c17ProbeBudget(w.Tier)) {
		w.Count("violations_not_shrunk_same_presignature", 1)
		w.Count("finding:"+k, 1)
		w.Violation(k, fmt.Sprintf("%s under %s (not shrunk: same pre-signature as %d earlier case(s) of this worker that shrank to this key)", f.Cat, cfg.name(), st.memoN[pre]),
			"sources:\n"+strings.Join(srcs, "\n-----\n")+"\n"+f.Detail)
		return
	}
	if st.probes >= c17ProbeBudget(w.Tier) {
		w.Count("violations_not_shrunk_budget", 1)
		k := "unshrunk:" + f.Cat
		w.Count("finding:"+k, 1)
		w.Violation(k, fmt.Sprintf("%s under %s (shrink budget of this worker exhausted)", f.Cat, cfg.name()),
			"sources:\n"+strings.Join(srcs, "\n-----\n")+"\n"+f.Detail)
		return
	}
	cs := &c17Case{Files: c17CloneFiles(sess.Files), Paths: sess.Paths, Cfg: cfg}
	sh := &c17Shrinker{group: f.Group, cat: f.Cat, max: 700, evals: evals, origOK: origOK}
	t2 := time.Now()
	min, mf := sh.shrink(cs)
	w.Logf("[timing] shrink %s/%s: %v, %d probes", f.Group, f.Cat, time.Since(t2), sh.probes)
	st.shrinks++
	st.probes += sh.probes
	w.Count("violations_shrunk", 1)
	w.Count("shrink_probes", int64(sh.probes))
	if mf == nil {
		// not reproducible from the canonical rendering: report with the laid-out text
		key := "layout-dependent:" + f.Cat
		w.Violation(key, fmt.Sprintf("%s under %s; failure does not reproduce after re-rendering the session canonically", f.Cat, cfg.name()),
			"sources as minified:\n"+strings.Join(srcs, "\n-----\n")+"\n"+f.Detail)
		return
	}
	key := c17Key(min, mf, evals)
	w.Count("finding:"+key, 1)
	if st.seenKey == nil {
		st.seenKey = map[string]bool{}
	}
	if !st.seenKey[key] {
		// one example case per key and worker, so that every key can be replayed
		st.seenKey[key] = true
		w.SetAdd("finding_example_case", fmt.Sprintf("%s @case %d", key, idx))
	}
	st.caseMins = append(st.caseMins, c17CaseMin{group: f.Group, min: min, key: key})
	if old, ok := st.memo[pre]; !ok {
		st.memo[pre] = key
		st.memoN[pre] = 1
	} else if old == key {
		st.memoN[pre]++
	} else {
		st.memo[pre] = "" // disagreement: always shrink this pre-signature
	}
	msrcs := min.render()
	m := c17Minify(min.Paths, msrcs, min.Cfg)
	var sb strings.Builder
	fmt.Fprintf(&sb, "configuration: %s exclusions=%v\n", min.Cfg.name(), min.Cfg.Excl)
	for i, s := range msrcs {
		fmt.Fprintf(&sb, "---- original %s ----\n%s", min.Paths[i], s)
	}
	for i, s := range m.Outs {
		fmt.Fprintf(&sb, "---- minified %s ----\n%s", min.Paths[i], s)
	}
	fmt.Fprintf(&sb, "---- symbol map ----\n%v\n", m.Map.MinifiedToOriginal)
	sb.WriteString(mf.Detail)
	fmt.Fprintf(&sb, "\n(shrunk from case with configuration %s in %d probes)\n", cfg.name(), sh.probes)
	one := strings.ReplaceAll(strings.TrimSpace(strings.Join(msrcs, " | ")), "\n", " ")
	if len(one) > 300 {
		one = one[:300] + "…"
	}
	sum := fmt.Sprintf("%s", mf.Cat)
	if mf.Sub != "" {
		sum += " (" + mf.Sub + ")"
	}
	w.Violation(key, fmt.Sprintf("%s under %s: %s", sum, min.Cfg.name(), one), sb.String())
}

// c17Key derives the finding key from the shrunk case.
func c17Key(min *c17Case, f *c17Finding, evals *int) string {
	stillFails := func(alt *c17Case) bool {
		det := 2
		if f.Group == "det" {
			det = 10
		}
		fs, _, _ := c17Judge(alt.Paths, alt.render(), alt.Cfg, nil, evals, det)
		for _, x := range fs {
			if x.Group == f.Group && x.Cat != "unaligned" && x.Cat != "ambiguous-not-judged" {
				return true
			}
		}
		return false
	}
	// Does the failure depend on how the files are NAMED?  The same sources under
	// the plain names f1.lisp, f2.lisp, ... are the same program; if they pass,
	// the input class is the naming (what is left of it after shrinking), not the
	// shape of the program.  Asked before anything else: the program of such a
	// failure can look like any of the program-shaped families.
	if flat := c17FlatPaths(len(min.Paths)); strings.Join(flat, "\x00") != strings.Join(min.Paths, "\x00") {
		feats := c17PathFeatures(min.Paths)
		if len(feats) == 0 {
			feats = []string{"plain-names-sorting-against-load-order"}
		}
		alt := min.clone()
		alt.Paths = flat
		if stillFails(alt) {
			min = alt // the naming is incidental (the shrinker ran out of budget before trying)
		} else {
			var key string
			switch f.Group {
			case "sem":
				key = "meaning-changed:file-naming:"
			case "det":
				key = "nondeterministic:file-naming:"
			default:
				key = f.Cat + ":file-naming:"
			}
			key += strings.Join(feats, "+")
			if n := min.Cfg.name(); n != "defaults" && f.Group != "det" {
				key += "@" + n
			}
			return key
		}
	}
	srcs := min.render()
	m := c17Minify(min.Paths, srcs, min.Cfg)
	if m.Err == nil && (f.Group == "sem" || f.Group == "map") {
		// is the failure a clash between an assigned name and a name the program already uses?
		tried := map[string]bool{}
		for k := 0; k < 12; k++ {
			role, name := c17CollisionRole(min, m.Map.MinifiedToOriginal)
			if role == "" || tried[name] {
				break
			}
			tried[name] = true
			alt := c17RenameToken(min, name, "zq-"+name)
			fs, _, _ := c17Judge(alt.Paths, alt.render(), alt.Cfg, nil, evals, 2)
			still := false
			for _, x := range fs {
				if x.Group == f.Group && x.Cat != "unaligned" && x.Cat != "ambiguous-not-judged" {
					still = true
				}
			}
			if !still {
				return "name-collision:" + role
			}
			// this token is innocent; look at the others
			min2 := c17RenameToken(min, name, "zq-"+name)
			m2 := c17Minify(min2.Paths, min2.render(), min2.Cfg)
			if m2.Err != nil {
				break
			}
			min, m = min2, m2
		}
	}
	cat := f.Cat
	sig := c17Signature(min)
	if f.Group == "det" {
		// which run differs is random, so shrinking is noisy: key on the structural flags only
		sig.heads = map[string]bool{}
		for fl := range sig.flags {
			switch fl {
			case "multi-file", "name-defined-in-two-files-of-one-package", "name-defined-twice-in-one-file", "same-name-in-two-packages":
			default:
				delete(sig.flags, fl)
			}
		}
	}
	var key string
	if fam := sig.family(); fam != "" {
		// The shrunk program has the shape of a defect whose probes fail on this tree
		// (its trigger is kept out of the random workload, but the exclusion is a
		// generator-side approximation): report it as that known defect reached through
		// the random workload, under one fixed key per (defect, family).
		for _, d := range c17FamilyDefects[fam] {
			if c17PresentNow[d] {
				return "known-defect-leak:" + d + ":" + fam
			}
		}
		if fam == "export+use-package-in-one-file" {
			// does the failure need exporter and importer in ONE file?
			if alt := c17SplitAtImporter(min); alt != nil {
				fs, _, _ := c17Judge(alt.Paths, alt.render(), alt.Cfg, nil, evals, 0)
				for _, x := range fs {
					if x.Group == f.Group && x.Cat != "unaligned" && x.Cat != "ambiguous-not-judged" {
						fam = "export+use-package-any-layout"
					}
				}
			}
		}
		switch f.Group {
		case "sem":
			key = "meaning-changed:" + fam
		case "det":
			key = "nondeterministic:" + fam
		default:
			key = cat + ":" + fam
		}
	} else {
		key = cat + ":" + sig.keyPart()
	}
	if n := min.Cfg.name(); n != "defaults" && f.Group != "det" {
		key += "@" + n
	}
	return key
}

// c17RedefObserve records what the minifier did with the groups "a name defined
// more than once, referenced from elsewhere" of one (session, configuration):
// how many of the name's defining forms it renamed (from the symbol map: one
// entry per renamed defining form) - a group none of whose forms is renamed
// (the name is excluded, exported under the defaults, named by a macro template)
// exercises nothing.
func c17RedefObserve(w *fw.W, sess *c17Session, cfg c17Cfg, m c17MinResult) {
	if m.Err != nil {
		return
	}
	for _, rd := range sess.Redef {
		n := 0
		for _, e := range m.Map.Entries {
			if e.Original == rd.Name && e.Kind == "function" && e.File == sess.Paths[rd.File] {
				n++
			}
		}
		w.Count("redef_groups_judged", 1)
		if n == 0 {
			w.Count("redef_groups_judged_no_defining_form_renamed", 1)
			continue
		}
		w.Count("redef_groups_judged_with_a_renamed_defining_form", 1)
		w.SetAdd("redef_kinds_judged_with_a_renamed_defining_form", rd.kinds())
		w.SetAdd("redef_access_judged_with_a_renamed_defining_form", rd.Access+"@"+cfg.name())
		w.Max("redef_max_renamed_defining_forms_of_one_name", int64(n))
		if cfg.Order != "" {
			w.Count("redef_groups_judged_with_inputs_in_another_order_than_the_load_order", 1)
		}
	}
}

// c17RedefFloor: the family must have been generated AND have reached the
// renaming of a defining form often enough, in enough kind sequences, or the run
// says nothing about it.
func c17RedefFloor(d *fw.D) {
	minGroups, minKinds := int64(150), 12
	if d.Tier == "thorough" {
		minGroups, minKinds = 2500, 20
	}
	if got := d.Counters["redef_groups_judged_with_a_renamed_defining_form"]; got < minGroups {
		d.Inconclusive(fmt.Sprintf("coverage floor not met: %d judged groups 'a name defined more than once, referenced from elsewhere' with a renamed defining form < %d", got, minGroups))
	}
	if got := len(d.Sets["redef_kinds_judged_with_a_renamed_defining_form"]); got < minKinds {
		d.Inconclusive(fmt.Sprintf("coverage floor not met: %d kind sequences of names defined more than once were judged with a renamed defining form < %d", got, minKinds))
	}
	if got := d.Counters["redef_groups_judged_with_inputs_in_another_order_than_the_load_order"]; got == 0 {
		d.Inconclusive("coverage floor not met: no group 'a name defined more than once' was minified with the inputs in another order than the load order")
	}
}
