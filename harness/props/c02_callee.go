package props

import (
	"fmt"
	"strings"

	"verifharness/fw"
	"verifharness/rt"
	"verifharness/sx"
)

// C02, block (a4): the IDENTITY OF THE CALLEE from turn to turn.
//
// Every loop of the other blocks comes back to a function VALUE it has been in before: a
// named function (defun, labels) or one lambda bound once (set-lambda), alone or in a cycle
// of two or three.  Which function value a turn calls was therefore a constant of the
// workload (period 1..3), and an implementation that recognises a tail loop only by "this
// function is already on the terminal chain" passes all of it.  The property speaks of the
// recursive CALL being in tail position through funcall / apply (and the special operators);
// it does not say that the callee has to be the same value on every turn.  A thunk chain, a
// state machine whose states are closures over the data of the turn, a continuation handed
// on: every turn evaluates a lambda expression afresh (a function value with an id of its
// own) and tail-calls it through funcall / apply.  Here the callee of each turn varies:
//
//   source  how the callee of a turn comes to be
//           maker-thunk       (mk n' acc') returns (lambda () BODY) closed over the turn's data
//           maker-args        (mk) returns (lambda (n acc) BODY), called with the data
//           self-maker        the maker is itself an anonymous function handed along
//           labels-per-turn / flet-per-turn   the maker binds the turn function locally and returns it
//           maker-curried     (mk) returns (lambda (n) (lambda (acc) BODY)): the callee is itself
//                             obtained by calling a fresh closure
//           curry-function / compose / flip   the callee is a function made by these, around a
//                             fresh closure
//           table-once        k different lambdas in a list / vector / sorted-map built once; the
//                             turn picks one by (mod n k) (identity varies with period k, recurs)
//           table-fresh       the table of k lambdas is rebuilt by a maker on every turn
//   via     how it is called: funcall, apply (leading arguments + list), apply with all arguments
//           in the list, unpack, a (funcall ...) step of thread-first, an (apply ...) step of
//           thread-last, one of three chosen by the turn, or as the head of the call form
//   start   how the first callee is called: funcall / apply at top level, inside a named
//           function, a let-bound value, as the head of a form
//   chain   0..2 of the tail-position wrappers of blocks (a), (a') between the exit test and
//           the call
//
// Oracle (that of (a')): value = number of turns, one entry per turn, the entry heights do
// not grow (entry i against entry i-12, 12 = the period of every selection by turn, from
// the third period on: a loop may settle on a funcall frame beneath its start during the
// first), the maximum height seen by the push hook is the same for 24, 120 and 1200 turns,
// only terminal unblocked frames collapse, pushes = pops, the elimination-off transcript is
// equal.  Heights are judged where the property or the documentation puts the call in tail
// position: the call is made by funcall / apply (named by the property), unpack ("equivalent
// to (apply f lis)"), a step of a threading operator (named), of a function made by lambda /
// labels / flet (last body form), curry-function ("equivalent to (lambda (&rest rest) (apply
// fun ... rest))") or compose ("equivalent to (lambda (...) (f (g ...)))").  They are NOT
// judged - observed and counted - for a callee computed in the head of the call form (the
// property names no such form) and for flip (its documentation does not say how the flipped
// function calls the original).

type c02Cal struct {
	source string
	via    string
	start  string
	chain  []int
	k      int    // table sources: number of different lambdas
	box    string // table sources: list / vector / sorted-map
	iters  []int
}

var c02CalSources = []string{"maker-thunk", "maker-args", "self-maker", "labels-per-turn", "flet-per-turn", "maker-curried",
	"curry-function", "compose", "flip", "table-once", "table-fresh"}

// the vias whose heights are judged first, "head" last
var c02CalVias = []string{"funcall", "apply", "apply-list", "unpack", "thread-first-funcall", "thread-last-apply", "via-by-turn", "head"}

var c02CalStarts = []string{"funcall", "apply", "named", "let-bound", "head"}

var c02CalBoxes = []string{"list", "vector", "sorted-map"}

const c02CalPeriod = c02ExitPeriod

func c02CalExhaustive() int { return len(c02CalSources) * len(c02CalVias) }

// fresh: does every turn call a function value that did not exist before the turn
func (c *c02Cal) fresh() bool { return c.source != "table-once" }

// judged: are the heights of this shape fixed by the property / the documentation
func (c *c02Cal) judged() bool { return c.via != "head" && c.source != "flip" }

func (c *c02Cal) class() string { return fmt.Sprintf("callee=%s/via=%s", c.source, c.via) }

func (c *c02Cal) name() string {
	var ws []string
	for _, w := range c.chain {
		ws = append(ws, c02Wrap(w).name)
	}
	t := ""
	if strings.HasPrefix(c.source, "table") {
		t = fmt.Sprintf(" table=%s/%d", c.box, c.k)
	}
	return fmt.Sprintf("callee=%s via=%s start=%s chain=[%s]%s", c.source, c.via, c.start, strings.Join(ws, ">"), t)
}

func c02CalCaseFor(w *fw.W, idx, j int, tier string) *c02Cal {
	nw, ne := len(c02Wrappers), len(c02ExitWrappers)
	iters := []int{1, 2, 2 * c02CalPeriod, 10 * c02CalPeriod}
	if tier == "thorough" {
		iters = append(iters, 100*c02CalPeriod, 1000*c02CalPeriod)
	} else if j%4 == 0 {
		iters = append(iters, 100*c02CalPeriod)
	}
	c := &c02Cal{iters: iters, k: 1}
	if j < c02CalExhaustive() {
		// every (source, via); start, wrapper, table rotated
		c.source = c02CalSources[j%len(c02CalSources)]
		c.via = c02CalVias[j/len(c02CalSources)]
		c.start = c02CalStarts[(j/3)%len(c02CalStarts)]
		if j%3 != 0 {
			c.chain = []int{(j * 7) % (nw + ne)}
		}
		c.k = 2 + j%3
		c.box = c02CalBoxes[(j/2)%len(c02CalBoxes)]
	} else {
		r := w.RNG(idx, "callee")
		c.source = fw.Pick(r, c02CalSources)
		c.via = fw.Pick(r, c02CalVias)
		if c.via == "head" && r.Chance(2, 3) {
			c.via = fw.Pick(r, c02CalVias[:len(c02CalVias)-1])
		}
		c.start = fw.Pick(r, c02CalStarts)
		c.chain = make([]int, r.Intn(3))
		for i := range c.chain {
			c.chain[i] = r.Intn(nw + ne)
		}
		c.k = r.Range(2, 4)
		c.box = fw.Pick(r, c02CalBoxes)
	}
	if !strings.HasPrefix(c.source, "table") {
		c.k, c.box = 1, ""
	}
	if !c.judged() && len(c.iters) > 5 {
		// a loop that legitimately keeps its frames must fit the stack limit
		c.iters = c.iters[:5]
	}
	return c
}

// c02CalVia writes the call of callee with args in the given way.
func c02CalVia(via string, callee *sx.N, args []*sx.N) *sx.N {
	cl := func(xs []*sx.N) []*sx.N {
		out := make([]*sx.N, len(xs))
		for i, x := range xs {
			out[i] = x.Clone()
		}
		return out
	}
	switch via {
	case "funcall":
		return sx.Call("funcall", append([]*sx.N{callee}, args...)...)
	case "apply":
		if len(args) == 0 {
			return sx.Call("apply", callee, sx.Call("list"))
		}
		lead := append([]*sx.N{callee}, args[:len(args)-1]...)
		return sx.Call("apply", append(lead, sx.Call("list", args[len(args)-1]))...)
	case "apply-list":
		return sx.Call("apply", callee, sx.Call("list", args...))
	case "unpack":
		return sx.Call("unpack", callee, sx.Call("list", args...))
	case "thread-first-funcall":
		return sx.Call("thread-first", callee, sx.Call("funcall", args...))
	case "thread-last-apply":
		return sx.Call("thread-last", sx.Call("list", args...), sx.Call("apply", callee))
	case "via-by-turn":
		return sx.Call("cond",
			sx.L(c02Turn(3, 0), c02CalVia("funcall", callee, args)),
			sx.L(c02Turn(3, 1), c02CalVia("apply", callee.Clone(), cl(args))),
			sx.L(sx.Y("else"), c02CalVia("unpack", callee.Clone(), cl(args))))
	}
	// head: the callee is computed in the head of the call form
	return sx.L(append([]*sx.N{callee}, args...)...)
}

// program renders the loop for N turns.
func (c *c02Cal) program(N int) string {
	dec := func() *sx.N { return sx.Call("-", sx.Y("n"), sx.I(1)) }
	inc := func() *sx.N { return sx.Call("+", sx.Y("acc"), sx.I(1)) }
	n0, a0 := sx.I(int64(N)), sx.I(0)
	pick := func(table *sx.N, i *sx.N) *sx.N {
		switch c.box {
		case "vector":
			return sx.Call("aref", table, i)
		case "sorted-map":
			return sx.Call("get", table, sx.Call("to-string", i))
		}
		return sx.Call("nth", table, i)
	}
	// the callee of the next turn and its arguments, written inside a turn / at the start
	var callee func(start bool) *sx.N
	var args func(start bool) []*sx.N
	na := func(start bool) (*sx.N, *sx.N) {
		if start {
			return n0.Clone(), a0.Clone()
		}
		return dec(), inc()
	}
	both := func(start bool) []*sx.N { n, a := na(start); return []*sx.N{n, a} }
	none := func(bool) []*sx.N { return nil }
	mk0 := func(bool) *sx.N { return sx.Call("mk") }
	var formals *sx.N // of the turn function
	var define func(bodies [][]*sx.N) []*sx.N
	lam := func(f *sx.N, body []*sx.N) *sx.N { return sx.Call("lambda", append([]*sx.N{f}, body...)...) }
	switch c.source {
	case "maker-thunk", "labels-per-turn", "flet-per-turn":
		formals = sx.L()
		callee = func(start bool) *sx.N { n, a := na(start); return sx.Call("mk", n, a) }
		args = none
		define = func(b [][]*sx.N) []*sx.N {
			var made *sx.N
			switch c.source {
			case "maker-thunk":
				made = lam(formals, b[0])
			case "labels-per-turn":
				made = sx.Call("labels", sx.L(sx.L(append([]*sx.N{sx.Y("turn"), formals}, b[0]...)...)), sx.Y("turn"))
			default:
				made = sx.Call("flet", sx.L(sx.L(append([]*sx.N{sx.Y("turn"), formals}, b[0]...)...)), sx.Y("turn"))
			}
			return []*sx.N{sx.Call("defun", sx.Y("mk"), sx.L(sx.Y("n"), sx.Y("acc")), made)}
		}
	case "self-maker":
		formals = sx.L()
		callee = func(start bool) *sx.N {
			n, a := na(start)
			if start {
				return sx.Call("funcall", sx.Y("mk0"), sx.Y("mk0"), n, a)
			}
			return sx.Call("funcall", sx.Y("m"), sx.Y("m"), n, a)
		}
		args = none
		define = func(b [][]*sx.N) []*sx.N {
			return []*sx.N{sx.Call("set", sx.QY("mk0"), sx.Call("lambda", sx.L(sx.Y("m"), sx.Y("n"), sx.Y("acc")), lam(formals, b[0])))}
		}
	case "maker-args", "curry-function", "flip":
		formals = sx.L(sx.Y("n"), sx.Y("acc"))
		switch c.source {
		case "maker-args":
			callee, args = mk0, both
		case "curry-function":
			callee = func(start bool) *sx.N { n, _ := na(start); return sx.Call("curry-function", sx.Call("mk"), n) }
			args = func(start bool) []*sx.N { _, a := na(start); return []*sx.N{a} }
		default:
			callee = func(bool) *sx.N { return sx.Call("flip", sx.Call("mk")) }
			args = func(start bool) []*sx.N { n, a := na(start); return []*sx.N{a, n} }
		}
		define = func(b [][]*sx.N) []*sx.N {
			return []*sx.N{sx.Call("defun", sx.Y("mk"), sx.L(), lam(formals, b[0]))}
		}
	case "maker-curried":
		formals = sx.L(sx.Y("acc"))
		callee = func(start bool) *sx.N { n, _ := na(start); return sx.Call("funcall", sx.Call("mk"), n) }
		args = func(start bool) []*sx.N { _, a := na(start); return []*sx.N{a} }
		define = func(b [][]*sx.N) []*sx.N {
			return []*sx.N{sx.Call("defun", sx.Y("mk"), sx.L(), sx.Call("lambda", sx.L(sx.Y("n")), lam(formals, b[0])))}
		}
	case "compose":
		formals = sx.L(sx.Y("ignored"))
		callee = func(start bool) *sx.N {
			n, a := na(start)
			return sx.Call("compose", sx.Call("mk", n, a), sx.QY("identity"))
		}
		args = func(bool) []*sx.N { return []*sx.N{sx.I(0)} }
		define = func(b [][]*sx.N) []*sx.N {
			return []*sx.N{sx.Call("defun", sx.Y("mk"), sx.L(sx.Y("n"), sx.Y("acc")), lam(formals, b[0]))}
		}
	default: // table-once, table-fresh
		formals = sx.L(sx.Y("n"), sx.Y("acc"))
		table := func() *sx.N {
			if c.source == "table-once" {
				return sx.Y("fs")
			}
			return sx.Call("mkt")
		}
		callee = func(start bool) *sx.N {
			if start {
				return pick(table(), sx.I(0))
			}
			return pick(table(), sx.Call("mod", sx.Y("n"), sx.I(int64(c.k))))
		}
		args = both
		define = func(b [][]*sx.N) []*sx.N {
			var items []*sx.N
			for i := range b {
				if c.box == "sorted-map" {
					items = append(items, sx.S(fmt.Sprint(i)))
				}
				items = append(items, lam(formals.Clone(), b[i]))
			}
			built := sx.Call(c.box, items...)
			if c.source == "table-once" {
				return []*sx.N{sx.Call("set", sx.QY("fs"), built)}
			}
			return []*sx.N{sx.Call("defun", sx.Y("mkt"), sx.L(), built)}
		}
	}
	// the bodies of the k turn functions: the i-th writes its call in the i-th next way
	bodies := make([][]*sx.N, c.k)
	for i := range bodies {
		via := c.via
		if c.via != "head" && i > 0 {
			for p, v := range c02CalVias {
				if v == c.via {
					via = c02CalVias[(p+i)%(len(c02CalVias)-1)]
				}
			}
		}
		call := c02CalVia(via, callee(false), args(false))
		for k := len(c.chain) - 1; k >= 0; k-- {
			call = c02Wrap(c.chain[k]).wrap(call, k)
		}
		bodies[i] = []*sx.N{sx.Call("verif:depth"), sx.Call("if", sx.Call("<=", sx.Y("n"), sx.I(0)), sx.Y("acc"), call)}
	}
	forms := define(bodies)
	c0, a0s := callee(true), args(true)
	switch c.start {
	case "apply":
		forms = append(forms, c02CalVia("apply-list", c0, a0s))
	case "named":
		forms = append(forms, sx.Call("defun", sx.Y("start"), sx.L(), c02CalVia("funcall", c0, a0s)), sx.Call("start"))
	case "let-bound":
		forms = append(forms, sx.Call("let", sx.L(sx.L(sx.Y("first"), c0)), c02CalVia("funcall", sx.Y("first"), a0s)))
	case "head":
		forms = append(forms, c02CalVia("head", c0, a0s))
	default:
		forms = append(forms, c02CalVia("funcall", c0, a0s))
	}
	return sx.Render(forms, nil)
}

func c02RunCallee(w *fw.W, c *c02Cal) {
	key := c.class()
	w.Count("callee_identity_cases", 1)
	heightAt := map[int]int{}
	grew := false
	distinctMin := -1
	for _, n := range c.iters {
		src := c.program(n)
		on := c02Exec(src, rt.Opts{})
		w.Eval(1)
		var off c02Tr
		twin := n <= 120 || (n <= 1200 && w.Tier == "thorough")
		if twin {
			off = c02Exec(src, rt.Opts{Debugger: true})
			w.Eval(1)
			twin = !c02LimitErr(off.t)
		}
		w.Logf("callee-identity %s n=%d\n%s=> on %s / off %s\n heights %s", c.name(), n, src, c02Clip(on.t.Outcome()), c02Clip(off.t.Outcome()), c02Heights(on.samples, 40))
		detail := src + "\non:  " + c02Clip(on.t.Outcome()) + " " + on.t.Msg + "\nheights: " + c02Heights(on.samples, 60)
		want := fmt.Sprint(n)
		if on.t.IsErr || on.t.Value != want {
			if !c.judged() && c02LimitErr(on.t) {
				w.Count("callee_identity_unjudged_run_hit_limit", 1)
				return
			}
			w.Violation("callee-identity:tail-loop-result:"+key, fmt.Sprintf("tail loop whose callee changes from turn to turn (%s) with n=%d gave %s %s, want %s", c.name(), n, on.t.Outcome(), c02Clip(on.t.Msg), want), detail)
			return
		}
		if len(on.samples) != n+1 {
			w.Violation("callee-identity:tail-loop-samples:"+key, fmt.Sprintf("expected %d entries of the turn functions, got %d: %s", n+1, len(on.samples), c.name()), detail)
			return
		}
		// what the case is about, observed: how many different function values the turns ran in
		fids := map[string]bool{}
		for _, s := range on.samples {
			fids[s.FID] = true
		}
		if distinctMin < 0 || len(fids)*1000/(n+1) < distinctMin {
			distinctMin = len(fids) * 1000 / (n + 1)
		}
		if c.fresh() && len(fids) != n+1 {
			// the construction is meant to give every turn a function value of its own; if the
			// interpreter shares them this family does not vary what it is meant to vary
			w.Count("callee_identity_fresh_source_shared_function_ids", 1)
		}
		if c.judged() {
			for i := 2 * c02CalPeriod; i < len(on.samples); i++ {
				if ref := on.samples[i-c02CalPeriod]; on.samples[i].Height > ref.Height {
					w.Violation("callee-identity:tail-loop-stack-grows:"+key,
						fmt.Sprintf("stack height grows with the iterations of a tail loop whose callee changes from turn to turn (%s): entry %d at height %d, entry %d at height %d (%d turns in all, %d different function values entered)",
							c.name(), i-c02CalPeriod, ref.Height, i, on.samples[i].Height, n, len(fids)), detail)
					return
				}
			}
		} else if n >= 2*c02CalPeriod && on.samples[n].Height > on.samples[n-c02CalPeriod].Height {
			grew = true
		}
		if on.mon.badElide != "" {
			w.Violation("callee-identity:bad-elision:"+key, on.mon.badElide+": "+c.name(), detail)
			return
		}
		if on.mon.pushes != on.mon.pops {
			w.Violation("push-pop-imbalance", fmt.Sprintf("pushes=%d pops=%d", on.mon.pushes, on.mon.pops), src)
			return
		}
		if twin {
			if d := c02Same(on.t, off.t); d != "" {
				w.Violation("callee-identity:tro-changes-result:"+key, "elimination on/off differ: "+c02Clip(d)+": "+c.name(), detail)
				return
			}
			if off.mon.elideEvents != 0 {
				w.Violation("debugger-does-not-disable-tro", "tail elision happened with a debugger attached", src)
				return
			}
			w.Count("callee_identity_twins_compared", 1)
		}
		heightAt[n] = on.mon.maxHeight
		base := 2 * c02CalPeriod
		if h0, ok := heightAt[base]; ok && n > base && on.mon.maxHeight != h0 {
			if c.judged() {
				w.Violation("callee-identity:tail-loop-stack-grows:"+key,
					fmt.Sprintf("the maximum stack height of a tail loop whose callee changes from turn to turn (%s) grows with the iteration count: %d frames for %d turns, %d for %d turns", c.name(), h0, base, on.mon.maxHeight, n), detail)
				return
			}
			grew = true
		}
		w.Count("tail_elide_events", on.mon.elideEvents)
		w.Count("elided_frames", on.mon.elidedFrames)
		w.Count("depth_samples", int64(len(on.samples)))
		if c.fresh() {
			w.Count("callee_identity_turns_entered_in_a_fresh_function_value", int64(len(fids)))
		}
		if c.judged() {
			w.Max("callee_identity_max_physical_height_judged", int64(on.mon.maxHeight))
			w.Max("max_physical_height_in_tail_loops", int64(on.mon.maxHeight))
		}
		w.CoverKey(fmt.Sprintf("callee|%s|n=%d", c.name(), n))
	}
	if c.judged() {
		w.Count("callee_identity_cases_heights_judged", 1)
		w.SetAdd("callee_identity_shapes_judged", key)
		if c.fresh() {
			w.Count("callee_identity_fresh_cases_heights_judged", 1)
		}
	} else {
		// declined: neither the property nor the documentation fixes the heights of these
		w.Count("callee_identity_cases_heights_not_judged", 1)
		obs := "constant"
		if grew {
			obs = "grows"
		}
		w.SetAdd("callee_identity_shapes_not_judged_observed", key+":"+obs)
	}
	w.SetAdd("callee_identity_starts_seen", c.start)
	if c.box != "" {
		w.SetAdd("callee_identity_tables_seen", fmt.Sprintf("%s/%s/%d", c.source, c.box, c.k))
	}
	w.SetAdd("callee_identity_distinct_function_values_per_1000_turns", fmt.Sprintf("%s:%04d", c.source, distinctMin))
	for _, x := range c.chain {
		w.SetAdd("wrappers_seen", c02Wrap(x).name)
	}
	if w.WantSample() && len(c.chain) <= 1 {
		w.Sample(map[string]any{"callee_identity_case": c.name(), "source_n24": c.program(24)})
	}
}

// c02CalFloor: the block must have run, judged every (source, via) pair it means to judge, and
// the turns of the fresh sources must really have run in function values of their own.
func c02CalFloor(d *fw.D, nCallee int) {
	if got := d.Counters["callee_identity_cases_heights_judged"]; got < int64(nCallee/2) {
		d.Inconclusive(fmt.Sprintf("callee-identity block: heights of %d of %d cases judged", got, nCallee))
	}
	want := 0
	for _, s := range c02CalSources {
		for _, v := range c02CalVias {
			if (&c02Cal{source: s, via: v}).judged() {
				want++
			}
		}
	}
	if got := len(d.Sets["callee_identity_shapes_judged"]); got < want {
		d.Inconclusive(fmt.Sprintf("callee-identity block: %d of %d (source, via) pairs judged", got, want))
	}
	if d.Counters["callee_identity_fresh_cases_heights_judged"] == 0 || d.Counters["callee_identity_turns_entered_in_a_fresh_function_value"] == 0 {
		d.Inconclusive("callee-identity block: no loop whose every turn runs in a fresh function value was judged")
	}
	if n := d.Counters["callee_identity_fresh_source_shared_function_ids"]; n > 0 {
		d.Inconclusive(fmt.Sprintf("callee-identity block: %d runs of sources meant to make a new function value per turn entered fewer function values than turns", n))
	}
}
