package props

// C16 oracle, part 1: everything the oracle learns about a source text WITHOUT
// the formatter and WITHOUT the format-preserving parser's metadata.
//
//   * c16Lex      – the public lexer's token stream, with byte positions the
//                   oracle recomputes itself (only whitespace may separate tokens)
//   * c16Parse    – a small independent reader over that token stream that
//                   yields a "token tree": literal SPELLINGS, bracket kinds,
//                   prefix kinds, and for every comment token the ANCHOR
//                   (tree path of the next expression / end of list / eof)
//   * c16Model... – the quoting semantics of the reader applied to the token
//                   tree, used only to cross-check this model against the strict
//                   reader (a disagreement makes the case inconclusive, never a
//                   violation).

import (
	"bytes"
	"fmt"
	"strings"
	"unicode"
	"unicode/utf8"

	"github.com/luthersystems/elps/lisp"
	"github.com/luthersystems/elps/parser/lexer"
	"github.com/luthersystems/elps/parser/token"
)

// c16Tok is one token of the public lexer with oracle-computed byte span.
type c16Tok struct {
	Type token.Type
	Text string
	Pos  int // byte offset of first byte (recomputed, not Source.Pos)
	End  int
	NL   int  // newlines in the whitespace directly before the token
	Gap  bool // some whitespace directly before the token
}

type c16LexResult struct {
	Toks     []c16Tok // includes COMMENT and HASH_BANG tokens, excludes EOF
	Err      string   // non-empty: lexer reported ERROR/INVALID (text of it)
	PosDrift int      // tokens whose Source.Pos disagreed with the recomputed offset
}

// c16Lex runs the public lexer over src.
func c16Lex(src []byte) c16LexResult {
	var res c16LexResult
	lx := lexer.New(token.NewScannerString("c16", string(src)))
	end := 0
	for n := 0; n < len(src)+8; n++ {
		for _, t := range lx.ReadToken() {
			switch t.Type {
			case token.EOF:
				return res
			case token.ERROR, token.INVALID:
				res.Err = t.Text
				return res
			}
			// Only whitespace separates two tokens, so the token starts at the
			// first non-space byte after the previous one.
			p := end
			afterHashBang := len(res.Toks) > 0 && res.Toks[len(res.Toks)-1].Type == token.HASH_BANG
			for p < len(src) && !afterHashBang { // the rest of a #! line is one COMMENT token, spaces included
				r, sz := utf8.DecodeRune(src[p:])
				if !unicode.IsSpace(r) {
					break
				}
				p += sz
			}
			if t.Text != "" && !bytes.HasPrefix(src[p:], []byte(t.Text)) {
				// cannot place the token: treat as lexer trouble (inconclusive upstream)
				res.Err = fmt.Sprintf("c16: cannot place token %q after offset %d", t.Text, end)
				return res
			}
			if t.Source != nil && t.Source.Pos != p {
				res.PosDrift++
			}
			res.Toks = append(res.Toks, c16Tok{Type: t.Type, Text: t.Text, Pos: p, End: p + len(t.Text),
				NL: bytes.Count(src[end:p], []byte("\n")), Gap: p > end})
			end = p + len(t.Text)
		}
	}
	res.Err = "c16: lexer did not terminate"
	return res
}

// ---------------------------------------------------------------------------
// token tree

const (
	c16KAtom = iota
	c16KList
	c16KQuote
)

type c16Node struct {
	Kind  int
	TT    token.Type // atoms: SYMBOL INT INT_OCTAL INT_HEX FLOAT STRING STRING_RAW
	Spell string     // atoms: exact source spelling (sign and #x/#o macro included)
	Open  byte       // lists: '(' or '[' ; sugar forms are canonically '('
	Sugar string     // lists: "" (written with brackets), "#'" or "#^"
	Synth bool       // atom synthesized for the head of a sugar form
	Kids  []*c16Node
	First int // index into the token slice of the first token
	Last  int // index of the last token
}

// c16Comment is one comment token with where it sits.
type c16Comment struct {
	Text     string
	Anchor   string // "before:<path>" | "end:<path>" | "eof"
	Ctx      string // position class, used for coverage and finding keys
	TokIdx   int
	SameLine bool // no newline between the previous token and the comment
}

type c16Tree struct {
	Top      []*c16Node
	Comments []c16Comment
	Err      string // non-empty: this model could not read the token stream
}

type c16parser struct {
	toks     []c16Tok
	i        int
	comments []c16Comment
	pend     []int // indices into comments awaiting their anchor
	err      string
	depth    int
}

func c16PathStr(p []int) string {
	if len(p) == 0 {
		return "-"
	}
	var b strings.Builder
	for i, x := range p {
		if i > 0 {
			b.WriteByte('.')
		}
		fmt.Fprintf(&b, "%d", x)
	}
	return b.String()
}

// c16Parse reads the token stream into a token tree and anchors the comments.
func c16Parse(toks []c16Tok) *c16Tree {
	p := &c16parser{toks: toks}
	t := &c16Tree{}
	// hash-bang: only as the very first token; the rest of the line is a COMMENT token.
	if len(toks) > 0 && toks[0].Type == token.HASH_BANG {
		text := toks[0].Text
		p.i = 1
		if p.i < len(toks) && toks[p.i].Type == token.COMMENT {
			text += toks[p.i].Text
			p.i++
		}
		p.comments = append(p.comments, c16Comment{Text: text, TokIdx: 0, Ctx: "hashbang"})
		p.pend = append(p.pend, 0)
	}
	for {
		p.skipComments("top")
		if p.i >= len(toks) {
			p.anchor("eof", func(c *c16Comment) {
				if len(t.Top) == 0 {
					c.Ctx += "/eof-comment-only-file"
				} else {
					c.Ctx += "/eof"
				}
			})
			break
		}
		path := []int{len(t.Top)}
		n := p.expr(path, path, "top/before-expr")
		if p.err != "" {
			t.Err = p.err
			return t
		}
		t.Top = append(t.Top, n)
	}
	t.Comments = p.comments
	return t
}

func (p *c16parser) skipComments(_ string) {
	for p.i < len(p.toks) && p.toks[p.i].Type == token.COMMENT {
		tk := p.toks[p.i]
		same := p.i > 0 && tk.NL == 0
		p.comments = append(p.comments, c16Comment{Text: tk.Text, TokIdx: p.i, SameLine: same})
		p.pend = append(p.pend, len(p.comments)-1)
		p.i++
	}
}

// anchor resolves all pending comments to the given anchor.
func (p *c16parser) anchor(a string, ctx func(c *c16Comment)) {
	for _, ci := range p.pend {
		c := &p.comments[ci]
		c.Anchor = a
		if c.Ctx == "hashbang" {
			continue
		}
		ctx(c)
		if c.SameLine {
			c.Ctx += "/same-line"
		} else if c.TokIdx == 0 {
			c.Ctx += "/first-in-file"
		} else {
			c.Ctx += "/own-line"
		}
	}
	p.pend = p.pend[:0]
}

func (p *c16parser) fail(format string, a ...any) *c16Node {
	if p.err == "" {
		p.err = fmt.Sprintf(format, a...)
	}
	return nil
}

// expr parses one expression whose canonical path is path.  lift is the path
// comments directly in front of this expression are anchored to: the
// expression itself, or – inside the gap after a ' or #^ prefix – the
// outermost prefix form of the chain (the documented hoisting of such comments
// above the prefix).  where is the position class for those comments.
func (p *c16parser) expr(path, lift []int, where string) *c16Node {
	p.depth++
	defer func() { p.depth-- }()
	if p.depth > 20000 {
		return p.fail("too deep")
	}
	p.skipComments(where)
	p.anchor("before:"+c16PathStr(lift), func(c *c16Comment) { c.Ctx = where })
	if p.i >= len(p.toks) {
		return p.fail("unexpected end of tokens")
	}
	first := p.i
	tk := p.toks[p.i]
	atom := func(tt token.Type, spell string, last int) *c16Node {
		return &c16Node{Kind: c16KAtom, TT: tt, Spell: spell, First: first, Last: last}
	}
	switch tk.Type {
	case token.INT, token.FLOAT, token.STRING, token.STRING_RAW, token.SYMBOL:
		p.i++
		return atom(tk.Type, tk.Text, first)
	case token.INT_OCTAL_MACRO, token.INT_HEX_MACRO:
		want := token.INT_OCTAL
		if tk.Type == token.INT_HEX_MACRO {
			want = token.INT_HEX
		}
		if p.i+1 >= len(p.toks) || p.toks[p.i+1].Type != want {
			return p.fail("macro %s without digits", tk.Text)
		}
		p.i += 2
		return atom(want, tk.Text+p.toks[first+1].Text, first+1)
	case token.NEGATIVE:
		// the sign is glued to what follows; it merges with INT/FLOAT/SYMBOL only
		if p.i+1 < len(p.toks) {
			nx := p.toks[p.i+1]
			if nx.Type == token.INT || nx.Type == token.FLOAT || nx.Type == token.SYMBOL {
				p.i += 2
				return atom(nx.Type, tk.Text+nx.Text, first+1)
			}
		}
		p.i++
		return atom(token.SYMBOL, tk.Text, first)
	case token.QUOTE:
		p.i++
		n := &c16Node{Kind: c16KQuote, First: first}
		kid := p.expr(append(append([]int{}, path...), 0), lift, "prefix-gap:quote")
		if kid == nil {
			return nil
		}
		n.Kids = []*c16Node{kid}
		n.Last = kid.Last
		return n
	case token.UNBOUND:
		p.i++
		n := &c16Node{Kind: c16KList, Open: '(', Sugar: "#^", First: first}
		kid := p.expr(append(append([]int{}, path...), 1), lift, "prefix-gap:unbound")
		if kid == nil {
			return nil
		}
		n.Kids = []*c16Node{{Kind: c16KAtom, TT: token.SYMBOL, Spell: "lisp:expr", Synth: true, First: first, Last: first}, kid}
		n.Last = kid.Last
		return n
	case token.FUN_REF:
		if p.i+1 >= len(p.toks) || p.toks[p.i+1].Type != token.SYMBOL {
			return p.fail("#' without symbol")
		}
		p.i += 2
		n := &c16Node{Kind: c16KList, Open: '(', Sugar: "#'", First: first, Last: first + 1}
		n.Kids = []*c16Node{{Kind: c16KAtom, TT: token.SYMBOL, Spell: "lisp:function", Synth: true, First: first, Last: first},
			{Kind: c16KAtom, TT: token.SYMBOL, Spell: p.toks[first+1].Text, First: first + 1, Last: first + 1}}
		return n
	case token.PAREN_L, token.BRACE_L:
		p.i++
		n := &c16Node{Kind: c16KList, Open: tk.Text[0], First: first}
		closeT := token.PAREN_R
		flavor := "paren"
		if tk.Type == token.BRACE_L {
			closeT = token.BRACE_R
			flavor = "brace"
		}
		for {
			p.skipComments("")
			if p.i >= len(p.toks) {
				return p.fail("unclosed %s", tk.Text)
			}
			if t := p.toks[p.i].Type; t == closeT {
				lp := c16PathStr(path)
				empty := len(n.Kids) == 0
				p.anchor("end:"+lp, func(c *c16Comment) {
					if empty {
						c.Ctx = flavor + "/before-close-empty"
					} else {
						c.Ctx = flavor + "/before-close"
					}
				})
				n.Last = p.i
				p.i++
				return n
			} else if t == token.PAREN_R || t == token.BRACE_R {
				return p.fail("mismatched bracket")
			}
			cp := append(append([]int{}, path...), len(n.Kids))
			where := flavor + "/before-arg"
			if len(n.Kids) == 0 {
				where = flavor + "/before-head"
			}
			kid := p.expr(cp, cp, where)
			if kid == nil {
				return nil
			}
			n.Kids = append(n.Kids, kid)
		}
	default:
		return p.fail("unexpected token %v %q", tk.Type, tk.Text)
	}
}

// ---------------------------------------------------------------------------
// comparison of two token trees (input vs output): spellings, brackets, prefixes.

type c16Diff struct {
	Kind   string // stable difference class
	Detail string
}

func c16AtomClass(tt token.Type) string {
	switch tt {
	case token.SYMBOL:
		return "symbol"
	case token.INT:
		return "int"
	case token.INT_OCTAL:
		return "int-octal"
	case token.INT_HEX:
		return "int-hex"
	case token.FLOAT:
		return "float"
	case token.STRING:
		return "string"
	case token.STRING_RAW:
		return "raw-string"
	}
	return tt.String()
}

// c16CompareTok compares canonical token trees.  Sugar vs longhand of the same
// '(' form is deliberately NOT a difference (documented re-sugaring).
func c16CompareTok(a, b []*c16Node) *c16Diff {
	if len(a) != len(b) {
		return &c16Diff{"toplevel-count", fmt.Sprintf("%d top-level expressions in input, %d in output", len(a), len(b))}
	}
	var cmp func(x, y *c16Node, path []int) *c16Diff
	cmp = func(x, y *c16Node, path []int) *c16Diff {
		at := " at path " + c16PathStr(path)
		if x.Kind == c16KList && y.Kind == c16KQuote && x.Open == '[' && y.Kids[0].Kind == c16KList && y.Kids[0].Open == '(' {
			return &c16Diff{"bracket:[->'(", fmt.Sprintf("a [ ] list became a quoted ( ) list%s", at)}
		}
		if x.Kind == c16KQuote && y.Kind == c16KList && y.Open == '[' && x.Kids[0].Kind == c16KList && x.Kids[0].Open == '(' {
			return &c16Diff{"bracket:'(->[", fmt.Sprintf("a quoted ( ) list became a [ ] list%s", at)}
		}
		if x.Kind != y.Kind {
			return &c16Diff{"node-kind", fmt.Sprintf("%s vs %s%s", c16Describe(x), c16Describe(y), at)}
		}
		switch x.Kind {
		case c16KAtom:
			if x.TT != y.TT {
				return &c16Diff{"literal-kind:" + c16AtomClass(x.TT) + "->" + c16AtomClass(y.TT), fmt.Sprintf("%q vs %q%s", x.Spell, y.Spell, at)}
			}
			if x.Spell != y.Spell {
				return &c16Diff{"spelling:" + c16AtomClass(x.TT), fmt.Sprintf("%q became %q%s", x.Spell, y.Spell, at)}
			}
		case c16KList:
			if x.Open != y.Open {
				return &c16Diff{fmt.Sprintf("bracket:%c->%c", x.Open, y.Open), fmt.Sprintf("%s vs %s%s", c16Describe(x), c16Describe(y), at)}
			}
			if len(x.Kids) != len(y.Kids) {
				return &c16Diff{"child-count", fmt.Sprintf("%d vs %d children%s", len(x.Kids), len(y.Kids), at)}
			}
		}
		for i := range x.Kids {
			if i >= len(y.Kids) {
				return &c16Diff{"child-count", at}
			}
			if d := cmp(x.Kids[i], y.Kids[i], append(path, i)); d != nil {
				return d
			}
		}
		return nil
	}
	for i := range a {
		if d := cmp(a[i], b[i], []int{i}); d != nil {
			return d
		}
	}
	return nil
}

func c16Describe(n *c16Node) string {
	switch n.Kind {
	case c16KAtom:
		return c16AtomClass(n.TT) + " " + n.Spell
	case c16KQuote:
		return "quote-prefix"
	default:
		if n.Sugar != "" {
			return "prefix form " + n.Sugar
		}
		return fmt.Sprintf("list %c with %d children", n.Open, len(n.Kids))
	}
}

// ---------------------------------------------------------------------------
// cross-check of this model against the strict reader (shape, kinds, quoting,
// symbol names).  Used only to detect a wrong MODEL.

type c16Model struct {
	Type   lisp.LType
	Quoted bool
	Sym    string
	Cells  []*c16Model
}

func c16ToModel(n *c16Node) *c16Model {
	switch n.Kind {
	case c16KAtom:
		switch n.TT {
		case token.SYMBOL:
			return &c16Model{Type: lisp.LSymbol, Sym: n.Spell}
		case token.INT, token.INT_HEX, token.INT_OCTAL:
			return &c16Model{Type: lisp.LInt}
		case token.FLOAT:
			return &c16Model{Type: lisp.LFloat}
		default:
			return &c16Model{Type: lisp.LString}
		}
	case c16KQuote:
		m := c16ToModel(n.Kids[0])
		if !m.Quoted {
			m.Quoted = true
			return m
		}
		return &c16Model{Type: lisp.LQuote, Quoted: true, Cells: []*c16Model{m}}
	default:
		m := &c16Model{Type: lisp.LSExpr, Quoted: n.Open == '['}
		for _, k := range n.Kids {
			m.Cells = append(m.Cells, c16ToModel(k))
		}
		return m
	}
}

func c16ModelAgrees(m *c16Model, v *lisp.LVal) bool {
	if v == nil || m.Type != v.Type || m.Quoted != v.IsQuoted() {
		return false
	}
	if m.Type == lisp.LSymbol && m.Sym != v.Str {
		return false
	}
	if m.Type == lisp.LSExpr || m.Type == lisp.LQuote {
		if len(m.Cells) != len(v.Cells) {
			return false
		}
		for i := range m.Cells {
			if !c16ModelAgrees(m.Cells[i], v.Cells[i]) {
				return false
			}
		}
	}
	return true
}
