package props

import (
	"fmt"
	"regexp"
	"sort"
	"strings"
	"time"

	"verifharness/fw"
	"verifharness/gen"
	"verifharness/refint"
	"verifharness/rt"
	"verifharness/sx"
	"verifharness/tree"
)

// C01 — core-language programs evaluate as the reference prescribes.
// Reference-model monitor: every generated program runs in the real
// interpreter and in refint; value (structural), error condition, effect
// trace (structural, in order) and debug-print output must agree.

func init() {
	fw.Register(&fw.Prop{
		ID:    "C01",
		Level: "exploration",
		Rule: "programs generated scope- and type-aware over the core grammar (three profiles: deep well-typed, hostile with a buried ill-typed/wrong-arity/unbound form, builtin-focused argument sweeps); " +
			"re-entrant forms: bounded recursions whose recursive call sits in an argument position of every kind of operator form (thread-first/thread-last steps of 1..8 elements, calls, lambda lists, let/let*, cond, if, and/or, set!, dotimes, quasiquote, sequence constructors, callbacks, handlers, flet/labels, closures), so the form is active in several activations with different values; " +
			"empty / falsy values as data: sorted-maps, lists and vectors holding (), '(), false, 0, \"\", empty vectors and maps (literal, computed, stored by sorted-map/assoc/assoc!/cons/append/append!) read back through one accessor family (get-default with an effect-probing default, get, key?, assoc/dissoc round trips, first/second/nth/car/cdr/rest/aref, select/reject/all?/any?/map/fold predicates, optional/key/rest parameters) and decided on by if/cond/or/and/not/true?/nil?/assert with effect probes (trace event, counter, memoising assoc!) in every lazily evaluated position; " +
			"each is run by the real interpreter (LoadString in a fresh runtime) and by the independent reference interpreter; distinct_nontrivial counts distinct (construct-or-builtin, outcome class) and (construct pair) signatures of programs on which the model made a prediction and the real run took >= 5 evaluation steps",
		Assumptions: []string{
			"the reference interpreter (harness/refint) encodes docs/lang.md and builtin docstrings; where they are silent it follows what the repository test-suite pins (integer wraparound, (or)->false, exact-division rule of /, one loop binding for dotimes)",
			"error messages are not compared, only the condition; functions compare as 'a function'; map key spelling (symbol vs string) is presentation and not compared",
			"programs on which the model declines to predict (fuel exhausted, construct outside its scope) are counted but not judged",
		},
		Cases:       func(tier string) int { return pick(tier, 24_000, 1_200_000) },
		Run:         c01Run,
		MinDistinct: func(tier string) int { return pick(tier, 400, 1500) },
	})
}

func pick(tier string, quick, thorough int) int {
	if tier == "thorough" {
		return thorough
	}
	return quick
}

type c01Outcome struct {
	val      *tree.T
	err      bool
	cond     string
	panic    bool
	trace    []rt.Probe
	stderr   string
	steps    int64
	rendered string
}

func c01Real(src string, o rt.Opts) c01Outcome {
	if o.MaxSteps == 0 {
		o.MaxSteps = 400_000
	}
	if o.MaxPhys == 0 {
		o.MaxPhys = 4000 // runaway recursion fails cheaply; the model declines beyond depth 1500
	}
	r := rt.New(o)
	v := r.Env.LoadString("c01", src)
	out := c01Outcome{trace: r.Trace, stderr: r.Stderr.String(), steps: r.Env.Runtime.Steps()}
	if v.Type == 3 /* lisp.LError */ {
		out.err = true
		out.cond = v.Str
		out.rendered = "ERR(" + v.Str + "): " + rt.ErrMsg(v)
	} else {
		out.val = tree.FromLVal(v)
		out.rendered = out.val.String()
	}
	return out
}

type c01Model struct {
	val      *tree.T
	err      *refint.Err
	trace    []refint.Probe
	stderr   string
	declined bool
	why      string
	sigs     map[string]bool
}

func c01RunModel(forms []*sx.N, q refint.Quirks) (m c01Model) {
	defer func() {
		if r := recover(); r != nil {
			m.declined = true
			m.why = fmt.Sprint("model panic: ", r)
		}
	}()
	in := refint.New()
	in.Quirks = q
	in.CallSigs = map[string]bool{}
	v, err := in.LoadForms(forms)
	m.sigs = in.CallSigs
	m.trace = in.Trace
	m.stderr = in.Stderr.String()
	if err != nil {
		if err.Fuel || err.Unsure {
			m.declined = true
			m.why = err.Cond
			return
		}
		m.err = err
		return
	}
	m.val = v.ToTree()
	return
}

// c01Diff returns "" when real and model agree.
func c01Diff(real c01Outcome, m c01Model, opt tree.Opts) string {
	// effect trace first: it localises the earliest divergence
	n := len(real.trace)
	if len(m.trace) < n {
		n = len(m.trace)
	}
	for i := 0; i < n; i++ {
		a, b := real.trace[i], m.trace[i]
		if a.Tag != b.Tag || len(a.Trees) != len(b.Vals) {
			return fmt.Sprintf("trace[%d]: real %s vs model %s", i, a.String(), b.Tag)
		}
		for j := range a.Trees {
			if !tree.Equal(a.Trees[j], b.Vals[j], opt) {
				return fmt.Sprintf("trace[%d] (%s) value %d: real %s vs model %s", i, a.Tag, j, a.Trees[j], b.Vals[j])
			}
		}
	}
	if len(real.trace) != len(m.trace) {
		return fmt.Sprintf("trace length: real %d vs model %d", len(real.trace), len(m.trace))
	}
	switch {
	case real.err && m.err == nil:
		return fmt.Sprintf("real failed with %s, model returned %s", real.rendered, m.val)
	case !real.err && m.err != nil:
		return fmt.Sprintf("real returned %s, model failed with %s", real.rendered, m.err)
	case real.err:
		if real.cond != m.err.Cond {
			return fmt.Sprintf("condition: real %s vs model %s", real.cond, m.err.Cond)
		}
	default:
		if !tree.Equal(real.val, m.val, opt) {
			return fmt.Sprintf("value: real %s vs model %s", real.val, m.val)
		}
	}
	if real.stderr != m.stderr {
		return fmt.Sprintf("stderr: real %q vs model %q", real.stderr, m.stderr)
	}
	return ""
}

var c01QuirkModes = []struct {
	name string
	q    refint.Quirks
}{
	{"let-initialiser-closure-sees-let-bindings", refint.Quirks{LetInitSeesLetScope: true}},
	{"let*-closure-sees-later-rebinding", refint.Quirks{LetStarSharedScope: true}},
	{"let-and-let*-share-binding-scope", refint.Quirks{LetInitSeesLetScope: true, LetStarSharedScope: true}},
}

func c01Profile(r *fw.RNG, idx int) (gen.Profile, string) {
	p := gen.DefaultProfile()
	p.Reentrant = 300
	p.CaptureShadow = 250
	switch idx % 4 {
	case 0:
		p.Hostile = 0
		p.MaxDepth = 6
		return p, "deep"
	case 1:
		p.Hostile = 25
		return p, "hostile"
	case 2:
		p.Hostile = 8
		p.MaxDepth = 4
		p.TopForms = 12
		return p, "wide"
	}
	p.Hostile = 60
	p.MaxDepth = 3
	return p, "very-hostile"
}

func c01Layout(r *fw.RNG) *sx.Layout {
	switch r.Intn(3) {
	case 0:
		return nil
	case 1:
		return &sx.Layout{Gap: func() string {
			switch r.Intn(6) {
			case 0:
				return "\n  "
			case 1:
				return "  "
			case 2:
				return " ; c\n "
			}
			return " "
		}}
	}
	return &sx.Layout{Gap: func() string { return " " }, Top: func() string { return "\n\n; top\n" }}
}

var c01Sigs = refint.Signatures()

// builtins whose results name process state the model does not mirror
// (aref: the model follows one documented case only and declines everywhere else)
var c01SweepSkip = map[string]bool{"gensym": true, "in-package": true, "use-package": true, "export": true, "load-string": true, "aref": true}

// c01Sweep builds a builtin-focused program: one modelled function or operator
// applied to argument tuples from the full literal pool, every arity 0..max+1.
func c01Sweep(r *fw.RNG, g *gen.G) []*sx.N {
	var forms []*sx.N
	for n := 0; n < 6; n++ {
		sg := c01Sigs[r.Intn(len(c01Sigs))]
		if sg.Kind != refint.FnFunction || c01SweepSkip[sg.Name] {
			continue
		}
		maxA := sg.Max
		if maxA < 0 {
			maxA = sg.Min + 3
		}
		k := r.Range(0, maxA+1)
		if r.Chance(3, 4) && k < sg.Min {
			k = sg.Min
		}
		args := make([]*sx.N, k)
		tys := make([]string, k)
		for i := range args {
			args[i], tys[i] = g.ArgLiteral()
		}
		g.Feat["sweep:"+sg.Name] = true
		call := sx.Call(sg.Name, args...)
		forms = append(forms, sx.Call("verif:probe", sx.QY(fmt.Sprintf("s%d", n)),
			sx.Call("handler-bind", sx.L(sx.L(sx.Y("condition"), sx.Call("lambda", sx.L(sx.Y("c"), sx.Y("&rest"), sx.Y("a")), sx.Call("list", sx.QY("failed"), sx.Y("c"))))), call)))
	}
	forms = append(forms, sx.I(0))
	return forms
}

// c01SortStability: stable-sort over 13-60 elements that tie under the predicate while
// being distinguishable (1 and 1.0 under <, strings of equal length under a by-length
// predicate, with and without a key function): ties keep their input order.  The
// expected order is computed here, independently (sort.SliceStable over the keys).
func c01SortStability(w *fw.W, idx int) {
	r := w.RNG(idx, "sortstab")
	n := r.Range(13, 60)
	type el struct {
		src string
		key float64
	}
	var els []el
	kind := r.Intn(3)
	for i := 0; i < n; i++ {
		switch kind {
		case 0: // ints and floats of equal value
			k := r.Intn(5)
			if r.Bool() {
				els = append(els, el{fmt.Sprintf("%d", k), float64(k)})
			} else {
				els = append(els, el{fmt.Sprintf("%d.0", k), float64(k)})
			}
		default: // words that tie on their length
			l := r.Range(1, 4)
			word := ""
			for j := 0; j < l; j++ {
				word += string(rune('a' + r.Intn(6)))
			}
			els = append(els, el{fmt.Sprintf("%q", word), float64(l)})
		}
	}
	var srcs []string
	for _, e := range els {
		srcs = append(srcs, e.src)
	}
	var form string
	switch kind {
	case 0:
		form = fmt.Sprintf("(stable-sort < (list %s))", strings.Join(srcs, " "))
	case 1:
		form = fmt.Sprintf("(stable-sort (lambda (a b) (< (length a) (length b))) (list %s))", strings.Join(srcs, " "))
	default:
		form = fmt.Sprintf("(stable-sort < (list %s) length)", strings.Join(srcs, " "))
	}
	want := append([]el(nil), els...)
	sort.SliceStable(want, func(i, j int) bool { return want[i].key < want[j].key })
	var ws []string
	for _, e := range want {
		ws = append(ws, e.src)
	}
	src := fmt.Sprintf("(equal? %s (list %s))", form, strings.Join(ws, " "))
	rr := rt.New(rt.Opts{MaxSteps: 400_000})
	t := rr.Run("c01", src)
	w.Eval(1)
	if t.IsErr || t.Value != "true" {
		got := rr.Run("c01", form)
		w.Violation(fmt.Sprintf("sort-not-stable:%s", []string{"int-float-ties", "predicate-ties", "key-ties"}[kind]),
			fmt.Sprintf("stable-sort of %d elements did not keep tied elements in input order", n), fmt.Sprintf("%s\n=> %s\nwant (list %s)", form, got.Outcome(), strings.Join(ws, " ")))
		return
	}
	w.CoverKey(fmt.Sprintf("sort-stability|kind=%d|n=%d", kind, n/8))
}

func c01Run(w *fw.W, idx int) {
	if idx%40 == 13 {
		c01SortStability(w, idx)
		return
	}
	r := w.RNG(idx, "prog")
	prof, pname := c01Profile(r, idx)
	g := gen.New(r, prof)
	var forms []*sx.N
	reKind := ""
	fdKind := ""
	rdKind := ""
	if idx == 0 {
		// a fixed program: the canonical instance of the let* shared-scope deviation
		// (known finding), so that every run observes it whatever the seed
		pname = "fixed:let*-closure"
		forms = []*sx.N{sx.Call("let*", sx.L(sx.L(sx.Y("a"), sx.I(1)), sx.L(sx.Y("f"), sx.Call("lambda", sx.L(), sx.Y("a"))), sx.L(sx.Y("a"), sx.I(2))),
			sx.Call("verif:probe", sx.QY("r"), sx.Call("funcall", sx.Y("f")), sx.Y("a")))}
	} else if idx%5 == 4 {
		pname = "builtin-sweep"
		forms = c01Sweep(r, g)
	} else if idx%10 == 7 {
		// re-entrant forms: bounded recursions whose recursive call sits in an argument
		// position of one kind of operator form, so the form is active in several
		// activations at once, each with values of its own
		pname = "reentrant"
		forms, reKind = g.ReentrantProgram()
	} else if idx%10 == 3 {
		// empty / falsy values as data: containers holding (), '(), false, 0, "", empty
		// vectors and maps, read back through one family of accessors and decided on by
		// the truthiness-branching operators, effect probes in every lazy position
		pname = "falsy-data"
		forms, fdKind = g.FalsyProgram()
	} else if idx%20 == 6 {
		// values that do not evaluate to themselves (elements of quoted lists: unquoted
		// forms and symbols) as data sent through one family of consumers; a value is
		// never evaluated again, whatever route it takes
		pname = "raw-data"
		forms, rdKind = g.RawDataProgram()
	} else {
		forms = g.Program()
	}
	src := sx.Render(forms, c01Layout(w.RNG(idx, "layout")))
	w.Logf("source:\n%s", src)
	t0 := time.Now()
	ropts := rt.Opts{}
	if reKind != "" || g.Feat["reentrant-recursion"] {
		// call trees multiply (two call sites, loops, callbacks): the model's fuel (600 000,
		// about 450 000 real steps), not the real step limit, has to be what gives out first
		ropts.MaxSteps = 1_000_000
	}
	real := c01Real(src, ropts)
	w.Eval(1)
	t1 := time.Now()
	w.Logf("real: %s steps=%d", real.rendered, real.steps)
	m := c01RunModel(forms, refint.Quirks{})
	if d := time.Since(t0); d > 2*time.Second {
		w.SetAdd("slow_cases", fmt.Sprintf("idx=%d real=%v model=%v steps=%d", idx, t1.Sub(t0), time.Since(t1), real.steps))
	}
	w.Logf("source:\n%s\nreal: %s\n trace=%v\nmodel: val=%v err=%v declined=%v(%s)\n", src, real.rendered, real.trace, m.val, m.err, m.declined, m.why)
	if m.declined {
		w.Count("model_declined", 1)
		w.SetAdd("model_declined_reasons", m.why)
		return
	}
	opt := tree.Opts{}
	diff := c01Diff(real, m, opt)
	outcome := "value"
	if real.err {
		outcome = "err:" + real.cond
	}
	if diff == "" {
		if real.steps >= 5 {
			feats := make([]string, 0, len(g.Feat))
			for f := range g.Feat {
				feats = append(feats, f)
			}
			sort.Strings(feats)
			for i, f := range feats {
				w.CoverKey("feat=" + f + "|" + outcome)
				for _, f2 := range feats[i+1:] {
					w.CoverKey("pair=" + f + "+" + f2)
				}
			}
			for sig := range m.sigs {
				w.CoverKey("call=" + sig + "|" + outcome)
			}
			for sh := range g.Shape {
				w.CoverKey("reentrant-shape=" + sh + "|" + outcome)
			}
			if reKind != "" {
				w.Count("reentrant_programs", 1)
			}
			if fdKind != "" {
				w.Count("falsy_data_programs", 1)
			}
			if rdKind != "" {
				w.Count("raw_data_programs", 1)
				w.Count("raw_data_programs:"+rdKind, 1)
			}
			w.Count("steps_total", real.steps)
			w.Count("probe_events", int64(len(real.trace)))
			if m.err != nil {
				w.SetAdd("error_classes", m.err.Class)
			}
		}
		if w.WantSample() && real.steps > 40 && len(src) < 900 {
			w.Sample(map[string]any{"profile": pname, "source": src, "outcome": real.rendered, "steps": real.steps, "probe_events": len(real.trace)})
		}
		return
	}
	// Disagreement.  Is it one of the named deviations?
	for _, qm := range c01QuirkModes {
		mq := c01RunModel(forms, qm.q)
		// under the deviation the program recurses without end: the real run dies of a
		// resource limit and the deviation model gives up (depth or fuel), while the
		// documented semantics terminate
		runaway := mq.declined && !strings.Contains(mq.why, "model panic") && real.err &&
			(strings.Contains(real.rendered, "stack height exceeded") || real.cond == "step-limit-exceeded")
		if runaway || (!mq.declined && c01Diff(real, mq, opt) == "") {
			w.Violation("lexical-scope:"+qm.name,
				"real interpreter deviates from lexical scoping: "+qm.name,
				fmt.Sprintf("source:\n%s\nwith the documented semantics: %s\nthe real run matches the model only with deviation %q enabled", src, diff, qm.name))
			return
		}
	}
	cls := "value"
	switch {
	case strings.HasPrefix(diff, "trace"):
		cls = "trace"
	case strings.HasPrefix(diff, "real failed"), strings.HasPrefix(diff, "real returned"):
		cls = "error-vs-value"
	case strings.HasPrefix(diff, "condition"):
		cls = "condition"
	case strings.HasPrefix(diff, "stderr"):
		cls = "stderr"
	}
	if reKind != "" {
		// by construction the program consists of recursions re-entering one kind of form
		w.Violation("reentrant-form:"+reKind+":"+cls, diff, fmt.Sprintf("profile=%s kind=%s shapes=%v\nsource:\n%s\nreal: %s\nmodel: val=%v err=%v site=%s", pname, reKind, c01Shapes(g), src, real.rendered, m.val, m.err, c01Site(m.err)))
		return
	}
	if fdKind != "" {
		// by construction the program reads stored empty / falsy values through one accessor family
		w.Violation("falsy-data:"+fdKind+":"+cls, diff, fmt.Sprintf("profile=%s accessor-family=%s\nsource:\n%s\nreal: %s\nmodel: val=%v err=%v site=%s", pname, fdKind, src, real.rendered, m.val, m.err, c01Site(m.err)))
		return
	}
	if rdKind != "" {
		// by construction the program sends values that do not evaluate to themselves through one consumer family
		w.Violation("raw-data:"+rdKind+":"+cls, diff, fmt.Sprintf("profile=%s consumer-family=%s\nsource:\n%s\nreal: %s\nmodel: val=%v err=%v site=%s", pname, rdKind, src, real.rendered, m.val, m.err, c01Site(m.err)))
		return
	}
	if pname == "builtin-sweep" {
		if m := c01SweepRe.FindStringSubmatch(diff); m != nil {
			if n := c01SweepName(forms, m[1]); n != "" {
				cls = "builtin:" + n
			}
		}
	}
	w.Violation("model-disagreement:"+cls, diff, fmt.Sprintf("profile=%s\nsource:\n%s\nreal: %s\nmodel: val=%v err=%v site=%s", pname, src, real.rendered, m.val, m.err, c01Site(m.err)))
}

func c01Shapes(g *gen.G) []string {
	var out []string
	for s := range g.Shape {
		out = append(out, s)
	}
	sort.Strings(out)
	return out
}

func c01Site(e *refint.Err) string {
	if e == nil || e.Site == nil {
		return "-"
	}
	return fmt.Sprintf("%d:%d %s", e.Site.Line, e.Site.Col, e.Site.String())
}

var c01SweepRe = regexp.MustCompile(`\((s[0-9]+)\)|real (s[0-9]+):`)

func c01SweepName(forms []*sx.N, tag string) string {
	for _, f := range forms {
		if f.Head() == "verif:probe" && len(f.L) == 3 && f.L[1].K == sx.Quote && f.L[1].L[0].S == tag {
			hb := f.L[2]
			if len(hb.L) == 3 {
				return hb.L[2].Head()
			}
		}
	}
	return ""
}
