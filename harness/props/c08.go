package props

import (
	"fmt"
	"sort"
	"strings"

	"github.com/luthersystems/elps/lisp"

	"verifharness/fw"
	"verifharness/refint"
	"verifharness/rt"
	"verifharness/sx"
	"verifharness/tree"
)

// C08 — packages isolate and resolve names as documented.  Reference-model
// monitor over generated multi-package programs, plus host-side observation of
// Runtime.Package and the registry contents through exported accessors.

func init() {
	fw.Register(&fw.Prop{
		ID:    "C08",
		Level: "exploration",
		Rule: "programs over 2-5 packages with random orders of in-package / export (before and after definition) / use-package / set / defun / defmacro / redefinition after import / qualified and unqualified references / functions that set or read globals when called from another package / load-string nesting (depth <= 3) with in-package inside / attempts to bind :k, true, false through set, set!, let, lambda formals, labels, dotimes; " +
			"every reference is observed through an effect probe; values, conditions, the probe trace, Runtime.Package.Name after the load and the per-package symbol tables are compared with the reference model. distinct_nontrivial counts distinct (statement-kind bigram, outcome) and (reference kind, resolution outcome) signatures. " +
			"Appended family (c08_refused.go): histories of several top-level loads on one runtime whose statements include REFUSED in-package / use-package / export calls (7 classes of refusal x 4 ways of carrying on: handler-bind, ignore-errors, a load-string that fails, a top-level load that fails), followed by the valid form on the same name; what a refused call leaves behind is not judged, what the property states is (after any history); counted as (class, guard, neighbouring statement kind) and (class, reference kind, outcome) signatures",
		Assumptions: []string{
			"the package model is harness/refint (packages are tables; use-package copies the exported bindings present at that moment; a function body runs with its defining package current; load restores the package)",
			"what a refused in-package leaves behind is not specified: the current package after it and the existence of the package it named are not judged (refint.Interp.RefusedPackageOpsUnjudged)",
		},
		Cases: func(tier string) int { return c08MainCases(tier) + c08RefusedCases(tier) },
		Run: func(w *fw.W, idx int) {
			if base := c08MainCases(w.Tier); idx >= base {
				c08RefusedRun(w, idx-base) // c08_refused.go; appended, the main family keeps its indices
				return
			}
			c08Run(w, idx)
		},
		Driver:      c08Driver,
		MinDistinct: func(tier string) int { return pick(tier, 600, 1200) },
	})
}

type c08Gen struct {
	r      *fw.RNG
	nprobe int
	pkgs   []string
	cur    string
	kinds  []string
	depth  int
	ref    *c08Ref // histories with refused package operations (c08_refused.go); nil in the main family
}

// the last two are names the language package exports: a package may bind them itself
var c08Names = []string{"a", "b", "c", "f", "g", "h", "first", "length"}

func (g *c08Gen) probe(tag string, e *sx.N) *sx.N {
	g.nprobe++
	return sx.Call("verif:probe", sx.QY(fmt.Sprintf("%s%d", tag, g.nprobe)), e)
}

func (g *c08Gen) guarded(e *sx.N) *sx.N {
	return sx.Call("handler-bind", sx.L(sx.L(sx.Y("condition"), sx.Call("lambda", sx.L(sx.Y("c"), sx.Y("&rest"), sx.Y("r")), sx.QY("failed")))), e)
}

func (g *c08Gen) pkgRef() string { return fw.Pick(g.r, g.pkgs) }

func (g *c08Gen) stmt() *sx.N {
	k := g.r.Intn(26)
	name := fw.Pick(g.r, c08Names)
	val := sx.I(int64(g.r.Intn(100)))
	add := func(kind string) { g.kinds = append(g.kinds, kind) }
	switch {
	case k < 3:
		add("in-package")
		p := g.pkgRef()
		g.cur = p
		if g.ref != nil {
			g.ref.entered[p] = true
		}
		if g.r.Bool() {
			return sx.Call("in-package", sx.QY(p))
		}
		return sx.Call("in-package", sx.S(p))
	case k < 5:
		add("export")
		if g.r.Chance(1, 4) {
			return sx.Call("export", sx.QY(name), sx.S(fw.Pick(g.r, c08Names)))
		}
		return sx.Call("export", sx.QY(name))
	case k < 7:
		add("use-package")
		return g.guarded(sx.Call("use-package", sx.QY(g.pkgRef())))
	case k < 10:
		add("set")
		return sx.Call("set", sx.QY(name), val)
	case k == 10:
		add("set-qualified")
		return g.guarded(sx.Call("set", sx.QY(g.pkgRef()+":"+name), val))
	case k == 11:
		add("defun-reader")
		// reads a global unqualified: resolves in the DEFINING package
		return sx.Call("defun", sx.Y(name), sx.L(), sx.Y(fw.Pick(g.r, c08Names)))
	case k == 12 && g.r.Bool():
		add("defun-self-qualified")
		other := fw.Pick(g.r, c08Names)
		return sx.Call("defun", sx.Y(name), sx.L(sx.Y(other)), sx.Call("list", sx.Y(other), g.guarded(sx.Y(g.cur+":"+other))))
	case k == 12:
		add("defun-setter")
		return sx.Call("defun", sx.Y(name), sx.L(sx.Y("v")), sx.Call("set", sx.QY(fw.Pick(g.r, c08Names)), sx.Y("v")))
	case k == 13:
		add("defmacro")
		return sx.Call("defmacro", sx.Y(name), sx.L(), sx.Call("quasiquote", sx.Call("list", sx.QY("mac"), sx.I(int64(g.r.Intn(9))))))
	case k < 17:
		add("ref-unqualified")
		return g.probe("u", g.guarded(sx.Y(name)))
	case k < 19:
		if g.r.Chance(1, 3) {
			// a qualified reference under a lexical binding of the same bare name, at top
			// level and inside a function body (whose package is current while it runs)
			add("ref-qualified-under-shadow")
			p := g.pkgRef()
			if g.r.Bool() {
				p = g.cur
			}
			ref := sx.Call("list", sx.Y(name), g.guarded(sx.Y(p+":"+name)))
			if g.r.Bool() {
				return g.probe("qs", sx.Call("let", sx.L(sx.L(sx.Y(name), sx.I(int64(900+g.r.Intn(9))))), ref))
			}
			return g.probe("qs", sx.L(sx.Call("lambda", sx.L(sx.Y(name)), ref), sx.I(int64(800+g.r.Intn(9)))))
		}
		add("ref-qualified")
		return g.probe("q", g.guarded(sx.Y(g.pkgRef()+":"+name)))
	case k == 19:
		add("call")
		target := name
		if g.r.Bool() {
			target = g.pkgRef() + ":" + name
		}
		if g.r.Bool() {
			return g.probe("call", g.guarded(sx.Call(target)))
		}
		return g.probe("call", g.guarded(sx.Call(target, val)))
	case k == 21:
		// a function that reaches its callee INDIRECTLY: funcall / apply of a quoted
		// symbol, which is resolved when the call is made, in the package that is
		// current then - the function's defining package.  In tail position (where
		// chains of such calls through several packages are collapsed by tail-call
		// elimination) or not; the callee may be `set`, which binds in the current package.
		add("indirect-call")
		other := fw.Pick(g.r, c08Names)
		via := fw.Pick(g.r, []string{"funcall", "apply"})
		mk := func(target string, args ...*sx.N) *sx.N {
			if via == "apply" {
				return sx.Call("apply", sx.QY(target), sx.Call("list", args...))
			}
			return sx.Call("funcall", append([]*sx.N{sx.QY(target)}, args...)...)
		}
		pos := func(e *sx.N) *sx.N {
			if g.r.Chance(2, 3) {
				return e // tail position
			}
			return sx.Call("list", e)
		}
		rest := sx.L(sx.Y("&rest"), sx.Y("xs"))
		switch g.r.Intn(5) {
		case 0:
			return sx.Call("defun", sx.Y(name), rest, pos(mk(other)))
		case 1:
			return sx.Call("defun", sx.Y(name), rest, pos(mk(g.pkgRef()+":"+other)))
		case 2:
			return sx.Call("defun", sx.Y(name), sx.L(sx.Y("v")), pos(mk("set", sx.QY(other), sx.Y("v"))))
		default:
			// a chain through another package, built in one statement
			p2 := g.pkgRef()
			if g.ref != nil {
				g.ref.entered[p2] = true
			}
			third := fw.Pick(g.r, c08Names)
			inner := mk(third)
			if g.r.Chance(1, 3) {
				inner = mk("set", sx.QY(third), sx.I(int64(700+g.r.Intn(9))))
			}
			return sx.Call("progn",
				sx.Call("in-package", sx.QY(p2)),
				sx.Call("defun", sx.Y(other), rest, pos(inner)),
				sx.Call("in-package", sx.QY(g.cur)),
				sx.Call("defun", sx.Y(name), rest, pos(mk(p2+":"+other))),
				g.probe("call", g.guarded(sx.Call(name))))
		}
	case k == 22:
		// a function that FAILS when called, in a non-final or in its final body form;
		// calls are guarded, so evaluation continues in the caller's package
		add("defun-failing")
		if g.r.Bool() {
			return sx.Call("defun", sx.Y(name), sx.L(sx.Y("&rest"), sx.Y("xs")), sx.Call("car", sx.I(5)), sx.Call("set", sx.QY(fw.Pick(g.r, c08Names)), sx.I(-1)), sx.QY("unreached"))
		}
		return sx.Call("defun", sx.Y(name), sx.L(sx.Y("&rest"), sx.Y("xs")), sx.Y("xs"), sx.Call("car", sx.I(5)))
	case k == 24:
		// no body forms at all: the call returns () and nothing else happens
		add("defun-empty")
		return sx.Call("defun", sx.Y(name), sx.L(sx.Y("&rest"), sx.Y("xs")))
	case k == 25:
		add("defmacro-empty")
		return sx.Call("defmacro", sx.Y(name), sx.L(sx.Y("&rest"), sx.Y("xs")))
	case k == 23:
		add("defmacro-failing")
		return sx.Call("defmacro", sx.Y(name), sx.L(sx.Y("&rest"), sx.Y("xs")), sx.Call("car", sx.I(5)), sx.I(1))
	case k == 20:
		if g.depth < 3 {
			add("load-string")
			g.depth++
			saved := g.cur
			var inner []*sx.N
			for i := g.r.Range(1, 4); i > 0; i-- {
				inner = append(inner, g.stmt())
			}
			g.cur = saved
			g.depth--
			s := &sx.N{K: sx.Str, Prog: inner}
			return g.probe("load", g.guarded(sx.Call("load-string", s)))
		}
		fallthrough
	default:
		add("constant-binding")
		switch g.r.Intn(9) {
		case 0:
			return g.probe("k", g.guarded(sx.Call("set", sx.QY(":kw"), val)))
		case 1:
			return g.probe("k", g.guarded(sx.Call("set", sx.QY(fw.Pick(g.r, []string{"true", "false"})), val)))
		case 2:
			return g.probe("k", g.guarded(sx.Call("set!", sx.Y(fw.Pick(g.r, []string{"true", "false", ":kw"})), val)))
		case 3:
			return g.probe("k", g.guarded(sx.Call("let", sx.L(sx.L(sx.Y(fw.Pick(g.r, []string{"true", "false"})), val)), sx.Y("true"))))
		case 4:
			return g.probe("k", g.guarded(sx.Call("let", sx.L(sx.L(sx.Y(":kw"), val)), sx.Y(":kw"))))
		case 5:
			return g.probe("k", g.guarded(sx.L(sx.Call("lambda", sx.L(sx.Y(fw.Pick(g.r, []string{"true", "false", ":kw"}))), sx.Call("list", sx.Y("true"), sx.Y("false"), sx.Y(":kw"))), val)))
		case 6:
			return g.probe("k", g.guarded(sx.Call("labels", sx.L(sx.L(sx.Y(fw.Pick(g.r, []string{"true", "false"})), sx.L(), val)), sx.Y("true"))))
		case 7:
			return g.probe("k", g.guarded(sx.Call("dotimes", sx.L(sx.Y(fw.Pick(g.r, []string{"true", "false"})), sx.I(2)), sx.I(1))))
		}
		return g.probe("k", sx.Call("list", sx.Y(":kw"), sx.Y("true"), sx.Y("false"), sx.Y(g.pkgRef()+":true")))
	}
}

func c08Run(w *fw.W, idx int) {
	r := w.RNG(idx, "prog")
	g := &c08Gen{r: r, cur: "user"}
	np := r.Range(1, 4)
	g.pkgs = []string{"user"}
	for i := 1; i <= np; i++ {
		g.pkgs = append(g.pkgs, fmt.Sprintf("p%d", i))
	}
	// the language package itself is never entered or modified: what happens to
	// later packages when `lisp` exports unbound names is not specified
	var forms []*sx.N
	for i := r.Range(6, 30); i > 0; i-- {
		forms = append(forms, g.stmt())
	}
	// final observation: every name, unqualified and qualified in every package
	var obs []*sx.N
	for _, n := range c08Names {
		obs = append(obs, g.guarded(sx.Y(n)))
	}
	forms = append(forms, sx.Call("list", obs...))
	src := sx.Render(forms, nil)

	rr := rt.New(rt.Opts{MaxSteps: 400_000})
	v := rr.Env.LoadString("c08", src)
	w.Eval(1)
	in := refint.New()
	mv, merr := func() (mv *refint.V, me *refint.Err) {
		defer func() {
			if rec := recover(); rec != nil {
				me = &refint.Err{Cond: fmt.Sprint("<model panic: ", rec, ">"), Unsure: true}
			}
		}()
		return in.LoadForms(forms)
	}()
	w.Logf("source:\n%s\nreal: %s\n trace %v\nmodel: %s %v\n trace %s", src, v, rr.Trace, c06Val(mv), merr, in.TraceString())
	if merr != nil && (merr.Fuel || merr.Unsure) {
		w.Count("model_declined", 1)
		w.SetAdd("declined", merr.Cond)
		return
	}
	detail := func() string {
		return fmt.Sprintf("source:\n%s\nreal: %s\n trace %v\nmodel: %s %v\n trace %s", src, v, rr.Trace, c06Val(mv), merr, in.TraceString())
	}
	if len(rr.Trace) != len(in.Trace) {
		w.Violation("package-model-disagreement:trace", fmt.Sprintf("effect trace length %d vs model %d", len(rr.Trace), len(in.Trace)), detail())
		return
	}
	for i := range rr.Trace {
		a, b := rr.Trace[i], in.Trace[i]
		ok := a.Tag == b.Tag && len(a.Trees) == len(b.Vals)
		for j := 0; ok && j < len(a.Trees); j++ {
			ok = tree.Equal(a.Trees[j], b.Vals[j], tree.Opts{IgnoreQuote: true})
		}
		if !ok {
			kind := strings.TrimRight(a.Tag, "0123456789")
			w.Violation("package-model-disagreement:"+c08TagKind(kind), fmt.Sprintf("effect %d (%s): real %s vs model %s", i, a.Tag, a.Vals, c08Vals(b)), detail())
			return
		}
	}
	realErr := v.Type == lisp.LError
	if realErr != (merr != nil) || (realErr && v.Str != merr.Cond) {
		w.Violation("package-model-disagreement:outcome", fmt.Sprintf("real %s vs model %s %v", trunc(v.String(), 200), c06Val(mv), merr), detail())
		return
	}
	if !realErr && !tree.Equal(tree.FromLVal(v), mv.ToTree(), tree.Opts{IgnoreQuote: true}) {
		w.Violation("package-model-disagreement:final-values", fmt.Sprintf("real %s vs model %s", v, mv.ToTree()), detail())
		return
	}
	// host side: in-package inside a loaded source does not leak to the host
	if got := rr.Env.Runtime.Package.Name; got != "user" {
		w.Violation("in-package-leaks-to-host", "Runtime.Package is "+got+" after the load returned", detail())
		return
	}
	// registry contents through exported accessors
	reg := rr.Env.Runtime.Registry
	langSyms := map[string]bool{}
	for _, s := range reg.Package("lisp").Externals() {
		langSyms[s] = true
	}
	for _, pn := range g.pkgs {
		if pn == "lisp" {
			continue
		}
		rp := reg.Package(pn)
		mp := in.Pkgs[pn]
		if (rp == nil) != (mp == nil) {
			w.Violation("package-existence", fmt.Sprintf("package %s exists: real %v, model %v", pn, rp != nil, mp != nil), detail())
			return
		}
		if rp == nil {
			continue
		}
		if miss := c08LangMissing(reg.Package("lisp"), rp); len(miss) > 0 {
			w.Violation("package-lacks-language-exports", fmt.Sprintf("package %s exists and lacks %d of the language package's exports (first: %s)", pn, len(miss), miss[0]), detail())
			return
		}
		var rs, ms []string
		for _, s := range rp.SymbolNames() {
			if !langSyms[s] || c08IsPool(s) {
				rs = append(rs, s)
			}
		}
		for s := range mp.Syms {
			if !langSyms[s] || c08IsPool(s) {
				ms = append(ms, s)
			}
		}
		sort.Strings(ms)
		if strings.Join(rs, ",") != strings.Join(ms, ",") {
			w.Violation("package-symbol-table", fmt.Sprintf("package %s binds [%s], the model says [%s]", pn, strings.Join(rs, ","), strings.Join(ms, ",")), detail())
			return
		}
		re := append([]string(nil), rp.Externals()...)
		var me []string
		for _, e := range mp.Exports {
			me = append(me, e)
		}
		if pn != "user" || true {
			re2 := re[:0:0]
			for _, e := range re {
				if !langSyms[e] || c08IsPool(e) {
					re2 = append(re2, e)
				}
			}
			sort.Strings(re2)
			sort.Strings(me)
			if strings.Join(re2, ",") != strings.Join(me, ",") {
				w.Violation("package-exports", fmt.Sprintf("package %s exports [%s], the model says [%s]", pn, strings.Join(re2, ","), strings.Join(me, ",")), detail())
				return
			}
		}
	}
	for i := 1; i < len(g.kinds); i++ {
		w.CoverKey("bigram|" + g.kinds[i-1] + ">" + g.kinds[i])
		if i >= 2 {
			w.CoverKey("trigram|" + g.kinds[i-2] + ">" + g.kinds[i-1] + ">" + g.kinds[i])
		}
	}
	for _, p := range rr.Trace {
		kind := strings.TrimRight(p.Tag, "0123456789")
		w.CoverKey("ref|" + kind + "|" + c08Class(p.Vals))
	}
	w.Count("probe_events", int64(len(rr.Trace)))
	if w.WantSample() && len(src) < 1200 && len(rr.Trace) > 4 {
		w.Sample(map[string]any{"source": src, "final": v.String(), "probes": len(rr.Trace)})
	}
}

func c08IsPool(s string) bool {
	for _, n := range c08Names {
		if n == s {
			return true
		}
	}
	return false
}

func c08TagKind(k string) string {
	switch k {
	case "u":
		return "unqualified-reference"
	case "q":
		return "qualified-reference"
	case "qs":
		return "qualified-reference-under-shadow"
	case "call":
		return "call"
	case "load":
		return "load-string"
	case "k":
		return "constant-binding"
	case "refused":
		return "value-of-guarded-refused-call"
	case "use":
		return "use-package"
	case "obs":
		return "final-observation"
	}
	return "trace"
}

func c08Vals(p refint.Probe) string {
	var s []string
	for _, v := range p.Vals {
		s = append(s, v.String())
	}
	return strings.Join(s, " ")
}

func c08Class(v string) string {
	switch {
	case v == "'failed":
		return "failed"
	case strings.HasPrefix(v, "(lambda"), strings.HasPrefix(v, "#<builtin"):
		return "function"
	case strings.HasPrefix(v, "'("):
		return "list"
	}
	return "value"
}
