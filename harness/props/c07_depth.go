package props

// C07, the two routes at the macro-expansion bound (round 9).
//
// "Evaluating a macro call is equivalent to evaluating the form that
// macroexpand returns for that call": the expansion bound
// (WithMaxMacroExpansionDepth) is part of the configuration both routes run
// under, so a chain of e successive expansions must succeed by both routes or
// fail by both.  The macro programs of c07Macros run at the default bound,
// which no chain comes near; here the bound is set to e-2 .. e+2 for chains of
// several shapes.  Side finding of the round-8 seeding agent: the evaluator
// allowed max expansions, (macroexpand ...) max+1.

import (
	"fmt"

	"verifharness/fw"
	"verifharness/rt"
)

func c07Depth(w *fw.W, idx int) {
	r := w.RNG(idx, "depth")
	d := r.Range(1, 12)
	shape := fw.Pick(r, []string{"self", "pair", "wrapped-tail", "through-progn", "atom-result", "symbol-result", "string-result"})
	var defs string
	e := 0 // successive expansions of the outermost form until a non-macro form remains
	switch shape {
	case "self":
		defs = `(defmacro cnt (n) (if (= n 0) (quasiquote (verif:probe 'done 0)) (quasiquote (cnt (unquote (- n 1))))))`
		e = d + 1
	case "pair":
		defs = `(defmacro cnt (n) (if (= n 0) (quasiquote (verif:probe 'done 0)) (quasiquote (cnt2 (unquote (- n 1))))))
(defmacro cnt2 (n) (if (= n 0) (quasiquote (verif:probe 'done 2)) (quasiquote (cnt (unquote (- n 1))))))`
		e = d + 1
	case "wrapped-tail":
		// the chain ends in a form whose ARGUMENT is another chain: that one starts counting afresh
		defs = `(defmacro inner (n) (if (= n 0) 7 (quasiquote (inner (unquote (- n 1))))))
(defmacro cnt (n) (if (= n 0) (quasiquote (verif:probe 'done (inner 2))) (quasiquote (cnt (unquote (- n 1))))))`
		e = d + 1
		if e < 3 {
			e = 3
		}
	case "atom-result":
		// the last expansion is not a list at all
		defs = `(defmacro cnt (n) (if (= n 0) 7 (quasiquote (cnt (unquote (- n 1))))))`
		e = d + 1
	case "symbol-result":
		defs = `(set 'the-answer 42)
(defmacro cnt (n) (if (= n 0) 'the-answer (quasiquote (cnt (unquote (- n 1))))))`
		e = d + 1
	case "string-result":
		defs = `(defmacro cnt (n) (if (= n 0) "s" (quasiquote (cnt (unquote (- n 1))))))`
		e = d + 1
	default:
		defs = `(defmacro cnt (n) (if (= n 0) (quasiquote (progn (verif:probe 'done 0) 1)) (quasiquote (cnt (unquote (- n 1))))))`
		e = d + 1
	}
	call := fmt.Sprintf("(cnt %d)", d)
	for _, delta := range []int{-2, -1, 0, 1, 2} {
		m := e + delta
		if m < 1 {
			continue
		}
		var outs [2]string
		for route := 0; route < 2; route++ {
			rr := rt.New(rt.Opts{MaxMacro: m})
			if t := rr.Run("c07-depth-defs", defs); t.IsErr {
				w.Violation("harness:c07-depth-defs-failed", t.Outcome(), defs)
				return
			}
			src := call
			if route == 1 {
				src = "(eval (macroexpand '" + call + "))"
			}
			t := rr.Run("c07-depth", src)
			w.Eval(1)
			outs[route] = t.Outcome() + fmt.Sprintf(" probes=%d", len(rr.Trace))
		}
		rel := "below"
		switch {
		case delta == 0:
			rel = "exact"
		case delta > 0:
			rel = "above"
		}
		w.CoverKey(fmt.Sprintf("depth|%s|bound-%s|%v", shape, rel, outs[0] == outs[1]))
		w.Count("expansion_bound_route_pairs", 1)
		if outs[0] != outs[1] {
			w.Violation(fmt.Sprintf("macro-call-differs-from-eval-of-macroexpand:at-expansion-bound:%s:bound-%s-the-chain", shape, rel),
				fmt.Sprintf("a chain of %d expansions under WithMaxMacroExpansionDepth(%d): direct call -> %s, eval of macroexpand -> %s", e, m, outs[0], outs[1]),
				defs+"\n"+call)
			return
		}
	}
}
