package props

// C17 — s-expression model used by the generator, the renderer (with random
// layout), an independent tokenizer (used by the symbol-map inversion oracle)
// and the shrinker.  Nothing in this file touches the code under test.

import (
	"strconv"
	"strings"
)

// c17N is one node of a generated program: an atom or a list.
type c17N struct {
	A  string  // atom text (symbol, integer, keyword, or a string literal including its quotes)
	L  []*c17N // list elements (A == "")
	Br bool    // list written with [ ] (reads as a quoted list; used for binding lists)
	Q  bool    // written with a leading ' (quoted datum)
	Fn bool    // symbol written with a leading #' (function reference shorthand)
	Px bool    // list written with a leading #^ (prefix-lambda shorthand)
	// IsL marks an (empty) list; an atom has IsL == false.
	IsL bool
}

func c17Sym(s string) *c17N { return &c17N{A: s} }
func c17Int(i int) *c17N    { return &c17N{A: strconv.Itoa(i)} }
func c17Str(s string) *c17N { return &c17N{A: strconv.Quote(s)} }
func c17QSym(s string) *c17N {
	return &c17N{A: s, Q: true}
}
func c17List(xs ...*c17N) *c17N { return &c17N{L: xs, IsL: true} }
func c17Brk(xs ...*c17N) *c17N  { return &c17N{L: xs, IsL: true, Br: true} }
func c17Call(head string, xs ...*c17N) *c17N {
	l := make([]*c17N, 0, len(xs)+1)
	l = append(l, c17Sym(head))
	l = append(l, xs...)
	return &c17N{L: l, IsL: true}
}

func (n *c17N) isAtom() bool { return !n.IsL }

// head returns the head symbol of an unquoted list, or "".
func (n *c17N) head() string {
	if n == nil || !n.IsL || n.Q || n.Br || len(n.L) == 0 || n.L[0].IsL || n.L[0].Q {
		return ""
	}
	return n.L[0].A
}

func (n *c17N) clone() *c17N {
	if n == nil {
		return nil
	}
	c := *n
	if n.L != nil {
		c.L = make([]*c17N, len(n.L))
		for i, x := range n.L {
			c.L[i] = x.clone()
		}
	}
	return &c
}

func c17CloneFiles(files [][]*c17N) [][]*c17N {
	out := make([][]*c17N, len(files))
	for i, f := range files {
		out[i] = make([]*c17N, len(f))
		for j, x := range f {
			out[i][j] = x.clone()
		}
	}
	return out
}

// size counts nodes.
func (n *c17N) size() int {
	if n == nil {
		return 0
	}
	s := 1
	for _, x := range n.L {
		s += x.size()
	}
	return s
}

// ---------------------------------------------------------------------------
// rendering

// c17Layout drives whitespace/comment choices.  seed == 0 renders canonically
// (single spaces, one top-level form per line, no comments).
type c17Layout struct {
	r *c17Rng
}

func (n *c17N) render(sb *strings.Builder, lay *c17Layout, indent int) {
	if n.Q {
		sb.WriteByte('\'')
	}
	if n.Fn {
		sb.WriteString("#'")
	}
	if n.Px {
		sb.WriteString("#^")
	}
	if !n.IsL {
		sb.WriteString(n.A)
		return
	}
	open, cl := byte('('), byte(')')
	if n.Br {
		open, cl = '[', ']'
	}
	sb.WriteByte(open)
	for i, x := range n.L {
		if i > 0 {
			if lay != nil && lay.r != nil && i >= 1 && lay.r.chance(1, 7) {
				sb.WriteByte('\n')
				for k := 0; k < indent+2; k++ {
					sb.WriteByte(' ')
				}
				if lay.r.chance(1, 12) {
					sb.WriteString("; note\n")
					for k := 0; k < indent+2; k++ {
						sb.WriteByte(' ')
					}
				}
			} else {
				sb.WriteByte(' ')
				if lay != nil && lay.r != nil && lay.r.chance(1, 25) {
					sb.WriteByte(' ')
				}
			}
		}
		x.render(sb, lay, indent+2)
	}
	sb.WriteByte(cl)
}

// c17RenderFile renders the top-level forms of one file.
func c17RenderFile(forms []*c17N, lay *c17Layout) string {
	var sb strings.Builder
	if lay != nil && lay.r != nil && lay.r.chance(1, 3) {
		sb.WriteString(";; generated file\n")
	}
	for _, f := range forms {
		if lay != nil && lay.r != nil {
			if lay.r.chance(1, 6) {
				sb.WriteString("\n")
			}
			if lay.r.chance(1, 8) {
				sb.WriteString("; about the next form (x1 y2)\n")
			}
			if lay.r.chance(1, 10) {
				sb.WriteString("  ")
			}
		}
		f.render(&sb, lay, 0)
		if lay != nil && lay.r != nil && lay.r.chance(1, 10) {
			sb.WriteString(" ; trailing")
		}
		sb.WriteByte('\n')
	}
	return sb.String()
}

func (n *c17N) String() string {
	var sb strings.Builder
	n.render(&sb, nil, 0)
	return sb.String()
}

// ---------------------------------------------------------------------------
// independent tokenizer (for the inversion oracle)

type c17Tok struct {
	Kind byte // '(' ')' '[' ']' '\'' 's' symbol 'n' number 't' string 'k' keyword
	Text string
	Line int // 1-based
	Col  int // 1-based, in bytes (generated sources are ASCII)
}

func c17IsDelim(c byte) bool {
	return c == '(' || c == ')' || c == '[' || c == ']' || c == '\'' || c == '"' || c == ';' || c == ' ' || c == '\n' || c == '\t' || c == '\r'
}

// c17Tokenize splits source text into tokens.  The shorthands #'f and #^e are
// normalised to their documented longhand (lisp:function f) / (lisp:expr e),
// which is how the compact printer writes them, so that token streams of the
// original and the minified text align index by index.  ok is false if the
// text uses syntax this tokenizer does not know (then nothing is judged).
func c17Tokenize(src string) (toks []c17Tok, ok bool) {
	line, col := 1, 1
	i := 0
	// pendingClose counts, per open shorthand, the nesting depth at which a
	// synthetic ")" has to be emitted.
	type pend struct{ depth int }
	var pends []pend
	depth := 0
	emit := func(k byte, text string, l, c int) {
		toks = append(toks, c17Tok{Kind: k, Text: text, Line: l, Col: c})
	}
	// after a complete datum at nesting `depth`, close shorthands waiting at that depth
	closeShorthands := func() {
		for len(pends) > 0 && pends[len(pends)-1].depth == depth {
			pends = pends[:len(pends)-1]
			emit(')', ")", line, col)
		}
	}
	adv := func(n int) {
		for k := 0; k < n; k++ {
			if src[i] == '\n' {
				line++
				col = 1
			} else {
				col++
			}
			i++
		}
	}
	for i < len(src) {
		c := src[i]
		switch {
		case c == ' ' || c == '\n' || c == '\t' || c == '\r':
			adv(1)
		case c == ';':
			for i < len(src) && src[i] != '\n' {
				adv(1)
			}
		case c == '(' || c == '[':
			emit(c, string(c), line, col)
			adv(1)
			depth++
		case c == ')' || c == ']':
			emit(c, string(c), line, col)
			adv(1)
			depth--
			if depth < 0 {
				return nil, false
			}
			closeShorthands()
		case c == '\'':
			emit('\'', "'", line, col)
			adv(1)
		case c == '#':
			if i+1 >= len(src) {
				return nil, false
			}
			switch src[i+1] {
			case '\'':
				emit('(', "(", line, col)
				emit('s', "lisp:function", line, col)
				adv(2)
				pends = append(pends, pend{depth})
			case '^':
				emit('(', "(", line, col)
				emit('s', "lisp:expr", line, col)
				adv(2)
				pends = append(pends, pend{depth})
			default:
				return nil, false
			}
		case c == '"':
			l0, c0 := line, col
			j := i + 1
			for j < len(src) && src[j] != '"' {
				if src[j] == '\\' {
					j++
				}
				j++
			}
			if j >= len(src) {
				return nil, false
			}
			text := src[i : j+1]
			adv(j + 1 - i)
			emit('t', text, l0, c0)
			closeShorthands()
		default:
			l0, c0 := line, col
			j := i
			for j < len(src) && !c17IsDelim(src[j]) {
				j++
			}
			text := src[i:j]
			adv(j - i)
			k := byte('s')
			if text[0] == ':' {
				k = 'k'
			} else if _, err := strconv.ParseFloat(text, 64); err == nil {
				k = 'n'
			}
			emit(k, text, l0, c0)
			closeShorthands()
		}
	}
	if depth != 0 || len(pends) != 0 {
		return nil, false
	}
	return toks, true
}

// c17SplitQual splits pkg:name; keywords and plain names return pkg "".
func c17SplitQual(s string) (pkg, name string) {
	if s == "" || s[0] == ':' {
		return "", s
	}
	for i := 1; i < len(s)-1; i++ {
		if s[i] == ':' {
			return s[:i], s[i+1:]
		}
	}
	return "", s
}

// ---------------------------------------------------------------------------
// deterministic PRNG with forkable streams (independent sub-streams keep the
// rest of a program unchanged when one sub-tree is generated differently)

type c17Rng struct{ s uint64 }

func c17NewRng(seed uint64) *c17Rng {
	if seed == 0 {
		seed = 0x9e3779b97f4a7c15
	}
	return &c17Rng{s: seed}
}

func (r *c17Rng) next() uint64 {
	r.s += 0x9e3779b97f4a7c15
	z := r.s
	z = (z ^ (z >> 30)) * 0xbf58476d1ce4e5b9
	z = (z ^ (z >> 27)) * 0x94d049bb133111eb
	return z ^ (z >> 31)
}

func (r *c17Rng) fork() *c17Rng { return &c17Rng{s: r.next() ^ 0xd1342543de82ef95} }

func (r *c17Rng) intn(n int) int {
	if n <= 0 {
		return 0
	}
	return int(r.next() % uint64(n))
}

func (r *c17Rng) rng(lo, hi int) int {
	if hi <= lo {
		return lo
	}
	return lo + r.intn(hi-lo+1)
}

func (r *c17Rng) chance(num, den int) bool { return r.intn(den) < num }

func c17Pick[T any](r *c17Rng, xs []T) T { return xs[r.intn(len(xs))] }
